"""C09 — pointwise ops, comparisons and reductions act entry by entry, matched by key (DESIGN.md §4 C09).

Three layers per case (kept apart, BUILDING.md §6):
  * reference (the spec oracle): torch applied to (self[k], other[k]) for every leaf key k, with tensors broadcast
    against the batch dims from the left; key-set mismatch without default must raise.  Independent of the model.
  * implementation: the public method / operator of tensordict on the same operands.
  * model: the extracted Gallina model returns a *plan* (which self leaf is combined with which operand leaf under
    which result key; the shape arithmetic of the broadcast; batch size / names / per-leaf dim of a reduction) that
    the harness evaluates with torch and compares with what the implementation returned.
Only integer-valued data is generated; non-integer float results (div, mean, transcendental unary ops) are compared
with a tolerance, integer-valued ones exactly.
"""
import itertools
import json
import math
import operator
import os
import sys

from . import cext
from .core import Sym, some, sx, run_model as _run_model

PID = "C09"


def run_model(lines):
    return _run_model(PID, lines)


_T = {}


def _imports():
    if _T:
        return _T
    cext.install()
    import torch
    import tensordict
    from tensordict import TensorDict, LazyStackedTensorDict, TensorDictBase, is_tensor_collection
    from tensordict.tensorclass import tensorclass, is_tensorclass
    torch.set_num_threads(1)
    _T.update(torch=torch, tensordict=tensordict, TensorDict=TensorDict, Lazy=LazyStackedTensorDict,
              Base=TensorDictBase, is_tc=is_tensor_collection, tensorclass=tensorclass, is_tensorclass=is_tensorclass)
    return _T


# ------------------------------------------------------------------------------------------------ data
PRIMES = [2, 3, 5, 7, 11, 13, 17, 19, 23, 29, 31, 37, 41, 43, 47, 53, 59, 61, 67, 71, 73, 79, 83, 89, 97, 101, 103,
          107, 109, 113, 127, 131]
UNIVERSE = [("a",), ("b",), ("c",), ("d",), ("n", "x"), ("n", "y"), ("n", "m", "z"), ("o", "x")]
FEAT = {("a",): [], ("b",): [3], ("c",): [2, 2], ("d",): [], ("n", "x"): [2], ("n", "y"): [], ("n", "m", "z"): [1],
        ("o", "x"): [3]}
DTYPES = ["float32", "int64", "bool", "float64", "int32"]


def pstr(path):
    return ".".join(path)


def leaf_value(role, path, shape, dtype, mode="norm"):
    """deterministic integer-valued content: a distinct prime per (operand role, key) plus a pattern that varies along
    every dim, so that mis-pairing of keys, a wrong broadcast or a reduction over the wrong dim changes the value"""
    torch = _imports()["torch"]
    path = tuple(path)
    u = UNIVERSE.index(path) if path in UNIVERSE else (sum(map(ord, pstr(path))) % 8)
    n = 1
    for s in shape:
        n *= s
    ar = torch.arange(n, dtype=torch.int64)
    if mode == "small":       # exponents / bases of pow, weights: 2..9, still distinct per key within one operand
        v = (2 + (u + 3 * role) % 8) + (ar % 2)
    elif mode == "signed":    # unary ops: both signs
        v = (PRIMES[(role * 8 + u) % 32] + ar % 5) * (1 - 2 * (ar % 2))
    elif mode == "unit":      # domain of acos/asin/atanh-like functions: quarters in [-1, 1]
        v = ((u + ar) % 9) - 4
    elif mode == "cmp":       # comparisons: values 0..2 so that ties, < and > all occur under every key
        v = ((role + 1) * (u + ar) + role) % 3
    elif mode == "mid":       # operand of maximum/minimum/clamp_*: interleaved with self's values (2..23), key-dependent
        v = 3 + (2 * u + 3 * ar + 5 * role) % 17
    elif mode == "lo":        # lower bound of clamp: below, inside and above self's values depending on the position
        v = 3 + (u + 2 * ar) % 7
    elif mode == "hi":        # upper bound of clamp (always >= the "lo" bound of the same position)
        v = 11 + (u + 3 * ar) % 9
    else:
        v = PRIMES[(role * 8 + u) % 32] + ar % 5
    v = v.reshape(shape)
    if dtype == "bool":
        return ((v * (u + 2) + ar.reshape(shape)) % 3 == 0)
    t = v.to(getattr(torch, dtype))
    if mode == "unit" and dtype.startswith("float"):
        t = t / 4
    return t


def traversal(paths):
    """order in which items(include_nested=True, leaves_only=True) yields leaves inserted in the order [paths]:
    a nested node sits where its first leaf was inserted and its leaves come together"""
    root = {}
    for p in paths:
        d = root
        for k in p[:-1]:
            d = d.setdefault(k, {})
        d[p[-1]] = None
    out = []

    def walk(d, pre):
        for k, v in d.items():
            if isinstance(v, dict):
                walk(v, pre + (k,))
            else:
                out.append(pre + (k,))
    walk(root, ())
    return out


def dense_of(spec):
    """ground-truth leaves {path: tensor} of an operand spec, in the order the tensordict traverses its leaves"""
    d = {tuple(p): leaf_value(spec.get("role", 0), p, list(spec["bs"]) + list(f), dt, spec.get("mode", "norm"))
         for (p, f, dt) in spec["entries"]}
    return {p: d[p] for p in traversal(list(d))}


_TC_CACHE = {}


def _tc_class(top_names):
    T = _imports()
    key = tuple(sorted(top_names))
    if key not in _TC_CACHE:
        ann = {n: object for n in key}
        cls = type("TC_" + "_".join(key) if key else "TC_empty", (), {"__annotations__": ann})
        _TC_CACHE[key] = T["tensorclass"](cls)
    return _TC_CACHE[key]


def _plain_td(dense, bs, order=None, names=None):
    T = _imports()
    td = T["TensorDict"]({}, batch_size=list(bs))
    for p in (order if order is not None else list(dense)):
        td.set(tuple(p) if len(p) > 1 else p[0], dense[tuple(p)])
    if names is not None and len(bs):
        td.names = list(names)
    return td


def build_td(spec):
    """the object under test for an operand spec (kind td / lazy / tc)"""
    T = _imports()
    torch = T["torch"]
    dense = dense_of(spec)
    bs = list(spec["bs"])
    kind = spec.get("kind", "td")
    if kind == "lazy":
        sd = spec["stack_dim"]
        members = []
        orders = spec.get("member_orders")
        for i in range(bs[sd]):
            sub = {p: t.select(sd, i) for p, t in dense.items()}
            order = [tuple(p) for p in orders[i]] if orders else [tuple(e[0]) for e in spec["entries"]]
            m = _plain_td(sub, bs[:sd] + bs[sd + 1:], order)
            if spec.get("own"):
                # a key of its own per member: the stack cannot be densified and STAYS LAZY when it is expanded
                # (its visible keys are still the common ones)
                m.set("own%d" % i, torch.full(bs[:sd] + bs[sd + 1:], i + 1).to(getattr(torch, spec["own"] if isinstance(spec["own"], str) else spec["entries"][0][2])))
            members.append(m)
        obj = T["Lazy"].lazy_stack(members, sd)
        if spec.get("names") is not None and len(bs):
            obj.names = list(spec["names"])
    else:
        obj = _plain_td(dense, bs, [tuple(e[0]) for e in spec["entries"]], spec.get("names"))
        if kind == "tc":
            tops = []
            for p in dense:
                if p[0] not in tops:
                    tops.append(p[0])
            obj = _tc_class(tops).from_tensordict(obj)
    if spec.get("locked"):
        obj.lock_()
    return obj, dense


def nested_dict(dense):
    out = {}
    for p, t in dense.items():
        d = out
        for k in p[:-1]:
            d = d.setdefault(k, {})
        d[p[-1]] = t
    return out


def build_operand(o):
    """(object handed to the implementation, ground truth) for an operand spec"""
    torch = _imports()["torch"]
    k = o["k"]
    if k == "none":
        return None, None
    if k == "py":
        v = o["v"]
        return v, v
    if k == "t":
        t = leaf_value(o.get("role", 1), ("a",), list(o["shape"]), o.get("dtype", "float32"), o.get("mode", "norm"))
        if o.get("offset"):
            t = t + o["offset"]
        return t, t
    if k == "td":
        return build_td(o)
    if k == "dict":
        dense = dense_of(o)
        return nested_dict(dense), dense
    raise ValueError(k)


# ------------------------------------------------------------------------------------------------ comparison helpers
def canon_tensor(t):
    return [list(t.shape), str(t.dtype).replace("torch.", ""), t.detach().reshape(-1).tolist()]


def close_vals(a, b):
    """integer-valued numbers are compared exactly; other floats with a tolerance (never bit-exactly)"""
    if len(a) != len(b):
        return False
    for x, y in zip(a, b):
        if isinstance(x, bool) or isinstance(y, bool) or (isinstance(x, int) and isinstance(y, int)):
            if x != y:
                return False
            continue
        x, y = float(x), float(y)
        if math.isnan(x) or math.isnan(y):
            if not (math.isnan(x) and math.isnan(y)):
                return False
            continue
        if math.isinf(x) or math.isinf(y):
            if x != y:
                return False
            continue
        if x == y:
            continue
        if float(x).is_integer() and float(y).is_integer() and abs(x) < 2 ** 24 and abs(y) < 2 ** 24:
            return False
        if abs(x - y) > 1e-4 + 1e-4 * max(abs(x), abs(y)):
            return False
    return True


def same_canon(a, b):
    return a[0] == b[0] and a[1] == b[1] and close_vals(a[2], b[2])


def canon_collection(r):
    """what the property talks about for a returned collection: batch size, names, leaves by key"""
    T = _imports()
    if T["is_tensorclass"](r):
        kind = "tc"
    elif isinstance(r, T["Lazy"]):
        kind = "lazy"
    else:
        kind = "td"
    leaves = {}
    for k, v in r.items(True, True):
        k = (k,) if isinstance(k, str) else tuple(k)
        leaves[pstr(k)] = canon_tensor(v)
    names = None
    try:
        if r._has_names():
            names = list(r.names)
    except Exception:  # noqa: BLE001
        names = "unreadable"
    out = {"kind": kind, "bs": list(r.batch_size), "names": names, "leaves": leaves}
    if kind == "lazy":
        out["stack_dim"] = r.stack_dim
    return out


def canon_expected(exp, bs):
    return {"bs": list(bs), "leaves": {pstr(k): canon_tensor(v) for k, v in exp.items()}}


def _dtype_kind(d):
    return "f" if d.startswith("float") or d.startswith("bfloat") else "b" if d == "bool" else "i"


def diff_collection(got, want):
    """first difference between a canonical result and the canonical expectation (None if they agree)"""
    if got["bs"] != want["bs"]:
        return f"batch_size {got['bs']} != {want['bs']}"
    gk, wk = sorted(got["leaves"]), sorted(want["leaves"])
    if gk != wk:
        return f"keys {gk} != {wk}"
    for k in wk:
        g, w = got["leaves"][k], want["leaves"][k]
        if g[0] != w[0]:
            return f"leaf {k}: shape {g[0]} != {w[0]}"
        if g[1] != w[1] and not (want.get("dtype_loose") and _dtype_kind(g[1]) == _dtype_kind(w[1])):
            return f"leaf {k}: dtype {g[1]} != {w[1]}"
        if not close_vals(g[2], w[2]):
            return f"leaf {k}: values {g[2][:8]} != {w[2][:8]}"
    return None


def call(f, *a, **k):
    try:
        return ("ok", f(*a, **k))
    except Exception as e:  # noqa: BLE001 -- an exception is an observation
        return ("raise", type(e).__name__)


def bshape(*shapes):
    torch = _imports()["torch"]
    try:
        return list(torch.broadcast_shapes(*[tuple(s) for s in shapes]))
    except Exception:  # noqa: BLE001
        return None


def left_align(t, B, leaf_ndim):
    """`t` broadcast against the batch shape B (from the left of the leaf), then unsqueezed on the right to leaf rank"""
    t = t.broadcast_to(tuple(B))
    return t.reshape(tuple(B) + (1,) * (leaf_ndim - len(B)))


# ------------------------------------------------------------------------------------------------ op tables
def _m(name):
    return lambda x, *a, **k: getattr(x, name)(*a, **k)


UNARY_EXACT = ["abs", "neg", "sign", "trunc", "ceil", "floor", "round", "frac", "isfinite", "isnan", "isneginf",
               "isposinf", "isreal", "__abs__", "__neg__", "__invert__"]
UNARY_FLOAT = ["acos", "asin", "atan", "cos", "cosh", "sin", "sinh", "tan", "tanh", "exp", "expm1", "log", "log10",
               "log1p", "log2", "sqrt", "reciprocal", "sigmoid", "erf", "erfc", "lgamma"]
UNARY_INPLACE = ["abs_", "neg_", "sign_", "trunc_", "ceil_", "floor_", "round_", "frac_", "acos_", "asin_", "atan_",
                 "cos_", "cosh_", "sin_", "sinh_", "tan_", "tanh_", "exp_", "expm1_", "log_", "log10_", "log1p_",
                 "log2_", "sqrt_", "reciprocal_", "sigmoid_", "erf_", "erfc_", "lgamma_"]
BIN_FOREACH = ["add", "sub", "mul", "div", "pow", "maximum", "minimum", "clamp_max", "clamp_min"]
BIN_LOOP = ["bitwise_and", "logical_and"]
BIN_INPLACE = [n + "_" for n in BIN_FOREACH]
# operator spellings: name -> (reference on leaves (x = self leaf, y = operand), in-place?, reflected?)
BIN_DUNDER = {
    "__add__": (lambda x, y: x + y, False, False), "__radd__": (lambda x, y: y + x, False, True),
    "__iadd__": (lambda x, y: operator.iadd(x, y), True, False),
    "__sub__": (lambda x, y: x - y, False, False), "__rsub__": (lambda x, y: y - x, False, True),
    "__isub__": (lambda x, y: operator.isub(x, y), True, False),
    "__mul__": (lambda x, y: x * y, False, False), "__rmul__": (lambda x, y: y * x, False, True),
    "__imul__": (lambda x, y: operator.imul(x, y), True, False),
    "__truediv__": (lambda x, y: x / y, False, False), "__rtruediv__": (lambda x, y: y / x, False, True),
    "__itruediv__": (lambda x, y: operator.itruediv(x, y), True, False),
    "__pow__": (lambda x, y: x ** y, False, False), "__rpow__": (lambda x, y: y ** x, False, True),
    "__ipow__": (lambda x, y: operator.ipow(x, y), True, False),
    "__and__": (lambda x, y: x & y, False, False), "__rand__": (lambda x, y: y & x, False, True),
    "__or__": (lambda x, y: x | y, False, False), "__ror__": (lambda x, y: y | x, False, True),
    "__xor__": (lambda x, y: x ^ y, False, False), "__rxor__": (lambda x, y: y ^ x, False, True),
    "__eq__": (lambda x, y: x == y, False, False), "__ne__": (lambda x, y: x != y, False, False),
    "__lt__": (lambda x, y: x < y, False, False), "__le__": (lambda x, y: x <= y, False, False),
    "__gt__": (lambda x, y: x > y, False, False), "__ge__": (lambda x, y: x >= y, False, False),
}
COMPARE = ["__eq__", "__ne__", "__lt__", "__le__", "__gt__", "__ge__", "__or__", "__xor__", "__ror__", "__rxor__"]
TERNARY_FOREACH = ["lerp", "addcdiv", "addcmul", "lerp_", "addcdiv_", "addcmul_"]
TERNARY_OTHER = ["clamp", "where"]
REDUCTIONS_TUPLE = ["sum", "nansum", "mean", "nanmean", "std", "var"]          # tuple_ok=True
REDUCTIONS_INT = ["prod", "amin", "amax", "min", "max"]                       # tuple_ok=False
REDUCTIONS_CUM = ["cummin", "cummax"]
REDUCTIONS_BOOL = ["all", "any"]
REDUCTIONS_OTHER = ["logsumexp", "softmax", "norm"]
ALL_REDUCTIONS = REDUCTIONS_TUPLE + REDUCTIONS_INT + REDUCTIONS_CUM + REDUCTIONS_BOOL + REDUCTIONS_OTHER
# public callables shared with torch.Tensor that are not arithmetic / comparison / logical / reduction methods
NOT_C09 = {"apply_", "bfloat16", "bool", "chunk", "clone", "contiguous", "copy_", "cpu", "cuda", "data_ptr", "detach",
           "detach_", "dim", "double", "expand", "expand_as", "fill_", "flatten", "float", "gather", "half", "int",
           "is_contiguous", "is_floating_point", "is_shared", "masked_fill", "masked_fill_", "masked_select",
           "ndimension", "new_empty", "new_full", "new_ones", "new_tensor", "new_zeros", "numel", "numpy", "permute",
           "pin_memory", "record_stream", "repeat", "repeat_interleave", "requires_grad_", "reshape", "select", "set_",
           "share_memory_", "size", "split", "squeeze", "to", "to_padded_tensor", "tolist", "transpose", "type",
           "unbind", "unflatten", "unsqueeze", "values", "view", "zero_", "_grad", "is_cpu", "is_cuda", "is_meta",
           "requires_grad", "grad", "data", "device", "shape", "ndim", "names", "dtype", "is_quantized",
           "type_as", "__bool__"}


def reflect_methods():
    """every public callable TensorDictBase shares with torch.Tensor, classified; unknown ones are reported"""
    T = _imports()
    torch = T["torch"]
    known = set(UNARY_EXACT + UNARY_FLOAT + UNARY_INPLACE + BIN_FOREACH + BIN_LOOP + BIN_INPLACE + list(BIN_DUNDER)
                + TERNARY_FOREACH + TERNARY_OTHER + ALL_REDUCTIONS)
    found, unknown = [], []
    for n in dir(T["Base"]):
        if not hasattr(torch.Tensor, n) or not callable(getattr(T["Base"], n, None)):
            continue
        if n.startswith("__") and n not in BIN_DUNDER and n not in ("__abs__", "__neg__", "__invert__"):
            continue
        if n in known:
            found.append(n)
        elif n not in NOT_C09:
            unknown.append(n)
    missing = sorted(n for n in known if not hasattr(T["Base"], n))
    return found, unknown, missing


CMP_OPS = {"__lt__": operator.lt, "__le__": operator.le, "__gt__": operator.gt, "__ge__": operator.ge,
           "__eq__": operator.eq, "__ne__": operator.ne}


def bin_ref(op, kw):
    """(reference on leaves, in-place?, reflected?) for a binary spelling"""
    if op in BIN_DUNDER:
        return BIN_DUNDER[op]
    if op in ("maximum_", "minimum_"):      # tensordict-only spellings: torch has no in-place maximum / minimum
        def f(x, y):
            r = getattr(x, op[:-1])(y)
            if r.dtype != x.dtype or r.shape != x.shape:
                raise RuntimeError("result type / shape cannot be stored in place")
            return x.copy_(r)
        return f, True, False
    if op.endswith("_") and not op.endswith("__"):
        return (lambda x, y: getattr(x, op)(y, **kw)), True, False
    return (lambda x, y: getattr(x, op)(y, **kw)), False, False


def foreach_name(op):
    base = {"__add__": "add", "__radd__": "add", "__iadd__": "add_", "__sub__": "sub", "__isub__": "sub_",
            "__mul__": "mul", "__rmul__": "mul", "__imul__": "mul_", "__truediv__": "div", "__itruediv__": "div_",
            "__pow__": "pow", "__ipow__": "pow_"}.get(op, op)
    if base.rstrip("_") in BIN_FOREACH or base.rstrip("_") in ("lerp", "addcdiv", "addcmul"):
        return "_foreach_" + base
    return None


# ------------------------------------------------------------------------------------------------ spec oracle
def mixed_lazy(sspec, operands):
    sk = sspec.get("kind", "td") == "lazy"
    return any(o["k"] == "td" and (o.get("kind", "td") == "lazy") != sk for o in operands)


def plain_mix(case, dself, oden, inplace):
    """lazy stack (op) regular TensorDict, or the reverse: same batch shape, same keys, out-of-place, no default"""
    o = case["args"][0]
    return (o["k"] == "td" and {case["self"].get("kind", "td"), o.get("kind", "td")} == {"lazy", "td"} and not inplace
            and list(o["bs"]) == list(case["self"]["bs"]) and set(dself) == set(oden) and "default" not in case.get("kw", {}))


def operand_kind(o):
    if o["k"] == "td":
        return "td:" + o.get("kind", "td")
    if o["k"] == "t":
        return "t0" if len(o["shape"]) == 0 else "tN"
    return o["k"]


def expected_binary(case, dself, oden):
    """What the property demands for self.op(other): ("ok", {path: tensor}, B) | ("must-raise", why) |
    ("illegal", why) (torch itself rejects the per-key computation) | ("unspecified", why)."""
    T = _imports()
    torch = T["torch"]
    op, kw = case["op"], dict(case.get("kw", {}))
    sspec, o = case["self"], case["args"][0]
    bs = list(sspec["bs"])
    default = kw.pop("default", None)
    if not dself:
        return ("unspecified", "empty tensordict (the property speaks about entries)")
    ref, inplace, reflected = bin_ref(op, {k: v for k, v in kw.items()})
    if mixed_lazy(sspec, [o]) and op not in CMP_OPS and not plain_mix(case, dself, oden, inplace):
        return ("unspecified", "lazy stack combined with a dense tensordict")
    if case.get("swap"):        # the collection is the RIGHT operand of the python operator: left <op> self
        ref = (lambda f: (lambda x, y: f(y, x)))(CMP_OPS[op])
    keys = list(dself)
    dflt = None
    if o["k"] in ("td", "dict"):
        if o["k"] == "dict" and op not in COMPARE[:8] + ["__eq__", "__ne__"]:
            return ("unspecified", "dict operand of an arithmetic method")
        okeys = list(oden)
        if set(okeys) != set(keys):
            if default is None:
                return ("must-raise", "key sets differ and no default")
            if default == "intersection":
                keys = [k for k in keys if k in oden]
            else:
                dflt = build_operand(default)[1]
                keys = keys + [k for k in okeys if k not in dself]
        elif default is not None and default != "intersection":
            dflt = build_operand(default)[1]
        obs = list(o["bs"])
        B = bs if obs == bs else bshape(bs, obs)
    elif o["k"] == "t":
        B = bshape(bs, o["shape"]) if len(o["shape"]) else bs
    elif o["k"] == "py":
        B = bs
    else:
        return ("unspecified", "operand kind")
    if B is None:
        return ("unspecified", "operand shape does not broadcast with the batch shape")
    if inplace and B != bs:
        return ("unspecified", "in-place op whose broadcast shape is larger than self")
    if not keys:
        return ("unspecified", "no common key: empty result (the property speaks about entries)")
    out = {}
    for k in keys:
        x = dself.get(k)
        feat = list((x if x is not None else oden[k]).shape[len(bs if x is not None else o["bs"]):])
        if x is None:
            x = dflt
        elif B != bs:
            x = x.expand(tuple(B) + tuple(feat))
        if o["k"] in ("td", "dict"):
            y = oden.get(k)
            if y is None:
                y = dflt
            elif list(o["bs"]) != B:
                y = y.expand(tuple(B) + tuple(y.shape[len(o["bs"]):]))
        elif o["k"] == "t" and len(o["shape"]):
            y = left_align(oden, B, len(B) + len(feat))
        else:
            y = oden
        try:
            xx = x.clone() if inplace else x
            out[k] = ref(xx, y)
            if inplace and out[k] is not xx:
                return ("illegal", "reference in-place op did not return its input")
        except Exception as e:  # noqa: BLE001
            return ("illegal", f"torch rejects key {pstr(k)}: {type(e).__name__}")
    return ("ok", out, B)


def kernel_rejects(case, dself, oden):
    """torch's fused kernel refuses this operand type although the per-tensor op accepts it (runtime behaviour of
    torch, not tensordict logic): probed on one fresh leaf"""
    torch = _imports()["torch"]
    fe = foreach_name(case["op"])
    if fe is None or not dself:
        return False
    o = case["args"][0]
    if o["k"] in ("td", "dict"):
        return False
    x = next(iter(dself.values())).clone()
    kw = {k: v for k, v in case.get("kw", {}).items() if k == "alpha"}
    try:
        getattr(torch, fe)([x], oden, **kw)
        return False
    except Exception:  # noqa: BLE001
        return True


def kernel_rejects_ternary(case, dself):
    """same probe for the fused ternary kernels (they refuse tensor 'scalars' and some scalar/list mixtures)"""
    torch = _imports()["torch"]
    fe = foreach_name(case["op"])
    if fe is None or not dself:
        return False
    k0, x = next(iter(dself.items()))
    a = []
    for o in case["args"]:
        d = build_operand(o)[1]
        if o["k"] == "td":
            a.append([d[k0].clone() if k0 in d else next(iter(d.values())).clone()] if d else [])
        else:
            a.append(d)
    kw = {k: v for k, v in case.get("kw", {}).items() if k == "value"}
    try:
        getattr(torch, fe)([x.clone()], *a, **kw)
        return False
    except Exception:  # noqa: BLE001
        return True


# ------------------------------------------------------------------------------------------------ ternary oracle
def tern_ref(op, kw):
    torch = _imports()["torch"]
    base = op.rstrip("_") if not op.endswith("__") else op
    inplace = op.endswith("_") and not op.endswith("__")
    if base == "lerp":
        f = (lambda x, e, w: x.lerp_(e, w)) if inplace else (lambda x, e, w: x.lerp(e, w))
    elif base in ("addcdiv", "addcmul"):
        v = kw.get("value", 1)
        f = lambda x, a, b: getattr(x, op)(a, b, value=v)  # noqa: E731
    elif base == "clamp":
        f = lambda x, lo, hi: x.clamp(lo, hi)  # noqa: E731
    else:
        raise ValueError(op)
    return f, inplace


def expected_ternary(case, dself, odens):
    """lerp / addcdiv / addcmul (+ in-place) / clamp(min, max): every tensordict operand is matched by key"""
    sspec = case["self"]
    bs = list(sspec["bs"])
    op, kw = case["op"], case.get("kw", {})
    ref, inplace = tern_ref(op, kw)
    keys = list(dself)
    shapes = [bs]
    if mixed_lazy(sspec, case["args"]):
        return ("unspecified", "lazy stack combined with a dense tensordict")
    for o, od in zip(case["args"], odens):
        if o["k"] == "td":
            if set(od) != set(keys):
                if op == "clamp":
                    return ("unspecified", "clamp with different key sets (default=None of _fast_apply)")
                return ("must-raise", "key sets differ (no default for ternary ops)")
            shapes.append(list(o["bs"]))
        elif o["k"] == "t" and len(o["shape"]):
            shapes.append(list(o["shape"]))
        elif o["k"] == "none":
            if op != "clamp":
                return ("unspecified", "None operand")
        elif o["k"] not in ("py", "t"):
            return ("unspecified", "operand kind")
    B = bshape(*shapes)
    if B is None:
        return ("unspecified", "operand shapes do not broadcast with the batch shape")
    if inplace and B != bs:
        return ("unspecified", "in-place op whose broadcast shape is larger than self")
    out = {}
    for k in keys:
        x = dself[k]
        feat = list(x.shape[len(bs):])
        if B != bs:
            x = x.expand(tuple(B) + tuple(feat))
        ys = []
        for o, od in zip(case["args"], odens):
            if o["k"] == "td":
                y = od[k]
                if list(o["bs"]) != B:
                    y = y.expand(tuple(B) + tuple(y.shape[len(o["bs"]):]))
            elif o["k"] == "t" and len(o["shape"]):
                y = left_align(od, B, len(B) + len(feat))
            else:
                y = od
            ys.append(y)
        try:
            out[k] = ref(x.clone() if inplace else x, *ys)
        except Exception as e:  # noqa: BLE001
            return ("illegal", f"torch rejects key {pstr(k)}: {type(e).__name__}")
    return ("ok", out, B)


def expected_where(case, dself, odens):
    torch = _imports()["torch"]
    sspec = case["self"]
    bs = list(sspec["bs"])
    cond_o, oth_o = case["args"]
    cond, oth = odens
    pad = case.get("kw", {}).get("pad")
    if mixed_lazy(sspec, case["args"]):
        return ("unspecified", "lazy stack combined with a dense tensordict")
    if cond_o["k"] != "t" or list(cond_o["shape"]) != bs:
        return ("unspecified", "condition is not a batch-shaped tensor")
    keys = list(dself)
    out = {}
    if oth_o["k"] == "td":
        if list(oth_o["bs"]) != bs:
            return ("unspecified", "other has a different batch shape")
        if set(oth) != set(keys) and pad is None:
            return ("must-raise", "key sets differ and no pad")
        allk = keys + [k for k in oth if k not in dself]
    else:
        allk = keys
    for k in allk:
        x = dself.get(k)
        y = oth.get(k) if oth_o["k"] == "td" else oth
        proto = x if x is not None else y
        c = left_align(cond, bs, proto.ndim)
        try:
            if x is None:
                out[k] = torch.where(c, torch.tensor(pad, dtype=y.dtype), y)
            elif y is None:
                out[k] = torch.where(c, x, torch.tensor(pad, dtype=x.dtype))
            else:
                out[k] = torch.where(c, x, y)
        except Exception as e:  # noqa: BLE001
            return ("illegal", f"torch rejects key {pstr(k)}: {type(e).__name__}")
    return ("ok", out, bs)


# ------------------------------------------------------------------------------------------------ reduction oracle
def norm_dims(dim, nb):
    """batch dims named by a reduction argument: list of ints in [0, nb) or None when some dim is outside the batch"""
    ds = [dim] if isinstance(dim, int) else list(dim)
    out = []
    for d in ds:
        if d < -nb or d >= nb:
            return None
        out.append(d + nb if d < 0 else d)
    return out


def reduce_shape(bs, dims, keepdim):
    return [(1 if i in dims else b) for i, b in enumerate(bs) if keepdim or i not in dims]


def expected_reduce(case, dself):
    """torch's reduction of every leaf over the batch dim(s) named; ("ok", {"kind": "td"|"tensor"|"pair"|"bool", ...})"""
    T = _imports()
    torch = T["torch"]
    op, bs = case["op"], list(case["self"]["bs"])
    nb = len(bs)
    dim, keepdim, red = case["dim"], case["keepdim"], case.get("reduce")
    kw = dict(case.get("kw", {}))
    names = case["self"].get("names")
    tkw = {}
    if keepdim != "nodefault":
        tkw["keepdim"] = keepdim
    kd = keepdim is True
    if "dtype" in kw:
        tkw["dtype"] = getattr(torch, kw["dtype"])
    if "correction" in kw:
        tkw["correction"] = kw["correction"]
    pair = op in ("min", "max", "cummin", "cummax") and kw.get("return_indices", True) and dim != "nodefault"
    cum = op in REDUCTIONS_CUM or op == "softmax"

    def leaf(x, d):
        f = getattr(x, op)
        if d is None:
            r = f(**tkw)
        else:
            r = f(dim=d, **tkw)
        return r

    if red and kd:
        return ("unspecified", "reduce=True with keepdim=True")
    if red:
        if dim == "nodefault":
            if not dself:
                return ("unspecified", "reduce=True on an empty tensordict")
            try:
                flat = torch.cat([x.reshape(-1) for x in dself.values()])
                ckw = {"correction": kw["correction"]} if "correction" in kw else {}
                return ("ok", {"kind": "tensor", "value": getattr(torch, op)(flat, **ckw)})
            except Exception as e:  # noqa: BLE001
                return ("illegal", type(e).__name__)
        if dim == "feature":
            try:
                flat = torch.cat([x.reshape(tuple(bs) + (-1,)) for x in dself.values()], -1)
                ckw = {"correction": kw["correction"]} if "correction" in kw else {}
                r = getattr(torch, op)(flat, dim=-1, **ckw)
                return ("ok", {"kind": "tensor", "value": r.values if isinstance(r, tuple) else r})
            except Exception as e:  # noqa: BLE001
                return ("illegal", type(e).__name__)
        return ("unspecified", "reduce=True with an integer dim (needs identically shaped leaves)")
    if dim == "feature":
        if kd:
            return ("unspecified", "dim='feature' with keepdim=True")
        if op not in REDUCTIONS_TUPLE + ["prod"]:
            return ("unspecified", "dim='feature' for a reduction that is not applied to nested nodes")
        out = {}
        for k, x in dself.items():
            try:
                xx = x.reshape(tuple(bs) + (-1,))
                out[k] = getattr(xx, op)(dim=-1, **{a: b for a, b in tkw.items() if a != "keepdim"})
            except Exception as e:  # noqa: BLE001
                return ("illegal", f"{pstr(k)}: {type(e).__name__}")
        return ("ok", {"kind": "td", "leaves": out, "bs": bs, "names_in": names, "dims": [], "keepdim": False})
    if dim == "nodefault" or dim is None:
        if dim is None and op in REDUCTIONS_BOOL:
            dim = "nodefault"
        if op in REDUCTIONS_BOOL:
            vals = [bool(getattr(x, op)()) for x in dself.values()]
            return ("ok", {"kind": "bool", "value": all(vals) if op == "all" else any(vals)})
        if cum:
            return ("illegal", "cumulative op without dim")
        out = {}
        for k, x in dself.items():
            try:
                if op == "logsumexp":
                    # documented: dim=None reduces over all batch dims
                    out[k] = x.logsumexp(dim=list(range(nb)), keepdim=kd) if nb else x.logsumexp(dim=[], keepdim=kd)
                elif dim is None:
                    out[k] = getattr(x, op)(dim=None, **tkw)
                else:
                    out[k] = leaf(x, None)
            except Exception as e:  # noqa: BLE001
                return ("illegal", f"{pstr(k)}: {type(e).__name__}")
        if op == "logsumexp":
            return ("ok", {"kind": "td", "leaves": out, "bs": reduce_shape(bs, list(range(nb)), kd), "names_in": names,
                           "dims": list(range(nb)), "keepdim": kd})
        # full reduction of every leaf: torch returns a scalar (or all-ones shape with keepdim)
        return ("ok", {"kind": "td", "leaves": out, "bs": ([1] * nb if kd else []), "names_in": names,
                       "dims": list(range(nb)), "keepdim": kd})
    # integer / tuple of integers
    if isinstance(dim, list) and (op not in REDUCTIONS_TUPLE + ["amin", "amax", "logsumexp"]):
        return ("illegal", "torch's reduction takes a single dim")
    dims = norm_dims(dim, nb)
    if dims is None:
        return ("must-raise", "dim outside the batch dims")
    if len(set(dims)) != len(dims):
        return ("illegal", "repeated dim")
    if op in REDUCTIONS_BOOL and kd:
        return ("illegal", "all/any take no keepdim")
    out, out2 = {}, {}
    for k, x in dself.items():
        try:
            if isinstance(dim, list):
                r = leaf(x, tuple(dims))
            else:
                r = leaf(x, dims[0])
            if isinstance(r, tuple):
                out[k], out2[k] = r[0], r[1]
            else:
                out[k] = r
        except Exception as e:  # noqa: BLE001
            return ("illegal", f"{pstr(k)}: {type(e).__name__}")
    rbs = bs if cum else reduce_shape(bs, dims, kd)
    e = {"kind": "td", "leaves": out, "bs": rbs, "names_in": names, "dims": [] if cum else dims, "keepdim": kd}
    if pair:
        e["kind"] = "pair"
        e["indices"] = out2
    return ("ok", e)


def names_problem(got_names, want):
    """weak rule (the property does not speak about names): the list must have one entry per result batch dim and a
    name that is present must be the name of the surviving input dim at that position"""
    if got_names is None:
        return None
    if got_names == "unreadable":
        return "names unreadable"
    nb_out = len(want["bs"])
    if len(got_names) != nb_out:
        return f"{len(got_names)} names for {nb_out} batch dims: {got_names}"
    src = want.get("names_in")
    if src is None:
        return None if all(n is None for n in got_names) else f"names {got_names} from an unnamed tensordict"
    surv = [n for i, n in enumerate(src) if want["keepdim"] or i not in want["dims"]]
    for g, s in zip(got_names, surv):
        if g is not None and g != s:
            return f"names {got_names}, surviving input names {surv}"
    return None


# ------------------------------------------------------------------------------------------------ running one case
def leaf_order(dense):
    return [pstr(k) for k in dense]


def eff_orders(spec):
    """leaf order as the fused path sees it: one list for a dense operand, one list per member for a lazy stack"""
    base = [pstr(p) for p in traversal([tuple(e[0]) for e in spec["entries"]])]
    if spec.get("kind", "td") == "lazy":
        n = spec["bs"][spec["stack_dim"]]
        mo = spec.get("member_orders")
        return [[pstr(p) for p in traversal([tuple(q) for q in mo[i]])] if mo else base for i in range(n)]
    return [base]


def orders_differ(sspec, ospec):
    a, b = eff_orders(sspec), eff_orders(ospec)
    if len(a) == len(b):
        return a != b
    return any(x != y for x in a for y in b)


def keyrel(dself, oden):
    a, b = set(dself), set(oden)
    if a == b:
        return "same"
    if a < b:
        return "other-extra"
    if b < a:
        return "other-missing"
    return "both"


def op_site(case):
    """the code site a spelling goes through (used in finding signatures)"""
    op, fam = case["op"], case["fam"]
    if fam == "binary":
        if op in ("__and__", "__rand__"):
            return "base.__and__"
        if op in COMPARE:
            return "_td.comparison"
        if op == "__rsub__":
            return "base.__rsub__"
        if op == "__rtruediv__":
            return "base.__rtruediv__"
        if op == "__rpow__":
            return "base.__rpow__"
        _, inplace, _ = bin_ref(op, {})
        return "base.binary_inplace" if inplace else "base.binary"
    if fam == "ternary":
        return "base.ternary_foreach" if op in TERNARY_FOREACH else ("base.clamp" if op == "clamp" else "_td.where")
    if fam == "reduce":
        return "_td._cast_reduction" if op in REDUCTIONS_TUPLE + REDUCTIONS_INT + REDUCTIONS_CUM else "reduction:" + op
    return "base.unary"


def core_usage(case, dens):
    """the plain documented usages on which an exception is itself a failure of the property (everything else that
    raises is counted as 'unsupported operand' and only pinned by the model)"""
    fam = case["fam"]
    skind = case["self"].get("kind", "td")
    if fam == "unary":
        return True
    if fam == "binary":
        o = case["args"][0]
        if case["op"] == "__rpow__":
            return False
        if o["k"] == "py":
            return True
        if o["k"] == "t" and len(o["shape"]) == 0:
            return True
        _, inplace, _ = bin_ref(case["op"], {})
        wrapped = not inplace and (AND_WRAPPED or case["op"] not in ("__and__", "__rand__"))
        kinds_ok = True        # lazy stacks too since the repairs D50-D51 (each member meets its slice of the operand)
        if o["k"] == "t":
            # a batch-shaped / broadcastable tensor is an operand kind the property names (out-of-place, non-lazy)
            return wrapped and kinds_ok and bshape(case["self"]["bs"], o["shape"]) is not None
        if o["k"] == "td":
            if case["op"] in CMP_OPS and keyrel(dens[0], dens[1]) == "same" and list(o["bs"]) == list(case["self"]["bs"]):
                return True        # comparisons work across TensorDict / tensorclass / lazy stack on either side
            if plain_mix(case, dens[0], dens[1], inplace):
                return True
            if o.get("kind", "td") != skind or keyrel(dens[0], dens[1]) != "same" or "default" in case.get("kw", {}):
                return False
            if list(o["bs"]) == list(case["self"]["bs"]):
                return True
            return wrapped and kinds_ok and bshape(case["self"]["bs"], o["bs"]) is not None
        return False
    if fam == "ternary":
        if case["op"] in ("where", "clamp"):
            return False
        return all((o["k"] == "td" and o.get("kind", "td") == skind and list(o["bs"]) == list(case["self"]["bs"])
                    and keyrel(dens[0], d) == "same") for o, d in zip(case["args"], dens[1:]))
    if fam == "reduce":
        return (isinstance(case["dim"], int) or case["dim"] == "nodefault") and not case.get("reduce")
    return False


def run_case(case):
    """execute one case against the implementation and the spec oracle.
    returns dict(status, exc, got, ref, fail=(label, detail, sig)|None, tags=[...])"""
    T = _imports()
    torch = T["torch"]
    fam, op = case["fam"], case["op"]
    out = {"status": None, "exc": None, "got": None, "ref": None, "fail": None, "tags": [], "after": None}
    obj, dself = build_td(case["self"])
    args, dens = [], [dself]
    for o in case.get("args", []):
        a, d = build_operand(o)
        args.append(a)
        dens.append(d)
    kw = dict(case.get("kw", {}))
    ikw = dict(kw)
    if isinstance(ikw.get("default"), dict):
        ikw["default"] = build_operand(ikw["default"])[0]
    if "dtype" in ikw:
        ikw["dtype"] = getattr(torch, ikw["dtype"])
    # ---- reference
    try:
        if fam == "unary":
            ref = expected_unary(case, dself)
        elif fam == "binary":
            ref = expected_binary(case, dself, dens[1])
        elif fam == "ternary":
            ref = expected_where(case, dself, dens[1:]) if op == "where" else expected_ternary(case, dself, dens[1:])
        else:
            ref = expected_reduce(case, dself)
    except Exception as e:  # noqa: BLE001  (a crash of the reference is my bug: surface it, never a verdict)
        raise RuntimeError(f"reference crashed on {json.dumps(case)}: {type(e).__name__}: {e}") from e
    out["ref"] = ref
    inplace = (fam == "binary" and bin_ref(op, {})[1]) or (fam in ("unary", "ternary") and op.endswith("_")
                                                            and not op.endswith("__"))
    # ---- implementation
    try:
        f = getattr(obj, op)
        if fam == "reduce":
            a = []
            if case["dim"] != "nodefault":
                a.append(tuple(case["dim"]) if isinstance(case["dim"], list) else case["dim"])
            k2 = dict(ikw)
            if case["keepdim"] != "nodefault":
                k2["keepdim"] = case["keepdim"]
            if case.get("reduce") is not None:
                k2["reduce"] = case["reduce"]
            r = f(*a, **k2)
        elif case.get("call") == "operator":
            r = CMP_OPS[op](args[0], obj) if case.get("swap") else CMP_OPS[op](obj, args[0])
        else:
            r = f(*args, **ikw)
        out["status"] = "ok"
    except Exception as e:  # noqa: BLE001
        out["status"], out["exc"] = "raise", type(e).__name__
        r = None
    sig = {"family": fam, "op": op, "site": op_site(case), "self_kind": case["self"].get("kind", "td")}
    if fam in ("binary", "ternary"):
        sig["operands"] = "+".join(operand_kind(o) for o in case["args"])
        tds = [(o, d) for o, d in zip(case["args"], dens[1:]) if o["k"] in ("td", "dict")]
        sig["order_differs"] = any(orders_differ(case["self"], o) for o, _ in tds)
        sig["batch_differs"] = any(list(o["bs"]) != list(case["self"]["bs"]) for o, _ in tds)
        sig["keyrel"] = "/".join(keyrel(dself, d) for _, d in tds) if tds else "n/a"
        sig["inplace"] = bool(inplace)
        sig["tensor_nd"] = any(o["k"] == "t" and len(o["shape"]) > 0 for o in case["args"])
        sig["has_default"] = "default" in kw or "pad" in kw
        sig["swap"] = bool(case.get("swap"))
    if fam == "reduce":
        sig["dim_kind"] = ("nodefault" if case["dim"] == "nodefault" else "none" if case["dim"] is None else
                           "feature" if case["dim"] == "feature" else "tuple" if isinstance(case["dim"], list) else "int")
        sig["dim_zero"] = case["dim"] == 0
        sig["keepdim"] = case["keepdim"] is True
        sig["reduce"] = bool(case.get("reduce"))
        sig["has_names"] = case["self"].get("names") is not None
    # ---- canonicalise what came back
    if out["status"] == "ok":
        try:
            out["got"] = canon_result(r)
            if inplace:
                out["after"] = canon_collection(obj)
                out["returned_self"] = r is obj
        except Exception as e:  # noqa: BLE001
            out["got"] = {"kind": "unreadable", "why": type(e).__name__}
    # ---- verdict of the spec oracle
    out["fail"] = verdict(case, out, ref, sig, dens, inplace)
    if out["fail"] is None and case.get("_twin") is None and ref[0] == "ok" and fam != "reduce":
        locked = [case["self"].get("locked")] + [o.get("locked") for o in case.get("args", []) if o["k"] == "td"]
        if any(locked):
            twin = json.loads(json.dumps(case))
            twin["self"]["locked"] = False
            for o in twin.get("args", []):
                if o["k"] == "td":
                    o["locked"] = False
            twin["_twin"] = True
            r2 = run_case(twin)
            if r2["status"] != out["status"]:
                out["fail"] = ("lock-dependence", {"locked": out["status"] + (" " + str(out["exc"]) if out["exc"] else ""),
                                                   "unlocked": r2["status"] + (" " + str(r2["exc"]) if r2["exc"] else "")},
                               dict(sig, check="lock"))
    if out["fail"]:
        out["fail"][2]["pattern"] = known_pattern(case, out["fail"][2])
    out["sig"] = sig
    return out


def known_pattern(case, sig):
    """input pattern of a defect recorded as `kind: known` in findings.d/C09.json (D56, D57, D58), computed from the case
    and the kind of check that failed, never from the values.  The patterns of D18, D40-D49 and of the lazy-stack defects
    D50-D55 (fixes/C09/*.diff) are gone: each of them is a violation again."""
    fam, op, chk = case["fam"], case["op"], sig.get("check")
    tds = [o for o in case.get("args", []) if o["k"] == "td"]
    # clamp(min, max) dispatches to clamp_min / clamp_max (base.py): the same fused binary site as D56 (found by the thorough tier)
    if fam in ("binary", "ternary") and op not in COMPARE and op != "where" and chk in ("value", "raises"):
        s = case["self"]
        if s.get("kind") == "lazy" and any(
                o.get("kind") == "lazy" and ((list(o["bs"]) == list(s["bs"]) and o.get("stack_dim") != s.get("stack_dim"))
                                             or (sig.get("inplace") and list(o["bs"]) != list(s["bs"]))) for o in tds):
            return "lazy-lazy-different-stacking"          # D56
        if fam == "binary" and chk == "raises" and tds and {s.get("kind", "td"), tds[0].get("kind", "td")} == {"lazy", "td"} \
                and list(tds[0]["bs"]) == list(s["bs"]) and sig.get("keyrel") == "same":
            return "lazy-dense-mix-same-shape"             # D57
    if fam == "reduce" and op in ("std", "var") and sig.get("reduce") and "correction" in case.get("kw", {}) and chk == "value":
        return "reduce-true-drops-correction"              # D58
    return "none"


def canon_result(r):
    T = _imports()
    torch = T["torch"]
    if isinstance(r, bool):
        return {"kind": "bool", "value": r}
    if isinstance(r, torch.Tensor):
        return {"kind": "tensor", "value": canon_tensor(r)}
    if T["is_tc"](r):
        return canon_collection(r)
    if isinstance(r, tuple) and len(r) == 2:
        a, b = r
        if isinstance(a, torch.Tensor):
            return {"kind": "tensor", "value": canon_tensor(a), "indices": canon_tensor(b)}
        ca, cb = canon_collection(a), canon_collection(b)
        ca["kind"] = "pair"
        ca["indices"] = cb
        return ca
    return {"kind": "other", "type": type(r).__name__}


def loose_dtype(case):
    """torch's result dtype for a 0-d tensor operand of another width depends on the *rank* of the other argument
    (0-d operands do not take part in promotion within a category unless both are 0-d); the fused kernels and the
    member-wise evaluation of lazy stacks see other ranks than the per-key reference, so only the dtype category
    (bool / integer / float) is compared on such cases"""
    dts = {e[2] for e in case["self"]["entries"]}
    lazy1 = case["self"].get("kind", "td") == "lazy" and len(case["self"]["bs"]) <= 1
    # a rank-1 tensor against a lazy stack with one batch dim: every member meets a 0-d slice (same promotion rule)
    return any(o["k"] == "t" and (len(o["shape"]) == 0 or (lazy1 and len(o["shape"]) <= 1))
               and (dts - {o.get("dtype", "float32")}) for o in case.get("args", []))


def verdict(case, out, ref, sig, dens, inplace):
    fam = case["fam"]
    kind = ref[0]
    if kind == "must-raise":
        if out["status"] == "ok":
            return ("no-raise-on-key-mismatch" if fam != "reduce" else "no-raise-on-bad-dim",
                    {"why": ref[1], "returned": brief(out["got"])}, dict(sig, check="must-raise"))
        return None
    if kind != "ok":
        out["tags"].append(kind)
        return None
    if out["status"] == "raise":
        if core_usage(case, dens) and not (fam == "binary" and kernel_rejects(case, dens[0], dens[1])):
            return ("raises-on-core-usage", {"exception": out["exc"]}, dict(sig, check="raises"))
        out["tags"].append("unsupported")
        return None
    got = out["got"]
    if fam == "reduce":
        want = ref[1]
        return verdict_reduce(got, want, sig)
    want = canon_expected(ref[1], ref[2])
    want["dtype_loose"] = loose_dtype(case)
    if got.get("kind") not in ("td", "lazy", "tc"):
        return ("value", {"why": "result is not a tensor collection", "got": brief(got)}, dict(sig, check="value"))
    d = diff_collection(got, want)
    if d is None and inplace:
        if not out.get("returned_self"):
            d = "in-place op did not return self"
        else:
            d = diff_collection(out["after"], want)
            if d:
                d = "self after the in-place op: " + d
    if d:
        return ("value", {"difference": d}, dict(sig, check="value"))
    return None


def verdict_reduce(got, want, sig):
    k = want["kind"]
    if k == "bool":
        if got.get("kind") != "bool" or got["value"] != want["value"]:
            return ("value", {"got": brief(got), "want": want["value"]}, dict(sig, check="value"))
        return None
    if k == "tensor":
        w = canon_tensor(want["value"])
        if got.get("kind") != "tensor" or not same_canon(got["value"], w):
            return ("value", {"got": brief(got), "want": w}, dict(sig, check="value"))
        return None
    if got.get("kind") not in ("td", "lazy", "tc", "pair") or (k == "pair") != (got.get("kind") == "pair"):
        return ("value", {"why": "result has the wrong kind", "got": brief(got), "want_kind": k}, dict(sig, check="value"))
    d = diff_collection(got, canon_expected(want["leaves"], want["bs"]))
    if d is None and k == "pair":
        d = diff_collection(got["indices"], canon_expected(want["indices"], want["bs"]))
        if d:
            d = "indices: " + d
    if d:
        return ("value", {"difference": d}, dict(sig, check="value"))
    n = names_problem(got.get("names"), want)
    if n is None and k == "pair":
        n = names_problem(got["indices"].get("names"), want)
    if n:
        return ("names", {"difference": n}, dict(sig, check="names"))
    return None


def brief(g):
    s = json.dumps(g, default=str)
    return s if len(s) < 400 else s[:400] + "..."


def expected_unary(case, dself):
    op = case["op"]
    if not dself:
        return ("unspecified", "empty tensordict (the property speaks about entries)")
    inplace = op.endswith("_") and not op.endswith("__")
    out = {}
    for k, x in dself.items():
        try:
            if op == "__abs__":
                out[k] = abs(x)
            elif op == "__neg__":
                out[k] = -x
            elif op == "__invert__":
                out[k] = ~x
            else:
                out[k] = getattr(x.clone() if inplace else x, op)()
        except Exception as e:  # noqa: BLE001
            return ("illegal", f"torch rejects key {pstr(k)}: {type(e).__name__}")
    return ("ok", out, list(case["self"]["bs"]))


# ------------------------------------------------------------------------------------------------ generators
BATCHES = [[], [2], [3], [2, 3], [1, 2], [2, 1, 3], [4], [3, 2], [2, 2], [3, 3]]   # square ones: wrong pairings do not raise
NAMES = ["p", "q", "r"]


def gen_tdspec(rng, role=0, kind=None, bs=None, dtype=None, mode="norm", nkeys=None, allow_empty=False, own=None):
    bs = list(bs) if bs is not None else list(rng.choice(BATCHES))
    if nkeys is None:
        nkeys = rng.choice([0] if allow_empty and rng.random() < 0.04 else [1, 2, 2, 3, 3, 4, 5])
    keys = rng.sample(UNIVERSE, nkeys)
    if dtype is None:
        dtype = rng.choice(["float32"] * 6 + ["int64"] * 3 + ["mixed"] * 2 + ["float64", "int32"])
    ents = []
    for p in keys:
        dt = rng.choice(["float32", "int64"]) if dtype == "mixed" else dtype
        ents.append([list(p), list(FEAT[p]), dt])
    if kind is None:
        kind = rng.choice(["td"] * 6 + ["lazy"] * 2 + ["tc"] * 2)
    if kind == "lazy" and (not bs or not keys):
        kind = "td"
    if kind == "tc" and not keys:
        kind = "td"
    spec = {"kind": kind, "bs": bs, "entries": ents, "role": role, "mode": mode, "locked": rng.random() < 0.3}
    if kind == "lazy":
        spec["stack_dim"] = rng.randrange(len(bs))
        if rng.random() < 0.5:
            orders = []
            for _ in range(bs[spec["stack_dim"]]):
                o = [e[0] for e in ents]
                rng.shuffle(o)
                orders.append(o)
            spec["member_orders"] = orders
        if bs[spec["stack_dim"]] >= 2 and (own is True or (own == "maybe" and rng.random() < 0.4)):
            spec["own"] = ents[0][2]    # members with exclusive keys (of this dtype): the stack stays lazy under expand
    if bs and rng.random() < 0.3:
        spec["names"] = NAMES[:len(bs)]
    return spec


def variant_td(rng, sspec, variant, role=1, kind=None, mode=None):
    """an operand tensordict derived from self's spec: same / perm / extra / missing / both / bcast"""
    ents = [list(map(lambda x: list(x) if isinstance(x, list) else x, e)) for e in sspec["entries"]]
    have = {tuple(e[0]) for e in ents}
    rest = [p for p in UNIVERSE if p not in have]
    dt0 = ents[0][2] if ents else "float32"
    if variant in ("extra", "both") and rest:
        for p in rng.sample(rest, min(len(rest), rng.choice([1, 1, 2]))):
            ents.append([list(p), list(FEAT[p]), dt0])
    if variant in ("missing", "both") and sspec["entries"]:
        ents.pop(rng.randrange(len(sspec["entries"])))        # may leave an empty operand
    if variant != "same":
        before = [e[0] for e in ents]
        for _ in range(4):
            rng.shuffle(ents)
            if [e[0] for e in ents] != before or len(ents) < 2:
                break
    bs = list(sspec["bs"])
    if variant == "bcast":
        choices = [[1] * len(bs)] if bs else []
        if len(bs) > 1:
            choices += [bs[1:], [1] + bs[1:], bs[:-1] + [1]]
        choices.append([2] + bs)
        bs = rng.choice(choices)
    k = kind if kind is not None else sspec.get("kind", "td")
    spec = {"k": "td", "kind": k, "bs": bs, "entries": ents, "role": role, "mode": mode or sspec.get("mode", "norm"),
            "locked": rng.random() < 0.3}
    if k == "lazy":
        if not bs or not ents:
            spec["kind"] = "td"
        else:
            sd = sspec.get("stack_dim", 0)
            spec["stack_dim"] = sd if sd < len(bs) else 0
            if len(bs) >= 2 and not sspec.get("own") and rng.random() < 0.15:
                spec["stack_dim"] = rng.choice([d for d in range(len(bs)) if d != spec["stack_dim"]])   # stacked along ANOTHER dim
            if sspec.get("own") and sspec.get("kind") == "lazy" and bs == list(sspec["bs"]) and spec["stack_dim"] == sd:
                spec["own"] = sspec["own"]   # member i of both stacks holds own<i> (same dtype): the fused path pairs them too
    if spec["kind"] == "tc" and not ents:
        spec["kind"] = "td"
    return spec


def tensor_operand(rng, bs, how, dtype="float32", role=1, mode="norm", lead=None):
    """how: t0 (0-d) | tb (batch-shaped) | tbc (broadcastable, any rank relation) | tup (MORE leading dims than the
    batch; [lead] = a size that makes the enlarged shape square, e.g. the member count of a lazy stack) | tbad"""
    bs = list(bs)
    if how == "tup":
        k = rng.choice([lead, lead, 2, 3] if lead else [2, 3])
        inner = [(1 if rng.random() < 0.25 else b) for b in bs]
        return {"k": "t", "shape": [k] + (inner if rng.random() < 0.5 else bs), "dtype": dtype, "role": role, "mode": mode}
    if how == "t0" or (not bs and how in ("tb", "tbc")):
        shape = []
    elif how == "tb":
        shape = bs
    elif how == "tbc":
        opts = [[(1 if rng.random() < 0.5 else b) for b in bs], bs[1:] if len(bs) > 1 else [1], [2] + bs, [1] * len(bs),
                [lead or 3] + bs]
        shape = rng.choice(opts)
    elif how == "tbad":
        shape = bs[:-1] + [bs[-1] + 1] if bs else [2]
    else:
        raise ValueError(how)
    return {"k": "t", "shape": shape, "dtype": dtype, "role": role, "mode": mode}


def py_operand(rng, dtype):
    if dtype == "bool":
        return {"k": "py", "v": rng.choice([True, False])}
    return {"k": "py", "v": rng.choice([2, 3, 2.0, 3.0, 5, True, -2, 0.5])}


ALL_BINARY = BIN_FOREACH + BIN_INPLACE + BIN_LOOP + list(BIN_DUNDER)


def _lead(s):
    return s["bs"][s["stack_dim"]] if s.get("kind") == "lazy" else (s["bs"][0] if s["bs"] else None)


def gen_binary(rng, op=None, okind=None, skind=None, own="maybe"):
    op = op or rng.choice(ALL_BINARY)
    logical = op in ("bitwise_and", "__and__", "__rand__", "__or__", "__ror__", "__xor__", "__rxor__")
    power = op in ("pow", "pow_", "__pow__", "__ipow__", "__rpow__")
    dtype = rng.choice(["int64", "bool", "int32"]) if logical else None
    if op == "logical_and":
        dtype = rng.choice(["bool", "float32", "int64"])
    mode = "small" if power else "norm"
    omode = "mid" if op.strip("_") in ("maximum", "minimum", "clamp_max", "clamp_min") else mode
    s = gen_tdspec(rng, 0, kind=skind, dtype=dtype, mode=mode, allow_empty=True, own=own)
    _, inplace, reflected = bin_ref(op, {})
    kinds = ["py", "py", "t0", "tb", "tbc", "tup", "tbad", "same", "perm", "perm", "perm", "extra", "missing", "both", "bcast"]
    if op in COMPARE[:8] + ["__eq__", "__ne__"]:
        kinds += ["dict", "dict"]
    if reflected:
        kinds = ["py", "py", "t0", "tb", "tbc", "tup"]
    okind = okind or rng.choice(kinds)
    if s.get("own") and okind == "bcast":
        okind = "tup"       # a tensordict of another batch shape would have to hold every member's own key
    if s.get("own") and okind == "dict":
        okind = "tb"
    d0 = s["entries"][0][2] if s["entries"] else "float32"
    od = d0 if (logical or rng.random() < 0.7) else rng.choice(["float32", "int64"])
    kw = {}
    if okind == "py":
        o = py_operand(rng, d0 if logical else "float32")
        if logical and not isinstance(o["v"], bool):
            o["v"] = int(abs(o["v"])) if not isinstance(o["v"], float) else 3
    elif okind in ("t0", "tb", "tbc", "tup", "tbad"):
        o = tensor_operand(rng, s["bs"], okind, od, 1, omode, lead=_lead(s))
    elif okind == "dict":
        o = variant_td(rng, s, rng.choice(["same", "perm", "perm", "extra", "missing"]), 1, "td")
        o["k"] = "dict"
    else:
        okd = None
        if rng.random() < 0.12 and not s.get("own"):
            okd = rng.choice(["td", "tc", "lazy"])
        o = variant_td(rng, s, okind, 1, okd, mode=omode)
        for e in o["entries"]:
            if od != d0 and rng.random() < 0.5:
                e[2] = od
        if (not inplace) and not op.startswith("__") and okind in ("extra", "missing", "both", "perm") and rng.random() < 0.6:
            kw["default"] = rng.choice(["intersection", {"k": "t", "shape": [], "dtype": d0, "role": 2, "offset": 100}])
    if op in ("add", "sub", "add_", "sub_") and rng.random() < 0.25:
        kw["alpha"] = rng.choice([2, 3])
    return {"fam": "binary", "op": op, "self": s, "args": [o], "kw": kw}


def gen_unary(rng, op=None, skind=None):
    op = op or rng.choice(UNARY_EXACT + UNARY_FLOAT + UNARY_INPLACE)
    base = op.strip("_")
    if op == "__invert__":
        dtype, mode = rng.choice(["bool", "int64"]), "norm"
    elif base in ("acos", "asin"):
        dtype, mode = "float32", "unit"
    elif base in ("log", "log10", "log2", "sqrt", "lgamma", "log1p", "reciprocal"):
        dtype, mode = "float32", "norm"
    elif base in ("exp", "expm1", "sinh", "cosh"):
        dtype, mode = "float32", "unit"
    else:
        dtype, mode = rng.choice(["float32", "float32", "float64", "int64"]), "signed"
    s = gen_tdspec(rng, 0, kind=skind, dtype=dtype, mode=mode, allow_empty=True)
    return {"fam": "unary", "op": op, "self": s, "args": [], "kw": {}}


def gen_ternary(rng, op=None, skind=None):
    op = op or rng.choice(TERNARY_FOREACH * 2 + TERNARY_OTHER)
    s = gen_tdspec(rng, 0, kind=skind, dtype=rng.choice(["float32", "float32", "float64"]),
                   mode="norm", allow_empty=False, own="maybe" if op in TERNARY_FOREACH else None)
    kw = {}
    if op == "where":
        cond = {"k": "t", "shape": list(s["bs"]), "dtype": "bool", "role": 2}
        v = rng.choice(["same", "perm", "perm", "extra", "missing", "py", "both"])
        if v == "py":
            o = {"k": "py", "v": rng.choice([0.0, 7.0])}
        else:
            o = variant_td(rng, s, v, 1)
            if v in ("extra", "missing", "both") and rng.random() < 0.6:
                kw["pad"] = rng.choice([0, 99])
        return {"fam": "ternary", "op": op, "self": s, "args": [cond, o], "kw": kw}
    args = []
    roles = [1, 2]
    if op.startswith("lerp"):
        pat = rng.choice(["tdtd", "tdtd", "tdtd", "tdpy", "tdpy", "tt", "tdt", "tpy", "pypy"])
    else:       # torch.addcdiv / addcmul take tensors only
        pat = rng.choice(["tdtd", "tdtd", "tdtd", "tdtd", "tt", "tdt", "tdpy"])
    if op == "clamp":
        pat = rng.choice(["tdtd", "tdtd", "pypy", "tt", "tdpy", "nonetd", "tdnone"])
    for i, tok in enumerate({"tdtd": ["td", "td"], "tdpy": ["td", "py"], "pypy": ["py", "py"], "tt": ["t", "t"],
                             "tdt": ["td", "t"], "pytd": ["py", "td"], "tpy": ["t", "py"], "nonetd": ["none", "td"],
                             "tdnone": ["td", "none"]}[pat]):
        mode = "small" if (op.startswith("lerp") and i == 1) or op.startswith("addcdiv") else "norm"
        if op == "clamp":
            mode = "lo" if i == 0 else "hi"
        if tok == "td":
            v = rng.choice(["same", "perm", "perm", "perm", "extra", "missing", "bcast"])
            if s.get("own") and v == "bcast":
                v = "same"
            o = variant_td(rng, s, v, roles[i], mode=mode)
            if op == "clamp" and i == 1:
                for e in o["entries"]:
                    pass
        elif tok == "py":
            o = {"k": "py", "v": rng.choice([2.0, 0.5, 1.0, 3.0]) if op.startswith("lerp") else
                 (rng.choice([4.0, 6.0]) if i == 0 else rng.choice([11.0, 15.0])) if op == "clamp" else
                 rng.choice([2.0, 3.0, 4.0])}
        elif tok == "t":
            o = tensor_operand(rng, s["bs"], rng.choice(["t0", "tb", "tb", "tbc", "tup"]), s["entries"][0][2], roles[i], mode,
                               lead=_lead(s))
        else:
            o = {"k": "none"}
        args.append(o)
    if op.startswith("addc") and rng.random() < 0.4:
        kw["value"] = rng.choice([2, 3])
    return {"fam": "ternary", "op": op, "self": s, "args": args, "kw": kw}


def gen_reduce(rng, op=None, skind=None):
    op = op or rng.choice(ALL_REDUCTIONS)
    if op in REDUCTIONS_BOOL:
        dtype = rng.choice(["bool", "bool", "int64", "float32"])
    elif op in ("mean", "nanmean", "std", "var", "logsumexp", "softmax", "norm"):
        dtype = rng.choice(["float32", "float32", "float64"])
    else:
        dtype = rng.choice(["float32", "float32", "int64", "float64"])
    s = gen_tdspec(rng, 0, kind=skind, dtype=dtype, allow_empty=False, bs=rng.choice(BATCHES + [[2, 3], [2, 1, 3]]))
    nb = len(s["bs"])
    choices = ["nodefault"]
    if nb:
        choices += ["int"] * 5 + ["negint"] * 3 + ["tuple"] * 3 + ["negtuple"] + ["oob"]
    choices += ["none", "feature", "feature"]
    c = rng.choice(choices)
    if c == "int":
        dim = rng.randrange(nb)
    elif c == "negint":
        dim = -1 - rng.randrange(nb)
    elif c == "tuple":
        dim = sorted(rng.sample(range(nb), rng.randrange(1, nb + 1)))
        if rng.random() < 0.3:
            rng.shuffle(dim)
    elif c == "negtuple":
        dim = [d - nb if rng.random() < 0.6 else d for d in rng.sample(range(nb), rng.randrange(1, nb + 1))]
    elif c == "oob":
        dim = rng.choice([nb, nb + 1, -nb - 1])
    elif c == "none":
        dim = None
    else:
        dim = c
    keepdim = rng.choice(["nodefault", "nodefault", True, False])
    kw = {}
    if op in REDUCTIONS_CUM + REDUCTIONS_BOOL + ["softmax", "norm"]:
        keepdim = "nodefault"
    if op in ("min", "max", "cummin", "cummax") and rng.random() < 0.4:
        kw["return_indices"] = False
    red = None
    if op in REDUCTIONS_TUPLE + REDUCTIONS_INT and rng.random() < 0.15:
        red = True
    if op in ("std", "var") and rng.random() < 0.35:
        kw["correction"] = rng.choice([0, 2])
    case = {"fam": "reduce", "op": op, "self": s, "args": [], "kw": kw, "dim": dim, "keepdim": keepdim, "reduce": red}
    if op == "norm":
        case["dim"], case["keepdim"] = "nodefault", "nodefault"
    if op in REDUCTIONS_CUM + ["softmax"] and dim in ("nodefault", None):
        case["dim"] = rng.randrange(nb) if nb else "nodefault"
    return case


PAIR_KINDS = ["td", "tc", "lazy", "py", "t"]


def gen_compare_pair(rng, op=None, left=None, right=None, locked=None, mode=None):
    """`left <op> right` through the python operator, for an ordered pair of operand kinds (one of them at least a
    tensor collection); data with ties (mode cmp) or distinct primes per key (mode norm)"""
    op = op or rng.choice(list(CMP_OPS))
    while left is None or (left in ("py", "t") and right in ("py", "t")):
        left, right = rng.choice(PAIR_KINDS), rng.choice(PAIR_KINDS)
    mode = mode or rng.choice(["cmp", "cmp", "norm"])
    swap = left in ("py", "t")
    skind, okind = (right, left) if swap else (left, right)
    dtype = rng.choice(["int64", "int64", "float32", "int32"])
    bs = rng.choice([b for b in BATCHES if b] if "lazy" in (skind, okind) else BATCHES)
    s = gen_tdspec(rng, 0, kind=skind, dtype=dtype, mode=mode, bs=bs, own="maybe" if okind in ("py", "t", "lazy") else None)
    if locked is not None:
        s["locked"] = locked
    if okind == "py":
        o = {"k": "py", "v": rng.choice([1, 1, 2, 0, 1.0]) if mode == "cmp" else rng.choice([3, 7, 11, 13.0])}
    elif okind == "t":
        o = tensor_operand(rng, s["bs"], rng.choice(["t0", "tb", "tb", "tbc", "tup"]), dtype, 1, mode, lead=_lead(s))
    else:
        o = variant_td(rng, s, rng.choice(["perm", "perm", "perm", "same", "extra", "missing"]), 1, okind, mode=mode)
        if locked is not None:
            o["locked"] = locked
    return {"fam": "binary", "op": op, "self": s, "args": [o], "kw": {}, "call": "operator", "swap": swap}


def compare_grid(rng):
    """all six comparison operators x every ordered pair of operand kinds x locked / unlocked x ties / distinct"""
    out = []
    for op in CMP_OPS:
        for left in PAIR_KINDS:
            for right in PAIR_KINDS:
                if left in ("py", "t") and right in ("py", "t"):
                    continue
                for locked in (False, True):
                    for mode in ("cmp", "norm"):
                        out.append(gen_compare_pair(rng, op, left, right, locked, mode))
    return out


def systematic_cases(rng, methods):
    """every spelling found by reflection is exercised in every run, on each container, with the operand kinds that
    make key pairing visible (independent of the seed except for the shapes drawn)"""
    out = []
    for skind in ("td", "lazy", "tc"):
        for op in methods:
            if op in UNARY_EXACT + UNARY_FLOAT + UNARY_INPLACE:
                out.append(gen_unary(rng, op, skind))
            elif op in ALL_BINARY:
                _, inplace, reflected = bin_ref(op, {})
                for ok in (["py", "tb"] if reflected else ["py", "perm", "extra", "tb"]):
                    out.append(gen_binary(rng, op, ok, skind))
                if skind == "lazy" and not inplace:
                    # a stack that stays lazy under expand x an operand with more leading dims (square / not square)
                    out.append(gen_binary(rng, op, "tup", skind, own=True))
                    out.append(gen_binary(rng, op, "tup", skind, own=None))
            elif op in TERNARY_FOREACH + TERNARY_OTHER:
                for _ in range(3):
                    out.append(gen_ternary(rng, op, skind))
            elif op in ALL_REDUCTIONS:
                for _ in range(3):
                    out.append(gen_reduce(rng, op, skind))
    return out


def random_cases(rng, n):
    out = []
    for _ in range(n):
        r = rng.random()
        if r < 0.08:
            out.append(gen_compare_pair(rng))
        elif r < 0.45:
            out.append(gen_binary(rng))
        elif r < 0.55:
            out.append(gen_unary(rng))
        elif r < 0.75:
            out.append(gen_ternary(rng))
        else:
            out.append(gen_reduce(rng))
    return out


# ------------------------------------------------------------------------------------------------ model correspondence
def _ids(dense, base):
    return {k: base + i for i, k in enumerate(dense)}


def _items_sx(dense, base):
    return [[pstr(k), base + i] for i, k in enumerate(dense)]


def _okind_sx(o):
    if o["k"] == "none":
        return Sym("none")
    if o["k"] in ("py", "dict"):
        return Sym("py")
    if o["k"] == "t":
        return [Sym("t"), list(o["shape"])]
    return [Sym("td"), list(o["bs"])]


def _operand_sx(o, dense, base):
    if o["k"] in ("td", "dict"):
        return [Sym("td"), _items_sx(dense, base)]
    return Sym("scalar")


def model_covers(case):
    """cases whose tensordict-side logic the Gallina model transcribes (regular TensorDict and tensorclass, which
    delegates to its TensorDict; lazy stacks only for _cast_reduction, which densifies first)"""
    fam, op = case["fam"], case["op"]
    kinds = [case["self"].get("kind", "td")] + [o.get("kind", "td") for o in case.get("args", []) if o["k"] == "td"]
    if not case["self"]["entries"]:
        return False                       # empty tensordicts: outside the property (no entry to speak about)
    if fam == "reduce":
        # a lazy stack is densified first (to_tensordict): Model/C09_Lazy.lazy_front = front on the same batch size / names
        if isinstance(case["dim"], list) and op in ("min", "max", "cummin", "cummax", "prod"):
            return False                   # torch itself takes a single dim there
        return op in REDUCTIONS_TUPLE + REDUCTIONS_INT + REDUCTIONS_CUM and not case.get("reduce")
    if "lazy" in kinds:
        return False
    if fam == "binary":
        return True
    if fam == "ternary":
        return op in TERNARY_FOREACH or (op == "clamp" and all(o["k"] != "none" for o in case["args"]))
    return False


def tree_sx(dense, base):
    """nested-node view of the leaves for the comparison model: (n (key tree) ...)"""
    ids = _ids(dense, base)
    root = {}
    for p in dense:
        d = root
        for k in p[:-1]:
            d = d.setdefault(k, {})
        d[p[-1]] = ids[p]

    def enc(d):
        return [Sym("n")] + [[k, enc(v) if isinstance(v, dict) else v] for k, v in d.items()]
    return enc(root)


# state of /repo the model is switched to (fixes/C09/*.diff applied); flip together with the Coq switches
AND_WRAPPED = True          # D41: __and__/__rand__ go through _maybe_broadcast_other
LOCK_CLOSES_RESULT = False  # D48: before the patch a locked self made `result.update(items)` raise

DUNDER_MODEL = ["__add__", "__radd__", "__iadd__", "__sub__", "__rsub__", "__isub__", "__mul__", "__rmul__", "__imul__",
                "__truediv__", "__rtruediv__", "__itruediv__", "__pow__", "__rpow__", "__ipow__", "__and__", "__rand__",
                "__or__", "__ror__", "__xor__", "__rxor__"]
_METHOD_FN = {"add": (operator.add, operator.iadd), "sub": (operator.sub, operator.isub),
              "mul": (operator.mul, operator.imul), "div": (operator.truediv, operator.itruediv),
              "pow": (operator.pow, operator.ipow), "and": (operator.and_, None), "or": (operator.or_, None),
              "xor": (operator.xor, None)}


def dunder_ref(ans):
    """leaf-level function for an operator spelling as the model says the code evaluates it"""
    m, ip, sf = ans
    if m == "not-implemented":
        return None
    if m == "mul-reciprocal":
        return lambda x, y: y * x.reciprocal()
    if m == "neg-add":
        return lambda x, y: x.neg().add(y)
    f = _METHOD_FN[m][1 if ip == "t" else 0]
    return (lambda x, y: f(x, y)) if sf == "t" else (lambda x, y: f(y, x))


def tc_dispatched(case):
    """TensorDict.__lt__ & co hand the comparison over to a tensorclass right operand (`return other > self`)"""
    o = case["args"][0]
    return (case["op"] in CMP_OPS and not case.get("swap") and o["k"] == "td" and o.get("kind", "td") == "tc"
            and case["self"].get("kind", "td") == "td")


def model_lines(case):
    """protocol lines for one case (first the broadcast decision, then the pairing / reduction plan)"""
    fam, op = case["fam"], case["op"]
    s = case["self"]
    dself = {p: None for p in traversal([tuple(e[0]) for e in s["entries"]])}
    if fam == "reduce":
        grp = ("tuple" if op in REDUCTIONS_TUPLE else "aminmax" if op in ("amin", "amax") else
               "single" if op in ("min", "max") else "cum" if op in REDUCTIONS_CUM else "prod")
        names = s.get("names")          # a lazy stack is densified first: to_tensordict() keeps batch size and names
        dim = case["dim"]
        d = (Sym("nodefault") if dim == "nodefault" else Sym("none") if dim is None else Sym("feature")
             if dim == "feature" else [Sym("tuple")] + list(dim) if isinstance(dim, list) else [Sym("int"), dim])
        kd = Sym("nodefault") if case["keepdim"] == "nodefault" else case["keepdim"]
        nm = Sym("none") if names is None else [Sym("some"), [n for n in names]]
        return [sx([Sym("lazyreduce" if s.get("kind", "td") == "lazy" else "reduce"), Sym(grp), list(s["bs"]), nm, d, kd])]
    lines = []
    odens = [{p: None for p in traversal([tuple(e[0]) for e in o["entries"]])} if o["k"] in ("td", "dict") else None
             for o in case["args"]]
    _, inplace, _ = bin_ref(op, {}) if fam == "binary" else (None, op.endswith("_") and not op.endswith("__"), None)
    wrapped = not inplace and (AND_WRAPPED or op not in ("__and__", "__rand__"))
    if wrapped:
        lines.append(sx([Sym("bcast"), list(s["bs"]), [_okind_sx(o) for o in case["args"]]]))
    if fam == "binary" and op in DUNDER_MODEL:
        lines.append(sx([Sym("dunder"), op]))
    if fam == "binary" and tc_dispatched(case):
        lines.append(sx([Sym("cmpdispatch"), op, Sym("tc")]))
    if fam == "binary":
        o = case["args"][0]
        if op in COMPARE and o["k"] in ("td", "dict"):
            lines.append(sx([Sym("compare"), tree_sx(dself, 0), tree_sx(odens[0], 100)]))
        elif inplace:
            famy = Sym("swallow") if op in ("clamp_max_", "clamp_min_") else Sym("foreach")
            lines.append(sx([Sym("inplace"), famy, False, _items_sx(dself, 0), _operand_sx(o, odens[0], 100)]))
        else:
            d = case.get("kw", {}).get("default")
            dd = Sym("none") if d is None else Sym("inter") if d == "intersection" else Sym("val")
            famy = (Sym("loop") if op in BIN_LOOP + ["__and__", "__rand__"] + COMPARE else
                    Sym("swallow") if op in ("clamp_max", "clamp_min") else Sym("foreach"))
            # the result object refuses a key only `other` has: locked result (any new key) / tensorclass (new field)
            extra = [p for p in (odens[0] or {}) if p not in dself]
            closed = (LOCK_CLOSES_RESULT and bool(s.get("locked")) and bool(extra)) or (
                s.get("kind", "td") == "tc" and any(p[0] not in {q[0] for q in dself} for p in extra))
            lines.append(sx([Sym("binary"), famy, closed, dd, _items_sx(dself, 0), _operand_sx(o, odens[0], 100)]))
    else:
        if op == "clamp" and all(o["k"] == "td" for o in case["args"]):
            lines.append(sx([Sym("clamp"), _items_sx(dself, 0), _items_sx(odens[0], 100), _items_sx(odens[1], 200)]))
        elif op == "clamp":
            lines.append(sx([Sym("ternary"), True, _items_sx(dself, 0), Sym("scalar"), Sym("scalar")]))
        else:
            lines.append(sx([Sym("ternary"), False, _items_sx(dself, 0), _operand_sx(case["args"][0], odens[0], 100),
                             _operand_sx(case["args"][1], odens[1], 200)]))
    return lines


def eval_model(case, answers):
    """turn the model's plan into tensors with torch: ("ok", canonical expectation) | ("raise",) | ("kernel", why)"""
    T = _imports()
    torch = T["torch"]
    fam, op, s = case["fam"], case["op"], case["self"]
    bs = list(s["bs"])
    _, dself = build_td(dict(s, kind="td", locked=False))
    if fam == "reduce":
        return eval_model_reduce(case, answers[0], dself)
    dens = [build_operand(o)[1] for o in case["args"]]
    _, inplace, _ = bin_ref(op, {}) if fam == "binary" else (None, op.endswith("_") and not op.endswith("__"), None)
    wrapped = not inplace and (AND_WRAPPED or op not in ("__and__", "__rand__"))
    answers = list(answers)
    B, perleaf = bs, False
    if wrapped:
        plan = answers.pop(0)
        if plan == "raise":
            return ("raise",)
        if plan != "direct":
            B = list(plan[1])
            perleaf = plan[0] == "perleaf"
    dref = None
    if fam == "binary" and op in DUNDER_MODEL:
        dref = dunder_ref(answers.pop(0))
        if dref is None:
            return ("raise",)
    cmp_ref = None
    if fam == "binary" and tc_dispatched(case):
        via = answers.pop(0)            # the operator the code applies to (other, self)
        cmp_ref = (lambda f: (lambda x, y: f(y, x)))(CMP_OPS[via])
    elif fam == "binary" and case.get("swap"):
        cmp_ref = (lambda f: (lambda x, y: f(y, x)))(CMP_OPS[op])
    ans = answers[0]
    if ans in ("raise", "kind"):
        return ("raise",) if ans == "raise" else ("skip", "leaf meets nested node")
    byid = {}
    for i, (k, t) in enumerate(dself.items()):
        byid[i] = (t, bs)
    for j, (o, d) in enumerate(zip(case["args"], dens)):
        if o["k"] in ("td", "dict"):
            for i, (k, t) in enumerate(d.items()):
                byid[100 * (j + 1) + i] = (t, list(o["bs"]) if o["k"] == "td" else bs)
    dflt = case.get("kw", {}).get("default")
    if isinstance(dflt, dict):
        byid[-1] = (build_operand(dflt)[1], None)

    def fetch(i, feat_rank=None):
        t, tb = byid[i]
        if wrapped and tb is not None and tb != B:
            t = t.expand(tuple(B) + tuple(t.shape[len(tb):]))
        return t

    def operand(j, x):
        o, d = case["args"][j], dens[j]
        if o["k"] == "t" and len(o["shape"]) and perleaf:
            return left_align(d, B, x.ndim)
        return d

    out = {}
    try:
        if fam == "binary" and op in COMPARE and case["args"][0]["k"] in ("td", "dict"):
            ref = cmp_ref if cmp_ref is not None else bin_ref(op, {})[0]

            def walk(ct, path):
                if ct[0] == "l":
                    out[path] = ref(fetch(ct[1]), fetch(ct[2]))
                else:
                    for k, sub in ct[1:]:
                        walk(sub, path + (k,))
            walk(ans[1], ())
        elif fam == "binary":
            kw = {k: v for k, v in case.get("kw", {}).items() if k != "default"}
            ref = dref if dref is not None else cmp_ref if cmp_ref is not None else bin_ref(op, kw)[0]
            fe = foreach_name(op) if (dref is None and not perleaf) else None
            swallow = op.rstrip("_") in ("clamp_max", "clamp_min")
            keys, xs, ys, lists = [], [], [], False
            for (k, l, r) in ans[1]:
                x = fetch(l)
                if r == "unchanged":
                    out[tuple(k.split("."))] = x
                    continue
                y = fetch(r[1]) if isinstance(r, list) else operand(0, x)
                lists = lists or isinstance(r, list)
                keys.append(tuple(k.split(".")))
                xs.append(x.clone() if inplace else x)
                ys.append(y)
            if fe is not None and keys:     # the plan says: one fused kernel call on the aligned lists
                try:
                    rr = getattr(torch, fe)(xs, ys if lists else ys[0], **kw)
                    rr = xs if inplace else rr
                except RuntimeError as e:
                    if swallow and "isDifferentiableType" not in str(e):
                        rr = xs             # base.py clamp_max/clamp_min: `except RuntimeError` without re-raise
                    else:
                        raise
                out.update(dict(zip(keys, rr)))
            else:
                for k, x, y in zip(keys, xs, ys):
                    out[k] = ref(x, y)
        elif op == "clamp" and all(o["k"] == "td" for o in case["args"]):
            for (k, v, lo, hi) in ans[1]:
                x = fetch(v)
                out[tuple(k.split("."))] = x.clamp(fetch(lo[1]) if lo != "none" else None, fetch(hi[1]) if hi != "none" else None)
        else:
            ref, _ = tern_ref(op, case.get("kw", {}))
            fe = foreach_name(op) if not perleaf else None
            kw = {k: v for k, v in case.get("kw", {}).items() if k == "value"}
            keys, xs, y1s, y2s = [], [], [], []
            l1 = l2 = False
            for (k, v, r1, r2) in ans[1]:
                x = fetch(v)
                l1, l2 = isinstance(r1, list), isinstance(r2, list)
                keys.append(tuple(k.split(".")))
                xs.append(x.clone() if inplace else x)
                y1s.append(fetch(r1[1]) if l1 else operand(0, x))
                y2s.append(fetch(r2[1]) if l2 else operand(1, x))
            if fe is not None and keys:
                rr = getattr(torch, fe)(xs, y1s if l1 else y1s[0], y2s if l2 else y2s[0], **kw)
                out.update(dict(zip(keys, xs if inplace else rr)))
            else:
                for k, x, y1, y2 in zip(keys, xs, y1s, y2s):
                    out[k] = ref(x, y1, y2)
    except Exception as e:  # noqa: BLE001  torch refuses the per-leaf computation the plan asks for
        return ("kernel", type(e).__name__)
    if not out and not inplace and fam == "binary":
        return ("none",)        # _fast_apply(..., filter_empty=True) of an empty result is None
    return ("ok", canon_expected(out, B if wrapped else bs))


def eval_model_reduce(case, ans, dself):
    torch = _imports()["torch"]
    op = case["op"]
    if ans == "raise":
        return ("raise",)
    bs, names, callp, post = ans[1]
    names = None if names == "none" else [None if n == "none" else n for n in names[1]]
    nb_in = len(case["self"]["bs"])
    kw = {}
    ckw = dict(case.get("kw", {}))
    if "dtype" in ckw:
        kw["dtype"] = getattr(torch, ckw["dtype"])
    if "correction" in ckw:
        kw["correction"] = ckw["correction"]
    out, out2 = {}, {}
    try:
        for k, x in dself.items():
            if callp == "plain":
                r = getattr(x, op)(**kw)
            elif callp == "feature":
                nb = len(case["self"]["bs"])
                xx = x.flatten(nb, -1) if x.ndim > nb else x.unsqueeze(-1)
                r = getattr(xx, op)(dim=-1, **kw)
            else:
                _, d, kd = callp
                k2 = dict(kw)
                if d != "nodefault":
                    k2["dim"] = None if d == "none" else d[1] if d[0] == "int" else tuple(d[1:])
                if kd != "nodefault":
                    k2["keepdim"] = kd == "t"
                r = getattr(x, op)(**k2)
            if post != "nopost" and not isinstance(r, tuple):
                if post == "reshape-ones":
                    pre = 0 if callp == "plain" else nb_in - 1
                    r = r.reshape((1,) * nb_in + tuple(r.shape[pre:]))
                else:
                    r = r.unsqueeze(post[1])
            if isinstance(r, tuple):
                out[k], out2[k] = r[0], r[1]
            else:
                out[k] = r
    except Exception as e:  # noqa: BLE001
        return ("kernel", type(e).__name__)
    exp = canon_expected(out, bs)
    exp["names"] = names
    if out2 and ckw.get("return_indices", True) and case["dim"] != "nodefault":
        exp["indices"] = canon_expected(out2, bs)
    return ("ok", exp)


def compare_model(case, res, ev):
    """None when the implementation did what the model's plan says, else (impl observation, model observation)"""
    if ev[0] == "skip":
        return None
    if ev[0] == "raise":
        return None if res["status"] == "raise" else (brief(res["got"]), "raise")
    if ev[0] == "none":
        ok = res["status"] == "ok" and res["got"].get("type") == "NoneType"
        return None if ok else (brief(res["got"]) if res["status"] == "ok" else "raise", "None (empty result)")
    if ev[0] == "kernel":
        # torch itself refuses the computation the plan asks for: the implementation must fail too
        return None if res["status"] == "raise" else (brief(res["got"]), "torch refuses the planned call: " + ev[1])
    want = ev[1]
    want["dtype_loose"] = loose_dtype(case)
    if res["status"] == "raise":
        _, dself = build_td(dict(case["self"], kind="td", locked=False))
        if case["fam"] == "binary" and kernel_rejects(case, dself, build_operand(case["args"][0])[1]):
            return None
        if case["fam"] == "ternary" and kernel_rejects_ternary(case, dself):
            return None
        return ("raise " + str(res["exc"]), brief(want))
    got = res["got"]
    if got.get("kind") not in ("td", "tc", "lazy", "pair"):
        return (brief(got), brief(want))
    d = diff_collection(got, want)
    if d is None and "indices" in want:
        d = diff_collection(got["indices"], want["indices"]) if got.get("kind") == "pair" else "no indices returned"
    if d is None and case["fam"] == "reduce" and got.get("names") != want["names"]:
        d = f"names {got.get('names')} != {want['names']}"
    if d is None and res.get("after") is not None:
        d = diff_collection(res["after"], want)
    return None if d is None else (d, "plan " + brief(want))


# ------------------------------------------------------------------------------------------------ the check
def nontrivial(case):
    """a case is non-trivial when pairing / broadcasting / dim arithmetic can go wrong on it"""
    fam = case["fam"]
    n = len(case["self"]["entries"])
    if fam == "unary":
        return n >= 2
    if fam == "reduce":
        return len(case["self"]["bs"]) >= 1 and n >= 1
    for o in case["args"]:
        if o["k"] in ("td", "dict") and (orders_differ(case["self"], o) or
                                          {tuple(e[0]) for e in o["entries"]} != {tuple(e[0]) for e in case["self"]["entries"]}):
            return True
        if o["k"] == "t" and len(o["shape"]) > 0:
            return True
    return n >= 2


def slim(r):
    return {k: r.get(k) for k in ("status", "exc", "got", "after", "fail", "tags", "sig", "returned_self")} | {"refkind": r["ref"][0]}


def load_corpus():
    import glob
    d = os.path.join(os.path.dirname(os.path.dirname(os.path.abspath(__file__))), "corpus", PID)
    out = []
    for f in sorted(glob.glob(os.path.join(d, "*.json"))):
        body = json.load(open(f))
        out.extend(body["cases"] if "cases" in body else [body["case"]])
    return out


def check_views(R):
    """utils.expand_as_right on real tensors vs the view model (shape and element read at sampled positions)"""
    T = _imports()
    torch = T["torch"]
    from tensordict.utils import expand_as_right
    rng = R.rng
    specs, lines = [], []
    for _ in range(300 if R.quick else 6000):
        B = [rng.choice([1, 2, 3]) for _ in range(rng.randrange(0, 4))]
        s = [(1 if rng.random() < 0.4 else b) for b in B][rng.randrange(0, len(B) + 1):] if rng.random() < 0.85 else \
            [rng.choice([1, 2, 3]) for _ in range(rng.randrange(0, 4))]
        feat = [rng.choice([1, 2, 3]) for _ in range(rng.randrange(0, 3))]
        full = B + feat
        idx = [rng.randrange(d) for d in full]
        specs.append((s, B, feat, idx))
        lines.append(sx([Sym("opview"), s, B, feat, idx]))
    ans = R.model(lines)
    for (s, B, feat, idx), a in zip(specs, ans):
        n = 1
        for d in s:
            n *= d
        t = torch.arange(n).reshape(s)

        def real():
            v = expand_as_right(t.expand(B), torch.zeros(B + feat))
            return [list(v.shape), int(v[tuple(idx)])]
        impl = call(real)
        io = impl[1] if impl[0] == "ok" else "raise"
        mo = "raise" if a == "raise" else [a[1][0], int(t[tuple(a[1][1])]) if len(a[1][1]) == len(s) else "bad-index"]
        R.case(("view", tuple(s), tuple(B), tuple(feat), tuple(idx)), nontrivial=len(s) > 0 and len(feat) > 0)
        R.count("view:" + ("ok" if io != "raise" else "raise"))
        R.traces += 1
        if io != mo:
            R.mismatch("expand_as_right/operand_view", {"tensor": s, "batch": B, "feat": feat, "index": idx}, io, mo)
        # oracle (independent of the model): the element read is the one torch's left-aligned broadcast reads
        if io != "raise":
            want = int(left_align(t, B, len(B) + len(feat)).expand(B + feat)[tuple(idx)]) if bshape(s, B) == B else None
            if want is not None and io[1] != want:
                R.oracle_fail("broadcast-left", {"helper": "expand_as_right", "tensor": s, "batch": B, "feat": feat, "index": idx},
                              {"got": io[1], "want": want}, {"site": "utils.expand_as_right", "pattern": "none"})


def check_dispatch(R):
    """which comparison of a tensorclass RIGHT operand TensorDict.__xx__ / LazyStackedTensorDict.__xx__ invoke, observed
    on a probe tensorclass whose six comparison methods record their calls, vs the model's tc_dispatch / lazy_dispatch"""
    T = _imports()
    torch = T["torch"]
    cls = T["tensorclass"](type("C09Probe", (), {"__annotations__": {"a": object}}))
    calls = []

    def rec(name):
        def f(self, other):
            calls.append((name, id(other)))
            return "probe-result"
        return f
    for n in CMP_OPS:
        setattr(cls, n, rec(n))
    probe = cls(a=torch.zeros(2), batch_size=[2])
    td = T["TensorDict"]({"a": torch.ones(2)}, [2])
    lazy = T["Lazy"].lazy_stack([T["TensorDict"]({"a": torch.ones(())}, []) for _ in range(2)], 0)
    ans = R.model([sx([Sym("cmpdispatch"), n, Sym(k)]) for k in ("tc", "lazy") for n in CMP_OPS])
    i = 0
    for kind, left in (("tc", td), ("lazy", lazy)):
        for n in CMP_OPS:
            del calls[:]
            r = call(getattr(left, n), probe)
            io = [calls[0][0], calls[0][1] == id(left)] if (r == ("ok", "probe-result") and len(calls) == 1) else ["other", r[0]]
            mo = [ans[i], True]
            i += 1
            R.case(("cmpdispatch", kind, n), nontrivial=True)
            R.count("cmpdispatch:" + kind)
            R.traces += 1
            if io != mo:
                R.mismatch("comparison dispatch through a tensorclass right operand", {"left": kind if kind == "lazy" else "td",
                                                                                       "op": n}, io, mo)


LAZY_BIN = ["add", "sub", "mul", "div", "maximum", "minimum", "bitwise_and", "logical_and"]


def _member_orders(spec):
    """leaf keys of every member of a lazy operand spec, in the member's traversal order"""
    n = spec["bs"][spec["stack_dim"]]
    mo = spec.get("member_orders")
    base = [tuple(e[0]) for e in spec["entries"]]
    return [traversal([tuple(q) for q in mo[i]]) if mo else traversal(base) for i in range(n)]


def lazy_lines(case):
    """protocol line for a case whose self is a lazy stack and whose dispatch Model/C09_Lazy.v transcribes
    (None otherwise): ("binary" | "bcast" | "softmax", line)"""
    fam, op, s = case["fam"], case["op"], case["self"]
    if s.get("kind") != "lazy" or not s["entries"]:
        return None
    if s.get("own") and not (fam == "binary" and op in LAZY_BIN and case["args"][0]["k"] == "t" and case["args"][0]["shape"]):
        return None                         # stacks with exclusive keys: only the broadcast decision is tied to the model
    if fam == "reduce" and op == "softmax" and isinstance(case["dim"], int):
        return ("softmax", sx([Sym("lazysoftmax"), len(s["bs"]), s["stack_dim"], case["dim"]]))
    if fam != "binary" or op not in LAZY_BIN or "alpha" in case.get("kw", {}):
        return None
    o = case["args"][0]
    okinds = [_okind_sx(o)]
    nd = (o["k"] == "t" and len(o["shape"]) > 0) or (o["k"] == "td" and list(o["bs"]) != list(s["bs"]) and len(o["bs"]) > 0)
    if nd:
        return ("bcast", sx([Sym("lazybcast"), list(s["bs"]), s["stack_dim"], bool(s.get("own")), okinds]))
    if o["k"] == "td" and (o.get("kind") != "lazy" or o.get("stack_dim") != s["stack_dim"]):
        return None                         # lazy (op) dense of the same shape: outside the property's operand kinds
    d = case.get("kw", {}).get("default")
    dd = Sym("none") if d is None else Sym("inter") if d == "intersection" else Sym("val")
    famy = Sym("loop") if op in BIN_LOOP else Sym("foreach")
    ms = [[[pstr(k), 1000 * i + j] for j, k in enumerate(ks)] for i, ks in enumerate(_member_orders(s))]
    if o["k"] == "td":
        mo = [[[pstr(k), 100000 + 1000 * i + j] for j, k in enumerate(ks)] for i, ks in enumerate(_member_orders(o))]
        osx = [Sym("lazy"), mo]
    elif o["k"] in ("py",) or (o["k"] == "t" and not o["shape"]):
        osx = Sym("scalar")
    else:
        return None
    return ("binary", sx([Sym("lazybinary"), famy, dd, ms, osx]))


def eval_lazy(case, kind, ans):
    """what the model's answer predicts for the implementation: ("raise",) | ("ok", expectation) | ("skip", why)"""
    T = _imports()
    torch = T["torch"]
    s = case["self"]
    sd = s["stack_dim"]
    if ans == "raise":
        return ("raise",)
    if kind == "softmax":
        return ("ok", {"kind": "td" if ans[0] == "dense" else "lazy", "bs": list(s["bs"])})
    if kind == "bcast":
        if ans == "direct":
            return ("skip", "direct")
        if ans[0] == "member":
            return ("ok", {"kind": "lazy", "bs": list(ans[1]), "stack_dim": ans[3]}) if ans[2] != "raise" else ("raise",)
        if ans[0] == "dense":
            return ("raise",) if ans[1] == "raise" else ("ok", {"kind": "td", "bs": list(ans[1][1])})
        return ("skip", str(ans[0]))
    if ans[1][0] != "members":
        return ("skip", "stray")
    _, dself = build_td(dict(s, kind="td", locked=False))
    o = case["args"][0]
    oden = build_operand(dict(o, kind="td", locked=False) if o["k"] == "td" else o)[1]
    dflt = case.get("kw", {}).get("default")
    dv = build_operand(dflt)[1] if isinstance(dflt, dict) else None
    sk, ok = _member_orders(s), (_member_orders(o) if o["k"] == "td" else None)
    ref = bin_ref(case["op"], {})[0]

    def fetch(i):
        if i == -1:
            return dv
        if i >= 100000:
            m, j = divmod(i - 100000, 1000)
            return oden[ok[m][j]].select(sd, m)
        m, j = divmod(i, 1000)
        return dself[sk[m][j]].select(sd, m)
    per_key = {}
    try:
        for m, ents in enumerate(ans[1][1]):
            for (k, l, r) in ents:
                x = fetch(l)
                y = fetch(r[1]) if isinstance(r, list) else oden
                per_key.setdefault(tuple(k.split(".")), {})[m] = ref(x, y)
        n = s["bs"][sd]
        out = {k: torch.stack([v[m] for m in range(n)], sd) for k, v in per_key.items() if len(v) == n}
    except Exception as e:  # noqa: BLE001
        return ("skip", "torch refuses: " + type(e).__name__)
    if not out:
        return ("none",)        # every member's _fast_apply(..., filter_empty=True) is empty: the result is None
    exp = canon_expected(out, s["bs"])
    exp["kind"] = "lazy"
    return ("ok", exp)


def check_lazy(R, cases, results):
    """lazy-stack dispatch (Model/C09_Lazy.v) vs the implementation: fused binary path on member-indexed keys (values),
    _maybe_broadcast_other's lazy branch and softmax (result container and batch size; values are the oracle's)"""
    sel = []
    for c, r in zip(cases, results):
        ll = lazy_lines(c)
        if ll is not None:
            sel.append((c, r, ll))
    answers = R.model([ll[1] for _, _, ll in sel]) if sel else []
    for (c, r, ll), a in zip(sel, answers):
        ev = eval_lazy(c, ll[0], a)
        R.traces += 1
        R.count("lazy-model:" + ll[0] + ":" + ev[0])
        if ev[0] == "skip":
            continue
        d = None
        if ev[0] == "none":
            if not (r["status"] == "ok" and r["got"].get("type") == "NoneType"):
                d = (brief(r["got"]) if r["status"] == "ok" else "raise", "None (empty result)")
        elif ev[0] == "raise":
            if r["status"] != "raise":
                d = (brief(r["got"]), "raise")
        elif r["status"] == "raise":
            if not (c["fam"] == "binary" and r["refkind"] in ("illegal",)):
                d = ("raise " + str(r["exc"]), brief(ev[1]))
        else:
            got, want = r["got"], ev[1]
            if got.get("kind") != want["kind"] or got.get("bs") != want["bs"] or (
                    "stack_dim" in want and got.get("stack_dim") != want["stack_dim"]):
                d = (f"{got.get('kind')} {got.get('bs')} stack_dim {got.get('stack_dim')}",
                     f"{want['kind']} {want['bs']} stack_dim {want.get('stack_dim')}")
            elif "leaves" in want:
                want["dtype_loose"] = True
                dd = diff_collection(got, want)
                if dd:
                    d = (dd, "plan " + brief(want))
        if d is not None:
            R.mismatch("lazy:" + ll[0] + ":" + c["op"], c, d[0], d[1])
    # element level: the slice a member hands to torch, read through real tensors
    T = _imports()
    torch = T["torch"]
    from tensordict.utils import expand_as_right
    rng = R.rng
    specs, lines = [], []
    for _ in range(200 if R.quick else 4000):
        B = [rng.choice([1, 2, 3]) for _ in range(rng.randrange(1, 4))]
        sshape = [(1 if rng.random() < 0.4 else b) for b in B][rng.randrange(0, len(B) + 1):]
        sd = rng.randrange(len(B))
        i = rng.randrange(B[sd])
        feat = [rng.choice([1, 2, 3]) for _ in range(rng.randrange(0, 3))]
        Bm = B[:sd] + B[sd + 1:]
        pos = [rng.randrange(d) for d in Bm + feat]
        specs.append((sshape, B, sd, i, feat, pos))
        lines.append(sx([Sym("memberview"), sshape, B, sd, i, feat, pos]))
    for (sshape, B, sd, i, feat, pos), a in zip(specs, R.model(lines)):
        n = 1
        for d in sshape:
            n *= d
        t = torch.arange(n).reshape(sshape)
        Bm = B[:sd] + B[sd + 1:]

        def real():
            sl = t.expand(B).unbind(sd)[i]
            v = expand_as_right(sl.expand(Bm), torch.zeros(Bm + feat)) if Bm else sl
            return int(v[tuple(pos)]) if Bm else int(v)
        impl = call(real)
        io = impl[1] if impl[0] == "ok" else "raise"
        mo = "raise" if a == "raise" else (int(t[tuple(a[1][1])]) if len(a[1][1]) == len(sshape) else "bad-index")
        R.case(("memberview", tuple(sshape), tuple(B), sd, i, tuple(feat), tuple(pos)), nontrivial=len(B) > 1)
        R.count("memberview")
        R.traces += 1
        if io != mo:
            R.mismatch("lazy member operand view", {"tensor": sshape, "batch": B, "stack_dim": sd, "member": i, "feat": feat, "index": pos}, io, mo)
        # oracle, independent of the model: the element the dense stack reads at the same position
        full = pos[:sd] + [i] + pos[sd:]
        want = int(left_align(t, B, len(B) + len(feat)).expand(B + feat)[tuple(full)])
        if io != "raise" and io != want:
            R.oracle_fail("lazy-broadcast-left", {"tensor": sshape, "batch": B, "stack_dim": sd, "member": i, "feat": feat, "index": pos},
                          {"got": io, "want": want}, {"site": "lazy member slice", "pattern": "none"})


def check_expand(R):
    """a stack that stays lazy under expand (members with exclusive keys), on the real library: stack dim of
    lazy.expand(B) and the element member i of the expanded stack reads, vs Model/C09_Lazy expand_stack_dim / bidx"""
    T = _imports()
    torch = T["torch"]
    rng = R.rng
    specs, lines = [], []
    for _ in range(150 if R.quick else 3000):
        bs = [rng.choice([2, 3, 3]) for _ in range(rng.randrange(1, 4))]
        sd = rng.randrange(len(bs))
        bs[sd] = max(bs[sd], 2)
        sq = bs[sd]
        B = [rng.choice([sq, sq, 2, 3]) for _ in range(rng.randrange(0, 3))] + bs      # rank equal to / above the stack's
        i = rng.randrange(bs[sd])
        Bm = list(B)
        sdp = len(B) - len(bs) + sd
        del Bm[sdp]
        jb = [rng.randrange(d) for d in Bm]
        specs.append((bs, B, sd, i, jb))
        lines.append(sx([Sym("expandmember"), bs, B, sd, i, jb]))
    for (bs, B, sd, i, jb), a in zip(specs, R.model(lines)):
        n = 1
        for d in bs:
            n *= d
        t = torch.arange(n).reshape(bs)
        members = []
        for m, sl in enumerate(t.unbind(sd)):
            members.append(T["TensorDict"]({"a": sl, "own%d" % m: torch.zeros(sl.shape)}, list(sl.shape)))
        lz = T["Lazy"].lazy_stack(members, sd)

        def real():
            e = lz.expand(B) if list(B) != bs else lz
            if not isinstance(e, T["Lazy"]):
                return "dense"
            return [e.stack_dim, int(e.tensordicts[i].get("a")[tuple(jb)])]
        impl = call(real)
        io = impl[1] if impl[0] == "ok" else "raise"
        mo = [a[0], int(t[tuple(a[1])])] if len(a[1]) == len(bs) else "bad-index"
        R.case(("expandmember", tuple(bs), tuple(B), sd, i, tuple(jb)), nontrivial=len(B) > len(bs))
        R.count("expandmember:" + ("above" if len(B) > len(bs) else "equal"))
        R.traces += 1
        if io != mo:
            R.mismatch("lazy expand: stack dim / member element", {"batch": bs, "target": B, "stack_dim": sd, "member": i, "index": jb}, io, mo)
        # oracle, independent of the model: torch's expand of the dense stack, read with i at the shifted dim
        if isinstance(io, list):
            full = jb[:io[0]] + [i] + jb[io[0]:]
            want = int(t.expand(B)[tuple(full)])
            if io[1] != want:
                R.oracle_fail("lazy-expand-member", {"batch": bs, "target": B, "stack_dim": sd, "member": i, "index": jb},
                              {"got": io[1], "want": want}, {"site": "LazyStackedTensorDict.expand", "pattern": "none"})


def main(R):
    R.rule = ("cases = corpus + every spelling found by reflection (x td/lazy/tensorclass x operand kinds) + random cases "
              "(45% binary, 10% unary, 20% ternary, 25% reductions); a case is distinct by its full JSON description and "
              "non-trivial when pairing/broadcast/dim arithmetic can go wrong: a tensordict operand with a different leaf "
              "order or key set, a tensor operand of rank >= 1, >= 2 leaves, or a reduction over >= 1 batch dim")
    R.assumptions = [
        "only integer-valued data is generated; results that are not small integers (div, mean, std, transcendental unary "
        "ops, softmax) are compared with rtol=atol=1e-4, integer-valued ones exactly, dtypes and shapes exactly",
        "an exception is an oracle failure only (a) where the property demands a value on a plain documented usage "
        "(scalar / 0-d tensor / same-key same-batch tensordict operand, unary ops, reductions over an int batch dim) and "
        "(b) never where torch itself rejects the per-key computation; other raising combinations are counted as "
        "'unsupported' and only pinned by the model",
        "empty tensordicts are outside the property (no entry to speak about); mixing a lazy stack with a dense "
        "tensordict operand is counted as unsupported",
        "dim names are checked weakly (one per result batch dim; a name that is present is the surviving input name)",
        "the _foreach_* kernels are trusted to equal the per-tensor op on every list element"]
    R.trusted = ["torch 2.x per-tensor ops as the reference for every key; torch.broadcast_shapes as the batch broadcast",
                 "harness/c09.py: builders, canonicalisation, plan evaluation of the model's answers with torch"]
    R.step_prove()
    ok = R.step_driver()
    _imports()
    found, unknown, missing = reflect_methods()
    R.extra["methods_by_reflection"] = len(found)
    R.extra["unclassified_methods"] = unknown
    for m in missing:
        R.broken.append(f"method {m} of the C09 op tables no longer exists on TensorDictBase")
    for u in unknown:
        R.count("unclassified-method:" + u)
    rng = R.rng
    cases = load_corpus()
    ncorpus = len(cases)
    reps = 1 if R.quick else 6
    for _ in range(reps):
        cases += systematic_cases(rng, found)
        cases += compare_grid(rng)
    cases += random_cases(rng, 15000 if R.quick else 200000)
    results = []
    for c in cases:
        results.append(slim(run_case(c)))
    lines, idx = [], []
    for c in cases:
        if ok and model_covers(c):
            ls = model_lines(c)
            idx.append((len(lines), len(ls)))
            lines += ls
        else:
            idx.append(None)
    answers = R.model(lines) if (ok and lines) else []
    for i, (c, r, ix) in enumerate(zip(cases, results, idx)):
        key = json.dumps(c, sort_keys=True)
        sample = None
        if i % 997 == 0:
            sample = {"case": c, "implementation": r["status"], "oracle": r["refkind"]}
        R.case(key, nontrivial=nontrivial(c), sample=sample)
        R.count(f"{c['fam']}:{r['status']}/{r['refkind']}")
        R.count("self:" + c["self"].get("kind", "td"))
        for o in c.get("args", []):
            R.count("operand:" + operand_kind(o))
        for tg in r["tags"]:
            R.count("tolerated:" + tg)
        if i < ncorpus:
            R.count("corpus")
        if r["fail"]:
            label, detail, sig = r["fail"]
            R.oracle_fail(label, c, detail, sig)
        if ix is not None:
            ev = eval_model(c, answers[ix[0]:ix[0] + ix[1]])
            R.traces += 1
            R.count("model:" + ev[0])
            d = compare_model(c, r, ev)
            if d is not None:
                R.mismatch("plan:" + c["fam"] + ":" + c["op"], c, d[0], d[1])
    if ok:
        check_views(R)
        check_dispatch(R)
        check_lazy(R, cases, results)
        check_expand(R)
    R.extra["cases_with_model_plan"] = sum(1 for ix in idx if ix is not None)


def replay(body):
    _imports()
    from . import core
    case = body.get("case") or (body.get("no_longer_checks") or [{}])[0].get("case")
    if not case or "fam" not in case:
        print(json.dumps(body, indent=1, default=str)[:3000])
        return 0
    print("case:", json.dumps(case))
    r = run_case(case)
    print("implementation:", r["status"], r["exc"] or "", brief(r["got"]) if r["got"] else "")
    if r.get("after"):
        print("self afterwards:", brief(r["after"]))
    ref = r["ref"]
    if ref[0] == "ok" and case["fam"] != "reduce":
        print("oracle expects:", brief(canon_expected(ref[1], ref[2])))
    elif ref[0] == "ok":
        w = ref[1]
        print("oracle expects:", brief({k: (canon_expected(v, w["bs"]) if k == "leaves" else (canon_tensor(v) if hasattr(v, "shape") else v))
                                        for k, v in w.items() if k != "indices"}))
    else:
        print("oracle:", ref[0], ref[1])
    print("oracle verdict:", r["fail"] if r["fail"] else "pass")
    if model_covers(case):
        ok, out = core.build_driver(PID)
        if ok:
            ls = model_lines(case)
            ans = run_model(ls)
            print("model lines:", ls)
            print("model answers:", ans)
            ev = eval_model(case, ans)
            print("model plan evaluated:", ev[0], brief(ev[1]) if len(ev) > 1 and isinstance(ev[1], dict) else (ev[1] if len(ev) > 1 else ""))
            print("model vs implementation:", compare_model(case, slim(r), ev) or "agree")
    else:
        print("model: case not covered by the Gallina model (oracle only)")
    return 0
