"""C09 — pointwise ops, comparisons and reductions act entry by entry, matched by key (DESIGN.md §4 C09).

Three layers per case (kept apart, BUILDING.md §6):
  * reference (the spec oracle): torch applied to (self[k], other[k]) for every leaf key k, with tensors broadcast
    against the batch dims from the left; key-set mismatch without default must raise.  Independent of the model.
  * implementation: the public method / operator of tensordict on the same operands.
  * model: the extracted Gallina model returns a *plan* (which self leaf is combined with which operand leaf under
    which result key; the shape arithmetic of the broadcast; batch size / names / per-leaf dim of a reduction) that
    the harness evaluates with torch and compares with what the implementation returned.
Only integer-valued data is generated; non-integer float results (div, mean, transcendental unary ops) are compared
with a tolerance, integer-valued ones exactly.
"""
import itertools
import json
import math
import operator
import os
import sys

from . import cext
from .core import Sym, some, sx, run_model as _run_model

PID = "C09"


def run_model(lines):
    return _run_model(PID, lines)


_T = {}


def _imports():
    if _T:
        return _T
    cext.install()
    import torch
    import tensordict
    from tensordict import TensorDict, LazyStackedTensorDict, TensorDictBase, is_tensor_collection
    from tensordict.tensorclass import tensorclass, is_tensorclass
    torch.set_num_threads(1)
    _T.update(torch=torch, tensordict=tensordict, TensorDict=TensorDict, Lazy=LazyStackedTensorDict,
              Base=TensorDictBase, is_tc=is_tensor_collection, tensorclass=tensorclass, is_tensorclass=is_tensorclass)
    return _T


# ------------------------------------------------------------------------------------------------ data
PRIMES = [2, 3, 5, 7, 11, 13, 17, 19, 23, 29, 31, 37, 41, 43, 47, 53, 59, 61, 67, 71, 73, 79, 83, 89, 97, 101, 103,
          107, 109, 113, 127, 131]
UNIVERSE = [("a",), ("b",), ("c",), ("d",), ("n", "x"), ("n", "y"), ("n", "m", "z"), ("o", "x")]
FEAT = {("a",): [], ("b",): [3], ("c",): [2, 2], ("d",): [], ("n", "x"): [2], ("n", "y"): [], ("n", "m", "z"): [1],
        ("o", "x"): [3]}
DTYPES = ["float32", "int64", "bool", "float64", "int32"]


def pstr(path):
    return ".".join(path)


def leaf_value(role, path, shape, dtype, mode="norm"):
    """deterministic integer-valued content: a distinct prime per (operand role, key) plus a pattern that varies along
    every dim, so that mis-pairing of keys, a wrong broadcast or a reduction over the wrong dim changes the value"""
    torch = _imports()["torch"]
    path = tuple(path)
    u = UNIVERSE.index(path) if path in UNIVERSE else (sum(map(ord, pstr(path))) % 8)
    n = 1
    for s in shape:
        n *= s
    ar = torch.arange(n, dtype=torch.int64)
    if mode == "small":       # exponents / bases of pow, weights: 2..9, still distinct per key within one operand
        v = (2 + (u + 3 * role) % 8) + (ar % 2)
    elif mode == "signed":    # unary ops: both signs
        v = (PRIMES[(role * 8 + u) % 32] + ar % 5) * (1 - 2 * (ar % 2))
    elif mode == "unit":      # domain of acos/asin/atanh-like functions: quarters in [-1, 1]
        v = ((u + ar) % 9) - 4
    else:
        v = PRIMES[(role * 8 + u) % 32] + ar % 5
    v = v.reshape(shape)
    if dtype == "bool":
        return ((v * (u + 2) + ar.reshape(shape)) % 3 == 0)
    t = v.to(getattr(torch, dtype))
    if mode == "unit" and dtype.startswith("float"):
        t = t / 4
    return t


def dense_of(spec):
    """ground-truth leaves {path: tensor} of an operand spec, insertion order = spec order"""
    return {tuple(p): leaf_value(spec.get("role", 0), p, list(spec["bs"]) + list(f), dt, spec.get("mode", "norm"))
            for (p, f, dt) in spec["entries"]}


_TC_CACHE = {}


def _tc_class(top_names):
    T = _imports()
    key = tuple(sorted(top_names))
    if key not in _TC_CACHE:
        ann = {n: object for n in key}
        cls = type("TC_" + "_".join(key) if key else "TC_empty", (), {"__annotations__": ann})
        _TC_CACHE[key] = T["tensorclass"](cls)
    return _TC_CACHE[key]


def _plain_td(dense, bs, order=None, names=None):
    T = _imports()
    td = T["TensorDict"]({}, batch_size=list(bs))
    for p in (order if order is not None else list(dense)):
        td.set(tuple(p) if len(p) > 1 else p[0], dense[tuple(p)])
    if names is not None and len(bs):
        td.names = list(names)
    return td


def build_td(spec):
    """the object under test for an operand spec (kind td / lazy / tc)"""
    T = _imports()
    torch = T["torch"]
    dense = dense_of(spec)
    bs = list(spec["bs"])
    kind = spec.get("kind", "td")
    if kind == "lazy":
        sd = spec["stack_dim"]
        members = []
        orders = spec.get("member_orders")
        for i in range(bs[sd]):
            sub = {p: t.select(sd, i) for p, t in dense.items()}
            order = [tuple(p) for p in orders[i]] if orders else None
            members.append(_plain_td(sub, bs[:sd] + bs[sd + 1:], order))
        obj = T["Lazy"].lazy_stack(members, sd)
        if spec.get("names") is not None and len(bs):
            obj.names = list(spec["names"])
    else:
        obj = _plain_td(dense, bs, None, spec.get("names"))
        if kind == "tc":
            tops = []
            for p in dense:
                if p[0] not in tops:
                    tops.append(p[0])
            obj = _tc_class(tops).from_tensordict(obj)
    if spec.get("locked"):
        obj.lock_()
    return obj, dense


def nested_dict(dense):
    out = {}
    for p, t in dense.items():
        d = out
        for k in p[:-1]:
            d = d.setdefault(k, {})
        d[p[-1]] = t
    return out


def build_operand(o):
    """(object handed to the implementation, ground truth) for an operand spec"""
    torch = _imports()["torch"]
    k = o["k"]
    if k == "none":
        return None, None
    if k == "py":
        v = o["v"]
        return v, v
    if k == "t":
        t = leaf_value(o.get("role", 1), ("a",), list(o["shape"]), o.get("dtype", "float32"), o.get("mode", "norm"))
        if o.get("offset"):
            t = t + o["offset"]
        return t, t
    if k == "td":
        return build_td(o)
    if k == "dict":
        dense = dense_of(o)
        return nested_dict(dense), dense
    raise ValueError(k)


# ------------------------------------------------------------------------------------------------ comparison helpers
def canon_tensor(t):
    return [list(t.shape), str(t.dtype).replace("torch.", ""), t.detach().reshape(-1).tolist()]


def close_vals(a, b):
    """integer-valued numbers are compared exactly; other floats with a tolerance (never bit-exactly)"""
    if len(a) != len(b):
        return False
    for x, y in zip(a, b):
        if isinstance(x, bool) or isinstance(y, bool) or (isinstance(x, int) and isinstance(y, int)):
            if x != y:
                return False
            continue
        x, y = float(x), float(y)
        if math.isnan(x) or math.isnan(y):
            if not (math.isnan(x) and math.isnan(y)):
                return False
            continue
        if math.isinf(x) or math.isinf(y):
            if x != y:
                return False
            continue
        if x == y:
            continue
        if float(x).is_integer() and float(y).is_integer() and abs(x) < 2 ** 24 and abs(y) < 2 ** 24:
            return False
        if abs(x - y) > 1e-4 + 1e-4 * max(abs(x), abs(y)):
            return False
    return True


def same_canon(a, b):
    return a[0] == b[0] and a[1] == b[1] and close_vals(a[2], b[2])


def canon_collection(r):
    """what the property talks about for a returned collection: batch size, names, leaves by key"""
    T = _imports()
    if T["is_tensorclass"](r):
        kind = "tc"
    elif isinstance(r, T["Lazy"]):
        kind = "lazy"
    else:
        kind = "td"
    leaves = {}
    for k, v in r.items(True, True):
        k = (k,) if isinstance(k, str) else tuple(k)
        leaves[pstr(k)] = canon_tensor(v)
    names = None
    try:
        if r._has_names():
            names = list(r.names)
    except Exception:  # noqa: BLE001
        names = "unreadable"
    return {"kind": kind, "bs": list(r.batch_size), "names": names, "leaves": leaves}


def canon_expected(exp, bs):
    return {"bs": list(bs), "leaves": {pstr(k): canon_tensor(v) for k, v in exp.items()}}


def diff_collection(got, want):
    """first difference between a canonical result and the canonical expectation (None if they agree)"""
    if got["bs"] != want["bs"]:
        return f"batch_size {got['bs']} != {want['bs']}"
    gk, wk = sorted(got["leaves"]), sorted(want["leaves"])
    if gk != wk:
        return f"keys {gk} != {wk}"
    for k in wk:
        g, w = got["leaves"][k], want["leaves"][k]
        if g[0] != w[0]:
            return f"leaf {k}: shape {g[0]} != {w[0]}"
        if g[1] != w[1]:
            return f"leaf {k}: dtype {g[1]} != {w[1]}"
        if not close_vals(g[2], w[2]):
            return f"leaf {k}: values {g[2][:8]} != {w[2][:8]}"
    return None


def call(f, *a, **k):
    try:
        return ("ok", f(*a, **k))
    except Exception as e:  # noqa: BLE001 -- an exception is an observation
        return ("raise", type(e).__name__)


def bshape(*shapes):
    torch = _imports()["torch"]
    try:
        return list(torch.broadcast_shapes(*[tuple(s) for s in shapes]))
    except Exception:  # noqa: BLE001
        return None


def left_align(t, B, leaf_ndim):
    """`t` broadcast against the batch shape B (from the left of the leaf), then unsqueezed on the right to leaf rank"""
    t = t.broadcast_to(tuple(B))
    return t.reshape(tuple(B) + (1,) * (leaf_ndim - len(B)))


# ------------------------------------------------------------------------------------------------ op tables
def _m(name):
    return lambda x, *a, **k: getattr(x, name)(*a, **k)


UNARY_EXACT = ["abs", "neg", "sign", "trunc", "ceil", "floor", "round", "frac", "isfinite", "isnan", "isneginf",
               "isposinf", "isreal", "__abs__", "__neg__", "__invert__"]
UNARY_FLOAT = ["acos", "asin", "atan", "cos", "cosh", "sin", "sinh", "tan", "tanh", "exp", "expm1", "log", "log10",
               "log1p", "log2", "sqrt", "reciprocal", "sigmoid", "erf", "erfc", "lgamma"]
UNARY_INPLACE = ["abs_", "neg_", "sign_", "trunc_", "ceil_", "floor_", "round_", "frac_", "acos_", "asin_", "atan_",
                 "cos_", "cosh_", "sin_", "sinh_", "tan_", "tanh_", "exp_", "expm1_", "log_", "log10_", "log1p_",
                 "log2_", "sqrt_", "reciprocal_", "sigmoid_", "erf_", "erfc_", "lgamma_"]
BIN_FOREACH = ["add", "sub", "mul", "div", "pow", "maximum", "minimum", "clamp_max", "clamp_min"]
BIN_LOOP = ["bitwise_and", "logical_and"]
BIN_INPLACE = [n + "_" for n in BIN_FOREACH]
# operator spellings: name -> (reference on leaves (x = self leaf, y = operand), in-place?, reflected?)
BIN_DUNDER = {
    "__add__": (lambda x, y: x + y, False, False), "__radd__": (lambda x, y: y + x, False, True),
    "__iadd__": (lambda x, y: operator.iadd(x, y), True, False),
    "__sub__": (lambda x, y: x - y, False, False), "__rsub__": (lambda x, y: y - x, False, True),
    "__isub__": (lambda x, y: operator.isub(x, y), True, False),
    "__mul__": (lambda x, y: x * y, False, False), "__rmul__": (lambda x, y: y * x, False, True),
    "__imul__": (lambda x, y: operator.imul(x, y), True, False),
    "__truediv__": (lambda x, y: x / y, False, False), "__rtruediv__": (lambda x, y: y / x, False, True),
    "__itruediv__": (lambda x, y: operator.itruediv(x, y), True, False),
    "__pow__": (lambda x, y: x ** y, False, False), "__rpow__": (lambda x, y: y ** x, False, True),
    "__ipow__": (lambda x, y: operator.ipow(x, y), True, False),
    "__and__": (lambda x, y: x & y, False, False), "__rand__": (lambda x, y: y & x, False, True),
    "__or__": (lambda x, y: x | y, False, False), "__ror__": (lambda x, y: y | x, False, True),
    "__xor__": (lambda x, y: x ^ y, False, False), "__rxor__": (lambda x, y: y ^ x, False, True),
    "__eq__": (lambda x, y: x == y, False, False), "__ne__": (lambda x, y: x != y, False, False),
    "__lt__": (lambda x, y: x < y, False, False), "__le__": (lambda x, y: x <= y, False, False),
    "__gt__": (lambda x, y: x > y, False, False), "__ge__": (lambda x, y: x >= y, False, False),
}
COMPARE = ["__eq__", "__ne__", "__lt__", "__le__", "__gt__", "__ge__", "__or__", "__xor__", "__ror__", "__rxor__"]
TERNARY_FOREACH = ["lerp", "addcdiv", "addcmul", "lerp_", "addcdiv_", "addcmul_"]
TERNARY_OTHER = ["clamp", "where"]
REDUCTIONS_TUPLE = ["sum", "nansum", "mean", "nanmean", "std", "var"]          # tuple_ok=True
REDUCTIONS_INT = ["prod", "amin", "amax", "min", "max"]                       # tuple_ok=False
REDUCTIONS_CUM = ["cummin", "cummax"]
REDUCTIONS_BOOL = ["all", "any"]
REDUCTIONS_OTHER = ["logsumexp", "softmax", "norm"]
ALL_REDUCTIONS = REDUCTIONS_TUPLE + REDUCTIONS_INT + REDUCTIONS_CUM + REDUCTIONS_BOOL + REDUCTIONS_OTHER
# public callables shared with torch.Tensor that are not arithmetic / comparison / logical / reduction methods
NOT_C09 = {"apply_", "bfloat16", "bool", "chunk", "clone", "contiguous", "copy_", "cpu", "cuda", "data_ptr", "detach",
           "detach_", "dim", "double", "expand", "expand_as", "fill_", "flatten", "float", "gather", "half", "int",
           "is_contiguous", "is_floating_point", "is_shared", "masked_fill", "masked_fill_", "masked_select",
           "ndimension", "new_empty", "new_full", "new_ones", "new_tensor", "new_zeros", "numel", "numpy", "permute",
           "pin_memory", "record_stream", "repeat", "repeat_interleave", "requires_grad_", "reshape", "select", "set_",
           "share_memory_", "size", "split", "squeeze", "to", "to_padded_tensor", "tolist", "transpose", "type",
           "unbind", "unflatten", "unsqueeze", "values", "view", "zero_", "_grad", "is_cpu", "is_cuda", "is_meta",
           "requires_grad", "grad", "data", "device", "shape", "ndim", "names", "dtype", "is_quantized",
           "type_as", "__bool__"}


def reflect_methods():
    """every public callable TensorDictBase shares with torch.Tensor, classified; unknown ones are reported"""
    T = _imports()
    torch = T["torch"]
    known = set(UNARY_EXACT + UNARY_FLOAT + UNARY_INPLACE + BIN_FOREACH + BIN_LOOP + BIN_INPLACE + list(BIN_DUNDER)
                + TERNARY_FOREACH + TERNARY_OTHER + ALL_REDUCTIONS)
    found, unknown = [], []
    for n in dir(T["Base"]):
        if not hasattr(torch.Tensor, n) or not callable(getattr(T["Base"], n, None)):
            continue
        if n.startswith("__") and n not in BIN_DUNDER and n not in ("__abs__", "__neg__", "__invert__"):
            continue
        if n in known:
            found.append(n)
        elif n not in NOT_C09:
            unknown.append(n)
    missing = sorted(n for n in known if not hasattr(T["Base"], n))
    return found, unknown, missing


def bin_ref(op, kw):
    """(reference on leaves, in-place?, reflected?) for a binary spelling"""
    if op in BIN_DUNDER:
        return BIN_DUNDER[op]
    if op.endswith("_") and not op.endswith("__"):
        return (lambda x, y: getattr(x, op)(y, **kw)), True, False
    return (lambda x, y: getattr(x, op)(y, **kw)), False, False


def foreach_name(op):
    base = {"__add__": "add", "__radd__": "add", "__iadd__": "add_", "__sub__": "sub", "__isub__": "sub_",
            "__mul__": "mul", "__rmul__": "mul", "__imul__": "mul_", "__truediv__": "div", "__itruediv__": "div_",
            "__pow__": "pow", "__ipow__": "pow_"}.get(op, op)
    if base.rstrip("_") in BIN_FOREACH or base.rstrip("_") in ("lerp", "addcdiv", "addcmul"):
        return "_foreach_" + base
    return None


# ------------------------------------------------------------------------------------------------ spec oracle
def mixed_lazy(sspec, operands):
    sk = sspec.get("kind", "td") == "lazy"
    return any(o["k"] == "td" and (o.get("kind", "td") == "lazy") != sk for o in operands)


def operand_kind(o):
    if o["k"] == "td":
        return "td:" + o.get("kind", "td")
    if o["k"] == "t":
        return "t0" if len(o["shape"]) == 0 else "tN"
    return o["k"]


def expected_binary(case, dself, oden):
    """What the property demands for self.op(other): ("ok", {path: tensor}, B) | ("must-raise", why) |
    ("illegal", why) (torch itself rejects the per-key computation) | ("unspecified", why)."""
    T = _imports()
    torch = T["torch"]
    op, kw = case["op"], dict(case.get("kw", {}))
    sspec, o = case["self"], case["args"][0]
    bs = list(sspec["bs"])
    default = kw.pop("default", None)
    if not dself:
        return ("unspecified", "empty tensordict (the property speaks about entries)")
    if mixed_lazy(sspec, [o]):
        return ("unspecified", "lazy stack combined with a dense tensordict")
    ref, inplace, reflected = bin_ref(op, {k: v for k, v in kw.items()})
    keys = list(dself)
    dflt = None
    if o["k"] in ("td", "dict"):
        if o["k"] == "dict" and op not in COMPARE[:8] + ["__eq__", "__ne__"]:
            return ("unspecified", "dict operand of an arithmetic method")
        okeys = list(oden)
        if set(okeys) != set(keys):
            if default is None:
                return ("must-raise", "key sets differ and no default")
            if default == "intersection":
                keys = [k for k in keys if k in oden]
            else:
                dflt = build_operand(default)[1]
                keys = keys + [k for k in okeys if k not in dself]
        elif default is not None and default != "intersection":
            dflt = build_operand(default)[1]
        obs = list(o["bs"])
        B = bs if obs == bs else bshape(bs, obs)
    elif o["k"] == "t":
        B = bshape(bs, o["shape"]) if len(o["shape"]) else bs
    elif o["k"] == "py":
        B = bs
    else:
        return ("unspecified", "operand kind")
    if B is None:
        return ("unspecified", "operand shape does not broadcast with the batch shape")
    if inplace and B != bs:
        return ("unspecified", "in-place op whose broadcast shape is larger than self")
    out = {}
    for k in keys:
        x = dself.get(k)
        feat = list((x if x is not None else oden[k]).shape[len(bs if x is not None else o["bs"]):])
        if x is None:
            x = dflt
        elif B != bs:
            x = x.expand(tuple(B) + tuple(feat))
        if o["k"] in ("td", "dict"):
            y = oden.get(k)
            if y is None:
                y = dflt
            elif list(o["bs"]) != B:
                y = y.expand(tuple(B) + tuple(y.shape[len(o["bs"]):]))
        elif o["k"] == "t" and len(o["shape"]):
            y = left_align(oden, B, len(B) + len(feat))
        else:
            y = oden
        try:
            xx = x.clone() if inplace else x
            out[k] = ref(xx, y)
            if inplace and out[k] is not xx:
                return ("illegal", "reference in-place op did not return its input")
        except Exception as e:  # noqa: BLE001
            return ("illegal", f"torch rejects key {pstr(k)}: {type(e).__name__}")
    return ("ok", out, B)


def kernel_rejects(case, dself, oden):
    """torch's fused kernel refuses this operand type although the per-tensor op accepts it (runtime behaviour of
    torch, not tensordict logic): probed on one fresh leaf"""
    torch = _imports()["torch"]
    fe = foreach_name(case["op"])
    if fe is None or not dself:
        return False
    o = case["args"][0]
    if o["k"] in ("td", "dict"):
        return False
    x = next(iter(dself.values())).clone()
    kw = {k: v for k, v in case.get("kw", {}).items() if k == "alpha"}
    try:
        getattr(torch, fe)([x], oden, **kw)
        return False
    except Exception:  # noqa: BLE001
        return True


# ------------------------------------------------------------------------------------------------ ternary oracle
def tern_ref(op, kw):
    torch = _imports()["torch"]
    base = op.rstrip("_") if not op.endswith("__") else op
    inplace = op.endswith("_") and not op.endswith("__")
    if base == "lerp":
        f = (lambda x, e, w: x.lerp_(e, w)) if inplace else (lambda x, e, w: x.lerp(e, w))
    elif base in ("addcdiv", "addcmul"):
        v = kw.get("value", 1)
        f = lambda x, a, b: getattr(x, op)(a, b, value=v)  # noqa: E731
    elif base == "clamp":
        f = lambda x, lo, hi: x.clamp(lo, hi)  # noqa: E731
    else:
        raise ValueError(op)
    return f, inplace


def expected_ternary(case, dself, odens):
    """lerp / addcdiv / addcmul (+ in-place) / clamp(min, max): every tensordict operand is matched by key"""
    sspec = case["self"]
    bs = list(sspec["bs"])
    op, kw = case["op"], case.get("kw", {})
    ref, inplace = tern_ref(op, kw)
    keys = list(dself)
    shapes = [bs]
    if mixed_lazy(sspec, case["args"]):
        return ("unspecified", "lazy stack combined with a dense tensordict")
    for o, od in zip(case["args"], odens):
        if o["k"] == "td":
            if set(od) != set(keys):
                if op == "clamp":
                    return ("unspecified", "clamp with different key sets (default=None of _fast_apply)")
                return ("must-raise", "key sets differ (no default for ternary ops)")
            shapes.append(list(o["bs"]))
        elif o["k"] == "t" and len(o["shape"]):
            shapes.append(list(o["shape"]))
        elif o["k"] == "none":
            if op != "clamp":
                return ("unspecified", "None operand")
        elif o["k"] not in ("py", "t"):
            return ("unspecified", "operand kind")
    B = bshape(*shapes)
    if B is None:
        return ("unspecified", "operand shapes do not broadcast with the batch shape")
    if inplace and B != bs:
        return ("unspecified", "in-place op whose broadcast shape is larger than self")
    out = {}
    for k in keys:
        x = dself[k]
        feat = list(x.shape[len(bs):])
        if B != bs:
            x = x.expand(tuple(B) + tuple(feat))
        ys = []
        for o, od in zip(case["args"], odens):
            if o["k"] == "td":
                y = od[k]
                if list(o["bs"]) != B:
                    y = y.expand(tuple(B) + tuple(y.shape[len(o["bs"]):]))
            elif o["k"] == "t" and len(o["shape"]):
                y = left_align(od, B, len(B) + len(feat))
            else:
                y = od
            ys.append(y)
        try:
            out[k] = ref(x.clone() if inplace else x, *ys)
        except Exception as e:  # noqa: BLE001
            return ("illegal", f"torch rejects key {pstr(k)}: {type(e).__name__}")
    return ("ok", out, B)


def expected_where(case, dself, odens):
    torch = _imports()["torch"]
    sspec = case["self"]
    bs = list(sspec["bs"])
    cond_o, oth_o = case["args"]
    cond, oth = odens
    pad = case.get("kw", {}).get("pad")
    if mixed_lazy(sspec, case["args"]):
        return ("unspecified", "lazy stack combined with a dense tensordict")
    if cond_o["k"] != "t" or list(cond_o["shape"]) != bs:
        return ("unspecified", "condition is not a batch-shaped tensor")
    keys = list(dself)
    out = {}
    if oth_o["k"] == "td":
        if list(oth_o["bs"]) != bs:
            return ("unspecified", "other has a different batch shape")
        if set(oth) != set(keys) and pad is None:
            return ("must-raise", "key sets differ and no pad")
        allk = keys + [k for k in oth if k not in dself]
    else:
        allk = keys
    for k in allk:
        x = dself.get(k)
        y = oth.get(k) if oth_o["k"] == "td" else oth
        proto = x if x is not None else y
        c = left_align(cond, bs, proto.ndim)
        try:
            if x is None:
                out[k] = torch.where(c, torch.tensor(pad, dtype=y.dtype), y)
            elif y is None:
                out[k] = torch.where(c, x, torch.tensor(pad, dtype=x.dtype))
            else:
                out[k] = torch.where(c, x, y)
        except Exception as e:  # noqa: BLE001
            return ("illegal", f"torch rejects key {pstr(k)}: {type(e).__name__}")
    return ("ok", out, bs)


# ------------------------------------------------------------------------------------------------ reduction oracle
def norm_dims(dim, nb):
    """batch dims named by a reduction argument: list of ints in [0, nb) or None when some dim is outside the batch"""
    ds = [dim] if isinstance(dim, int) else list(dim)
    out = []
    for d in ds:
        if d < -nb or d >= nb:
            return None
        out.append(d + nb if d < 0 else d)
    return out


def reduce_shape(bs, dims, keepdim):
    return [(1 if i in dims else b) for i, b in enumerate(bs) if keepdim or i not in dims]


def expected_reduce(case, dself):
    """torch's reduction of every leaf over the batch dim(s) named; ("ok", {"kind": "td"|"tensor"|"pair"|"bool", ...})"""
    T = _imports()
    torch = T["torch"]
    op, bs = case["op"], list(case["self"]["bs"])
    nb = len(bs)
    dim, keepdim, red = case["dim"], case["keepdim"], case.get("reduce")
    kw = dict(case.get("kw", {}))
    names = case["self"].get("names")
    tkw = {}
    if keepdim != "nodefault":
        tkw["keepdim"] = keepdim
    kd = keepdim is True
    if "dtype" in kw:
        tkw["dtype"] = getattr(torch, kw["dtype"])
    if "correction" in kw:
        tkw["correction"] = kw["correction"]
    pair = op in ("min", "max", "cummin", "cummax") and kw.get("return_indices", True) and dim != "nodefault"
    cum = op in REDUCTIONS_CUM or op == "softmax"

    def leaf(x, d):
        f = getattr(x, op)
        if d is None:
            r = f(**tkw)
        else:
            r = f(dim=d, **tkw)
        return r

    if red:
        if dim == "nodefault":
            if not dself:
                return ("unspecified", "reduce=True on an empty tensordict")
            try:
                flat = torch.cat([x.reshape(-1) for x in dself.values()])
                return ("ok", {"kind": "tensor", "value": getattr(torch, op)(flat)})
            except Exception as e:  # noqa: BLE001
                return ("illegal", type(e).__name__)
        if dim == "feature":
            try:
                flat = torch.cat([x.reshape(tuple(bs) + (-1,)) for x in dself.values()], -1)
                r = getattr(torch, op)(flat, dim=-1)
                return ("ok", {"kind": "tensor", "value": r.values if isinstance(r, tuple) else r})
            except Exception as e:  # noqa: BLE001
                return ("illegal", type(e).__name__)
        return ("unspecified", "reduce=True with an integer dim (needs identically shaped leaves)")
    if dim == "feature":
        if kd:
            return ("unspecified", "dim='feature' with keepdim=True")
        if op not in REDUCTIONS_TUPLE + ["prod"]:
            return ("unspecified", "dim='feature' for a reduction that is not applied to nested nodes")
        out = {}
        for k, x in dself.items():
            try:
                xx = x.reshape(tuple(bs) + (-1,))
                out[k] = getattr(xx, op)(dim=-1, **{a: b for a, b in tkw.items() if a != "keepdim"})
            except Exception as e:  # noqa: BLE001
                return ("illegal", f"{pstr(k)}: {type(e).__name__}")
        return ("ok", {"kind": "td", "leaves": out, "bs": bs, "names_in": names, "dims": [], "keepdim": False})
    if dim == "nodefault" or dim is None:
        if dim is None and op in REDUCTIONS_BOOL:
            dim = "nodefault"
        if op in REDUCTIONS_BOOL:
            vals = [bool(getattr(x, op)()) for x in dself.values()]
            return ("ok", {"kind": "bool", "value": all(vals) if op == "all" else any(vals)})
        if cum:
            return ("illegal", "cumulative op without dim")
        out = {}
        for k, x in dself.items():
            try:
                if op == "logsumexp":
                    # documented: dim=None reduces over all batch dims
                    out[k] = x.logsumexp(dim=list(range(nb)), keepdim=kd) if nb else x.logsumexp(dim=[], keepdim=kd)
                elif dim is None:
                    out[k] = getattr(x, op)(dim=None, **tkw)
                else:
                    out[k] = leaf(x, None)
            except Exception as e:  # noqa: BLE001
                return ("illegal", f"{pstr(k)}: {type(e).__name__}")
        if op == "logsumexp":
            return ("ok", {"kind": "td", "leaves": out, "bs": reduce_shape(bs, list(range(nb)), kd), "names_in": names,
                           "dims": list(range(nb)), "keepdim": kd})
        # full reduction of every leaf: torch returns a scalar (or all-ones shape with keepdim)
        return ("ok", {"kind": "td", "leaves": out, "bs": ([1] * nb if kd else []), "names_in": names,
                       "dims": list(range(nb)), "keepdim": kd})
    # integer / tuple of integers
    if isinstance(dim, list) and (op not in REDUCTIONS_TUPLE + ["amin", "amax", "logsumexp"]):
        return ("illegal", "torch's reduction takes a single dim")
    dims = norm_dims(dim, nb)
    if dims is None:
        return ("must-raise", "dim outside the batch dims")
    if len(set(dims)) != len(dims):
        return ("illegal", "repeated dim")
    if op in REDUCTIONS_BOOL and kd:
        return ("illegal", "all/any take no keepdim")
    out, out2 = {}, {}
    for k, x in dself.items():
        try:
            if isinstance(dim, list):
                r = leaf(x, tuple(dims))
            else:
                r = leaf(x, dims[0])
            if isinstance(r, tuple):
                out[k], out2[k] = r[0], r[1]
            else:
                out[k] = r
        except Exception as e:  # noqa: BLE001
            return ("illegal", f"{pstr(k)}: {type(e).__name__}")
    rbs = bs if cum else reduce_shape(bs, dims, kd)
    e = {"kind": "td", "leaves": out, "bs": rbs, "names_in": names, "dims": [] if cum else dims, "keepdim": kd}
    if pair:
        e["kind"] = "pair"
        e["indices"] = out2
    return ("ok", e)


def names_problem(got_names, want):
    """weak rule (the property does not speak about names): the list must have one entry per result batch dim and a
    name that is present must be the name of the surviving input dim at that position"""
    if got_names is None:
        return None
    if got_names == "unreadable":
        return "names unreadable"
    nb_out = len(want["bs"])
    if len(got_names) != nb_out:
        return f"{len(got_names)} names for {nb_out} batch dims: {got_names}"
    src = want.get("names_in")
    if src is None:
        return None if all(n is None for n in got_names) else f"names {got_names} from an unnamed tensordict"
    surv = [n for i, n in enumerate(src) if want["keepdim"] or i not in want["dims"]]
    for g, s in zip(got_names, surv):
        if g is not None and g != s:
            return f"names {got_names}, surviving input names {surv}"
    return None


# ------------------------------------------------------------------------------------------------ running one case
def leaf_order(dense):
    return [pstr(k) for k in dense]


def eff_orders(spec):
    """leaf order as the fused path sees it: one list for a dense operand, one list per member for a lazy stack"""
    base = [pstr(e[0]) for e in spec["entries"]]
    if spec.get("kind", "td") == "lazy":
        n = spec["bs"][spec["stack_dim"]]
        mo = spec.get("member_orders")
        return [[pstr(p) for p in mo[i]] if mo else base for i in range(n)]
    return [base]


def orders_differ(sspec, ospec):
    a, b = eff_orders(sspec), eff_orders(ospec)
    if len(a) == len(b):
        return a != b
    return any(x != y for x in a for y in b)


def keyrel(dself, oden):
    a, b = set(dself), set(oden)
    if a == b:
        return "same"
    if a < b:
        return "other-extra"
    if b < a:
        return "other-missing"
    return "both"


def op_site(case):
    """the code site a spelling goes through (used in finding signatures)"""
    op, fam = case["op"], case["fam"]
    if fam == "binary":
        if op in ("__and__", "__rand__"):
            return "base.__and__"
        if op in COMPARE:
            return "_td.comparison"
        if op == "__rsub__":
            return "base.__rsub__"
        if op == "__rtruediv__":
            return "base.__rtruediv__"
        if op == "__rpow__":
            return "base.__rpow__"
        _, inplace, _ = bin_ref(op, {})
        return "base.binary_inplace" if inplace else "base.binary"
    if fam == "ternary":
        return "base.ternary_foreach" if op in TERNARY_FOREACH else ("base.clamp" if op == "clamp" else "_td.where")
    if fam == "reduce":
        return "_td._cast_reduction" if op in REDUCTIONS_TUPLE + REDUCTIONS_INT + REDUCTIONS_CUM else "reduction:" + op
    return "base.unary"


def core_usage(case, dens):
    """the plain documented usages on which an exception is itself a failure of the property (everything else that
    raises is counted as 'unsupported operand' and only pinned by the model)"""
    fam = case["fam"]
    skind = case["self"].get("kind", "td")
    if fam == "unary":
        return True
    if fam == "binary":
        o = case["args"][0]
        if case["op"] == "__rpow__":
            return False
        if o["k"] == "py":
            return True
        if o["k"] == "t" and len(o["shape"]) == 0:
            return True
        if o["k"] == "td":
            return (o.get("kind", "td") == skind and list(o["bs"]) == list(case["self"]["bs"])
                    and keyrel(dens[0], dens[1]) == "same" and "default" not in case.get("kw", {}))
        return False
    if fam == "ternary":
        if case["op"] in ("where", "clamp"):
            return False
        return all((o["k"] == "td" and o.get("kind", "td") == skind and list(o["bs"]) == list(case["self"]["bs"])
                    and keyrel(dens[0], d) == "same") for o, d in zip(case["args"], dens[1:]))
    if fam == "reduce":
        return (isinstance(case["dim"], int) or case["dim"] == "nodefault") and not case.get("reduce")
    return False


def run_case(case):
    """execute one case against the implementation and the spec oracle.
    returns dict(status, exc, got, ref, fail=(label, detail, sig)|None, tags=[...])"""
    T = _imports()
    torch = T["torch"]
    fam, op = case["fam"], case["op"]
    out = {"status": None, "exc": None, "got": None, "ref": None, "fail": None, "tags": [], "after": None}
    obj, dself = build_td(case["self"])
    args, dens = [], [dself]
    for o in case.get("args", []):
        a, d = build_operand(o)
        args.append(a)
        dens.append(d)
    kw = dict(case.get("kw", {}))
    ikw = dict(kw)
    if isinstance(ikw.get("default"), dict):
        ikw["default"] = build_operand(ikw["default"])[0]
    if "dtype" in ikw:
        ikw["dtype"] = getattr(torch, ikw["dtype"])
    # ---- reference
    try:
        if fam == "unary":
            ref = expected_unary(case, dself)
        elif fam == "binary":
            ref = expected_binary(case, dself, dens[1])
        elif fam == "ternary":
            ref = expected_where(case, dself, dens[1:]) if op == "where" else expected_ternary(case, dself, dens[1:])
        else:
            ref = expected_reduce(case, dself)
    except Exception as e:  # noqa: BLE001  (a crash of the reference is my bug: surface it, never a verdict)
        raise RuntimeError(f"reference crashed on {json.dumps(case)}: {type(e).__name__}: {e}") from e
    out["ref"] = ref
    inplace = (fam == "binary" and bin_ref(op, {})[1]) or (fam in ("unary", "ternary") and op.endswith("_")
                                                            and not op.endswith("__"))
    # ---- implementation
    try:
        f = getattr(obj, op)
        if fam == "reduce":
            a = []
            if case["dim"] != "nodefault":
                a.append(tuple(case["dim"]) if isinstance(case["dim"], list) else case["dim"])
            k2 = dict(ikw)
            if case["keepdim"] != "nodefault":
                k2["keepdim"] = case["keepdim"]
            if case.get("reduce") is not None:
                k2["reduce"] = case["reduce"]
            r = f(*a, **k2)
        else:
            r = f(*args, **ikw)
        out["status"] = "ok"
    except Exception as e:  # noqa: BLE001
        out["status"], out["exc"] = "raise", type(e).__name__
        r = None
    sig = {"family": fam, "op": op, "site": op_site(case), "self_kind": case["self"].get("kind", "td")}
    if fam in ("binary", "ternary"):
        sig["operands"] = "+".join(operand_kind(o) for o in case["args"])
        tds = [(o, d) for o, d in zip(case["args"], dens[1:]) if o["k"] in ("td", "dict")]
        sig["order_differs"] = any(orders_differ(case["self"], o) for o, _ in tds)
        sig["batch_differs"] = any(list(o["bs"]) != list(case["self"]["bs"]) for o, _ in tds)
        sig["keyrel"] = "/".join(keyrel(dself, d) for _, d in tds) if tds else "n/a"
        sig["inplace"] = bool(inplace)
        sig["tensor_nd"] = any(o["k"] == "t" and len(o["shape"]) > 0 for o in case["args"])
        sig["has_default"] = "default" in kw or "pad" in kw
    if fam == "reduce":
        sig["dim_kind"] = ("nodefault" if case["dim"] == "nodefault" else "none" if case["dim"] is None else
                           "feature" if case["dim"] == "feature" else "tuple" if isinstance(case["dim"], list) else "int")
        sig["dim_zero"] = case["dim"] == 0
        sig["keepdim"] = case["keepdim"] is True
        sig["reduce"] = bool(case.get("reduce"))
        sig["has_names"] = case["self"].get("names") is not None
    # ---- canonicalise what came back
    if out["status"] == "ok":
        try:
            out["got"] = canon_result(r)
            if inplace:
                out["after"] = canon_collection(obj)
                out["returned_self"] = r is obj
        except Exception as e:  # noqa: BLE001
            out["got"] = {"kind": "unreadable", "why": type(e).__name__}
    # ---- verdict of the spec oracle
    out["fail"] = verdict(case, out, ref, sig, dens, inplace)
    if out["fail"]:
        out["fail"][2]["pattern"] = known_pattern(case, out["fail"][2])
    out["sig"] = sig
    return out


def known_pattern(case, sig):
    """decidable input pattern of the defects recorded in findings.d/C09.json (computed from the case and the kind of
    check that failed, never from the values): a failure outside every pattern is a new violation"""
    fam, op, chk = case["fam"], case["op"], sig.get("check")
    lazy = sig["self_kind"] == "lazy"
    if fam == "ternary":
        if sig["site"] == "base.ternary_foreach" and sig["order_differs"] and chk in ("value", "raises"):
            return "ternary-operands-in-different-key-order"
        if lazy and op == "where" and sig["keyrel"].split("/")[-1] != "same" and chk in ("value", "must-raise"):
            return "lazy-where-different-key-sets"
        if lazy and sig["tensor_nd"] and op != "where" and chk == "value":
            return "lazy-stack-with-nd-tensor"
        if lazy and sig.get("batch_differs") and chk == "value":
            return "lazy-stack-with-broadcast-tensordict"
    if fam == "binary":
        if op == "__rsub__" and chk == "value":
            return "rsub"
        if sig["site"] == "base.__and__" and (sig["tensor_nd"] or sig.get("batch_differs")) and chk == "value" and not lazy:
            return "and-without-batch-broadcast"
        if sig["site"] == "base.binary_inplace" and sig["keyrel"] == "other-extra" and chk == "must-raise":
            return "inplace-other-has-extra-keys"
        if lazy and sig["tensor_nd"] and chk == "value":
            return "lazy-stack-with-nd-tensor"
        if lazy and sig.get("batch_differs") and chk == "value":
            return "lazy-stack-with-broadcast-tensordict"
        if (lazy and sig["has_default"] and isinstance(case["kw"].get("default"), dict)
                and sig["keyrel"] in ("other-extra", "both") and chk == "value"):
            return "lazy-stack-default-value-extra-keys"
    if fam == "reduce":
        kd, dim = case["keepdim"] is True, case["dim"]
        if chk == "names" and sig["has_names"]:
            if sig["site"] == "_td._cast_reduction" and ((kd and (op in REDUCTIONS_INT[1:] or dim == "nodefault"))
                                                         or op in REDUCTIONS_CUM):
                return "cast-reduction-names-of-kept-dims"
            if lazy and op == "norm":
                return "lazy-norm-keeps-names"
            if op == "prod" and kd and len(case["self"]["bs"]) == 1 and isinstance(dim, int):
                return "prod-keepdim-names-rank1"
        if chk == "value" and dim is None and op in REDUCTIONS_TUPLE and not case.get("reduce"):
            return "dim-none"
        if chk == "value" and isinstance(dim, list) and op in ("amin", "amax"):
            return "tuple-dims-on-amin-amax"
        if chk == "raises" and op == "prod" and kd and dim == 0:
            return "prod-keepdim-dim0"
        if lazy and op in ("softmax", "logsumexp") and chk in ("value", "raises", "names"):
            return "lazy-softmax-logsumexp-dim"
    return "none"


def canon_result(r):
    T = _imports()
    torch = T["torch"]
    if isinstance(r, bool):
        return {"kind": "bool", "value": r}
    if isinstance(r, torch.Tensor):
        return {"kind": "tensor", "value": canon_tensor(r)}
    if T["is_tc"](r):
        return canon_collection(r)
    if isinstance(r, tuple) and len(r) == 2:
        a, b = r
        if isinstance(a, torch.Tensor):
            return {"kind": "tensor", "value": canon_tensor(a), "indices": canon_tensor(b)}
        ca, cb = canon_collection(a), canon_collection(b)
        ca["kind"] = "pair"
        ca["indices"] = cb
        return ca
    return {"kind": "other", "type": type(r).__name__}


def verdict(case, out, ref, sig, dens, inplace):
    fam = case["fam"]
    kind = ref[0]
    if kind == "must-raise":
        if out["status"] == "ok":
            return ("no-raise-on-key-mismatch" if fam != "reduce" else "no-raise-on-bad-dim",
                    {"why": ref[1], "returned": brief(out["got"])}, dict(sig, check="must-raise"))
        return None
    if kind != "ok":
        out["tags"].append(kind)
        return None
    if out["status"] == "raise":
        if core_usage(case, dens) and not (fam == "binary" and kernel_rejects(case, dens[0], dens[1])):
            return ("raises-on-core-usage", {"exception": out["exc"]}, dict(sig, check="raises"))
        out["tags"].append("unsupported")
        return None
    got = out["got"]
    if fam == "reduce":
        want = ref[1]
        return verdict_reduce(got, want, sig)
    want = canon_expected(ref[1], ref[2])
    if got.get("kind") not in ("td", "lazy", "tc"):
        return ("value", {"why": "result is not a tensor collection", "got": brief(got)}, dict(sig, check="value"))
    d = diff_collection(got, want)
    if d is None and inplace:
        if not out.get("returned_self"):
            d = "in-place op did not return self"
        else:
            d = diff_collection(out["after"], want)
            if d:
                d = "self after the in-place op: " + d
    if d:
        return ("value", {"difference": d}, dict(sig, check="value"))
    return None


def verdict_reduce(got, want, sig):
    k = want["kind"]
    if k == "bool":
        if got.get("kind") != "bool" or got["value"] != want["value"]:
            return ("value", {"got": brief(got), "want": want["value"]}, dict(sig, check="value"))
        return None
    if k == "tensor":
        w = canon_tensor(want["value"])
        if got.get("kind") != "tensor" or not same_canon(got["value"], w):
            return ("value", {"got": brief(got), "want": w}, dict(sig, check="value"))
        return None
    if got.get("kind") not in ("td", "lazy", "tc", "pair") or (k == "pair") != (got.get("kind") == "pair"):
        return ("value", {"why": "result has the wrong kind", "got": brief(got), "want_kind": k}, dict(sig, check="value"))
    d = diff_collection(got, canon_expected(want["leaves"], want["bs"]))
    if d is None and k == "pair":
        d = diff_collection(got["indices"], canon_expected(want["indices"], want["bs"]))
        if d:
            d = "indices: " + d
    if d:
        return ("value", {"difference": d}, dict(sig, check="value"))
    n = names_problem(got.get("names"), want)
    if n is None and k == "pair":
        n = names_problem(got["indices"].get("names"), want)
    if n:
        return ("names", {"difference": n}, dict(sig, check="names"))
    return None


def brief(g):
    s = json.dumps(g, default=str)
    return s if len(s) < 400 else s[:400] + "..."


def expected_unary(case, dself):
    op = case["op"]
    if not dself:
        return ("unspecified", "empty tensordict (the property speaks about entries)")
    inplace = op.endswith("_") and not op.endswith("__")
    out = {}
    for k, x in dself.items():
        try:
            if op == "__abs__":
                out[k] = abs(x)
            elif op == "__neg__":
                out[k] = -x
            elif op == "__invert__":
                out[k] = ~x
            else:
                out[k] = getattr(x.clone() if inplace else x, op)()
        except Exception as e:  # noqa: BLE001
            return ("illegal", f"torch rejects key {pstr(k)}: {type(e).__name__}")
    return ("ok", out, list(case["self"]["bs"]))


# ------------------------------------------------------------------------------------------------ generators
BATCHES = [[], [2], [3], [2, 3], [1, 2], [2, 1, 3], [4], [3, 2]]
NAMES = ["p", "q", "r"]


def gen_tdspec(rng, role=0, kind=None, bs=None, dtype=None, mode="norm", nkeys=None, allow_empty=False):
    bs = list(bs) if bs is not None else list(rng.choice(BATCHES))
    if nkeys is None:
        nkeys = rng.choice([0] if allow_empty and rng.random() < 0.04 else [1, 2, 2, 3, 3, 4, 5])
    keys = rng.sample(UNIVERSE, nkeys)
    if dtype is None:
        dtype = rng.choice(["float32"] * 6 + ["int64"] * 3 + ["mixed"] * 2 + ["float64", "int32"])
    ents = []
    for p in keys:
        dt = rng.choice(["float32", "int64"]) if dtype == "mixed" else dtype
        ents.append([list(p), list(FEAT[p]), dt])
    if kind is None:
        kind = rng.choice(["td"] * 6 + ["lazy"] * 2 + ["tc"] * 2)
    if kind == "lazy" and (not bs or not keys):
        kind = "td"
    if kind == "tc" and not keys:
        kind = "td"
    spec = {"kind": kind, "bs": bs, "entries": ents, "role": role, "mode": mode, "locked": rng.random() < 0.3}
    if kind == "lazy":
        spec["stack_dim"] = rng.randrange(len(bs))
        if rng.random() < 0.5:
            orders = []
            for _ in range(bs[spec["stack_dim"]]):
                o = [e[0] for e in ents]
                rng.shuffle(o)
                orders.append(o)
            spec["member_orders"] = orders
    if bs and rng.random() < 0.3:
        spec["names"] = NAMES[:len(bs)]
    return spec


def variant_td(rng, sspec, variant, role=1, kind=None, mode=None):
    """an operand tensordict derived from self's spec: same / perm / extra / missing / both / bcast"""
    ents = [list(map(lambda x: list(x) if isinstance(x, list) else x, e)) for e in sspec["entries"]]
    have = {tuple(e[0]) for e in ents}
    rest = [p for p in UNIVERSE if p not in have]
    dt0 = ents[0][2] if ents else "float32"
    if variant in ("extra", "both") and rest:
        for p in rng.sample(rest, min(len(rest), rng.choice([1, 1, 2]))):
            ents.append([list(p), list(FEAT[p]), dt0])
    if variant in ("missing", "both") and len(sspec["entries"]) > 1:
        ents.pop(rng.randrange(len(sspec["entries"])))
    if variant != "same":
        before = [e[0] for e in ents]
        for _ in range(4):
            rng.shuffle(ents)
            if [e[0] for e in ents] != before or len(ents) < 2:
                break
    bs = list(sspec["bs"])
    if variant == "bcast":
        choices = [[1] * len(bs)] if bs else []
        if len(bs) > 1:
            choices += [bs[1:], [1] + bs[1:], bs[:-1] + [1]]
        choices.append([2] + bs)
        bs = rng.choice(choices)
    k = kind if kind is not None else sspec.get("kind", "td")
    spec = {"k": "td", "kind": k, "bs": bs, "entries": ents, "role": role, "mode": mode or sspec.get("mode", "norm"),
            "locked": rng.random() < 0.3}
    if k == "lazy":
        if not bs or not ents:
            spec["kind"] = "td"
        else:
            sd = sspec.get("stack_dim", 0)
            spec["stack_dim"] = sd if sd < len(bs) else 0
    if spec["kind"] == "tc" and not ents:
        spec["kind"] = "td"
    return spec


def tensor_operand(rng, bs, how, dtype="float32", role=1, mode="norm"):
    bs = list(bs)
    if how == "t0" or (not bs and how in ("tb", "tbc")):
        shape = []
    elif how == "tb":
        shape = bs
    elif how == "tbc":
        opts = [[(1 if rng.random() < 0.5 else b) for b in bs], bs[1:] if len(bs) > 1 else [1], [2] + bs, [1] * len(bs)]
        shape = rng.choice(opts)
    elif how == "tbad":
        shape = bs[:-1] + [bs[-1] + 1] if bs else [2]
    else:
        raise ValueError(how)
    return {"k": "t", "shape": shape, "dtype": dtype, "role": role, "mode": mode}


def py_operand(rng, dtype):
    if dtype == "bool":
        return {"k": "py", "v": rng.choice([True, False])}
    return {"k": "py", "v": rng.choice([2, 3, 2.0, 3.0, 5, True, -2, 0.5])}


ALL_BINARY = BIN_FOREACH + BIN_INPLACE + BIN_LOOP + list(BIN_DUNDER)


def gen_binary(rng, op=None, okind=None, skind=None):
    op = op or rng.choice(ALL_BINARY)
    logical = op in ("bitwise_and", "__and__", "__rand__", "__or__", "__ror__", "__xor__", "__rxor__")
    power = op in ("pow", "pow_", "__pow__", "__ipow__", "__rpow__")
    dtype = rng.choice(["int64", "bool", "int32"]) if logical else None
    if op == "logical_and":
        dtype = rng.choice(["bool", "float32", "int64"])
    mode = "small" if power else "norm"
    s = gen_tdspec(rng, 0, kind=skind, dtype=dtype, mode=mode, allow_empty=True)
    _, inplace, reflected = bin_ref(op, {})
    kinds = ["py", "py", "t0", "tb", "tbc", "tbad", "same", "perm", "perm", "perm", "extra", "missing", "both", "bcast"]
    if op in COMPARE[:8] + ["__eq__", "__ne__"]:
        kinds += ["dict", "dict"]
    if reflected:
        kinds = ["py", "py", "t0", "tb", "tbc"]
    okind = okind or rng.choice(kinds)
    d0 = s["entries"][0][2] if s["entries"] else "float32"
    od = d0 if (logical or rng.random() < 0.7) else rng.choice(["float32", "int64"])
    kw = {}
    if okind == "py":
        o = py_operand(rng, d0 if logical else "float32")
        if logical and not isinstance(o["v"], bool):
            o["v"] = int(abs(o["v"])) if not isinstance(o["v"], float) else 3
    elif okind in ("t0", "tb", "tbc", "tbad"):
        o = tensor_operand(rng, s["bs"], okind, od, 1, mode)
    elif okind == "dict":
        o = variant_td(rng, s, rng.choice(["same", "perm", "perm", "extra", "missing"]), 1, "td")
        o["k"] = "dict"
    else:
        okd = None
        if rng.random() < 0.12:
            okd = rng.choice(["td", "tc", "lazy"])
        o = variant_td(rng, s, okind, 1, okd)
        for e in o["entries"]:
            if od != d0 and rng.random() < 0.5:
                e[2] = od
        if (not inplace) and not op.startswith("__") and okind in ("extra", "missing", "both", "perm") and rng.random() < 0.6:
            kw["default"] = rng.choice(["intersection", {"k": "t", "shape": [], "dtype": d0, "role": 2, "offset": 100}])
    if op in ("add", "sub", "add_", "sub_") and rng.random() < 0.25:
        kw["alpha"] = rng.choice([2, 3])
    return {"fam": "binary", "op": op, "self": s, "args": [o], "kw": kw}


def gen_unary(rng, op=None, skind=None):
    op = op or rng.choice(UNARY_EXACT + UNARY_FLOAT + UNARY_INPLACE)
    base = op.strip("_")
    if op == "__invert__":
        dtype, mode = rng.choice(["bool", "int64"]), "norm"
    elif base in ("acos", "asin"):
        dtype, mode = "float32", "unit"
    elif base in ("log", "log10", "log2", "sqrt", "lgamma", "log1p", "reciprocal"):
        dtype, mode = "float32", "norm"
    elif base in ("exp", "expm1", "sinh", "cosh"):
        dtype, mode = "float32", "unit"
    else:
        dtype, mode = rng.choice(["float32", "float32", "float64", "int64"]), "signed"
    s = gen_tdspec(rng, 0, kind=skind, dtype=dtype, mode=mode, allow_empty=True)
    return {"fam": "unary", "op": op, "self": s, "args": [], "kw": {}}


def gen_ternary(rng, op=None, skind=None):
    op = op or rng.choice(TERNARY_FOREACH * 2 + TERNARY_OTHER)
    s = gen_tdspec(rng, 0, kind=skind, dtype=rng.choice(["float32", "float32", "float64"]),
                   mode="norm", allow_empty=False)
    kw = {}
    if op == "where":
        cond = {"k": "t", "shape": list(s["bs"]), "dtype": "bool", "role": 2}
        v = rng.choice(["same", "perm", "perm", "extra", "missing", "py", "both"])
        if v == "py":
            o = {"k": "py", "v": rng.choice([0.0, 7.0])}
        else:
            o = variant_td(rng, s, v, 1)
            if v in ("extra", "missing", "both") and rng.random() < 0.6:
                kw["pad"] = rng.choice([0, 99])
        return {"fam": "ternary", "op": op, "self": s, "args": [cond, o], "kw": kw}
    args = []
    roles = [1, 2]
    pat = rng.choice(["tdtd", "tdtd", "tdtd", "tdpy", "pypy", "tt", "tdt", "pytd", "tpy"])
    if op == "clamp":
        pat = rng.choice(["tdtd", "tdtd", "pypy", "tt", "tdpy", "nonetd", "tdnone"])
    for i, tok in enumerate({"tdtd": ["td", "td"], "tdpy": ["td", "py"], "pypy": ["py", "py"], "tt": ["t", "t"],
                             "tdt": ["td", "t"], "pytd": ["py", "td"], "tpy": ["t", "py"], "nonetd": ["none", "td"],
                             "tdnone": ["td", "none"]}[pat]):
        mode = "small" if (op.startswith("lerp") and i == 1) or op.startswith("addcdiv") else "norm"
        if tok == "td":
            v = rng.choice(["same", "perm", "perm", "perm", "extra", "missing", "bcast"])
            o = variant_td(rng, s, v, roles[i], mode=mode)
            if op == "clamp" and i == 1:
                for e in o["entries"]:
                    pass
        elif tok == "py":
            o = {"k": "py", "v": rng.choice([2.0, 0.5, 1.0, 3.0]) if op.startswith("lerp") or op == "clamp" else
                 rng.choice([2.0, 3.0, 4.0])}
        elif tok == "t":
            o = tensor_operand(rng, s["bs"], rng.choice(["t0", "tb", "tb", "tbc"]), "float32", roles[i], mode)
        else:
            o = {"k": "none"}
        args.append(o)
    if op.startswith("addc") and rng.random() < 0.4:
        kw["value"] = rng.choice([2, 3])
    return {"fam": "ternary", "op": op, "self": s, "args": args, "kw": kw}


def gen_reduce(rng, op=None, skind=None):
    op = op or rng.choice(ALL_REDUCTIONS)
    if op in REDUCTIONS_BOOL:
        dtype = rng.choice(["bool", "bool", "int64", "float32"])
    elif op in ("mean", "nanmean", "std", "var", "logsumexp", "softmax", "norm"):
        dtype = rng.choice(["float32", "float32", "float64"])
    else:
        dtype = rng.choice(["float32", "float32", "int64", "float64"])
    s = gen_tdspec(rng, 0, kind=skind, dtype=dtype, allow_empty=False, bs=rng.choice(BATCHES + [[2, 3], [2, 1, 3]]))
    nb = len(s["bs"])
    choices = ["nodefault"]
    if nb:
        choices += ["int"] * 5 + ["negint"] * 3 + ["tuple"] * 3 + ["negtuple"] + ["oob"]
    choices += ["none", "feature", "feature"]
    c = rng.choice(choices)
    if c == "int":
        dim = rng.randrange(nb)
    elif c == "negint":
        dim = -1 - rng.randrange(nb)
    elif c == "tuple":
        dim = sorted(rng.sample(range(nb), rng.randrange(1, nb + 1)))
        if rng.random() < 0.3:
            rng.shuffle(dim)
    elif c == "negtuple":
        dim = [d - nb if rng.random() < 0.6 else d for d in rng.sample(range(nb), rng.randrange(1, nb + 1))]
    elif c == "oob":
        dim = rng.choice([nb, nb + 1, -nb - 1])
    elif c == "none":
        dim = None
    else:
        dim = c
    keepdim = rng.choice(["nodefault", "nodefault", True, False])
    kw = {}
    if op in REDUCTIONS_CUM + REDUCTIONS_BOOL + ["softmax", "norm"]:
        keepdim = "nodefault"
    if op in ("min", "max", "cummin", "cummax") and rng.random() < 0.4:
        kw["return_indices"] = False
    red = None
    if op in REDUCTIONS_TUPLE + REDUCTIONS_INT and rng.random() < 0.15:
        red = True
    case = {"fam": "reduce", "op": op, "self": s, "args": [], "kw": kw, "dim": dim, "keepdim": keepdim, "reduce": red}
    if op == "norm":
        case["dim"], case["keepdim"] = "nodefault", "nodefault"
    if op in REDUCTIONS_CUM + ["softmax"] and dim in ("nodefault", None):
        case["dim"] = rng.randrange(nb) if nb else "nodefault"
    return case


def systematic_cases(rng, methods):
    """every spelling found by reflection is exercised in every run, on each container, with the operand kinds that
    make key pairing visible (independent of the seed except for the shapes drawn)"""
    out = []
    for skind in ("td", "lazy", "tc"):
        for op in methods:
            if op in UNARY_EXACT + UNARY_FLOAT + UNARY_INPLACE:
                out.append(gen_unary(rng, op, skind))
            elif op in ALL_BINARY:
                _, inplace, reflected = bin_ref(op, {})
                for ok in (["py", "tb"] if reflected else ["py", "perm", "extra", "tb"]):
                    out.append(gen_binary(rng, op, ok, skind))
            elif op in TERNARY_FOREACH + TERNARY_OTHER:
                for _ in range(3):
                    out.append(gen_ternary(rng, op, skind))
            elif op in ALL_REDUCTIONS:
                for _ in range(3):
                    out.append(gen_reduce(rng, op, skind))
    return out


def random_cases(rng, n):
    out = []
    for _ in range(n):
        r = rng.random()
        if r < 0.45:
            out.append(gen_binary(rng))
        elif r < 0.55:
            out.append(gen_unary(rng))
        elif r < 0.75:
            out.append(gen_ternary(rng))
        else:
            out.append(gen_reduce(rng))
    return out
