"""C20 — apply / named_apply honour their contract for every option combination (DESIGN.md §4 C20).

Every point of the option lattice x generated operand structures x container kinds x locked/unlocked is run against
  (1) the real code (through the public front-ends apply / apply_ / named_apply and the internal _fast_apply, thread pools
      through a deterministic executor that completes the tasks in a chosen permutation, or the real pool),
  (2) the independent reference of harness/c20_ref.py (the oracle: values by key, dropped Nones, metadata, frame, mt = st),
  (3) the extracted Coq model (coq/Model/C20_Apply.v, C20_Sched.v): full canonical result incl. order, identity, metadata."""
import copy
import itertools
import json
import multiprocessing as mp
import os
import time

import torch

from . import c20_impl as I
from . import c20_ref as REF
from .core import Sym, sx, parse_sx

KEYS = ["a", "b", "c", "n", "m", "e"]


# ================================================================== generation of abstract cases
class Ctr:
    def __init__(self):
        self.n = 0

    def next(self):
        self.n += 1
        return 8 * self.n


def gen_node(rng, ctr, meta, depth, p_nont, min_entries=0):
    n = rng.choice([0, 1, 2, 2, 3, 3, 4]) if depth > 0 else rng.choice([1, 2, 3, 3, 4, 4])
    n = max(n, min_entries)
    keys = rng.sample(KEYS, n)
    es = []
    for k in keys:
        r = rng.random()
        if r < 0.34:
            if depth < 3:
                es.append([k, gen_node(rng, ctr, meta, depth + 1, p_nont)])
            else:
                es.append([k, ["L", ctr.next()]])
        elif r < 0.34 + p_nont:
            z = ctr.next()
            es.append([k, ["T", z, z // 8, list(meta)]])
        else:
            es.append([k, ["L", ctr.next()]])
    return ["N", ctr.next(), list(meta), es]


def relabel(t, ctr, meta=None):
    """same structure, fresh ids (and, optionally, other metadata)"""
    if t[0] == "L":
        return ["L", ctr.next()]
    if t[0] == "T":
        z = ctr.next()
        return ["T", z, z // 8, list(meta if meta is not None else t[3])]
    return ["N", ctr.next(), list(meta if meta is not None else t[2]), [[k, relabel(c, ctr, meta)] for k, c in t[3]]]


def mutate(t, rng, ctr, meta, strength):
    """an operand derived from t: permuted / missing / extra keys, emptied nested nodes, (rarely) a kind swap"""
    if t[0] != "N":
        return relabel(t, ctr, meta)
    es = []
    for k, c in t[3]:
        r = rng.random()
        if r < 0.16 * strength:
            continue                                    # missing
        if c[0] == "N" and r < 0.26 * strength:
            es.append([k, ["N", ctr.next(), list(meta), []]])        # nested empty
        elif r > 1 - 0.02 * strength:
            es.append([k, ["L", ctr.next()] if c[0] == "N" else ["N", ctr.next(), list(meta), [["a", ["L", ctr.next()]]]]])
        else:
            es.append([k, mutate(c, rng, ctr, meta, strength)])
    if rng.random() < 0.3 * strength:
        free = [k for k in KEYS + ["x"] if k not in [kk for kk, _ in es]]
        if free:
            es.append([rng.choice(free), ["L", ctr.next()] if rng.random() < 0.7 else ["N", ctr.next(), list(meta), []]])   # extra
    if rng.random() < 0.5:
        rng.shuffle(es)                                 # permuted
    return ["N", ctr.next(), list(meta), es]


def set_lock_rec(t, b):
    if t[0] == "N":
        t[2][3] = b
        for _, c in t[3]:
            set_lock_rec(c, b)
    elif t[0] == "T":
        t[3][3] = b


BATCHES = [[3], [2, 2], [3, 2], [2], [4], []]


def gen_scene(rng, kindname):
    """self + up to two other operands + an out= candidate + the None choice"""
    ctr = Ctr()
    bs = rng.choice(BATCHES if kindname in ("regular",) else [[3], [2, 2], [3, 2], [2]])
    names = None
    if bs and rng.random() < 0.3 and kindname in ("regular", "tc", "lazy"):
        names = ["x", "y", "w"][:len(bs)]
    dv = "cpu" if rng.random() < 0.3 and kindname in ("regular", "tc", "lazy") else None
    meta = [bs, dv, names, False]
    p_nont = 0.12 if kindname in ("regular", "tc") else 0.0
    S = gen_node(rng, ctr, meta, 0, p_nont)
    if kindname == "tc" and not S[3]:
        S = gen_node(rng, ctr, meta, 0, p_nont, 1)
    others = []
    for _ in range(2):
        strength = rng.choice([0, 0, 1, 1, 2])
        ometa = [bs, rng.choice([dv, dv, None]), rng.choice([names, names, None]), False]
        ot = mutate(S, rng, ctr, ometa, strength)
        if rng.random() < 0.2:
            set_lock_rec(ot, True)
        others.append(ot)
    # out candidate
    obs_ = bs if rng.random() < 0.85 or not bs else bs[:rng.randrange(0, len(bs))]
    onames = names if (rng.random() < 0.85 or not names) else None
    if onames is not None:
        onames = onames[:len(obs_)] or None
    ometa = [obs_, dv if rng.random() < 0.8 else ("cpu" if dv is None else None), onames, False]
    out = mutate(S, rng, ctr, ometa, rng.choice([0, 1, 1, 2]))
    if rng.random() < 0.15:
        out = ["N", ctr.next(), list(ometa), []]
    if rng.random() < 0.06:
        set_lock_rec(out, True)
    # which calls return None
    entries = [(p, e) for p, e in I.walk(S) if p]
    mode = rng.random()
    pids, codes = set(), set()
    if mode < 0.25:
        pass
    elif mode < 0.4:
        pids = {e[1] // 8 for _, e in entries if e[0] in ("L", "T")}       # every call returns None
        codes = {I.abs_code(e) for _, e in entries if e[0] == "N"} if rng.random() < 0.5 else set()
    else:
        for _, e in entries:
            if rng.random() < 0.3:
                if e[0] in ("L", "T"):
                    pids.add(e[1] // 8)
                else:
                    codes.add(I.abs_code(e))
        # make one whole subtree None now and then (the filter_empty cases)
        nodes = [e for p, e in entries if e[0] == "N" and e[3]]
        if nodes and rng.random() < 0.5:
            for _, e in I.walk(rng.choice(nodes)):
                if e[0] in ("L", "T"):
                    pids.add(e[1] // 8)
    return {"self": S, "others": others, "out": out, "none_pids": sorted(pids), "none_codes": sorted(codes)}


def lazy_scene(rng):
    """a lazy stack of 2..3 members with the same structure (member i of entry z has id z + i)"""
    sc = gen_scene(rng, "lazy")
    n = rng.choice([2, 3])

    def member(t, i):
        if t[0] == "L":
            return ["L", t[1] + i]
        if t[0] == "T":
            return ["T", t[1] + i, t[2], list(t[3])]
        return ["N", t[1] + i, list(t[2]), [[k, member(c, i)] for k, c in t[3]]]
    sc["members"] = [member(sc["self"], i) for i in range(n)]
    sc["others_members"] = [[member(ot, i) for i in range(n)] for ot in sc["others"]]
    sc["out_members"] = [member(sc["out"], i) for i in range(n)]
    return sc


# ------------------------------------------------------------------ the option lattice
FE = [None, True, False]
KEYMODES = ["plain", "named", "nested"]
NAMES = ["absent", "list", "none"]
DEVS = ["absent", "same", "other"]
LEAFS = ["default", "nontensor", "all"]
THREADS = [0, 2, 4]


def lattice():
    return list(itertools.product([False, True], [False, True], [False, True], FE, [False, True], KEYMODES,
                                  [False, True], NAMES, DEVS, [False, True], THREADS, LEAFS))


def make_case(rng, point, scene, kindname, variant):
    (inplace, has_out, has_default, fe, con, keymode, has_bs, names_mode, dev_mode, propagate, threads, leaf_mode) = point
    S = scene["self"]
    bs, dv, nm, _ = S[2]
    nmem = len(scene["members"]) if kindname == "lazy" else 0
    sd = rng.randrange(0, len(bs) + 1) if kindname == "lazy" else 0          # the stack dim of a lazy self
    full_bs = (list(bs[:sd]) + [nmem] + list(bs[sd:])) if kindname == "lazy" else list(bs)
    o = {"inplace": inplace, "default": has_default, "fe": fe, "con": con, "named": keymode != "plain",
         "nested_keys": keymode == "nested", "propagate": propagate,
         "leaf_tensor": True, "leaf_nont": leaf_mode in ("nontensor", "all"), "leaf_node": leaf_mode == "all"}
    if leaf_mode == "all" and rng.random() < 0.04 and kindname == "regular":
        o["leaf_tensor"], o["leaf_node"] = False, False          # a perverse is_leaf: tensors are not leaves
    obs_ = None
    if has_bs:
        obs_ = list(full_bs) if (rng.random() < 0.4 or not full_bs) else list(full_bs[:rng.randrange(0, len(full_bs))])
    o["bs"] = obs_
    rbs = obs_ if obs_ is not None else full_bs
    if names_mode == "absent":
        o["names"] = "absent"
    elif names_mode == "none":
        o["names"] = None
    else:
        o["names"] = ["p", "q", "r", "s"][:len(rbs)] if rng.random() < 0.8 or nm is None else list(nm[:len(rbs)])
        if kindname == "lazy":
            # names= on a lazy stack: fresh names / the members' own names around a stack-dim name / a stack-dim name that a
            # member already uses / a list that is too short
            mn = list(nm) if nm is not None else [None] * len(bs)
            r_ = rng.random()
            if r_ < 0.45:
                o["names"] = ["p", "q", "r", "s"][:len(rbs)]
            elif r_ < 0.7:
                o["names"] = mn[:sd] + [rng.choice(["s", None])] + mn[sd:]
            elif r_ < 0.85:
                o["names"] = mn[:sd] + [(mn[0] if mn and mn[0] else "s")] + mn[sd:]
            else:
                o["names"] = ["p", "q", "r", "s"][:max(0, len(rbs) - 1)]
            if all(n is None for n in o["names"]) and rng.random() < 0.5:
                o["names"] = ["p", "q", "r", "s"][:len(rbs)]
    out = copy.deepcopy(scene["out"]) if has_out else None
    if dev_mode == "absent":
        o["dev"] = "absent"
    elif dev_mode == "same":
        o["dev"] = (out[2][1] if out is not None and rng.random() < 0.7 else dv)
    else:
        o["dev"] = rng.choice(["cpu", None, "meta"] if dv is None else [None, "meta"])
        if o["dev"] == dv:
            o["dev"] = "cpu" if dv is None else None
    n_others = rng.choice([1, 1, 2]) if has_default else rng.choice([0, 0, 1, 1, 2])
    others = copy.deepcopy(scene["others"][:n_others])
    # front-end able to express the point
    if threads:
        front = "fast"
    elif keymode != "plain":
        front = "named_apply" if (not has_out or variant % 3 == 1) else "fast"
    else:
        front = ["apply", "fast", "apply"][variant % 3]
        if inplace and front == "apply" and variant % 2 and kindname != "lazy":
            front = "apply_"      # LazyStackedTensorDict.apply_ is another function (members' _fast_apply): checked apart
    o["checked"] = (variant % 2 == 0) if front == "fast" else False
    S2 = copy.deepcopy(S)
    locked = (variant // 2) % 2 == 1 if kindname != "params" else True
    set_lock_rec(S2, locked)
    case = {"kind": kindname, "front": front, "self": S2, "others": others, "out": out, "opts": o, "threads": threads,
            "none_pids": scene["none_pids"], "none_codes": scene["none_codes"]}
    # what fn does with the tensor it is handed (in-place calls): a fresh result / the argument itself, untouched / the argument
    # updated in place and returned / updated in place and None returned
    case["fnvar"] = rng.choice(["fresh", "fresh", "ident", "mutate", "mutate", "mutate_none"]) \
        if (inplace and kindname in ("regular", "sub", "tc", "lazy")) else "fresh"
    if kindname == "sub":
        case["sub_index"] = rng.choice(["int", "slice", "list", "tensor", "mask"])
    if kindname == "lazy":
        case["members"] = copy.deepcopy(scene["members"])
        for m in case["members"]:
            set_lock_rec(m, locked)
        case["others_members"] = copy.deepcopy(scene["others_members"][:n_others])
        if case["others_members"] and rng.random() < 0.05:
            # an operand with one slice less along self's stack dim (_zip_strict)
            j_ = rng.randrange(len(case["others_members"]))
            case["others_members"][j_] = case["others_members"][j_][:-1]
        # the representation of every other operand: a lazy stack along each batch dim (self's and the others), a dense
        # TensorDict, a tensorclass — member i of self is paired with the slice [i] along self's stack dim in every case
        case["sd"] = sd
        case["sd_name"] = rng.choice([None, None, "s"])
        reps = [["lazy", d] for d in range(len(full_bs))] + [["lazy", sd], ["regular"], ["tc"]]
        case["others_repr"] = [rng.choice(reps) for _ in range(n_others)]
        for ms, rep in zip(case["others_members"], case["others_repr"]):
            if rep[0] == "tc" and not ms[0][3]:
                rep[:] = ["regular"]            # a tensorclass needs at least one field
        case["out_members"] = copy.deepcopy(scene["out_members"]) if has_out else None
        case["out_repr"] = rng.choice(["lazy"] * 14 + ["tc"] * 3 + ["other", "other", "short"]) if has_out else None
        if case["out_repr"] == "tc" and not case["out_members"][0][3]:
            case["out_repr"] = "lazy"
    if kindname == "alias":
        case["alias"] = {"out": has_out, "other": n_others > 0 and variant % 2 == 0}
        if has_out:
            case["out"] = copy.deepcopy(S2)
        if case["alias"]["other"]:
            case["others"][0] = copy.deepcopy(S2)
    k = sum(1 for _ in I.walk(S2)) * max(1, nmem)
    case["perm"] = rng.sample(range(k), k) if threads == 2 else []
    return case


def same_payloads(S, out):
    if S[0] != "N" or out[0] != "N":
        return
    d = dict((k, c) for k, c in S[3])
    for k, c in out[3]:
        if k in d:
            if c[0] == "T" and d[k][0] == "T":
                c[2] = d[k][2]
            else:
                same_payloads(d[k], c)


# ================================================================== running the real code
def mk_is_leaf(o):
    if o["leaf_tensor"] and not o["leaf_nont"] and not o["leaf_node"]:
        return None
    if o["leaf_tensor"] and o["leaf_nont"] and not o["leaf_node"]:
        return I._is_leaf_nontensor
    lt, ln, lo = o["leaf_tensor"], o["leaf_nont"], o["leaf_node"]

    def is_leaf(cls):
        if issubclass(cls, torch.Tensor):
            return lt
        if issubclass(cls, I.NonTensorData):
            return ln
        return lo
    return is_leaf


def call_front(case, selfobj, others, outobj, fn, threads=None):
    o = case["opts"]
    kw = {}
    if o["bs"] is not None:
        kw["batch_size"] = torch.Size(o["bs"])
    if o["dev"] != "absent":
        kw["device"] = I.dev_of(o["dev"])
    if o["names"] != "absent":
        kw["names"] = None if o["names"] is None else list(o["names"])
    if o["default"]:
        kw["default"] = I.DFLT
    kw["filter_empty"] = o["fe"]
    if o["con"]:
        kw["call_on_nested"] = True
    if outobj is not None:
        kw["out"] = outobj
    if o["propagate"]:
        kw["propagate_lock"] = True
    il = mk_is_leaf(o)
    if il is not None:
        kw["is_leaf"] = il
    front = case["front"]
    threads = case["threads"] if threads is None else threads
    if front == "apply":
        return selfobj.apply(fn, *others, inplace=o["inplace"], **kw)
    if front == "apply_":
        return selfobj.apply_(fn, *others, **kw)
    if front == "named_apply":
        return selfobj.named_apply(fn, *others, nested_keys=o["nested_keys"], inplace=o["inplace"], **kw)
    return selfobj._fast_apply(fn, *others, named=o["named"], nested_keys=o["nested_keys"], inplace=o["inplace"],
                               checked=o["checked"], num_threads=threads, **kw)


class CaseTimeout(Exception):
    pass


def _alarm(signum, frame):
    raise CaseTimeout()


def run_real(case, threads=None):
    """build, call, observe — under a watchdog: a call that does not return within 30 s is run once more with 300 s (a
    loaded machine is not a hang); if it still does not return, the observation is 'Hang'"""
    import signal
    for limit in (30.0, 300.0):
        old = signal.signal(signal.SIGALRM, _alarm)
        signal.setitimer(signal.ITIMER_REAL, limit)
        try:
            return run_real_(case, threads)
        except CaseTimeout:
            pass
        finally:
            signal.setitimer(signal.ITIMER_REAL, 0)
            signal.signal(signal.SIGALRM, old)
    return {"outcome": "raise", "exc": "Hang", "msg": "no return within 300 s", "before": {"self": None, "others": [], "out": None},
            "after": None, "ran": None}


def run_real_(case, threads=None):
    """build, call, observe.  Returns a dict of canonical observations; never raises."""
    B = I.Built()
    B.sub_index = case.get("sub_index", "int")
    kindname = case["kind"]
    res = {}
    try:
        if kindname == "lazy":
            sd_ = case.get("sd", 0)
            selfobj = I.build_lazy(case["members"], B, sd_, case.get("sd_name"), I.LAZY_SELF_ID)
            reps = case.get("others_repr") or [["lazy", sd_]] * len(case["others_members"])
            others = [I.build_lazy_other(ms, rep, B, sd_) for ms, rep in zip(case["others_members"], reps)]
            outobj = I.build_lazy_out(case["out_members"], case.get("out_repr") or "lazy", B, sd_) if case["out"] is not None else None
        else:
            selfobj = I.build_operand(case["self"], kindname, B, "self")
            others = [I.build_operand(t, kindname, B, "other") for t in case["others"]]
            outobj = I.build_operand(case["out"], kindname, B, "out") if case["out"] is not None else None
            if kindname == "alias":
                if case["alias"]["out"]:
                    outobj = selfobj
                if case["alias"]["other"]:
                    others[0] = selfobj
    except Exception as e:  # noqa: BLE001
        return {"build_error": f"{type(e).__name__}: {e}"}
    sub_adv = kindname == "sub"

    def obs_self():
        # the leaves of a sub-tensordict under a list / tensor / mask index are gathered copies: observed by content
        return I.obs(selfobj, B, with_ident=False) if sub_adv else I.obs(selfobj, B, light=True)
    before = {"self": obs_self(), "others": [I.obs(x, B, light=True) for x in others], "out": I.obs(outobj, B, light=True)}
    fn = I.make_fn(case["opts"]["named"], set(case["none_pids"]), set(case["none_codes"]), variant=case.get("fnvar", "fresh"))
    th = case["threads"] if threads is None else threads
    ran = []
    try:
        nograd = torch.no_grad() if kindname == "params" else _null()
        with nograd:
            if th == 2:
                with I.scheduled(case["perm"]) as r_:
                    ret = call_front(case, selfobj, others, outobj, fn, th)
                ran = list(r_)
            else:
                ret = call_front(case, selfobj, others, outobj, fn, th)
        res["outcome"] = "ok"
        res["ret_is"] = ("self" if ret is selfobj else "out" if (outobj is not None and ret is outobj) else "none" if ret is None else "new")
        res["ret_type"] = I.type_name(ret)
        try:
            res["ret"] = "cyclic" if I.has_cycle(ret) else I.obs(ret, B)
        except RecursionError:
            res["ret"] = "cyclic"
        if res["ret_type"] == "lazy":
            res["ret_members"] = [I.obs(m, B) for m in ret.tensordicts]
            res["ret_lazy"] = [I.ident(B, ret), ret.stack_dim, ret._td_dim_name]
    except RecursionError:
        res["outcome"] = "raise"
        res["exc"] = "RecursionError"
    except CaseTimeout:
        raise
    except Exception as e:  # noqa: BLE001
        res["outcome"] = "raise"
        res["exc"] = type(e).__name__
        res["msg"] = str(e)[:160]
    res["ran"] = ran
    try:
        cyc_out = outobj is not None and I.has_cycle(outobj)
        res["after"] = {"self": obs_self(), "others": [I.obs(x, B, light=True) for x in others],
                        "out": "cyclic" if cyc_out else I.obs(outobj, B, light=True)}
    except RecursionError:
        res["after"] = {"self": None, "others": [], "out": "cyclic"}
    res["before"] = before
    if kindname == "sub":
        try:
            res["junk_row_intact"] = all(bool((v == -1).all()) for v in B.parent[B.junk_idx].values(True, True) if isinstance(v, torch.Tensor))
        except Exception:  # noqa: BLE001
            res["junk_row_intact"] = None
    return res


class _null:
    def __enter__(self):
        return self

    def __exit__(self, *a):
        return False


# ================================================================== the model side
def meta_sx(m):
    bs, dv, names, lk = m
    return [list(bs), Sym(dv) if dv else Sym("none"),
            Sym("none") if names is None else [Sym("some"), [[Sym("some"), n] if n is not None else Sym("none") for n in names]], bool(lk)]


def tree_sx(t):
    if t[0] == "L":
        return [Sym("L"), t[1]]
    if t[0] == "T":
        return [Sym("T"), t[1], t[2], meta_sx(t[3])]
    return [Sym("N"), t[1], meta_sx(t[2]), [[k, tree_sx(c)] for k, c in t[3]]]


def opts_sx(o):
    bs = Sym("absent") if o["bs"] is None else list(o["bs"])
    dv = Sym("absent") if o["dev"] == "absent" else (Sym("none") if o["dev"] is None else Sym(o["dev"]))
    fe = Sym("none") if o["fe"] is None else o["fe"]
    return [o["inplace"], o["default"], fe, o["named"], o["nested_keys"], bs, dv, o["checked"], o["leaf_tensor"], o["leaf_nont"],
            o["leaf_node"]]


def names_sx(o):
    if o["names"] == "absent":
        return Sym("absent")
    if o["names"] is None:
        return Sym("none")
    return [Sym("some"), [([Sym("some"), n] if n is not None else Sym("none")) for n in o["names"]]]


def model_nones(case, trees):
    ids = []
    pids, codes = set(case["none_pids"]), set(case["none_codes"])
    for t in trees:
        for p, e in I.walk(t):
            if not p:
                continue
            if e[0] in ("L", "T"):
                if e[1] // 8 in pids or (e[0] == "L" and case.get("fnvar") == "mutate_none"):
                    ids.append(e[1])             # (mutate_none: every call on a tensor returns None)
            elif I.abs_code(e) in codes:
                ids.append(e[1])
    return ids


def model_line(case, ran=None):
    """the protocol line for the extracted model, or None where no model applies (aliased operands; a _SubTensorDict with
    checked=True and out= + device= or a thread pool)"""
    if case["kind"] == "wb":
        return wb_line(case)
    o = case["opts"]
    kindname = case["kind"]
    if kindname == "alias":
        return None
    if kindname == "lazy":
        sd = case.get("sd", 0)
        nmem = len(case["members"])
        mbs = case["members"][0][2][0]
        full_bs = list(mbs[:sd]) + [nmem] + list(mbs[sd:])
        mode = "apply_" if case["front"] == "apply_" else ("mt" if case["threads"] else "st")
        reps = case.get("others_repr") or [["lazy", sd]] * len(case["others_members"])
        ops = []
        for ms, rep in zip(case["others_members"], reps):
            sl = [tree_sx(m) for m in ms]
            if rep[0] == "lazy":
                # the members of a lazy operand stacked along another dim are not slices along sd: a faithful model never
                # reads them (the dummy list)
                lz = [Sym("some"), [rep[1], sl if rep[1] == sd else []]]
            else:
                lz = Sym("none")
            ops.append([lz, list(mbs[:sd]) + [len(ms)] + list(mbs[sd:]), sl])
        if case["out"] is None:
            out = Sym("none")
        else:
            rep = case.get("out_repr") or "lazy"
            oms = case["out_members"][:-1] if rep == "short" else case["out_members"]
            out = [Sym("some"), Sym("other")] if rep == "other" else [Sym("some"), [Sym("lazy"), rep == "tc", [tree_sx(m) for m in oms]]]
        k = sum(1 for _ in I.walk(case["self"])) * nmem
        pi = list(ran) if ran else list(range(k))
        name = case.get("sd_name")
        return sx([Sym("lz"), Sym(mode), opts_sx(o),
                   [I.LAZY_SELF_ID, sd, Sym("none") if name is None else [Sym("some"), name], [tree_sx(m) for m in case["members"]]],
                   ops, out, names_sx(o), o["con"], o["propagate"], model_nones(case, case["members"]), pi])
    if kindname == "sub" and o["checked"]:
        # a _SubTensorDict always writes through result.set(...), i.e. validated: modelled as checked=False (except for the
        # device / out= branch, which reads `checked` itself: not modelled there)
        if case["out"] is not None and o["dev"] != "absent" or case["threads"]:
            return None
        o = dict(o, checked=False)
    mode = "mt" if case["threads"] else "st"
    fwd_out = case["out"]
    k = sum(1 for _ in I.walk(case["self"]))
    pi = list(ran) if ran else list(range(k))        # ids beyond the number of tasks are ignored by the model
    return sx([Sym("apply"), Sym(mode), opts_sx(o), tree_sx(case["self"]), [tree_sx(t) for t in case["others"]],
               Sym("none") if fwd_out is None else [Sym("some"), tree_sx(fwd_out)],
               names_sx(o), o["con"], o["propagate"], model_nones(case, [case["self"]]), pi])


class Eval:
    """evaluation of the model's answer (terms over the free function) into the canonical observation format"""
    def __init__(self, case):
        self.tens = {}
        self.fnvar = case.get("fnvar", "fresh")
        trees = []
        if case["kind"] == "lazy":
            trees = list(case["members"]) + [m for ms in case["others_members"] for m in ms] + (list(case["out_members"]) if case["out"] is not None else [])
        else:
            trees = [case["self"]] + list(case["others"]) + ([case["out"]] if case["out"] is not None else [])
        for t in trees:
            for p, e in I.walk(t):
                if e[0] == "N":
                    for k, c in e[3]:
                        if c[0] == "L":
                            self.tens[c[1]] = I.leaf_tensor(c[1], e[2][0])

    @staticmethod
    def meta(m):
        bs, dv, names, lk = m
        names = None if names == "none" else [None if n == "none" else n[1] for n in names[1]]
        return [list(bs), None if dv == "none" else dv, names, lk == "t"]

    def arg_code(self, a):
        if a == "dflt":
            return 7
        if a[0] == "L":
            return self.tens[a[2][1]] if a[2] != "new" and a[2][0] == "old" else 0
        if a[0] == "T":
            return 11 + 13 * a[2]
        h = 17
        for k, c in a[3]:
            cc = self.arg_code(c)
            if isinstance(cc, torch.Tensor):
                cc = int(cc.reshape(-1)[0])
            h = (h + I.entry_code(I.keyhash(k), cc)) % I.P
        return h

    def value(self, v):
        if v[0] == "old":
            return self.tens[v[1]].reshape(-1).tolist()
        _, key, item, args = v
        if self.fnvar == "ident" and item[0] == "L" and item[2] != "new" and item[2][0] == "old":
            return self.tens[item[2][1]].reshape(-1).tolist()        # fn hands back its argument untouched
        key = None if key == "none" else (key[1][0] if len(key[1]) == 1 else tuple(key[1]))
        codes = [self.arg_code(item)] + [self.arg_code(a) for a in args]
        h = I.combine(key, codes)
        if isinstance(h, torch.Tensor):
            return h.reshape(-1).tolist()
        bs = self.meta(item[3] if item[0] == "T" else item[2])[0] if item[0] in ("T", "N") else []
        return [h] * I.numel(bs)

    def tree(self, t):
        if t[0] == "L":
            return ["L", t[1] if t[1] == "new" else ["o", t[1][1]], self.value(t[2])]
        if t[0] == "T":
            return ["T", t[1] if t[1] == "new" else ["o", t[1][1]], t[2], self.meta(t[3])]
        return ["N", t[1] if t[1] == "new" else ["o", t[1][1]], self.meta(t[2]), [[k, self.tree(c)] for k, c in t[3]]]


def model_obs(case, m):
    """model answer -> the same shape as the relevant part of run_real's result"""
    if m is None:
        return None
    if m[0] == "raise":
        return {"outcome": "raise", "exc": m[1]}
    if m[0] in ("cyclic", "stuck", "unmodelled", "decode-error"):
        return {"outcome": m[0]}
    ev = Eval(case)
    r = m[1]
    if case["kind"] == "lazy":
        if r == "none":
            return {"outcome": "ok", "ret": None}
        if r[0] == "view":
            m_ = ev.meta(r[1])
            return {"outcome": "ok", "view": [m_[0], m_[1]]}
        return {"outcome": "ok", "members": [ev.tree(t) for t in r[4]],
                "lazy": [r[1] if r[1] == "new" else ["o", r[1][1]], r[2], None if r[3] == "none" else r[3][1]]}
    if r == "none":
        return {"outcome": "ok", "ret": None}
    return {"outcome": "ok", "ret": ev.tree(r[1])}


# ================================================================== oracle (model-free) + correspondence, per case
def strip_ident(t):
    if t is None or t == "cyclic":
        return t
    if t[0] == "L":
        return ["L", t[2]]
    if t[0] == "T":
        return ["T", t[2], t[3]]
    return ["N", t[2], [[k, strip_ident(c)] for k, c in t[3]]]


def cmp_expected(exp, got, path=(), lax_nont=False):
    """expected tree (reference) vs canonical observation: first difference or None.  Key order is not demanded;
    non-tensor payloads only."""
    if exp is None or got is None:
        return None if (exp is None and got is None) else (list(path), "presence", "None" if got is None else "result", "None" if exp is None else "result")
    if got == "cyclic":
        return (list(path), "cyclic", "cyclic", "tree")
    if exp[0] != got[0]:
        if lax_nont and "T" in (exp[0], got[0]):
            return None
        return (list(path), "kind", got[0], exp[0])
    if exp[0] == "L":
        if got[2] and got[2][0] == "meta":
            return None                       # values are not observable on the meta device
        return None if exp[1] == got[2] else (list(path), "value", got[2][:4], exp[1][:4])
    if exp[0] == "T":
        return None if (exp[1] == got[2] or lax_nont) else (list(path), "payload", got[2], exp[1])
    gk = {k: c for k, c in got[3]}
    if set(gk) != set(exp[2]):
        return (list(path), "keys", sorted(gk), sorted(exp[2]))
    for k in exp[2]:
        d = cmp_expected(exp[2][k], gk[k], path + (k,), lax_nont)
        if d:
            return d
    return None


def meta_blind(t):
    """values are not observable on the meta device: with device=meta the leaves are compared by presence only"""
    if t is None or isinstance(t, str):
        return t
    if t[0] == "L":
        return ["L", "values"]
    if t[0] == "T":
        return t
    if t[1][1] == "meta":
        return ["N", t[1], [[k, meta_blind(c)] for k, c in t[2]]]
    return ["N", t[1], [[k, (meta_blind(c) if c[0] != "L" else c)] for k, c in t[2]]]


def erase_nested_names(t, root=False):
    if t is None or t == "cyclic" or t[0] == "L":
        return t
    if t[0] == "T":
        m = list(t[3])
        m[2] = None
        return ["T", t[1], t[2], m]
    m = list(t[2])
    if not root:
        m[2] = None
    return ["N", t[1], m, [[k, erase_nested_names(c, False)] for k, c in t[3]]]


def drop_empty_nodes(t):
    """the tree without nested nodes that hold nothing (recursively)"""
    if t is None or t == "cyclic" or t[0] != "N":
        return t
    es = []
    for k, c in t[3]:
        c2 = drop_empty_nodes(c)
        if c2[0] == "N" and not c2[3]:
            continue
        es.append([k, c2])
    return ["N", t[1], t[2], es]


def frame_unchanged(before, after):
    return before == after


def dense_view(case):
    """the stacked view of a lazy case as a regular abstract case (ids of member 0; tensors = stacks over the members)"""
    n = len(case["members"])
    sd = case.get("sd", 0)

    def ins(bs):
        return list(bs[:sd]) + [n] + list(bs[sd:])

    def lift(t):
        if t[0] == "L":
            return t
        if t[0] == "T":
            return ["T", t[1], t[2], [ins(t[3][0])] + list(t[3][1:])]
        return ["N", t[1], [ins(t[2][0])] + list(t[2][1:]), [[k, lift(c)] for k, c in t[3]]]
    c = dict(case, kind="regular", self=lift(case["members"][0]), others=[lift(ms[0]) for ms in case["others_members"]], out=None)

    def tens(z, bs):
        mb = list(bs[:sd]) + list(bs[sd + 1:])
        return torch.stack([I.leaf_tensor(z + i, mb) for i in range(n)], sd)
    return c, tens


def lazy_reference(case):
    """a lazy stack is its members side by side: the reference member by member (no batch_size override), or on the
    stacked view (batch_size override: a regular tensordict is returned)"""
    o = case["opts"]
    has_out = case["out"] is not None
    if has_out and (case.get("out_repr") or "lazy") in ("other", "short"):
        return ("gray", "out= of a lazy stack is not a lazy stack / has fewer members")
    if any(len(ms) != len(case["members"]) for ms in case["others_members"]):
        return ("gray", "an operand with another size along the stack dim")
    if o["inplace"]:
        truthy = bool(o["bs"]) or (o["dev"] not in ("absent", None)) or bool(o["names"] not in ("absent", None) and o["names"])
        given = o["bs"] is not None or o["dev"] != "absent" or o["names"] != "absent"
        if truthy:
            return ("raise", {"ValueError"})         # "Cannot pass other arguments to LazyStackedTensorDict.apply when inplace=True"
        if given:
            return ("gray", "inplace with an empty / None override on a lazy stack")
    if o["bs"] is not None and not has_out:
        if o["con"] or o["leaf_node"] or o["names"] != "absent":
            return ("gray", "stacked view of a lazy stack with call_on_nested / is_leaf over collections / names=")
        c, tens = dense_view(case)
        old = REF.TENS[0]
        REF.TENS[0] = tens
        try:
            r = REF.reference(c)
        finally:
            REF.TENS[0] = old
        return ("dense",) + r
    if o["bs"] is not None:
        return ("gray", "batch_size= together with out= on a lazy stack")
    if o["names"] != "absent":
        return ("gray", "names= on a lazy stack")
    per = []
    for i, m in enumerate(case["members"]):
        ci = dict(case, kind="regular", self=m, others=[ms[i] for ms in case["others_members"]],
                  out=(case["out_members"][i] if has_out else None))
        per.append(REF.reference(ci))
    if any(r[0] == "gray" for r in per):
        return ("gray", "member: " + [r[1] for r in per if r[0] == "gray"][0])
    if any(r[0] == "raise" for r in per):
        errs = set()
        for r in per:
            if r[0] == "raise":
                errs |= r[1]
        return ("raise", errs)
    rets = [r[1] for r in per]
    if all(r is None for r in rets):
        return ("members", None)
    if any(r is None for r in rets) and not o["inplace"]:
        return ("gray", "some members filtered out, some not")
    return ("members", rets)


def effective(case):
    """container kinds as the nested dicts the reference speaks about"""
    return case


def check_lazy_apply_(case, mres=None):
    """LazyStackedTensorDict.apply_ is a function of its own (each member's _fast_apply(inplace=True)): the members are
    re-written in place and self is returned — oracle only"""
    fails, cnt = [], {}
    o = case["opts"]
    real = run_real(case)
    cnt["lazy.apply_"] = 1
    cnt["outcome:" + (real["outcome"] if real["outcome"] == "ok" else real["exc"])] = 1
    sig = {"call": "lazy.apply_", "container": "lazy", "propagate": o["propagate"]}
    gray = REF.gray_reasons(dict(case, self=case["members"][0], out=None))
    per = []
    short_op = any(len(ms) != len(case["members"]) for ms in case["others_members"])
    for i, m in enumerate(case["members"]):
        if short_op:
            per.append(("gray", "an operand with another size along the stack dim"))
            continue
        per.append(REF.reference(dict(case, kind="regular", self=m, others=[ms[i] for ms in case["others_members"]], out=None)))
    if [g for g in gray if g in REF.HARD_GRAY] or any(r[0] == "gray" for r in per):
        cnt["oracle:gray"] = 1
    elif any(r[0] == "raise" for r in per):
        errs = set().union(*[r[1] for r in per if r[0] == "raise"])
        if real["outcome"] == "ok":
            fails.append(("error:not-raised", case, {"expected": sorted(errs)}, dict(sig, kind="not-raised")))
        elif real["exc"] not in errs:
            fails.append(("error:other-class", case, {"expected": sorted(errs), "got": real["exc"], "msg": real.get("msg")}, dict(sig, kind="raise", exc=real["exc"])))
    elif real["outcome"] != "ok":
        fails.append(("raise:unexpected", case, {"exc": real["exc"], "msg": real.get("msg")}, dict(sig, kind="raise", exc=real["exc"])))
    else:
        got = real.get("ret_members")
        if real["ret_is"] != "self" or got is None or len(got) != len(per):
            fails.append(("result:object", case, {"returned": real["ret_is"]}, dict(sig, kind="object")))
        else:
            for i, (r, g) in enumerate(zip(per, got)):
                exp = r[1] if r[1] is not None else REF.abstract_expected(case["members"][i])
                d = cmp_expected(exp, g)
                if d:
                    fails.append(("result:" + d[1], case, {"member": i, "path": d[0], "got": d[2], "want": d[3]}, dict(sig, kind="result", what=d[1])))
                    break
    if real.get("after") and real["before"]["others"] != real["after"]["others"]:
        fails.append(("frame:other-operand-modified", case, {}, dict(sig, kind="frame-others")))
    mism = []
    if mres is not None:
        mo = model_obs(case, mres)
        if mo["outcome"] == "unmodelled":
            cnt["model:unmodelled"] = 1
        elif mo["outcome"] in ("decode-error", "stuck"):
            mism.append(("model:" + mo["outcome"], case, summarize(real), mres))
        else:
            cnt["model:compared"] = 1
            cnt["model:compared lazy apply_"] = 1
            io = impl_obs_for_model(case, real)
            if case.get("fnvar") == "mutate_none":
                io, mo = blind_obs(io), blind_obs(mo)
            if not same_obs(io, mo):
                mism.append(("apply_:result", case, io, mo))
    return fails, mism, cnt, real


def check_case(case, mres):
    """one case: real run, oracle, correspondence.  Returns (oracle_failures, mismatches, counters, observation)."""
    fails, mism, cnt = [], [], {}
    o = case["opts"]
    kindname = case["kind"]
    if kindname == "lazy" and case["front"] == "apply_":
        return check_lazy_apply_(case, mres)

    def count(k):
        cnt[k] = cnt.get(k, 0) + 1

    real_mt = None
    if case["threads"]:
        # the thread-pool form is held to "equals the single-threaded form" (O6); the reference is applied to the latter
        real_mt = run_real(case)
        real = run_real(case, threads=0)
    else:
        real = run_real(case)
    if "build_error" in real:
        count("build-error:" + real["build_error"][:60])
        return fails, mism, cnt, real
    ecase = effective(case)
    if kindname == "lazy":
        ref = lazy_reference(case)
        gray = [g for g in REF.gray_reasons(dict(case, self=case["members"][0], out=(case["out_members"][0] if case["out"] is not None else None)))]
    else:
        ref = REF.reference(ecase)
        gray = REF.gray_reasons(ecase)
    if kindname == "alias" and (case["alias"]["out"] and o["inplace"]):
        gray.append("out= is self and inplace")
    inplace, has_out = o["inplace"], case["out"] is not None
    sigbase = {"call": case["front"], "container": kindname}
    count("outcome:" + (real["outcome"] if real["outcome"] == "ok" else real["exc"]))
    for g in gray:
        count("gray:" + g)
    alias_out = kindname == "alias" and case["alias"]["out"]

    # ---- O4 frame: other operands never change; self only when inplace; out only when given (and not inplace)
    def frame(r, call):
        if r.get("after") is None or r["after"].get("self") is None:
            return
        b, a = r["before"], r["after"]
        others_b, others_a = b["others"], a["others"]
        if kindname == "alias" and case["alias"]["other"]:
            others_b, others_a = others_b[1:], others_a[1:]          # the first other IS self
        if others_b != others_a:
            fails.append(("frame:other-operand-modified", case, {"before": others_b, "after": others_a}, dict(sigbase, call=call, kind="frame-others")))
        if not inplace and not alias_out and b["self"] != a["self"]:
            fails.append(("frame:self-modified-without-inplace", case, {"before": b["self"], "after": a["self"]},
                          dict(sigbase, call=call, kind="frame-self", lock_only=strip_lock(b["self"]) == strip_lock(a["self"]))))
        if has_out and inplace and not alias_out and b["out"] != a["out"]:
            fails.append(("frame:out-modified-under-inplace", case, {"before": b["out"], "after": a["out"]}, dict(sigbase, call=call, kind="frame-out")))
        if r.get("junk_row_intact") is False:
            fails.append(("frame:parent-rows-outside-the-view-modified", case, {}, dict(sigbase, call=call, kind="frame-parent")))
    frame(real, case["front"])

    # ---- O1/O2/O3/O5 against the reference
    sig = dict(sigbase)
    sig.update(pattern_flags(case))
    hard_gray = [g for g in gray if g in REF.HARD_GRAY or g == "out= is self and inplace"]
    if ref[0] == "gray" or hard_gray:
        count("oracle:gray")
    elif ref[0] == "raise" or (ref[0] == "dense" and ref[1] == "raise"):
        errs = ref[1] if ref[0] == "raise" else ref[2]
        count("oracle:documented-error")
        if real["outcome"] == "ok":
            fails.append(("error:not-raised", case, {"expected": sorted(errs)}, dict(sig, kind="not-raised", expected=sorted(errs)[0])))
        elif real["exc"] == "RuntimeError" and REF.NAMES_CONFLICT in gray:
            count("oracle:gray-names-conflict")
        elif real["exc"] not in errs:
            fails.append(("error:other-class", case, {"expected": sorted(errs), "got": real["exc"], "msg": real.get("msg")},
                          dict(sig, kind="raise", exc=real["exc"])))
    elif ref[0] == "dense" and ref[1] == "gray":
        count("oracle:gray")
    elif real["outcome"] != "ok":
        count("oracle:value")
        if real["exc"] == "RuntimeError" and REF.NAMES_CONFLICT in gray:
            count("oracle:gray-names-conflict")
        else:
            fails.append(("raise:unexpected", case, {"exc": real["exc"], "msg": real.get("msg")}, dict(sig, kind="raise", exc=real["exc"])))
    elif ref[0] == "members":
        count("oracle:value")
        exp = ref[1]
        if exp is None:
            if real["ret"] is not None:
                fails.append(("result:presence", case, {"got": "result", "want": "None"}, dict(sig, kind="result", what="presence")))
        elif real.get("ret_members") is None:
            fails.append(("result:type", case, {"got": real.get("ret_type"), "want": "lazy"}, dict(sig, kind="result", what="type")))
        elif len(exp) != len(real["ret_members"]):
            fails.append(("result:members", case, {"got": len(real["ret_members"]), "want": len(exp)}, dict(sig, kind="result", what="members")))
        else:
            for i_, (e_, g_) in enumerate(zip(exp, real["ret_members"])):
                if e_ is None:
                    continue                # in place: a member for which nothing was produced stays as it is
                d = cmp_expected(e_, g_, lax_nont=REF.NONT_OUT in gray)
                if d:
                    fails.append(("result:" + d[1], case, {"member": i_, "path": d[0], "got": d[2], "want": d[3]}, dict(sig, kind="result", what=d[1])))
                    break
            want_is = "self" if inplace else "new"
            if real["ret_is"] != want_is:
                fails.append(("result:object", case, {"returned": real["ret_is"], "want": want_is}, dict(sig, kind="object", returned=real["ret_is"])))
    else:
        exp = ref[2] if ref[0] == "dense" else ref[1]
        count("oracle:value")
        got = real["ret"]
        if kindname == "params" and inplace and exp is None and got is not None and case["front"] != "fast":
            exp = REF.abstract_expected(case["self"])      # the TensorDictParams wrapper returns self whatever the inner call returns
        d = cmp_expected(exp, got, lax_nont=REF.NONT_OUT in gray)
        if d:
            fails.append(("result:" + d[1], case, {"path": d[0], "got": d[2], "want": d[3]}, dict(sig, kind="result", what=d[1])))
        else:
            # designated object
            want_is = "none" if exp is None else ("self" if inplace else "out" if has_out else "new")
            if alias_out and exp is not None and not inplace:
                want_is = "self"
            if kindname == "params" and inplace and case["front"] == "fast":
                want_is = real["ret_is"]          # internal: _fast_apply returns the wrapped tensordict
            if ref[0] != "dense" and real["ret_is"] != want_is:
                fails.append(("result:object", case, {"returned": real["ret_is"], "want": want_is}, dict(sig, kind="object", returned=real["ret_is"])))
            if kindname in ("regular", "alias") and got not in (None, "cyclic") and not alias_out:
                md = meta_check(ecase, got, gray)
                if md:
                    fails.append(("metadata:" + md[0], case, {"got": md[1], "want": md[2]}, dict(sig, kind="metadata", what=md[0])))
            if ref[0] == "dense" and got not in (None, "cyclic") and (got[2][0] != list(o["bs"]) or real["ret_type"] != "td"):
                fails.append(("metadata:dense-result", case, {"got": [got[2][0], real["ret_type"]], "want": [o["bs"], "td"]}, dict(sig, kind="metadata", what="dense")))
            if inplace and got is not None and kindname in ("regular", "alias", "params", "tc"):
                idd = inplace_identity(real["before"]["self"], got)
                if idd:
                    fails.append(("inplace:" + idd, case, {}, dict(sig, kind="inplace-identity", what=idd)))
            want_type = {"regular": "td", "alias": "td", "sub": "sub" if inplace else "td", "tc": "tc",
                         "params": ("params" if case["front"] != "fast" else None) if inplace else "td", "lazy": "td"}[kindname]
            if has_out and not inplace:
                want_type = "td" if kindname != "tc" else None
            if got is not None and want_type is not None and real["ret_type"] != want_type:
                fails.append(("result:type", case, {"got": real["ret_type"], "want": want_type}, dict(sig, kind="result", what="type")))
        # nothing written when the call returns None
        if exp is None and real.get("after") and inplace and real["before"]["self"] != real["after"]["self"]:
            fails.append(("frame:self-written-but-None-returned", case, {}, dict(sig, kind="frame-none")))

    # ---- O6 multithreaded = single-threaded (direct, on a fresh copy of the operands)
    if real_mt is not None:
        st, mt = real, real_mt
        count("mt-vs-st")
        frame(mt, "mt")
        if mt["outcome"] != "ok" and st["outcome"] != "ok":
            count("mt-vs-st:both-raise")           # which exception comes first is not promised
        elif kindname == "lazy" and (o["bs"] is not None or (has_out and (case.get("out_repr") or "lazy") in ("other", "short"))):
            # _multithread_apply_nest of a lazy stack refuses batch_size= (documented by its message)
            count("mt-vs-st:gray lazy stack with batch_size= / an out= that is not a lazy stack in a thread pool")
        elif hard_gray:
            count("mt-vs-st:gray")
        elif kindname == "sub" and o["checked"]:
            count("mt-vs-st:gray _SubTensorDict with checked=True")     # the single-threaded form of a view always validates
        else:
            tya, tyb = (mt.get("ret_type"), st.get("ret_type")) if kindname != "params" else (None, None)
            a = (mt["outcome"], meta_blind(strip_ident(mt.get("ret"))) if mt.get("ret") != "cyclic" else "cyclic", tya)
            b = (st["outcome"], meta_blind(strip_ident(st.get("ret"))), tyb)
            if a != b:
                dk = mt_diff_kind(mt, st, case)
                sg = dict(sigbase, call="mt", kind="differs", diff=dk)
                sg.update(mt_patterns(case))
                fails.append(("mt:differs-from-single-threaded", case, {"mt": summarize(mt), "st": summarize(st), "diff": dk}, sg))
        real = real_mt

    if case["threads"] == 2 and real.get("ran") is not None:
        want = [i for i in case["perm"] if i < len(real["ran"])]
        if real["ran"] != want:
            mism.append(("executor:order", case, real["ran"], want))

    # ---- correspondence with the model
    if mres is not None:
        mo = model_obs(case, mres)
        if mo["outcome"] in ("unmodelled",):
            count("model:unmodelled")
        elif mo["outcome"] in ("decode-error", "stuck"):
            mism.append(("model:" + mo["outcome"], case, summarize(real), mres))
        else:
            count("model:compared")
            io = impl_obs_for_model(case, real)
            if case.get("fnvar") == "mutate_none":
                io, mo = blind_obs(io), blind_obs(mo)
            loose = kindname in ("sub", "tc", "params")
            if loose and hard_gray:
                count("model:not-compared (gray in-place write on a view / wrapper)")
            elif kindname == "params" and inplace and mo.get("outcome") == "ok" and mo.get("ret") is None and io.get("ret") is not None:
                count("model:params wrapper returns self for None")
            elif "view" in mo and "view" not in io:
                count("model:stacked view delegated, call did not return a tensordict")
            elif not same_obs(io, mo, loose):
                mism.append(("apply:result", case, io, mo))
            elif kindname == "lazy":
                count("model:compared lazy " + ("view" if "view" in mo else "mt" if case["threads"] else "st"))
    else:
        count("model:not-applicable")
    return fails, mism, cnt, real


def same_tree(a, b):
    """implementation observation vs evaluated model tree; values on the meta device are not observable"""
    if a is None or b is None or isinstance(a, str) or isinstance(b, str):
        return a == b
    if a[0] != b[0]:
        return False
    if a[0] == "L":
        return a[1] == b[1] and (a[2] == b[2] or (a[2] and a[2][0] == "meta"))
    if a[0] == "T":
        return a == b
    return a[1] == b[1] and a[2] == b[2] and [k for k, _ in a[3]] == [k for k, _ in b[3]] and \
        all(same_tree(x, y) for (_, x), (_, y) in zip(a[3], b[3]))


def loosen(t):
    """sub-tensordicts, tensorclasses and parameter containers are observed as their content: node identity, lock
    state and the identity of fresh leaves are not compared there"""
    if t is None or isinstance(t, str) or t[0] == "L":
        return t if (t is None or isinstance(t, str)) else ["L", "-", t[2]]
    if t[0] == "T":
        return ["T", "-", t[2], [t[3][0], t[3][1], t[3][2] or None]]
    return ["N", "-", [t[2][0], t[2][1], t[2][2] or None], [[k, loosen(c)] for k, c in t[3]]]


def blind_vals(t):
    """leaf values hidden (fn updates its argument and returns None: whether the update reaches the container depends on
    whether the container hands out its own tensors)"""
    if t is None or isinstance(t, str):
        return t
    if t[0] == "L":
        return ["L", t[1], "-"]
    if t[0] == "T":
        return t
    return ["N", t[1], t[2], [[k, blind_vals(c)] for k, c in t[3]]]


def blind_obs(ob):
    ob = dict(ob)
    if ob.get("ret") is not None:
        ob["ret"] = blind_vals(ob["ret"])
    if ob.get("members") is not None:
        ob["members"] = [blind_vals(m) for m in ob["members"]]
    return ob


def same_obs(io, mo, loose=False):
    if loose and io.get("outcome") == "ok" and mo.get("outcome") == "ok":
        return same_tree(loosen(io.get("ret")), loosen(mo.get("ret")))
    if mo.get("outcome") == "cyclic":
        # the root out= was handed to a nested rebuild (S16): the structure is ill-formed; how that surfaces is not modelled
        return io.get("outcome") == "cyclic" or (io.get("outcome") == "raise" and io.get("exc") in ("ValueError", "RecursionError"))
    if io.get("outcome") != mo.get("outcome") or io.get("exc") != mo.get("exc"):
        return False
    if "view" in io or "view" in mo:
        return io.get("view") == mo.get("view")
    if "members" in io or "members" in mo:
        a, b = io.get("members"), mo.get("members")
        return a is not None and b is not None and len(a) == len(b) and all(same_tree(x, y) for x, y in zip(a, b)) \
            and io.get("lazy") == mo.get("lazy")
    return same_tree(io.get("ret"), mo.get("ret"))


def strip_lock(t):
    if t is None or t == "cyclic" or t[0] == "L":
        return t
    if t[0] == "T":
        return ["T", t[1], t[2], t[3][:3]]
    return ["N", t[1], t[2][:3], [[k, strip_lock(c)] for k, c in t[3]]]


def impl_obs_for_model(case, real):
    if real["outcome"] != "ok":
        return {"outcome": "raise", "exc": real["exc"]}
    if real["ret"] == "cyclic":
        return {"outcome": "cyclic"}
    if case["kind"] == "lazy":
        if real["ret"] is None:
            return {"outcome": "ok", "ret": None}
        if real.get("ret_type") == "td":
            return {"outcome": "ok", "view": [real["ret"][2][0], real["ret"][2][1]]}
        return {"outcome": "ok", "members": real.get("ret_members"), "lazy": real.get("ret_lazy")}
    return {"outcome": "ok", "ret": real["ret"]}


def summarize(real):
    return {k: real.get(k) for k in ("outcome", "exc", "msg", "ret_is", "ret")}


def pattern_flags(case):
    """decidable patterns of the recorded defects, computed from the case alone (none at present: C20-a, C20-b, C20-c, C20-e
    and C20-f are repaired in /repo)"""
    return {}


def mt_patterns(case):
    """decidable patterns of the recorded thread-pool / single-thread discrepancies"""
    o = case["opts"]
    f = {}
    if case["out"] is not None and not o["inplace"] and not o["leaf_nont"] and \
            any(e[0] == "T" and not (o["con"] and len(p) == 1) for p, e in I.walk(case["self"]) if p):
        f["out_nontensor"] = True
    if case["kind"] == "lazy" and case["out"] is not None and case.get("out_repr") == "tc":
        f["lazy_out_tc"] = True
    return f


def blind_nont(t, meta=False, data=True):
    """non-tensor entries with their data (and / or their metadata) hidden"""
    if t is None or isinstance(t, str) or t[0] == "L":
        return t
    if t[0] == "T":
        return ["T", "-", "-" if data else t[2], "-" if meta else t[3]]
    return ["N", t[1], t[2], [[k, blind_nont(c, meta, data)] for k, c in t[3]]]


def blind_full(t):
    """full observation with the values of leaves under a meta-device node hidden"""
    if t is None or isinstance(t, str) or t[0] != "N":
        return t
    hide = t[2][1] == "meta"
    return ["N", t[1], t[2], [[k, (["L", c[1], "values"] if (hide and c[0] == "L") else blind_full(c))] for k, c in t[3]]]


def mt_diff_kind(mt, st, case=None):
    if mt["outcome"] != "ok":
        return "mt-raises-" + mt["exc"]
    if st["outcome"] != "ok":
        return "st-raises-" + st["exc"]
    if mt["ret"] == "cyclic":
        return "mt-cyclic"
    mr, sr = blind_full(mt["ret"]), blind_full(st["ret"])
    if st["ret"] is None and mt.get("ret_is") in ("self", "out") and case is not None:
        if case["kind"] != "lazy":
            same = cmp_expected(REF.abstract_expected(case[mt["ret_is"]]), mt["ret"]) is None
        else:
            ms = case["members"] if mt["ret_is"] == "self" else case["out_members"]
            got = mt.get("ret_members") or []
            same = len(ms) == len(got) and all(cmp_expected(REF.abstract_expected(m), g) is None for m, g in zip(ms, got))
        if same:
            return "extra-empty-nodes"          # nothing was written: self / out is returned where the other form returns None
    if strip_ident(blind_nont(mr)) == strip_ident(blind_nont(sr)):
        return "non-tensor-data"
    if strip_ident(blind_nont(mr, True, False)) == strip_ident(blind_nont(sr, True, False)):
        return "non-tensor-metadata"
    if strip_ident(erase_nested_names(mr)) == strip_ident(erase_nested_names(sr)):
        return "names-only"

    def emptied(r):
        x = strip_ident(drop_empty_nodes(r))
        return None if (x is not None and x[0] == "N" and not x[2]) else x
    if emptied(mr) == emptied(sr):
        return "extra-empty-nodes"
    if emptied(erase_nested_names(mr)) == emptied(erase_nested_names(sr)):
        return "names+extra-empty-nodes"
    return "other"


def expected_root_meta(case):
    o = case["opts"]
    bs, dv, nm, lk = case["self"][2]
    e = {}
    e["bs"] = list(o["bs"]) if o["bs"] is not None else list(bs)
    e["dev"] = dv if o["dev"] == "absent" else o["dev"]
    if o["bs"] is not None:
        e["names"] = None if o["names"] in ("absent", None) else list(o["names"])
    elif o["names"] == "absent":
        e["names"] = None if nm is None else list(nm)
    e["lock"] = bool(o["propagate"] and lk)
    return e


def meta_check(case, got, gray=()):
    """documented metadata of the result (a new object): batch size / device as requested or as self's, names erased
    when the batch size is overridden unless given, locked iff propagate_lock and self is locked.  For inplace / out=
    the designated object keeps its own batch size and device."""
    o = case["opts"]
    if got[0] != "N":
        return None
    bs, dv, names, lk = got[2]
    if o["inplace"]:
        want = case["self"][2]
        if bs != list(want[0]) or dv != want[1]:
            return ("inplace-metadata", [bs, dv], [want[0], want[1]])
        return None
    if case["out"] is not None:
        want = case["out"][2]
        if bs != list(want[0]):
            return ("out-batch-size", bs, want[0])
        if o["propagate"] and case["self"][2][3] and not lk:
            return ("lock-not-propagated", lk, True)
        return None
    e = expected_root_meta(case)
    if bs != e["bs"]:
        return ("batch_size", bs, e["bs"])
    if dv != e["dev"]:
        return ("device", dv, e["dev"])
    if "names" in e and REF.NAMES_NO_BS not in gray and names != e["names"] and not (names is not None and e["names"] is None and all(n is None for n in names)):
        return ("names", names, e["names"])
    if lk != e["lock"]:
        return ("lock", lk, e["lock"])
    # nested nodes: batch size / device by the same rule, lock state as the root
    for k, c in walk_obs(got):
        if c[0] == "N" and c is not got:
            m = c[2]
            if o["bs"] is not None and m[0] != e["bs"]:
                return ("nested-batch_size", m[0], e["bs"])
            if o["dev"] != "absent" and m[1] != e["dev"]:
                return ("nested-device", m[1], e["dev"])
            if m[3] != e["lock"]:
                return ("nested-lock", m[3], e["lock"])
    return None


def walk_obs(t, path=()):
    yield path, t
    if t[0] == "N":
        for k, c in t[3]:
            yield from walk_obs(c, path + (k,))


def inplace_identity(before, got):
    """in place: the same node objects, the same keys in the same order, the same leaf storages"""
    if before is None or got is None or got == "cyclic":
        return None
    if before[0] != got[0]:
        return "kind-changed"
    if before[0] == "L":
        return None if before[1] == got[1] else "leaf-storage-replaced"
    if before[0] == "T":
        return None if before[1] == got[1] else "non-tensor-object-replaced"
    if before[1] != got[1]:
        return "node-object-replaced"
    if [k for k, _ in before[3]] != [k for k, _ in got[3]]:
        return "keys-changed"
    for (k, c), (_, d) in zip(before[3], got[3]):
        r = inplace_identity(c, d)
        if r:
            return r
    return None


# ================================================================== the in-place write-back at one level (Model/C20_WriteBack.v)
WB_KINDS = ["td", "sub:int", "sub:slice", "sub:list", "sub:tensor", "sub:mask"]
WB_FRONTS = ["apply_", "apply", "named_apply", "fast"]


def gen_wb_case(rng):
    keys = rng.sample(KEYS, rng.choice([1, 2, 3, 4]))
    items = []
    for i, k in enumerate(keys):
        x = 10 * (i + 1)
        r = rng.choice(["fresh", "fresh", "same", "mut", "mut", "mutnone", "none"])
        items.append([k, x, r, 1000 + 7 * x + rng.randrange(5)])
    return {"kind": "wb", "container": rng.choice(WB_KINDS), "front": rng.choice(WB_FRONTS), "n": rng.choice([1, 2, 3]), "items": items,
            # (the fields the collection loop reads)
            "self": ["N", 0, [[], None, None, False], items], "opts": {"inplace": True}, "threads": 0, "perm": [], "fnvar": "per-key"}


def wb_line(c):
    def ret(r, v):
        return Sym(r) if r in ("same", "none") else [Sym(r), v]
    copies = c["container"] in ("sub:list", "sub:tensor", "sub:mask")
    return sx([Sym("wb"), False, copies, [[Sym(k), x, ret(r, v)] for k, x, r, v in c["items"]]])


def run_wb(c):
    """the real in-place call on a one-level container; the stored value of every key afterwards (read through the
    container AND through the parent), and whether the rows of the parent outside the index are untouched"""
    from tensordict import TensorDict
    n = c["n"]
    spec = {k: (x, r, v) for k, x, r, v in c["items"]}

    def fn(*a):
        key, item = (a[0], a[1]) if c["front"] == "named_apply" else (None, a[0])
        if key is None:
            key = [k for k, (x, _, _) in spec.items() if int(item.reshape(-1)[0]) == x][0]
        x, r, v = spec[key]
        if r == "fresh":
            return torch.full_like(item, v)
        if r == "same":
            return item
        if r == "mut":
            return item.fill_(v)
        if r == "mutnone":
            item.fill_(v)
            return None
        return None
    try:
        kind = c["container"]
        if kind == "td":
            td = TensorDict({k: torch.full((n, 1), x) for k, x, _, _ in c["items"]}, [n])
            parent, rows, junk = td, slice(None), None
        else:
            ik = kind.split(":")[1]
            if ik == "int":
                parent = TensorDict({k: torch.stack([torch.full((n, 1), x), torch.full((n, 1), -1)], 0) for k, x, _, _ in c["items"]}, [2, n])
                idx, rows, junk = 0, 0, 1
            else:
                ev = list(range(0, 2 * n, 2))
                parent = TensorDict({k: torch.stack([torch.full((n, 1), x), torch.full((n, 1), -1)], 1).reshape(2 * n, 1) for k, x, _, _ in c["items"]}, [2 * n])
                idx = {"slice": slice(0, 2 * n, 2), "list": ev, "tensor": torch.tensor(ev), "mask": torch.tensor([i % 2 == 0 for i in range(2 * n)])}[ik]
                rows, junk = slice(0, 2 * n, 2), slice(1, 2 * n, 2)
            td = parent._get_sub_tensordict(idx)
        if c["front"] == "apply_":
            ret = td.apply_(fn)
        elif c["front"] == "apply":
            ret = td.apply(fn, inplace=True)
        elif c["front"] == "named_apply":
            ret = td.named_apply(fn, inplace=True)
        else:
            ret = td._fast_apply(fn, inplace=True)
        got = []
        for k, _, _, _ in c["items"]:
            a = td.get(k).reshape(-1).tolist()
            b = parent.get(k)[rows].reshape(-1).tolist()
            got.append([k, a[0] if (len(set(a)) == 1 and a == b) else ["mixed", a, b]])
        junk_ok = True if junk is None else all(bool((parent.get(k)[junk] == -1).all()) for k, _, _, _ in c["items"])
        return {"outcome": "ok", "stored": got, "junk_ok": junk_ok, "ret_ok": (ret is td) or ret is None, "keys": list(td.keys())}
    except Exception as e:  # noqa: BLE001
        return {"outcome": "raise", "exc": type(e).__name__, "msg": str(e)[:160]}


def check_wb(c, m):
    """oracle: every key holds the value fn's result stands for (computed from the case alone; a None result after an update
    in place is not demanded); nothing else of the parent is touched.  Correspondence: the stored values are the model's."""
    fails, mism, cnt = [], [], {"wb": 1, "wb container:" + c["container"]: 1, "wb front:" + c["front"]: 1}
    real = run_wb(c)
    sig = {"call": "wb:" + c["front"], "container": c["container"]}
    if real["outcome"] != "ok":
        fails.append(("inplace:raise", c, real, dict(sig, kind="raise", exc=real["exc"])))
        return fails, mism, cnt, real
    for (k, x, r, v), (_, g) in zip(c["items"], real["stored"]):
        cnt["wb fn:" + r] = cnt.get("wb fn:" + r, 0) + 1
        want = {"fresh": v, "same": x, "mut": v, "none": x}.get(r)
        if want is not None and g != want:
            fails.append(("inplace:stored-value", c, {"key": k, "fn": r, "got": g, "want": want}, dict(sig, kind="stored-value", fn=r)))
            break
    if not real["junk_ok"]:
        fails.append(("frame:parent-rows-outside-the-view-modified", c, {}, dict(sig, kind="frame-parent")))
    if real["keys"] != [k for k, _, _, _ in c["items"]]:
        fails.append(("inplace:keys", c, {"got": real["keys"]}, dict(sig, kind="keys")))
    if m is not None:
        mo = [[kv[0], kv[1]] for kv in m]
        if mo != real["stored"]:
            mism.append(("wb:stored", c, real["stored"], mo))
    return fails, mism, cnt, real


# ================================================================== driver
def _work(args):
    torch.set_num_threads(1)
    out = []
    for (case, m) in args:
        try:
            if case["kind"] == "wb":
                f, mm, cnt, real = check_wb(case, m)
            else:
                f, mm, cnt, real = check_case(case, m)
        except Exception as e:  # noqa: BLE001
            import traceback
            f, mm, cnt = [], [("harness-crash", case, traceback.format_exc()[-1500:], None)], {"harness-crash": 1}
        out.append((f, mm, cnt))
    return out


def prescan_ran(cases):
    """the order in which the deterministic executor completed the tasks (needed by the model's mt form)"""
    torch.set_num_threads(1)
    return [run_real(c).get("ran", []) if c["threads"] == 2 else [] for c in cases]


def chunks(l, n):
    k = max(1, (len(l) + n - 1) // n)
    return [l[i:i + k] for i in range(0, len(l), k)]


KIND_MIX = ["regular"] * 11 + ["lazy"] * 3 + ["sub"] * 2 + ["tc"] * 2 + ["params", "alias"]


def main(R):
    torch.set_num_threads(1)
    R.rule = ("one case = (lattice point, operand scene, container kind, lock state, front-end); lattice = inplace x out x default x "
              "filter_empty(None/True/False) x call_on_nested x (plain/named/nested_keys) x batch_size override x names(absent/list/None) x "
              "device(absent/same/other) x propagate_lock x num_threads(0/2/4) x is_leaf(default/nontensor/all) [x checked for _fast_apply]; "
              "container kinds regular / lazy stack / _SubTensorDict / tensorclass / TensorDictParams / aliased (out is self, other is self); "
              "distinct by the whole case; non-trivial = self has at least one entry")
    R.assumptions = ["fn returns a new tensor shaped like its first argument (or None): what fn returns is fn's business, the model keeps it as a free term",
                     "num_threads=2 runs through a deterministic executor (tasks complete in a generated permutation); num_threads=4 uses the real ThreadPoolExecutor",
                     "batch_size= is passed as torch.Size and device= as torch.device (a list / str never compares equal to out.batch_size / out.device)",
                     "gray combinations (listed in the input distribution as gray:*) are compared with the model only; the oracle demands nothing there but the frame",
                     "lazy stacks go through the model (Model/C20_Lazy.v) for every stack dim of self, other operands as a lazy stack along any dim / dense / tensorclass / one slice short, out= lazy / lazily stacked tensorclass / dense / one member short, names=, thread pools and apply_; what TensorDict._apply_nest computes on the stacked view (batch_size= without out=) is compared by batch size / device / type only and otherwise by the oracle; aliased operands are checked by the oracle only",
                     "the model follows /repo with the repairs of C20-g and C20-h (NonTensorData._multithread_rebuild = _apply_nest; a lazily stacked tensorclass as out= of a thread pool) in place: a recurrence of either is a VIOLATION"]
    R.trusted = ["harness/c20_ref.py: the reference (nested dicts) is my reading of the documented contract of apply"]
    t00 = time.time()
    R.step_prove()
    ok = R.step_driver()
    R.extra["build_s"] = round(time.time() - t00, 1)
    t00 = time.time()
    pts = lattice()
    nscenes = 40 if R.quick else 300
    kinds = sorted(set(KIND_MIX))
    scenes = {k: [(lazy_scene(R.rng) if k == "lazy" else gen_scene(R.rng, k)) for _ in range(nscenes)] for k in kinds}
    per_point = 1 if R.quick else 8
    R.extra["lattice_points"] = len(pts)
    nproc = min(15, os.cpu_count() or 2)
    try:
        avail_gb = int([l for l in open("/proc/meminfo") if l.startswith("MemAvailable")][0].split()[1]) // (1 << 20)
        nproc = max(3, min(nproc, avail_gb))            # a worker needs about 0.5 GB; leave room on a loaded machine
    except Exception:  # noqa: BLE001
        pass
    R.extra["workers"] = nproc
    ctx = mp.get_context("fork")
    tim = {"generate_s": time.time() - t00, "model_s": 0.0, "impl_s": 0.0, "collect_s": 0.0}
    with ctx.Pool(nproc) as pool:
        for rep in range(per_point + 1):
            # one pass over the whole lattice per batch (bounded memory); the last batch is the lazy apply_ sub-lattice
            t0 = time.time()
            cases = []
            if rep < per_point:
                for pt in pts:
                    kindname = R.rng.choice(KIND_MIX)
                    sc = R.rng.choice(scenes[kindname])
                    cases.append(make_case(R.rng, pt, sc, kindname, R.rng.randrange(0, 1 << 16)))
            else:
                # LazyStackedTensorDict.apply_ (a function of its own): a small sub-lattice
                for (dflt, fe, con, prop) in itertools.product([False, True], FE, [False, True], [False, True]):
                    for _ in range(4 if R.quick else 30):
                        pt = (True, False, dflt, fe, con, "plain", False, "absent", "absent", prop, 0, "default")
                        c = make_case(R.rng, pt, R.rng.choice(scenes["lazy"]), "lazy", 0)
                        c["front"] = "apply_"
                        c["opts"]["checked"] = False
                        cases.append(c)
                # the in-place write-back at one level: fn per key fresh / its argument / its argument updated / None, on a
                # TensorDict and on a _SubTensorDict under every index kind, through the four in-place front-ends
                for _ in range(1500 if R.quick else 12000):
                    cases.append(gen_wb_case(R.rng))
            tim["generate_s"] += time.time() - t0
            t1 = time.time()
            lines_all = [model_line(c, c["perm"]) for c in cases]
            idx = [i for i, l in enumerate(lines_all) if l is not None]
            mres_l = R.model([lines_all[i] for i in idx], shards=14) if (ok and idx) else []
            mres = [None] * len(cases)
            for i, m in zip(idx, mres_l):
                mres[i] = m
            tim["model_s"] += time.time() - t1
            t2 = time.time()
            results = pool.map(_work, chunks(list(zip(cases, mres)), nproc * 12), chunksize=1)
            tim["impl_s"] += time.time() - t2
            t3 = time.time()
            flat = [x for part in results for x in part]
            for ci, ((fails, mism, cnt), case) in enumerate(zip(flat, cases)):
                key = json.dumps(case, sort_keys=True, default=str)
                R.case(hash(key), nontrivial=bool(case["self"][3]),
                       sample={"front": case["front"], "opts": case["opts"], "threads": case["threads"], "kind": case["kind"]} if ci % 9973 == 0 else None)
                R.count("front:" + case["front"])
                R.count("kind:" + case["kind"])
                if case["opts"]["inplace"]:
                    R.count("inplace fn:" + case.get("fnvar", "fresh") + (" on " + case["kind"] if case["kind"] != "regular" else ""))
                if case["kind"] == "sub":
                    R.count("sub index:" + case.get("sub_index", "int") + (" inplace" if case["opts"]["inplace"] else ""))
                R.count(f"threads:{case['threads']}")
                for k, v in cnt.items():
                    R.count(k, v)
                R.traces += 1
                for (label, c, detail, sig) in fails:
                    R.oracle_fail(label, c, detail, sig)
                for (label, c, io, mo) in mism:
                    R.mismatch(label, c, io, mo)
            tim["collect_s"] += time.time() - t3
    for k, v in tim.items():
        R.extra[k] = round(v, 1)
    R.exhaustive = False            # the option lattice is enumerated completely, the operand structures are sampled
    R.extra["option_lattice_enumerated_completely"] = True


def replay(body):
    case = body["case"]
    print("case:", json.dumps(case))
    if case["kind"] == "wb":
        print("want (value fn's result stands for, per key):",
              [[k, {"fresh": v, "same": x, "mut": v, "none": x}.get(r, "not demanded")] for k, x, r, v in case["items"]])
        print("implementation:", json.dumps(run_wb(case), default=str))
        from .core import run_model, build_driver
        build_driver("C20")
        print("model:", run_model("C20", [wb_line(case)])[0])
        return 0
    if case["kind"] == "lazy":
        print("reference:", lazy_reference(case))
    else:
        print("reference:", REF.reference(case))
        print("gray:", REF.gray_reasons(case), "patterns:", pattern_flags(case))
    print("fn variant:", case.get("fnvar", "fresh"), " sub index:", case.get("sub_index"))
    real = run_real(case)
    print("implementation:", json.dumps(summarize(real), default=str))
    if case["threads"]:
        # the reference is applied to the single-threaded form, the thread-pool form is held to "equals it"
        st = run_real(case, threads=0)
        print("implementation (num_threads=0):", json.dumps(summarize(st), default=str))
        if case["kind"] != "lazy":
            ref = REF.reference(case)
            if ref[0] == "ret" and st["outcome"] == "ok":
                print("first difference with the reference (num_threads=0):", cmp_expected(ref[1], st["ret"]))
    elif case["kind"] != "lazy":
        ref = REF.reference(case)
        if ref[0] == "ret" and real["outcome"] == "ok":
            print("first difference with the reference:", cmp_expected(ref[1], real["ret"]))
    from .core import run_model, build_driver
    line = model_line(case, case.get("perm"))
    if line is None:
        print("model: not applicable to this case (oracle only)")
        return 0
    build_driver("C20")
    m = run_model("C20", [line])[0]
    print("model:", json.dumps(model_obs(case, m), default=str))
    return 0
