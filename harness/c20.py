"""C20 — apply / named_apply honour their contract for every option combination (DESIGN.md §4 C20).

Every point of the option lattice x generated operand structures x container kinds x locked/unlocked is run against
  (1) the real code (through the public front-ends apply / apply_ / named_apply and the internal _fast_apply, thread pools
      through a deterministic executor that completes the tasks in a chosen permutation, or the real pool),
  (2) the independent reference of harness/c20_ref.py (the oracle: values by key, dropped Nones, metadata, frame, mt = st),
  (3) the extracted Coq model (coq/Model/C20_Apply.v, C20_Sched.v): full canonical result incl. order, identity, metadata."""
import copy
import itertools
import json
import multiprocessing as mp
import os
import time

import torch

from . import c20_impl as I
from . import c20_ref as REF
from .core import Sym, sx, parse_sx

KEYS = ["a", "b", "c", "n", "m", "e"]


# ================================================================== generation of abstract cases
class Ctr:
    def __init__(self):
        self.n = 0

    def next(self):
        self.n += 1
        return 8 * self.n


def gen_node(rng, ctr, meta, depth, p_nont, min_entries=0):
    n = rng.choice([0, 1, 2, 2, 3, 3, 4]) if depth > 0 else rng.choice([1, 2, 3, 3, 4, 4])
    n = max(n, min_entries)
    keys = rng.sample(KEYS, n)
    es = []
    for k in keys:
        r = rng.random()
        if depth < 3 and r < 0.34:
            es.append([k, gen_node(rng, ctr, meta, depth + 1, p_nont)])
        elif r < 0.34 + p_nont:
            z = ctr.next()
            es.append([k, ["T", z, z // 8, list(meta)]])
        else:
            es.append([k, ["L", ctr.next()]])
    return ["N", ctr.next(), list(meta), es]


def relabel(t, ctr, meta=None):
    """same structure, fresh ids (and, optionally, other metadata)"""
    if t[0] == "L":
        return ["L", ctr.next()]
    if t[0] == "T":
        z = ctr.next()
        return ["T", z, z // 8, list(meta if meta is not None else t[3])]
    return ["N", ctr.next(), list(meta if meta is not None else t[2]), [[k, relabel(c, ctr, meta)] for k, c in t[3]]]


def mutate(t, rng, ctr, meta, strength):
    """an operand derived from t: permuted / missing / extra keys, emptied nested nodes, (rarely) a kind swap"""
    if t[0] != "N":
        return relabel(t, ctr, meta)
    es = []
    for k, c in t[3]:
        r = rng.random()
        if r < 0.16 * strength:
            continue                                    # missing
        if c[0] == "N" and r < 0.26 * strength:
            es.append([k, ["N", ctr.next(), list(meta), []]])        # nested empty
        elif r > 1 - 0.02 * strength:
            es.append([k, ["L", ctr.next()] if c[0] == "N" else ["N", ctr.next(), list(meta), [["a", ["L", ctr.next()]]]]])
        else:
            es.append([k, mutate(c, rng, ctr, meta, strength)])
    if rng.random() < 0.3 * strength:
        free = [k for k in KEYS + ["x"] if k not in [kk for kk, _ in es]]
        if free:
            es.append([rng.choice(free), ["L", ctr.next()] if rng.random() < 0.7 else ["N", ctr.next(), list(meta), []]])   # extra
    if rng.random() < 0.5:
        rng.shuffle(es)                                 # permuted
    return ["N", ctr.next(), list(meta), es]


def set_lock_rec(t, b):
    if t[0] == "N":
        t[2][3] = b
        for _, c in t[3]:
            set_lock_rec(c, b)
    elif t[0] == "T":
        t[3][3] = b


BATCHES = [[3], [2, 2], [3, 2], [2], [4], []]


def gen_scene(rng, kindname):
    """self + up to two other operands + an out= candidate + the None choice"""
    ctr = Ctr()
    bs = rng.choice(BATCHES if kindname in ("regular",) else [[3], [2, 2], [3, 2], [2]])
    names = None
    if bs and rng.random() < 0.3 and kindname in ("regular", "tc"):
        names = ["x", "y", "w"][:len(bs)]
    dv = "cpu" if rng.random() < 0.3 and kindname in ("regular", "tc", "lazy") else None
    meta = [bs, dv, names, False]
    p_nont = 0.12 if kindname in ("regular", "tc") else 0.0
    S = gen_node(rng, ctr, meta, 0, p_nont)
    if kindname == "tc" and not S[3]:
        S = gen_node(rng, ctr, meta, 0, p_nont, 1)
    others = []
    for _ in range(2):
        strength = rng.choice([0, 0, 1, 1, 2])
        ometa = [bs, rng.choice([dv, dv, None]), rng.choice([names, names, None]), False]
        ot = mutate(S, rng, ctr, ometa, strength)
        if rng.random() < 0.2:
            set_lock_rec(ot, True)
        others.append(ot)
    # out candidate
    obs_ = bs if rng.random() < 0.85 or not bs else bs[:rng.randrange(0, len(bs))]
    onames = names if (rng.random() < 0.85 or not names) else None
    if onames is not None:
        onames = onames[:len(obs_)] or None
    ometa = [obs_, dv if rng.random() < 0.8 else ("cpu" if dv is None else None), onames, False]
    out = mutate(S, rng, ctr, ometa, rng.choice([0, 1, 1, 2]))
    if rng.random() < 0.15:
        out = ["N", ctr.next(), list(ometa), []]
    if rng.random() < 0.06:
        set_lock_rec(out, True)
    # which calls return None
    entries = [(p, e) for p, e in I.walk(S) if p]
    mode = rng.random()
    pids, codes = set(), set()
    if mode < 0.25:
        pass
    elif mode < 0.4:
        pids = {e[1] // 8 for _, e in entries if e[0] in ("L", "T")}       # every call returns None
        codes = {I.abs_code(e) for _, e in entries if e[0] == "N"} if rng.random() < 0.5 else set()
    else:
        for _, e in entries:
            if rng.random() < 0.3:
                if e[0] in ("L", "T"):
                    pids.add(e[1] // 8)
                else:
                    codes.add(I.abs_code(e))
        # make one whole subtree None now and then (the filter_empty cases)
        nodes = [e for p, e in entries if e[0] == "N" and e[3]]
        if nodes and rng.random() < 0.5:
            for _, e in I.walk(rng.choice(nodes)):
                if e[0] in ("L", "T"):
                    pids.add(e[1] // 8)
    return {"self": S, "others": others, "out": out, "none_pids": sorted(pids), "none_codes": sorted(codes)}


def lazy_scene(rng):
    """a lazy stack of 2..3 members with the same structure (member i of entry z has id z + i)"""
    sc = gen_scene(rng, "lazy")
    n = rng.choice([2, 3])

    def member(t, i):
        if t[0] == "L":
            return ["L", t[1] + i]
        if t[0] == "T":
            return ["T", t[1] + i, t[2], list(t[3])]
        return ["N", t[1] + i, list(t[2]), [[k, member(c, i)] for k, c in t[3]]]
    sc["members"] = [member(sc["self"], i) for i in range(n)]
    sc["others_members"] = [[member(ot, i) for i in range(n)] for ot in sc["others"]]
    sc["out_members"] = [member(sc["out"], i) for i in range(n)]
    return sc


# ------------------------------------------------------------------ the option lattice
FE = [None, True, False]
KEYMODES = ["plain", "named", "nested"]
NAMES = ["absent", "list", "none"]
DEVS = ["absent", "same", "other"]
LEAFS = ["default", "nontensor", "all"]
THREADS = [0, 2, 4]


def lattice():
    return list(itertools.product([False, True], [False, True], [False, True], FE, [False, True], KEYMODES,
                                  [False, True], NAMES, DEVS, [False, True], THREADS, LEAFS))


def make_case(rng, point, scene, kindname, variant):
    (inplace, has_out, has_default, fe, con, keymode, has_bs, names_mode, dev_mode, propagate, threads, leaf_mode) = point
    S = scene["self"]
    bs, dv, nm, _ = S[2]
    o = {"inplace": inplace, "default": has_default, "fe": fe, "con": con, "named": keymode != "plain",
         "nested_keys": keymode == "nested", "propagate": propagate,
         "leaf_tensor": True, "leaf_nont": leaf_mode in ("nontensor", "all"), "leaf_node": leaf_mode == "all"}
    if leaf_mode == "all" and rng.random() < 0.04:
        o["leaf_tensor"], o["leaf_node"] = False, False          # a perverse is_leaf: tensors are not leaves
    obs_ = None
    if has_bs:
        obs_ = list(bs) if (rng.random() < 0.4 or not bs) else list(bs[:rng.randrange(0, len(bs))])
    o["bs"] = obs_
    rbs = obs_ if obs_ is not None else bs
    if names_mode == "absent":
        o["names"] = "absent"
    elif names_mode == "none":
        o["names"] = None
    else:
        o["names"] = ["p", "q", "r"][:len(rbs)] if rng.random() < 0.8 or nm is None else list(nm[:len(rbs)])
    out = copy.deepcopy(scene["out"]) if has_out else None
    if out is not None and inplace and has_default:
        # inplace + out= copies out's non-tensor data into self's entries while self.empty(recurse=True) stand-ins built
        # earlier still share those entry objects (aliasing the functional model does not have): same payloads there
        same_payloads(S, out)
    if dev_mode == "absent":
        o["dev"] = "absent"
    elif dev_mode == "same":
        o["dev"] = (out[2][1] if out is not None and rng.random() < 0.7 else dv)
    else:
        o["dev"] = rng.choice(["cpu", None, "meta"] if dv is None else [None, "meta"])
        if o["dev"] == dv:
            o["dev"] = "cpu" if dv is None else None
    n_others = rng.choice([1, 1, 2]) if has_default else rng.choice([0, 0, 1, 1, 2])
    others = copy.deepcopy(scene["others"][:n_others])
    # front-end able to express the point
    if threads:
        front = "fast"
    elif keymode != "plain":
        front = "named_apply" if (not has_out or variant % 3 == 1) else "fast"
    else:
        front = ["apply", "fast", "apply"][variant % 3]
        if inplace and front == "apply" and variant % 2:
            front = "apply_"
    o["checked"] = (variant % 2 == 0) if front == "fast" else False
    S2 = copy.deepcopy(S)
    locked = (variant // 2) % 2 == 1 if kindname != "params" else True
    set_lock_rec(S2, locked)
    case = {"kind": kindname, "front": front, "self": S2, "others": others, "out": out, "opts": o, "threads": threads,
            "none_pids": scene["none_pids"], "none_codes": scene["none_codes"]}
    k = sum(1 for _ in I.walk(S2))
    case["perm"] = rng.sample(range(k), k) if threads == 2 else []
    return case


def same_payloads(S, out):
    if S[0] != "N" or out[0] != "N":
        return
    d = dict((k, c) for k, c in S[3])
    for k, c in out[3]:
        if k in d:
            if c[0] == "T" and d[k][0] == "T":
                c[2] = d[k][2]
            else:
                same_payloads(d[k], c)


# ================================================================== running the real code
def mk_is_leaf(o):
    if o["leaf_tensor"] and not o["leaf_nont"] and not o["leaf_node"]:
        return None
    if o["leaf_tensor"] and o["leaf_nont"] and not o["leaf_node"]:
        return I._is_leaf_nontensor
    lt, ln, lo = o["leaf_tensor"], o["leaf_nont"], o["leaf_node"]

    def is_leaf(cls):
        if issubclass(cls, torch.Tensor):
            return lt
        if issubclass(cls, I.NonTensorData):
            return ln
        return lo
    return is_leaf


def call_front(case, selfobj, others, outobj, fn, threads=None):
    o = case["opts"]
    kw = {}
    if o["bs"] is not None:
        kw["batch_size"] = torch.Size(o["bs"])
    if o["dev"] != "absent":
        kw["device"] = I.dev_of(o["dev"])
    if o["names"] != "absent":
        kw["names"] = None if o["names"] is None else list(o["names"])
    if o["default"]:
        kw["default"] = I.DFLT
    kw["filter_empty"] = o["fe"]
    if o["con"]:
        kw["call_on_nested"] = True
    if outobj is not None:
        kw["out"] = outobj
    if o["propagate"]:
        kw["propagate_lock"] = True
    il = mk_is_leaf(o)
    if il is not None:
        kw["is_leaf"] = il
    front = case["front"]
    threads = case["threads"] if threads is None else threads
    if front == "apply":
        return selfobj.apply(fn, *others, inplace=o["inplace"], **kw)
    if front == "apply_":
        return selfobj.apply_(fn, *others, **kw)
    if front == "named_apply":
        return selfobj.named_apply(fn, *others, nested_keys=o["nested_keys"], inplace=o["inplace"], **kw)
    return selfobj._fast_apply(fn, *others, named=o["named"], nested_keys=o["nested_keys"], inplace=o["inplace"],
                               checked=o["checked"], num_threads=threads, **kw)


def run_real(case, threads=None):
    """build, call, observe.  Returns a dict of canonical observations; never raises."""
    B = I.Built()
    kindname = case["kind"]
    res = {}
    try:
        if kindname == "lazy":
            selfobj = I.build_lazy(case["members"], B)
            others = [I.build_lazy(ms, B) for ms in case["others_members"]]
            outobj = I.build_lazy(case["out_members"], B) if case["out"] is not None else None
        else:
            selfobj = I.build_operand(case["self"], kindname, B, "self")
            others = [I.build_operand(t, kindname, B, "other") for t in case["others"]]
            outobj = I.build_operand(case["out"], kindname, B, "out") if case["out"] is not None else None
    except Exception as e:  # noqa: BLE001
        return {"build_error": f"{type(e).__name__}: {e}"}
    before = {"self": I.obs(selfobj, B, light=True), "others": [I.obs(x, B, light=True) for x in others], "out": I.obs(outobj, B, light=True)}
    fn = I.make_fn(case["opts"]["named"], set(case["none_pids"]), set(case["none_codes"]))
    th = case["threads"] if threads is None else threads
    ran = []
    try:
        nograd = torch.no_grad() if kindname == "params" else _null()
        with nograd:
            if th == 2:
                with I.scheduled(case["perm"]) as r_:
                    ret = call_front(case, selfobj, others, outobj, fn, th)
                ran = list(r_)
            else:
                ret = call_front(case, selfobj, others, outobj, fn, th)
        res["outcome"] = "ok"
        res["ret_is"] = ("self" if ret is selfobj else "out" if (outobj is not None and ret is outobj) else "none" if ret is None else "new")
        res["ret_type"] = I.type_name(ret)
        try:
            res["ret"] = "cyclic" if I.has_cycle(ret) else I.obs(ret, B)
        except RecursionError:
            res["ret"] = "cyclic"
    except RecursionError:
        res["outcome"] = "raise"
        res["exc"] = "RecursionError"
    except Exception as e:  # noqa: BLE001
        res["outcome"] = "raise"
        res["exc"] = type(e).__name__
        res["msg"] = str(e)[:160]
    res["ran"] = ran
    try:
        cyc_out = outobj is not None and I.has_cycle(outobj)
        res["after"] = {"self": I.obs(selfobj, B, light=True), "others": [I.obs(x, B, light=True) for x in others],
                        "out": "cyclic" if cyc_out else I.obs(outobj, B, light=True)}
    except RecursionError:
        res["after"] = {"self": None, "others": [], "out": "cyclic"}
    res["before"] = before
    return res


class _null:
    def __enter__(self):
        return self

    def __exit__(self, *a):
        return False


# ================================================================== the model side
def meta_sx(m):
    bs, dv, names, lk = m
    return [list(bs), Sym(dv) if dv else Sym("none"),
            Sym("none") if names is None else [Sym("some"), [[Sym("some"), n] if n is not None else Sym("none") for n in names]], bool(lk)]


def tree_sx(t):
    if t[0] == "L":
        return [Sym("L"), t[1]]
    if t[0] == "T":
        return [Sym("T"), t[1], t[2], meta_sx(t[3])]
    return [Sym("N"), t[1], meta_sx(t[2]), [[k, tree_sx(c)] for k, c in t[3]]]


def opts_sx(o):
    bs = Sym("absent") if o["bs"] is None else list(o["bs"])
    dv = Sym("absent") if o["dev"] == "absent" else (Sym("none") if o["dev"] is None else Sym(o["dev"]))
    fe = Sym("none") if o["fe"] is None else o["fe"]
    return [o["inplace"], o["default"], fe, o["named"], o["nested_keys"], bs, dv, o["checked"], o["leaf_tensor"], o["leaf_nont"],
            o["leaf_node"]]


def names_sx(o):
    if o["names"] == "absent":
        return Sym("absent")
    if o["names"] is None:
        return Sym("none")
    return [Sym("some"), [[Sym("some"), n] for n in o["names"]]]


def model_nones(case, trees):
    ids = []
    pids, codes = set(case["none_pids"]), set(case["none_codes"])
    for t in trees:
        for p, e in I.walk(t):
            if not p:
                continue
            if e[0] in ("L", "T"):
                if e[1] // 8 in pids:
                    ids.append(e[1])
            elif I.abs_code(e) in codes:
                ids.append(e[1])
    return ids


def model_line(case, ran=None):
    o = case["opts"]
    if case["kind"] == "lazy" and o["bs"] is None:
        return sx([Sym("lazy"), opts_sx(o), [tree_sx(m) for m in case["members"]],
                   [[tree_sx(m) for m in ms] for ms in case["others_members"]],
                   Sym("none") if case["out"] is None else [Sym("some"), [tree_sx(m) for m in case["out_members"]]],
                   names_sx(o), o["con"], model_nones(case, case["members"])])
    mode = "mt" if case["threads"] else "st"
    fwd_out = case["out"] if case["front"] != "named_apply" else None      # named_apply accepts out= and drops it
    k = sum(1 for _ in I.walk(case["self"]))
    pi = list(ran) if ran else list(range(k))        # ids beyond the number of tasks are ignored by the model
    return sx([Sym("apply"), Sym(mode), opts_sx(o), tree_sx(case["self"]), [tree_sx(t) for t in case["others"]],
               Sym("none") if fwd_out is None else [Sym("some"), tree_sx(fwd_out)],
               names_sx(o), o["con"], o["propagate"], model_nones(case, [case["self"]]), pi])


class Eval:
    """evaluation of the model's answer (terms over the free function) into the canonical observation format"""
    def __init__(self, case):
        self.tens = {}
        trees = []
        if case["kind"] == "lazy":
            trees = list(case["members"]) + [m for ms in case["others_members"] for m in ms] + (list(case["out_members"]) if case["out"] is not None else [])
        else:
            trees = [case["self"]] + list(case["others"]) + ([case["out"]] if case["out"] is not None else [])
        for t in trees:
            for p, e in I.walk(t):
                if e[0] == "N":
                    for k, c in e[3]:
                        if c[0] == "L":
                            self.tens[c[1]] = I.leaf_tensor(c[1], e[2][0])

    @staticmethod
    def meta(m):
        bs, dv, names, lk = m
        names = None if names == "none" else [None if n == "none" else n[1] for n in names[1]]
        return [list(bs), None if dv == "none" else dv, names, lk == "t"]

    def arg_code(self, a):
        if a == "dflt":
            return 7
        if a[0] == "L":
            return self.tens[a[2][1]] if a[2] != "new" and a[2][0] == "old" else 0
        if a[0] == "T":
            return 11 + 13 * a[2]
        h = 17
        for k, c in a[3]:
            h = (h * 31 + I.keyhash(k)) % I.P
            cc = self.arg_code(c)
            if isinstance(cc, torch.Tensor):
                cc = int(cc.reshape(-1)[0])
            h = (h * 37 + cc) % I.P
        return h

    def value(self, v):
        if v[0] == "old":
            return self.tens[v[1]].reshape(-1).tolist()
        _, key, item, args = v
        key = None if key == "none" else (key[1][0] if len(key[1]) == 1 else tuple(key[1]))
        codes = [self.arg_code(item)] + [self.arg_code(a) for a in args]
        h = I.combine(key, codes)
        if isinstance(h, torch.Tensor):
            return h.reshape(-1).tolist()
        bs = self.meta(item[3] if item[0] == "T" else item[2])[0] if item[0] in ("T", "N") else []
        return [h] * I.numel(bs)

    def tree(self, t):
        if t[0] == "L":
            return ["L", t[1] if t[1] == "new" else ["o", t[1][1]], self.value(t[2])]
        if t[0] == "T":
            return ["T", t[1] if t[1] == "new" else ["o", t[1][1]], t[2], self.meta(t[3])]
        return ["N", t[1] if t[1] == "new" else ["o", t[1][1]], self.meta(t[2]), [[k, self.tree(c)] for k, c in t[3]]]


def model_obs(case, m):
    """model answer -> the same shape as the relevant part of run_real's result"""
    if m is None:
        return None
    if m[0] == "raise":
        return {"outcome": "raise", "exc": m[1]}
    if m[0] in ("cyclic", "stuck", "unmodelled", "decode-error"):
        return {"outcome": m[0]}
    ev = Eval(case)
    r = m[1]
    if case["kind"] == "lazy" and case["opts"]["bs"] is None:
        if r == "none":
            return {"outcome": "ok", "ret": None}
        return {"outcome": "ok", "members": [ev.tree(t) for t in r[1:]]}
    if r == "none":
        return {"outcome": "ok", "ret": None}
    return {"outcome": "ok", "ret": ev.tree(r[1])}


# ================================================================== oracle (model-free) + correspondence, per case
def strip_ident(t):
    if t is None or t == "cyclic":
        return t
    if t[0] == "L":
        return ["L", t[2]]
    if t[0] == "T":
        return ["T", t[2], t[3]]
    return ["N", t[2], [[k, strip_ident(c)] for k, c in t[3]]]


def cmp_expected(exp, got, path=(), lax_nont=False):
    """expected tree (reference) vs canonical observation: first difference or None.  Key order is not demanded;
    non-tensor payloads only."""
    if exp is None or got is None:
        return None if (exp is None and got is None) else (list(path), "presence", "None" if got is None else "result", "None" if exp is None else "result")
    if got == "cyclic":
        return (list(path), "cyclic", "cyclic", "tree")
    if exp[0] != got[0]:
        if lax_nont and "T" in (exp[0], got[0]):
            return None
        return (list(path), "kind", got[0], exp[0])
    if exp[0] == "L":
        if got[2] and got[2][0] == "meta":
            return None                       # values are not observable on the meta device
        return None if exp[1] == got[2] else (list(path), "value", got[2][:4], exp[1][:4])
    if exp[0] == "T":
        return None if (exp[1] == got[2] or lax_nont) else (list(path), "payload", got[2], exp[1])
    gk = {k: c for k, c in got[3]}
    if set(gk) != set(exp[2]):
        return (list(path), "keys", sorted(gk), sorted(exp[2]))
    for k in exp[2]:
        d = cmp_expected(exp[2][k], gk[k], path + (k,), lax_nont)
        if d:
            return d
    return None


def erase_nested_names(t, root=False):
    if t is None or t == "cyclic" or t[0] == "L":
        return t
    if t[0] == "T":
        m = list(t[3])
        m[2] = None
        return ["T", t[1], t[2], m]
    m = list(t[2])
    if not root:
        m[2] = None
    return ["N", t[1], m, [[k, erase_nested_names(c, False)] for k, c in t[3]]]


def drop_empty_nodes(t):
    """the tree without nested nodes that hold nothing (recursively)"""
    if t is None or t == "cyclic" or t[0] != "N":
        return t
    es = []
    for k, c in t[3]:
        c2 = drop_empty_nodes(c)
        if c2[0] == "N" and not c2[3]:
            continue
        es.append([k, c2])
    return ["N", t[1], t[2], es]


def frame_unchanged(before, after):
    return before == after


def check_case(case, mres):
    """one case: real run, oracle, correspondence.  Returns (oracle_failures, mismatches, counters)."""
    fails, mism, cnt = [], [], {}
    o = case["opts"]

    def count(k):
        cnt[k] = cnt.get(k, 0) + 1

    real_mt = None
    if case["threads"]:
        # the thread-pool form is held to "equals the single-threaded form" (O6); the reference is applied to the latter
        real_mt = run_real(case)
        real = run_real(case, threads=0)
    else:
        real = run_real(case)
    if "build_error" in real:
        count("build-error")
        return fails, mism, cnt, real
    ref = REF.reference(case) if case["kind"] != "lazy" or True else None
    gray = REF.gray_reasons(case)
    inplace, has_out = o["inplace"], case["out"] is not None
    sigbase = {"call": case["front"], "container": case["kind"]}
    count("outcome:" + (real["outcome"] if real["outcome"] == "ok" else real["exc"]))
    for g in gray:
        count("gray:" + g)

    # ---- O4 frame: other operands never change; self only when inplace; out only when given (and not inplace)
    if real.get("after") is not None and real["after"].get("self") is not None:
        b, a = real["before"], real["after"]
        if b["others"] != a["others"]:
            fails.append(("frame:other-operand-modified", case, {"before": b["others"], "after": a["others"]}, dict(sigbase, kind="frame-others")))
        if not inplace and b["self"] != a["self"] and not (has_out and case.get("alias")):
            lockonly = strip_lock(b["self"]) == strip_lock(a["self"])
            fails.append(("frame:self-modified-without-inplace", case, {"before": b["self"], "after": a["self"]},
                          dict(sigbase, kind="frame-self", lock_only=lockonly)))
        if has_out and inplace and b["out"] != a["out"]:
            fails.append(("frame:out-modified-under-inplace", case, {"before": b["out"], "after": a["out"]}, dict(sigbase, kind="frame-out")))

    # ---- O1/O2/O3/O5 against the reference
    sig = dict(sigbase)
    sig.update(pattern_flags(case))
    hard_gray = [g for g in gray if g in REF.HARD_GRAY]
    if ref[0] == "gray" or hard_gray:
        count("oracle:gray")
    elif ref[0] == "raise":
        count("oracle:documented-error")
        if real["outcome"] == "ok":
            fails.append(("error:not-raised", case, {"expected": sorted(ref[1])}, dict(sig, kind="not-raised", expected=sorted(ref[1])[0])))
        elif real["exc"] not in ref[1]:
            fails.append(("error:other-class", case, {"expected": sorted(ref[1]), "got": real["exc"], "msg": real.get("msg")},
                          dict(sig, kind="raise", exc=real["exc"])))
    else:
        exp = ref[1]
        count("oracle:value")
        if real["outcome"] != "ok":
            if real["exc"] == "RuntimeError" and REF.NAMES_CONFLICT in gray:
                count("oracle:gray-names-conflict")
            else:
                fails.append(("raise:unexpected", case, {"exc": real["exc"], "msg": real.get("msg")}, dict(sig, kind="raise", exc=real["exc"])))
        else:
            got = real["ret"]
            d = cmp_expected(exp, got, lax_nont=REF.NONT_OUT in gray)
            if d:
                fails.append(("result:" + d[1], case, {"path": d[0], "got": d[2], "want": d[3]}, dict(sig, kind="result", what=d[1])))
            else:
                # designated object
                want_is = "none" if exp is None else ("self" if inplace else "out" if has_out else "new")
                if real["ret_is"] != want_is:
                    fails.append(("result:object", case, {"returned": real["ret_is"], "want": want_is}, dict(sig, kind="object", returned=real["ret_is"])))
                md = meta_check(case, got, gray) if got not in (None, "cyclic") else None
                if md:
                    fails.append(("metadata:" + md[0], case, {"got": md[1], "want": md[2]}, dict(sig, kind="metadata", what=md[0])))
                if inplace and got is not None:
                    idd = inplace_identity(real["before"]["self"], got)
                    if idd:
                        fails.append(("inplace:" + idd, case, {}, dict(sig, kind="inplace-identity", what=idd)))
            # nothing written when the call returns None
            if exp is None and real.get("after"):
                if inplace and real["before"]["self"] != real["after"]["self"]:
                    fails.append(("frame:self-written-but-None-returned", case, {}, dict(sig, kind="frame-none")))

    # ---- O6 multithreaded = single-threaded (direct, on a fresh copy of the operands)
    if real_mt is not None:
        st, mt = real, real_mt
        count("mt-vs-st")
        if mt.get("after") is not None and mt["after"].get("self") is not None:
            b, a = mt["before"], mt["after"]
            if b["others"] != a["others"]:
                fails.append(("frame:other-operand-modified", case, {"before": b["others"], "after": a["others"]}, dict(sigbase, call="mt", kind="frame-others")))
            if not inplace and b["self"] != a["self"]:
                fails.append(("frame:self-modified-without-inplace", case, {"before": b["self"], "after": a["self"]},
                              dict(sigbase, call="mt", kind="frame-self", lock_only=strip_lock(b["self"]) == strip_lock(a["self"]))))
        if mt["outcome"] != "ok" and st["outcome"] != "ok":
            count("mt-vs-st:both-raise")           # which exception comes first is not promised
        elif inplace and has_out and not o["leaf_nont"] and any(e[0] == "T" for _, e in I.walk(case["self"])):
            count("mt-vs-st:gray inplace + out= + non-tensor entries")    # the single-threaded form copies out's non-tensor data into self
        else:
            a = (mt["outcome"], strip_ident(mt.get("ret")) if mt.get("ret") != "cyclic" else "cyclic")
            b = (st["outcome"], strip_ident(st.get("ret")))
            if a != b:
                dk = mt_diff_kind(mt, st)
                sig = dict(sigbase, call="mt", kind="differs", diff=dk)
                sig.update(mt_patterns(case))
                fails.append(("mt:differs-from-single-threaded", case, {"mt": summarize(mt), "st": summarize(st), "diff": dk}, sig))
        real = real_mt

    if case["threads"] == 2 and real.get("ran") is not None:
        want = [i for i in case["perm"] if i < len(real["ran"])]
        if real["ran"] != want:
            mism.append(("executor:order", case, real["ran"], want))

    # ---- correspondence with the model
    if mres is not None:
        mo = model_obs(case, mres)
        if mo["outcome"] in ("unmodelled",):
            count("model:unmodelled")
        elif mo["outcome"] in ("decode-error", "stuck"):
            mism.append(("model:" + mo["outcome"], case, summarize(real), mres))
        else:
            count("model:compared")
            io = impl_obs_for_model(case, real)
            if not same_obs(io, mo):
                mism.append(("apply:result", case, io, mo))
    return fails, mism, cnt, real


def same_tree(a, b):
    """implementation observation vs evaluated model tree; values on the meta device are not observable"""
    if a is None or b is None or isinstance(a, str) or isinstance(b, str):
        return a == b
    if a[0] != b[0]:
        return False
    if a[0] == "L":
        return a[1] == b[1] and (a[2] == b[2] or (a[2] and a[2][0] == "meta"))
    if a[0] == "T":
        return a == b
    return a[1] == b[1] and a[2] == b[2] and [k for k, _ in a[3]] == [k for k, _ in b[3]] and \
        all(same_tree(x, y) for (_, x), (_, y) in zip(a[3], b[3]))


def same_obs(io, mo):
    if mo.get("outcome") == "cyclic":
        # the root out= was handed to a nested rebuild (S16): the structure is ill-formed; how that surfaces is not modelled
        return io.get("outcome") == "cyclic" or (io.get("outcome") == "raise" and io.get("exc") in ("ValueError", "RecursionError"))
    if io.get("outcome") != mo.get("outcome") or io.get("exc") != mo.get("exc"):
        return False
    if "members" in io or "members" in mo:
        a, b = io.get("members"), mo.get("members")
        return a is not None and b is not None and len(a) == len(b) and all(same_tree(x, y) for x, y in zip(a, b))
    return same_tree(io.get("ret"), mo.get("ret"))


def strip_lock(t):
    if t is None or t == "cyclic" or t[0] == "L":
        return t
    if t[0] == "T":
        return ["T", t[1], t[2], t[3][:3]]
    return ["N", t[1], t[2][:3], [[k, strip_lock(c)] for k, c in t[3]]]


def impl_obs_for_model(case, real):
    if real["outcome"] != "ok":
        return {"outcome": "raise", "exc": real["exc"]}
    if real["ret"] == "cyclic":
        return {"outcome": "cyclic"}
    if case["kind"] == "lazy" and case["opts"]["bs"] is None:
        if real["ret"] is None:
            return {"outcome": "ok", "ret": None}
        return {"outcome": "ok", "members": real.get("ret_members")}
    return {"outcome": "ok", "ret": real["ret"]}


def summarize(real):
    return {k: real.get(k) for k in ("outcome", "exc", "msg", "ret_is", "ret")}


def pattern_flags(case):
    """decidable patterns of the recorded defects, computed from the case alone"""
    o = case["opts"]
    S = case["self"]
    f = {}
    if case["front"] == "named_apply" and case["out"] is not None and not o["inplace"]:
        f["named_apply_out"] = True
    if REF.skeleton_hit(case):
        f["skeleton_hit"] = True
    if o["inplace"] and S[2][3] and not o["leaf_nont"] and any(e[0] == "T" and (not o["con"] or len(p) > 1) for p, e in I.walk(S) if p):
        f["inplace_locked_nontensor"] = True
    return f


def mt_patterns(case):
    o = case["opts"]
    f = {}
    nd = REF.nested_dispatch_nodes(case)
    if case["out"] is not None and not o["inplace"] and nd > 0:
        f["out_with_nested"] = True
    if REF.below_root_missing(case):
        f["default_below_root"] = True
    if REF.all_none_subtree(case):
        f["fe_none_all_none_subtree"] = True
    if o["names"] != "absent" and nd > 0:
        f["names_with_nested"] = True
    if case["out"] is not None and not o["inplace"] and o["checked"] and o["dev"] != "absent" and o["dev"] != case["out"][2][1]:
        f["checked_dev_out"] = True
    return f


def mt_diff_kind(mt, st):
    if mt["outcome"] != "ok":
        return "mt-raises-" + mt["exc"]
    if st["outcome"] != "ok":
        return "st-raises-" + st["exc"]
    if mt["ret"] == "cyclic":
        return "mt-cyclic"
    if st["ret"] is None and mt.get("ret_is") in ("self", "out") and strip_lock(mt["after"][mt["ret_is"]]) == strip_lock(mt["before"][mt["ret_is"]]):
        return "extra-empty-nodes"          # nothing was written: self / out is returned where the other form returns None
    if strip_ident(erase_nested_names(mt["ret"])) == strip_ident(erase_nested_names(st["ret"])):
        return "names-only"

    def emptied(r):
        x = strip_ident(drop_empty_nodes(r))
        return None if (x is not None and x[0] == "N" and not x[2]) else x
    if emptied(mt["ret"]) == emptied(st["ret"]):
        return "extra-empty-nodes"
    if emptied(erase_nested_names(mt["ret"])) == emptied(erase_nested_names(st["ret"])):
        return "names+extra-empty-nodes"
    return "other"


def expected_root_meta(case):
    o = case["opts"]
    bs, dv, nm, lk = case["self"][2]
    e = {}
    e["bs"] = list(o["bs"]) if o["bs"] is not None else list(bs)
    e["dev"] = dv if o["dev"] == "absent" else o["dev"]
    if o["bs"] is not None:
        e["names"] = None if o["names"] in ("absent", None) else list(o["names"])
    elif o["names"] == "absent":
        e["names"] = None if nm is None else list(nm)
    e["lock"] = bool(o["propagate"] and lk)
    return e


def meta_check(case, got, gray=()):
    """documented metadata of the result (a new object): batch size / device as requested or as self's, names erased
    when the batch size is overridden unless given, locked iff propagate_lock and self is locked.  For inplace / out=
    the designated object keeps its own batch size and device."""
    o = case["opts"]
    if got[0] != "N":
        return None
    bs, dv, names, lk = got[2]
    if o["inplace"]:
        want = case["self"][2]
        if bs != list(want[0]) or dv != want[1]:
            return ("inplace-metadata", [bs, dv], [want[0], want[1]])
        return None
    if case["out"] is not None:
        want = case["out"][2]
        if bs != list(want[0]):
            return ("out-batch-size", bs, want[0])
        if o["propagate"] and case["self"][2][3] and not lk:
            return ("lock-not-propagated", lk, True)
        return None
    e = expected_root_meta(case)
    if bs != e["bs"]:
        return ("batch_size", bs, e["bs"])
    if dv != e["dev"]:
        return ("device", dv, e["dev"])
    if "names" in e and REF.NAMES_NO_BS not in gray and names != e["names"] and not (names is not None and e["names"] is None and all(n is None for n in names)):
        return ("names", names, e["names"])
    if lk != e["lock"]:
        return ("lock", lk, e["lock"])
    # nested nodes: batch size / device by the same rule, lock state as the root
    for k, c in walk_obs(got):
        if c[0] == "N" and c is not got:
            m = c[2]
            if o["bs"] is not None and m[0] != e["bs"]:
                return ("nested-batch_size", m[0], e["bs"])
            if o["dev"] != "absent" and m[1] != e["dev"]:
                return ("nested-device", m[1], e["dev"])
            if m[3] != e["lock"]:
                return ("nested-lock", m[3], e["lock"])
    return None


def walk_obs(t, path=()):
    yield path, t
    if t[0] == "N":
        for k, c in t[3]:
            yield from walk_obs(c, path + (k,))


def inplace_identity(before, got):
    """in place: the same node objects, the same keys in the same order, the same leaf storages"""
    if before is None or got is None or got == "cyclic":
        return None
    if before[0] != got[0]:
        return "kind-changed"
    if before[0] == "L":
        return None if before[1] == got[1] else "leaf-storage-replaced"
    if before[0] == "T":
        return None if before[1] == got[1] else "non-tensor-object-replaced"
    if before[1] != got[1]:
        return "node-object-replaced"
    if [k for k, _ in before[3]] != [k for k, _ in got[3]]:
        return "keys-changed"
    for (k, c), (_, d) in zip(before[3], got[3]):
        r = inplace_identity(c, d)
        if r:
            return r
    return None


# ================================================================== driver
def _work(args):
    torch.set_num_threads(1)
    out = []
    for (case, m) in args:
        try:
            f, mm, cnt, real = check_case(case, m)
        except Exception as e:  # noqa: BLE001
            import traceback
            f, mm, cnt = [], [("harness-crash", case, traceback.format_exc()[-1500:], None)], {"harness-crash": 1}
        out.append((f, mm, cnt))
    return out


def prescan_ran(cases):
    """the order in which the deterministic executor completed the tasks (needed by the model's mt form)"""
    torch.set_num_threads(1)
    return [run_real(c).get("ran", []) if c["threads"] == 2 else [] for c in cases]


def chunks(l, n):
    k = max(1, (len(l) + n - 1) // n)
    return [l[i:i + k] for i in range(0, len(l), k)]


def main(R):
    torch.set_num_threads(1)
    R.rule = ("one case = (lattice point, operand scene, container kind, lock state, front-end); lattice = inplace x out x default x "
              "filter_empty(None/True/False) x call_on_nested x (plain/named/nested_keys) x batch_size override x names(absent/list/None) x "
              "device(absent/same/other) x propagate_lock x num_threads(0/2/4) x is_leaf(default/nontensor/all) [x checked for _fast_apply]; "
              "distinct by the whole case; non-trivial = self has at least one entry")
    R.assumptions = ["fn returns a new tensor shaped like its first argument (or None): what fn returns is fn's business, the model keeps it as a free term",
                     "num_threads=2 runs through a deterministic executor (tasks complete in a generated permutation); num_threads=4 uses the real ThreadPoolExecutor",
                     "batch_size= is passed as torch.Size and device= as torch.device (a list / str never compares equal to out.batch_size / out.device)",
                     "gray combinations (listed in the input distribution as gray:*) are compared with the model only; the oracle demands nothing there but the frame"]
    R.trusted = ["harness/c20_ref.py: the reference (nested dicts) is my reading of the documented contract of apply"]
    R.step_prove()
    ok = R.step_driver()
    pts = lattice()
    nscenes = 60 if R.quick else 400
    kinds = ["regular"]
    scenes = {k: [gen_scene(R.rng, k) for _ in range(nscenes)] for k in kinds}
    cases = []
    per_point = 2 if R.quick else 6
    for pi_, pt in enumerate(pts):
        for j in range(per_point):
            kindname = kinds[(pi_ + j) % len(kinds)]
            sc = R.rng.choice(scenes[kindname])
            cases.append(make_case(R.rng, pt, sc, kindname, pi_ * 7 + j))
    R.extra["lattice_points"] = len(pts)
    nproc = min(14, os.cpu_count() or 2)
    ctx = mp.get_context("fork")
    t0 = time.time()
    with ctx.Pool(nproc) as pool:
        lines = [model_line(c, c["perm"]) for c in cases]
        t1 = time.time()
        mres = R.model(lines, shards=12) if ok else [None] * len(lines)
        R.extra["model_s"] = round(time.time() - t1, 1)
        t2 = time.time()
        results = pool.map(_work, chunks(list(zip(cases, mres)), nproc * 8))
        R.extra["impl_s"] = round(time.time() - t2, 1)
    flat = [x for part in results for x in part]
    for ci, ((fails, mism, cnt), case) in enumerate(zip(flat, cases)):
        R.case(json.dumps(case, sort_keys=True, default=str), nontrivial=bool(case["self"][3]),
               sample={"front": case["front"], "opts": case["opts"], "threads": case["threads"], "kind": case["kind"]} if ci % 9973 == 0 else None)
        R.count("front:" + case["front"])
        R.count("kind:" + case["kind"])
        R.count(f"threads:{case['threads']}")
        for k, v in cnt.items():
            R.count(k, v)
        R.traces += 1
        for (label, c, detail, sig) in fails:
            R.oracle_fail(label, c, detail, sig)
        for (label, c, io, mo) in mism:
            R.mismatch(label, c, io, mo)
    R.exhaustive = True


def replay(body):
    case = body["case"]
    print("case:", json.dumps(case))
    print("reference:", REF.reference(case))
    print("gray:", REF.gray_reasons(case), "patterns:", pattern_flags(case))
    real = run_real(case)
    print("implementation:", json.dumps(summarize(real), default=str))
    from .core import run_model, build_driver
    build_driver("C20")
    m = run_model("C20", [model_line(case, real.get("ran"))])[0]
    print("model:", json.dumps(model_obs(case, m), default=str))
    return 0
