"""C18 — compiled vs eager, native vs Python helpers (DESIGN.md §4 C18)."""
import itertools
import json
from contextlib import contextmanager

from . import cext
from .core import Sym, some, sx, run_model as _run_model


def run_model(lines):
    return _run_model("C18", lines)


def _imports():
    cext.install()
    import torch
    import tensordict
    import tensordict.utils as U
    import tensordict._td as TDM
    import tensordict.base as B
    return torch, tensordict, U, TDM, B


@contextmanager
def forced_compile(*mods):
    old = [m.is_compiling for m in mods]
    for m in mods:
        m.is_compiling = lambda: True
    try:
        yield
    finally:
        for m, o in zip(mods, old):
            m.is_compiling = o


def exc_enum(e):
    return "raise"


# ------------------------------------------------------------------ keys
ATOMS = ["a", "b", 1]


def trees(depth):
    if depth == 0:
        return list(ATOMS)
    sub = trees(depth - 1)
    out = list(ATOMS)
    for w in range(0, 4):
        out.extend(itertools.product(sub, repeat=w))
    return out


def rand_tree(rng, depth):
    if depth == 0 or rng.random() < 0.35:
        return rng.choice(["a", "b", "c", "a", "b", "c", "a", "b", "c", "a", "b", 1])   # mostly valid members
    return tuple(rand_tree(rng, depth - 1) for _ in range(rng.choice([0, 1, 1, 2, 2, 3])))


def key_sx(k):
    if isinstance(k, str):
        return k
    if isinstance(k, tuple):
        return [Sym("t")] + [key_sx(x) for x in k]
    return Sym("bad")


def canon_keyres(r):
    if isinstance(r, str):
        return ["str", r]
    if isinstance(r, tuple):
        return ["tup"] + list(r)
    return repr(r)


def call(f, *a):
    try:
        return ("ok", f(*a))
    except Exception as e:  # noqa: BLE001 -- the exception class enum is the observable
        return ("raise", type(e).__name__)


def check_keys(R, U):
    rng = R.rng
    ks = trees(1) + (trees(2) if not R.quick else [])
    if R.quick:
        t2 = trees(2)
        ks += [t2[rng.randrange(len(t2))] for _ in range(6000)]
    ks += [rand_tree(rng, 3) for _ in range(12000 if R.quick else 80000)]
    R.exhaustive = not R.quick
    lines_t_cpp, lines_t_py, lines_k_cpp, lines_k_py = [], [], [], []
    obs = []
    for k in ks:
        nat_t = call(U._unravel_key_to_tuple, k)
        nat_k = call(U.unravel_key, k)
        with forced_compile(U):
            py_t = call(U._unravel_key_to_tuple, k)
            py_k = call(U.unravel_key, k)
        obs.append((nat_t, py_t, nat_k, py_k))
        s = key_sx(k)
        lines_t_cpp.append(sx([Sym("unravel-tuple-cpp"), s]))
        lines_t_py.append(sx([Sym("unravel-tuple-py"), s]))
        lines_k_cpp.append(sx([Sym("unravel-key-cpp"), s]))
        lines_k_py.append(sx([Sym("unravel-key-py"), s]))
    m = run_model(lines_t_cpp + lines_t_py + lines_k_cpp + lines_k_py)
    n = len(ks)
    for i, k in enumerate(ks):
        nat_t, py_t, nat_k, py_k = obs[i]
        valid = nat_t[0] == "ok" and len(nat_t[1]) > 0
        R.case(("key", repr(k)), nontrivial=isinstance(k, tuple), sample={"key": repr(k), "native": repr(nat_t[1])} if i % 997 == 0 else None)
        R.count("key:valid" if valid else "key:invalid")
        # oracle: the two implementations agree (results equal; rejections both reject)
        for what, a, b in (("_unravel_key_to_tuple", nat_t, py_t), ("unravel_key", nat_k, py_k)):
            same = (a[0] == b[0]) and (a[0] == "raise" or a[1] == b[1])
            if not same:
                R.oracle_fail("helpers:native-vs-python", {"helper": what, "key": repr(k)},
                              {"native": repr(a), "python_branch": repr(b)}, {"helper": what})
        # correspondence with the model (both paths)
        for what, impl, mod in (("unravel-tuple-cpp", nat_t, m[i]), ("unravel-tuple-py", py_t, m[n + i]),
                                ("unravel-key-cpp", nat_k, m[2 * n + i]), ("unravel-key-py", py_k, m[3 * n + i])):
            if what.startswith("unravel-tuple"):
                io = list(impl[1]) if impl[0] == "ok" else "raise"
                mo = mod
            else:
                io = canon_keyres(impl[1]) if impl[0] == "ok" else "raise"
                mo = mod
            if io != mo:
                R.mismatch(what, {"key": repr(k)}, repr(io), repr(mo))
    R.traces += 4 * n
    # unravel_key_list
    lst_cases = [[rand_tree(rng, 2) for _ in range(rng.randrange(0, 4))] for _ in range(300 if R.quick else 5000)]
    lines = []
    for l in lst_cases:
        lines.append(sx([Sym("unravel-list-cpp")] + [key_sx(k) for k in l]))
        lines.append(sx([Sym("unravel-list-py")] + [key_sx(k) for k in l]))
    m = run_model(lines)
    for i, l in enumerate(lst_cases):
        nat = call(U.unravel_key_list, l)
        with forced_compile(U):
            py = call(U.unravel_key_list, l)
        R.case(("keylist", repr(l)), nontrivial=len(l) > 0)
        same = (nat[0] == py[0]) and (nat[0] == "raise" or nat[1] == py[1])
        if not same:
            R.oracle_fail("helpers:native-vs-python", {"helper": "unravel_key_list", "keys": repr(l)},
                          {"native": repr(nat), "python_branch": repr(py)}, {"helper": "unravel_key_list"})
        for impl, mod, what in ((nat, m[2 * i], "unravel-list-cpp"), (py, m[2 * i + 1], "unravel-list-py")):
            io = ["some", [canon_keyres(x) for x in impl[1]]] if impl[0] == "ok" else "none"
            if io != mod:
                R.mismatch(what, {"keys": repr(l)}, repr(io), repr(mod))
    R.traces += 2 * len(lst_cases)
    # unravel_keys(*keys): the ONE-argument alias of unravel_key on both paths (repair D1804); other arities raise on both
    def pyval(v):
        return ["str", v] if isinstance(v, str) else (["tup"] + [pyval(x) for x in v] if isinstance(v, tuple) else repr(v))
    ucases = [[k] for k in trees(1)] + [[rand_tree(rng, 2)] for _ in range(200 if R.quick else 3000)] + lst_cases[:100]
    m = run_model([sx([Sym(c)] + [key_sx(k) for k in l]) for l in ucases for c in ("unravel-keys-cpp", "unravel-keys-py")])
    for i, l in enumerate(ucases):
        nat = call(U.unravel_keys, *l)
        with forced_compile(U):
            py = call(U.unravel_keys, *l)
        R.case(("unravel_keys", repr(l)), nontrivial=len(l) > 0)
        R.count("unravel_keys:arity-1" if len(l) == 1 else "unravel_keys:other-arity")
        if not ((nat[0] == py[0]) and (nat[0] == "raise" or nat[1] == py[1])):
            R.oracle_fail("helpers:native-vs-python", {"helper": "unravel_keys", "keys": repr(l)},
                          {"native": repr(nat), "python_branch": repr(py)}, {"helper": "unravel_keys"})
        for impl, mod, what in ((nat, m[2 * i], "unravel-keys-cpp"), (py, m[2 * i + 1], "unravel-keys-py")):
            io = pyval(impl[1]) if impl[0] == "ok" else "raise"
            if io != mod:
                R.mismatch(what, {"keys": repr(l)}, repr(io), repr(mod))
    R.traces += 2 * len(ucases)


# ------------------------------------------------------------------ slices
def check_slices(R, U):
    vals = [None] + list(range(-4, 5))
    grid = [(a, b, c, n) for a in vals for b in vals for c in vals for n in range(0, 6)]
    if not R.quick:
        big = [None] + list(range(-7, 8))
        grid += [(a, b, c, n) for a in big for b in big for c in big for n in (6, 7) if (a, b, c, n) not in ()]
    lines = [sx([Sym("slice"), some(a), some(b), some(c), n]) for (a, b, c, n) in grid]
    lines += [sx([Sym("pyslice"), some(a), some(b), some(c), n]) for (a, b, c, n) in grid]
    m = run_model(lines)
    N = len(grid)
    spec_bad = 0
    for i, (a, b, c, n) in enumerate(grid):
        sl = slice(a, b, c)
        ref = call(sl.indices, n)
        impl = call(U._slice_indices, sl, n)
        R.case(("slice", a, b, c, n), nontrivial=True, sample={"slice": [a, b, c], "len": n, "impl": repr(impl)} if i % 1499 == 0 else None)
        R.count("slice:step0" if c == 0 else ("slice:neg-step" if (c or 1) < 0 else "slice:pos-step"))
        refo = ["ok", *ref[1], len(range(*ref[1]))] if ref[0] == "ok" else "raise"
        implo = ["ok", *impl[1], len(range(*impl[1]))] if impl[0] == "ok" else "raise"
        # spec vs CPython (my spec; a disagreement is a bug of the machinery, not of /repo)
        if m[N + i] != refo:
            spec_bad += 1
            print(f"SPEC-MISMATCH Spec/PySlice on slice({a},{b},{c}).indices({n}): CPython {refo} spec {m[N + i]}")
        # oracle on the implementation: python replacement == native slice.indices
        if implo != refo:
            R.oracle_fail("helpers:native-vs-python", {"helper": "_slice_indices", "slice": [a, b, c], "len": n},
                          {"native slice.indices": refo, "_slice_indices": implo}, {"helper": "_slice_indices"})
        if implo != m[i]:
            R.mismatch("slice", {"slice": [a, b, c], "len": n}, implo, m[i])
    R.traces += N
    return spec_bad


# ------------------------------------------------------------------ _getitem_batch_size: compile branch vs eager branch
def check_gbs_dual(R, torch, U, with_model=True):
    """the use site of the slice helper: _getitem_batch_size takes len(range(*_slice_indices(..))) when compiling and
    len(range(*slice.indices(..))) otherwise; both branches on the whole slice grid (compared with each other, with CPython
    and with Model/C18_Gbs.v) and on generated index tuples"""
    from . import c03
    vals = [None] + list(range(-4, 5))
    n_cases = 0
    grid = [(a, b, c, n) for n in range(0, 6) for a in vals for b in vals for c in vals]
    mod = None
    if with_model:
        mod = run_model([sx([Sym("gbs-dim"), comp, some(a), some(b), some(c), n]) for (a, b, c, n) in grid for comp in (True, False)])
    for gi, (a, b, c, n) in enumerate(grid):
        idx = (slice(a, b, c),)
        eager = call(U._getitem_batch_size, torch.Size([n, 2]), idx)
        with forced_compile(U):
            comp = call(U._getitem_batch_size, torch.Size([n, 2]), idx)
        n_cases += 1
        eo = list(eager[1]) if eager[0] == "ok" else "raise"
        co = list(comp[1]) if comp[0] == "ok" else "raise"
        if mod is not None:
            for what, io, mo in (("gbs-dim:compile", co, mod[2 * gi]), ("gbs-dim:eager", eo, mod[2 * gi + 1])):
                if (io if io == "raise" else io[0]) != mo:
                    R.mismatch(what, {"slice": [a, b, c], "len": n}, repr(io), repr(mo))
        want = [len(range(*slice(a, b, c).indices(n))), 2] if c != 0 else "raise"
        if eo != co or eo != want:
            R.oracle_fail("helpers:native-vs-python", {"helper": "_getitem_batch_size", "slice": [a, b, c], "len": n},
                          {"eager": eo, "compile_branch": co, "len(range(slice.indices))": want},
                          {"helper": "_getitem_batch_size"})
    R.case(("gbs-slices", n_cases), nontrivial=True)
    R.count("gbs_dual:slice-grid", n_cases)
    m = 1500 if R.quick else 30000
    for i in range(m):
        bs = R.rng.choice(c03.SHAPES)
        descs = c03.gen_index(R.rng, bs)
        if any(d[0] == "ell" for d in descs) or not descs:
            continue
        idx = c03.to_py(descs)
        eager = call(U._getitem_batch_size, torch.Size(bs), idx)
        with forced_compile(U):
            comp = call(U._getitem_batch_size, torch.Size(bs), idx)
        R.case(("gbs-dual", tuple(bs), json.dumps(descs)), nontrivial=True)
        R.count("gbs_dual:tuple")
        eo = list(eager[1]) if eager[0] == "ok" else "raise"
        co = list(comp[1]) if comp[0] == "ok" else "raise"
        if eo != co:
            R.oracle_fail("helpers:native-vs-python", {"helper": "_getitem_batch_size", "bs": list(bs), "index": descs},
                          {"eager": eo, "compile_branch": co}, {"helper": "_getitem_batch_size"})
    R.traces += n_cases + m


# ------------------------------------------------------------------ batch-size spellings
def check_parse_bs(R, torch, tensordict, TDM):
    TD = tensordict.TensorDict
    lists = [[], [0], [3], [2, 3], [1, 0, 2]]
    srcs = [("other", None), ("other", {}), ("td", TD({}, [4])), ("td", TD({}, []))]
    args = []
    for l in lists:
        args += [("size", torch.Size(l)), ("tuple", tuple(l)), ("list", list(l))]
    args += [("int", 0), ("int", 3), ("none", None), ("other", "xy"), ("other", object())]
    for (sk, src), (ak, arg) in itertools.product(srcs, args):
        eager = call(TD._parse_batch_size, src, arg)
        with forced_compile(TDM):
            comp = call(TD._parse_batch_size, src, arg)
        R.case(("pbs", sk, repr(getattr(src, "batch_size", None)), ak, repr(arg) if ak != "other" else type(arg).__name__), nontrivial=True)
        R.count("parse_bs:" + ak)
        eo = list(eager[1]) if eager[0] == "ok" else "raise"
        co = list(comp[1]) if comp[0] == "ok" else "raise"
        if eo != co:
            R.oracle_fail("helpers:native-vs-python", {"helper": "_parse_batch_size", "source": sk, "batch_size": repr(arg)},
                          {"eager": repr(eo), "compile_branch": repr(co)}, {"helper": "_parse_batch_size"})
        # model (pure case analysis, evaluated here literally as in Model/Dual.v)
        if ak in ("size", "tuple", "list"):
            mo = list(arg)
        elif ak == "int":
            mo = [arg]
        elif ak == "none":
            mo = []
        else:
            mo = list(src.batch_size) if sk == "td" else "raise"
        if eo != mo:
            R.mismatch("parse_bs_eager", {"source": sk, "batch_size": repr(arg)}, repr(eo), repr(mo))
        if co != mo:
            R.mismatch("parse_bs_compile", {"source": sk, "batch_size": repr(arg)}, repr(co), repr(mo))
    R.traces += len(srcs) * len(args)


# ------------------------------------------------------------------ key-aligned lists
def check_items_list(R, torch, tensordict, B):
    TD = tensordict.TensorDict
    rng = R.rng
    universe = ["a", "b", "c", ("n", "x"), ("n", "y"), ("n", "m", "z")]
    for it in range(150 if R.quick else 3000):
        ks = [k for k in universe if rng.random() < 0.6]
        rng.shuffle(ks)
        td = TD({}, [2])
        for j, k in enumerate(ks):
            td[k] = torch.full((2,), float(universe.index(k) + 1))
        leafkeys = list(td.keys(True, True))
        sorting = list(leafkeys)
        rng.shuffle(sorting)
        mode = rng.choice(["perm", "perm", "missing", "extra", "dup"])
        if mode == "missing" and sorting:
            sorting.pop()
        elif mode == "extra":
            sorting.append("zz")
        elif mode == "dup" and sorting:
            sorting.append(sorting[0])
        R.case(("items", repr(ks), repr(sorting)), nontrivial=len(ks) > 1)
        R.count("items_list:" + mode)
        for meth in ("_items_list", "_values_list"):
            def run():
                r = getattr(td, meth)(True, True, sorting_keys=list(sorting))
                if meth == "_items_list":
                    return [list(r[0]), [float(v[0]) for v in r[1]]]
                return [float(v[0]) for v in r]
            eager = call(run)
            with forced_compile(B):
                comp = call(run)
            eo = eager[1] if eager[0] == "ok" else "raise"
            co = comp[1] if comp[0] == "ok" else "raise"
            if eo != co:
                R.oracle_fail("helpers:native-vs-python", {"helper": meth, "keys": repr(ks), "sorting_keys": repr(sorting)},
                              {"eager": repr(eo), "compile_branch": repr(co)}, {"helper": meth})
            # key-wise meaning (spec): value i is the one stored under sorting key i
            if eo != "raise":
                vals = eo[1] if meth == "_items_list" else eo
                want = [float(universe.index(k) + 1) for k in sorting] if all(k in leafkeys for k in sorting) else None
                if want is not None and vals != want:
                    R.oracle_fail("helpers:key-aligned", {"helper": meth, "keys": repr(ks), "sorting_keys": repr(sorting)},
                                  {"got": vals, "want": want}, {"helper": meth})
        R.traces += 2


# ------------------------------------------------------------------ programs: eager vs torch.compile
def check_programs(R, torch):
    from . import progs
    rng = R.rng
    nprog = 40 if R.quick else 1200
    shapes = [(2, 3), (3,), (2, 1, 3), (1, 2), (4, 2)]
    import torch._dynamo
    torch._dynamo.config.cache_size_limit = 64
    for i in range(nprog):
        shape = rng.choice(shapes)
        td = progs.base_td(shape)
        prog = progs.gen_program(rng, td, rng.randrange(2, 7))
        eager = call(lambda: progs.observe(progs.run_program(progs.base_td(shape), prog)))

        def f(x, _prog=tuple(prog)):
            for name, args in _prog:
                x = progs.OPS[name](x, *args)
            return x
        torch._dynamo.reset()
        cf = torch.compile(f, backend="eager" if (R.quick or i % 10) else "aot_eager")
        comp = call(lambda: progs.observe(cf(progs.base_td(shape))))
        R.case(("prog", shape, repr(prog)), nontrivial=len(prog) >= 2,
               sample={"shape": list(shape), "program": [[n, list(map(repr, a))] for n, a in prog]} if i % 13 == 0 else None)
        for name, _ in prog:
            R.count("prog-op:" + name)
        R.extra["programs"] = R.extra.get("programs", 0) + 1
        if eager[0] != "ok":
            continue  # not a valid eager program (cannot happen: generated by eager execution)
        if comp[0] != "ok" or comp[1] != eager[1]:
            R.oracle_fail("programs:eager-vs-compile", {"shape": list(shape), "program": [[n, list(a)] for n, a in prog]},
                          {"eager": eager[1], "compiled": comp[1] if comp[0] == "ok" else "raise " + str(comp[1])},
                          {"kind": "program", "first_op": prog[0][0] if prog else None})
        R.traces += 1


# ------------------------------------------------------------------ programs: forced-branch differential (no dynamo)
def _first_divergence(F, shape, names, prog):
    """shortest prefix on which the two forced runs differ -> (prefix length, eager obs, compile obs)"""
    for n in range(1, len(prog) + 1):
        e, c = F.run_both(shape, names, prog[:n])
        if e != c:
            return n, e, c
    return None


def check_forced_programs(R, torch):
    from . import c18_forced as F
    rng = R.rng
    nprog = 500 if R.quick else 25000
    shapes = [(2, 3), (3,), (2, 1, 3), (1, 2), (4, 2), (1,), (2, 2, 2)]
    F.HITS.clear()
    ndiv = 0
    for i in range(nprog):
        shape = rng.choice(shapes)
        names = F.rand_names(rng, len(shape)) if rng.random() < 0.4 else None
        length = rng.randrange(2, 7)
        with F.Forced(False, count=False):
            base = call(F.base_td, shape, names)
            if base[0] != "ok":                    # the code under test refuses a valid named input: an observation, not a crash
                R.count("forced-prog:setup-raises:" + str(base[1]))
                continue
            prog = F.gen_program(rng, base[1], length)
        eager, comp = F.run_both(shape, names, prog)
        R.case(("forced-prog", shape, names, repr(prog)), nontrivial=len(prog) >= 2,
               sample={"forced_branch_program": [[n, list(map(repr, a))] for n, a in prog], "shape": list(shape), "names": names} if i % 97 == 0 else None)
        for name, _ in prog:
            R.count("forced-op:" + name)
        R.count("forced-prog:named-input" if names is not None and any(n is not None for n in names) else "forced-prog:unnamed-input")
        R.traces += 1
        if eager == comp:
            continue
        ndiv += 1
        n, e, c = _first_divergence(F, shape, names, prog)
        kind = F.divergence_kind(e, c)
        op = prog[n - 1][0]
        sig = {"check": "forced-branch", "kind": kind, "first_diverging_op": op}
        R.oracle_fail("programs:forced-branch", {"shape": list(shape), "names": names, "program": [[nm, list(a)] for nm, a in prog[:n]], "forced": True},
                      {"first_diverging_op": op, "eager": e, "compile_branch": c}, sig)
    R.extra["forced_branch_programs"] = nprog
    R.extra["forced_branch_divergent"] = ndiv
    return dict(F.HITS)


def site_evidence(R, tr, hits):
    """which sites the forced run exercised (per branch), and the classification summary read back from the Coq table"""
    import os
    import re
    from .core import COQ
    txt = open(os.path.join(COQ, "Model", "C18_Sites.v")).read()
    cls = {(a, b): c for a, b, c in re.findall(r'\(\("([^"]+)", "([^"]+)"\), (\w+)\)', txt)}
    per = {}
    for (f, q, v), n in hits.items():
        per.setdefault((f, q), {})[v] = n
    recs = {(m.rel, m.qual): m for m in tr["records"]} if tr else {}
    for (f, q) in sorted(set(recs) | set(per)):
        for v in (True, False):
            n = per.get((f, q), {}).get(v, 0)
            if n:
                R.count(f"site-hit[{'compile' if v else 'eager'}]:{f}:{q}", n)
    reached = sorted(k for k in recs if per.get(k, {}).get(True) and recs[k].origin == "call")
    call_sites = sorted(k for k in recs if recs[k].origin == "call")
    by = {}
    for k in recs:
        by.setdefault(cls.get(k, "UNCLASSIFIED"), []).append(f"{k[0]}:{k[1]}")
    R.extra["sites"] = {
        "call_sites": len(call_sites), "param_sites": len(recs) - len(call_sites),
        "exercised_on_compile_branch_by_forced_programs": len(reached),
        "not_exercised": [f"{a}:{b}" for a, b in call_sites if (a, b) not in reached],
        "guard_checked": sorted(by.get("Guard", [])), "dual_modelled": sorted(by.get("DualModelled", [])),
        "dual_unmodelled": sorted(by.get("DualUnmodelled", [])), "unclassified": sorted(by.get("UNCLASSIFIED", [])),
        "shapes": {f"{m.rel}:{m.qual}": m.shapes for m in tr["records"]} if tr else {},
    }
    unknown = sorted(k for k in per if k not in recs)
    if unknown:
        R.broken.append("is_compiling() asked by a function the translator does not list as a site: " + repr(unknown[:5]))


def check_programs_named(R, torch):
    """eager vs torch.compile on programs that use dimension names and the other C18-local operations; the observation
    includes the names (a recurrence of the repaired finding D1801 -- names dropped under compile -- is visible under real
    dynamo, not only with the forced flag)"""
    from . import c18_forced as F
    import torch._dynamo
    rng = R.rng
    nprog = 12 if R.quick else 300
    shapes = [(2, 3), (3,), (2, 1, 3), (4, 2)]
    allowed = {"refine_names", "names_set", "construct_named", "to_dtype_kw", "to_device", "flat_unflat", "mul_td", "add_td_inplace"}
    done = 0
    tries = 0
    while done < nprog and tries < 20 * nprog:
        tries += 1
        shape = rng.choice(shapes)
        names = F.rand_names(rng, len(shape)) if rng.random() < 0.6 else None
        base = call(F.base_td, shape, names)
        if base[0] != "ok":
            R.count("prog-named:setup-raises:" + str(base[1]))
            continue
        prog = [p for p in F.gen_program(rng, base[1], rng.randrange(2, 5)) if p[0] in allowed or p[0] in F.progs.OPS]
        if not any(p[0] in allowed for p in prog):
            continue
        eager = call(lambda: F.observe(F.run_program(F.base_td(shape, names), prog)))
        if eager[0] != "ok":
            continue
        done += 1

        def f(x, _prog=tuple(prog)):
            return F.run_program(x, _prog)
        torch._dynamo.reset()
        comp = call(lambda: F.observe(torch.compile(f, backend="eager")(F.base_td(shape, names))))
        R.case(("prog-named", shape, names, repr(prog)), nontrivial=True)
        R.count("prog-named")
        R.extra["programs"] = R.extra.get("programs", 0) + 1
        R.traces += 1
        if comp != eager:
            kind = F.divergence_kind(eager, comp if comp[0] == "ok" else ("raise", comp[1]))
            sig = {"kind": "program", "divergence": kind, "first_op": prog[0][0]}
            R.oracle_fail("programs:eager-vs-compile", {"shape": list(shape), "names": names, "program": [[n, list(a)] for n, a in prog], "named_ops": True},
                          {"eager": eager[1], "compiled": comp[1] if comp[0] == "ok" else "raise " + str(comp[1])}, sig)


def main(R):
    R.rule = ("helpers: exhaustive grids (key trees over {'a','b',1} to depth 1 (quick) / 2 (thorough) + random depth-3 trees; "
              "slices start/stop/step in -4..4|None x len 0..5; all batch_size spellings; random key-aligned lists); "
              "programs: random straight-line programs (2..6 ops) generated by eager execution; a case is distinct by its "
              "input and non-trivial when the key is a tuple / the program has >= 2 ops / the td has > 1 leaf")
    R.assumptions = ["torch.compile(backend='eager'|'aot_eager') stands for compiled execution (inductor not exercised)",
                     "the compile-only helper branches are executed eagerly by patching the module-global is_compiling",
                     "dynamo's tracing is not modelled: program equivalence is established by this run only (partial)",
                     "Guard sites: the bookkeeping allow-list of Model/C18_SiteShape.v (lock-graph weakrefs, warnings, memo stores, "
                     "error-message / lock context managers, functools.wraps) is reviewed by hand; what is CHECKED is that nothing else differs",
                     "memo / @cache duals hold under table coherence (class attributes not rebound after memoisation; cache invalidation is C06's theorem)",
                     "names model: renaming of nested tensordicts (_rename_subtds) not modelled"]
    R.trusted = ["harness/tr_c18.py partial evaluator + normaliser (identity comprehension == constructor call; annotated == plain assignment)",
                 "Spec/PySlice validated against CPython slice.indices on the same grid in this run",
                 "harness/cext.py: g++ rebuild of tensordict/csrc from the working tree, loaded as tensordict._C"]
    from . import translate, tr_c18, c18_dual  # noqa: F401
    tr = None
    try:
        tr = translate.run("c18_sites")
    except translate.TranslateError as e:
        R.broken.append(f"translator c18_sites: {e}")
    R.step_prove()
    ok = R.step_driver()
    torch, tensordict, U, TDM, B = _imports()
    torch.set_num_threads(1)
    import warnings
    warnings.simplefilter("ignore")
    spec_bad = 0
    if ok:
        check_keys(R, U)
        spec_bad = check_slices(R, U)
        check_parse_bs(R, torch, tensordict, TDM)
        c18_dual.check_names(R, torch, tensordict)
        c18_dual.check_memo(R, torch, tensordict)
        c18_dual.check_seq_keys(R)
    check_gbs_dual(R, torch, U, with_model=ok)
    check_items_list(R, torch, tensordict, B)
    c18_dual.check_cache(R, torch, tensordict)
    c18_dual.check_parse_to(R, torch, U)
    c18_dual.check_consolidate(R, torch, tensordict)
    hits = check_forced_programs(R, torch)
    site_evidence(R, tr, hits)
    check_programs(R, torch)
    check_programs_named(R, torch)
    if spec_bad:
        raise RuntimeError(f"{spec_bad} SPEC-MISMATCH lines: Spec/PySlice disagrees with CPython (machinery bug)")


def replay(body):
    torch, tensordict, U, TDM, B = _imports()
    case = body.get("case", {})
    print(json.dumps(body.get("detail"), indent=1, default=str))
    from . import c18_dual
    if c18_dual.replay(case):
        return 0
    if case.get("helper") == "_slice_indices":
        a, b, c = case["slice"]
        sl = slice(a, b, c)
        print("native slice.indices:", call(sl.indices, case["len"]), " _slice_indices:", call(U._slice_indices, sl, case["len"]))
        print("model:", run_model([sx([Sym("slice"), some(a), some(b), some(c), case["len"]])]))
    elif case.get("helper") in ("_unravel_key_to_tuple", "unravel_key"):
        k = eval(case["key"])
        f = getattr(U, case["helper"])
        nat = call(f, k)
        with forced_compile(U):
            py = call(f, k)
        print("native:", nat, " python branch:", py)
    elif "program" in case and (case.get("forced") or case.get("named_ops")):
        from . import c18_forced as F
        prog = [(n, tuple(tuple(x) if isinstance(x, list) else x for x in a)) for n, a in case["program"]]
        shape, names = tuple(case["shape"]), case.get("names")
        names = tuple(names) if names is not None else None
        if case.get("forced"):
            e, c = F.run_both(shape, names, prog)
            print("is_compiling forced False:", e)
            print("is_compiling forced True :", c)
        else:
            print("eager:", call(lambda: F.observe(F.run_program(F.base_td(shape, names), prog))))
            cf = torch.compile(lambda x: F.run_program(x, prog), backend="eager")
            print("compiled:", call(lambda: F.observe(cf(F.base_td(shape, names)))))
    elif "program" in case:
        from . import progs
        prog = [(n, tuple(tuple(x) if isinstance(x, list) else x for x in a)) for n, a in case["program"]]
        shape = tuple(case["shape"])
        print("eager:", call(lambda: progs.observe(progs.run_program(progs.base_td(shape), prog))))
        cf = torch.compile(lambda x: progs.run_program(x, prog), backend="eager")
        print("compiled:", call(lambda: progs.observe(cf(progs.base_td(shape)))))
    return 0
