"""C15 extra streams with their own spec oracles (independent of the Coq model):
  attr    attribute access is key access; assignment follows the declared field semantics (cast / nocast / autocast / None)
  fromtd  Cls.from_tensordict(td, non_tensordict): every field lives in exactly one of the two stores, clashes and foreign keys rejected
  chains  random programs of shape ops, stacking, indexing, indexed assignment, serialisation: class, content and non-tensor fields survive"""
import json
import pickle
import shutil
import tempfile

from . import c15_lib as Lb


def call(f):
    try:
        return ("ok", f())
    except Exception as e:  # noqa: BLE001
        return ("raise", type(e).__name__, str(e)[:160])


# ------------------------------------------------------------------------------------------------ attr stream
VALUES = {
    "tensor": ["tensor", [3, 2], "float32", "arange"],
    "tensor4": ["tensor", [3, 2, 4], "float32", "arange"],
    "int": ["lit", 5], "float": ["lit", 2.5], "bool": ["lit", True], "str": ["lit", "text"], "none": ["lit", None],
    "dict": ["dct", [["a", ["lit", 1]]]], "list": ["lst", ["lit", 1], ["lit", 2]], "numstr": ["lit", "12"],
    "ndarray": ["ndarray"], "tensor0": ["tensor", [], "float32", "arange"],
    "tcdict": ["dct", [["x", ["tensor", [3, 2], "float32", "arange"]], ["y", ["tensor", [3, 2, 4], "float32", "arange"]], ["s", ["lit", "q"]]]],
}


def mat_value(d):
    if d == ["ndarray"]:
        import numpy as np
        return np.arange(6, dtype="float32").reshape(3, 2)
    return Lb.Mat("Dec", "plain", "tc", None, [])(d)


def hint_of(cname, field):
    """declared type of a field, as the property's vocabulary: tensor / str / int / any / optional-tensor / tc"""
    if field in ("x", "y", "depth", "z"):
        return "tensor"
    if field in ("s", "d"):
        return "str"
    if field == "k":
        return "int" if cname in ("Auto", "SubAuto") else "any"
    if field == "o":
        return "optional"
    if field == "tag":
        return "any"
    if field == "inner":
        return "tc"
    return "any"


def expected_readback(cname, field, vkind):
    """what tc.field reads after tc.field = v, from the documented field semantics.  Returns a canonical description:
    ("tensor-of", v) / ("same", v) / ("cast", python value) / ("none",) / None when the documentation does not say"""
    opts = Lb.CLASS_INFO[cname][1]
    hint = hint_of(cname, field)
    tensorlike = vkind in ("tensor", "tensor4", "tensor0")
    number = vkind in ("int", "float", "bool", "ndarray")
    if vkind == "none":
        return ("none",)
    if "autocast" in opts:
        if hint == "tensor":
            if tensorlike:
                return ("same",)
            if number or vkind == "list":
                return ("tensor-of",)
            return None
        if hint == "int":
            if vkind in ("int", "float", "bool", "numstr", "tensor0"):
                return ("cast-int",)
            return None
        if hint == "str":
            if vkind in ("str", "numstr", "int", "float", "bool"):
                return ("cast-str",)
            return None
        # Optional[...] / Any: like a class without options
        if tensorlike:
            return ("same",)
        if vkind in ("int", "float", "ndarray"):
            return ("tensor-of",)
        if vkind == "bool":
            return None
        return ("same",)
    if tensorlike:
        return ("same",)
    if number:
        return ("same",) if "nocast" in opts else ("tensor-of",)
    return ("same",)


def eq_value(got, want_kind, v):
    t = Lb.T()
    torch = t["torch"]
    import numpy as np
    if want_kind == "none":
        return got is None
    if want_kind == "same":
        if isinstance(v, torch.Tensor):
            return isinstance(got, torch.Tensor) and got.shape == v.shape and bool((got == v).all())
        if isinstance(v, np.ndarray):
            return isinstance(got, np.ndarray) and got.shape == v.shape and bool((got == v).all())
        return type(got) is type(v) and got == v
    if want_kind == "tensor-of":
        return isinstance(got, torch.Tensor) and bool((got == torch.as_tensor(v)).all()) and tuple(got.shape) == tuple(torch.as_tensor(v).shape)
    if want_kind == "cast-int":
        return type(got) is int and got == int(v)
    if want_kind == "cast-str":
        return type(got) is str and got == str(v)
    return False


def key_access(tc, f):
    """what key access gives: the entry of _tensordict (non-tensor entries unwrapped) or of _non_tensordict"""
    t = Lb.T()
    td, nt = tc.__dict__["_tensordict"], tc.__dict__["_non_tensordict"]
    if f in nt:
        return ("nt", nt[f])
    if f in td.keys():
        v = td.get(f)
        if isinstance(v, t["NTD"]):
            return ("td-nt", v.data)
        if isinstance(v, t["NTS"]):
            return ("td-nt", v.tolist())
        return ("td", v)
    return ("absent", None)


def same_obj_or_value(a, b):
    t = Lb.T()
    torch = t["torch"]
    if a is b:
        return True
    if isinstance(a, torch.Tensor) and isinstance(b, torch.Tensor):
        return a.shape == b.shape and bool((a == b).all())
    return Lb.canon(a, {"ids": {}}) == Lb.canon(b, {"ids": {}})


def wf(tc):
    """every field lives in exactly one of the two stores"""
    fields = list(type(tc).__dataclass_fields__)
    td, nt = tc.__dict__["_tensordict"], tc.__dict__["_non_tensordict"]
    tk = set(td.keys())
    bad = [f for f in fields if (f in tk) == (f in nt)]
    extra = [k for k in list(tk) + list(nt) if k not in fields]
    return bad, extra


def stores(tc):
    """the two stores in the vocabulary of Model/C15_TCWrap.v"""
    t = Lb.T()
    td, nt = tc.__dict__["_tensordict"], tc.__dict__["_non_tensordict"]
    out = {"td": {}, "nt": {}}
    for k in td.keys():
        v = td.get(k)
        out["td"][k] = "nt" if isinstance(v, (t["NTD"], t["NTS"])) else ("c" if isinstance(v, t["Base"]) or Lb._is_tc(v) else "t")
    for k, v in nt.items():
        out["nt"][k] = "none" if v is None else "val"
    return out


def attr_cases(R):
    rng = R.rng
    out = []
    for cname in Lb.CLASS_INFO:
        fields = Lb.fields_of(cname)
        layouts = ["plain", "legacy", "lazy"] if cname not in ("Nest", "SubNest") else ["plain", "lazy"]
        for layout in layouts:
            for f in fields:
                out.append({"stream": "attr", "cls": cname, "layout": layout, "op": "getattr", "field": f})
                vks = list(VALUES)
                if R.quick and layout != "plain":
                    vks = rng.sample(vks, 4)
                for vk in vks:
                    for via in ("setattr", "set"):
                        if layout == "lazy" and via == "setattr" and R.quick and rng.random() < 0.5:
                            continue
                        out.append({"stream": "attr", "cls": cname, "layout": layout, "op": via, "field": f, "vkind": vk})
            out.append({"stream": "attr", "cls": cname, "layout": layout, "op": "setattr", "field": "not_a_field", "vkind": "tensor"})
            out.append({"stream": "attr", "cls": cname, "layout": layout, "op": "getattr", "field": "not_a_field"})
    return out


def run_attr(case):
    """returns (verdict, problems, flags, detail)"""
    t = Lb.T()
    cname, layout, op, f = case["cls"], case["layout"], case["op"], case["field"]
    tc = Lb.build(cname, layout)
    fields = Lb.fields_of(cname)
    probs, flags = [], []
    if op == "getattr":
        r = call(lambda: getattr(tc, f))
        if f not in fields:
            if r[0] != "raise" or r[1] != "AttributeError":
                probs.append(f"reading an attribute that is neither a field nor a tensordict attribute gives {r[:2]}")
            return ("fail" if probs else "ok"), probs, ["getattr-unknown"], {"got": repr(r)[:200]}
        where, want = key_access(tc, f)
        flags.append("getattr:" + where)
        if r[0] != "ok":
            probs.append(f"tc.{f} raises {r[1]}; key access gives {Lb.short(Lb.canon(want, {'ids': {}}))} from {where}")
        elif not same_obj_or_value(r[1], want):
            probs.append(f"tc.{f} = {Lb.short(Lb.canon(r[1], {'ids': {}}))} but key access ({where}) gives {Lb.short(Lb.canon(want, {'ids': {}}))}")
        g = call(lambda: tc.get(f))
        if g[0] != "ok" or not same_obj_or_value(g[1], want):
            probs.append(f"tc.get({f!r}) differs from key access: {repr(g)[:120]}")
        return ("fail" if probs else "ok"), probs, flags, {"pre": stores(tc), "got": where if r[0] == "ok" else ["raise", r[1]]}
    # assignment
    v = mat_value(VALUES[case["vkind"]]) if "vkind" in case else None
    locked = bool(tc.__dict__["_tensordict"].is_locked)
    frozen = "frozen" in Lb.CLASS_INFO[cname][1]
    pre = stores(tc)
    before = {k: key_access(tc, k) for k in fields}
    if op == "setattr":
        r = call(lambda: setattr(tc, f, v))
    else:
        r = call(lambda: tc.set(f, v))
    flags.append(("locked:" if locked else "unlocked:") + op)
    if f not in fields:
        if r[0] != "raise":
            probs.append("assigning an attribute that is not a field is accepted")
        return ("fail" if probs else "ok"), probs, flags + ["set-unknown"], {}
    if frozen and not locked and op == "set":
        # a frozen class whose tensordict was supplied unlocked (from_tensordict): the documentation promises immutability of
        # attribute assignment only
        return "ok", [], flags + ["frozen-unlocked-set"], {}
    if locked or frozen:
        if r[0] != "raise":
            probs.append(f"assignment to field {f!r} of a locked / frozen tensorclass is accepted")
        after = {k: key_access(tc, k) for k in fields}
        for k in fields:
            if before[k][0] != after[k][0] or not same_obj_or_value(before[k][1], after[k][1]):
                probs.append(f"field {k!r} of a locked tensorclass changed by a rejected assignment")
        return ("fail" if probs else "ok"), probs, flags, {}
    want = expected_readback(cname, f, case["vkind"])
    if layout in ("lazy", "lazyhet") or want is None or hint_of(cname, f) == "tc":
        # a lazily stacked instance broadcasts the value over members with its own shape rules; nested tensorclass fields
        # take tensor collections only: only the generic guarantees are checked
        flags.append("readback-unspecified")
        if r[0] == "ok":
            bad, extra = wf(tc)
            if bad or extra:
                probs.append(f"after the assignment fields {bad} are not in exactly one store; foreign keys {extra}")
        return ("fail" if probs else "ok"), probs, flags, {"outcome": r[0] if r[0] == "ok" else list(r[:2])}
    if r[0] != "ok":
        # a value that becomes a tensor whose shape does not start with the batch size is legitimately rejected
        if want[0] == "tensor-of" and case["vkind"] in ("int", "float", "bool", "list", "tensor0") or case["vkind"] == "tensor0":
            return "ok", [], flags + ["rejected:shape"], {}
        probs.append(f"tc.{f} = <{case['vkind']}> raises {r[1]}: {r[2][:100]}")
        return "fail", probs, flags + ["rejected"], {}
    got = call(lambda: getattr(tc, f))
    if got[0] != "ok":
        probs.append(f"reading back tc.{f} raises {got[1]}")
    elif not eq_value(got[1], want[0], v):
        probs.append(f"tc.{f} = <{case['vkind']}> reads back {Lb.short(Lb.canon(got[1], {'ids': {}}))}; the field semantics say {want[0]}")
    if got[0] == "ok":
        where, ka = key_access(tc, f)
        if not same_obj_or_value(got[1], ka):
            probs.append(f"after the assignment tc.{f} differs from key access ({where})")
    bad, extra = wf(tc)
    if bad or extra:
        probs.append(f"after the assignment fields {bad} are not in exactly one store; foreign keys {extra}")
    after = {k: key_access(tc, k) for k in fields if k != f}
    for k in after:
        if before[k][0] != after[k][0] or not same_obj_or_value(before[k][1], after[k][1]):
            probs.append(f"assignment to {f!r} changed field {k!r}")
    flags.append("readback:" + want[0])
    return ("fail" if probs else "ok"), probs, flags, {"pre": pre, "post": stores(tc), "set-ok": True}


# ------------------------------------------------------------------------------------------------ from_tensordict stream
def fromtd_cases(R):
    rng = R.rng
    out = []
    n = 150 if R.quick else 3000
    for _ in range(n):
        cname = rng.choice(["Dec", "Sub", "Frozen", "NoCast", "SubAuto", "Shadow"])
        fields = Lb.fields_of(cname)
        tdkeys = [f for f in fields if rng.random() < 0.5]
        nt = {}
        for f in fields:
            r = rng.random()
            if f in tdkeys:
                if r < 0.15:
                    nt[f] = None
                elif r < 0.25:
                    nt[f] = "clash"
            else:
                if r < 0.3:
                    nt[f] = None
                elif r < 0.6:
                    nt[f] = rng.choice(["payload", 3, {"a": [1, 2]}])
        if rng.random() < 0.12:
            tdkeys = tdkeys + ["foreign"]
        if rng.random() < 0.12:
            nt["alien"] = rng.choice([None, "v"])
        out.append({"stream": "fromtd", "cls": cname, "tdkeys": tdkeys, "nt": nt, "pass_nt": rng.random() < 0.9})
    return out


def run_fromtd(case):
    t = Lb.T()
    torch = t["torch"]
    C = t["classes"][case["cls"]]
    fields = Lb.fields_of(case["cls"])
    td = t["TD"]({k: torch.full((3, 2), float(i + 1)) for i, k in enumerate(case["tdkeys"])}, batch_size=[3, 2])
    nt_in = dict(case["nt"]) if case["pass_nt"] else None
    nt_eff = dict(case["nt"]) if case["pass_nt"] else {}
    r = call(lambda: C.from_tensordict(td, nt_in) if nt_in is not None else C.from_tensordict(td))
    probs, flags = [], []
    foreign = [k for k in list(case["tdkeys"]) + list(nt_eff) if k not in fields]
    clash = [k for k, v in nt_eff.items() if k in case["tdkeys"] and v is not None]
    if clash:
        flags.append("clash")
        if r[0] != "raise":
            probs.append(f"field {clash} given both as tensor and as non-None non-tensor value is accepted")
    elif foreign:
        flags.append("foreign")
        if r[0] != "raise":
            probs.append(f"keys {foreign} that are not fields of the class are accepted")
    else:
        flags.append("valid")
        if r[0] != "ok":
            probs.append(f"valid (tensordict, non_tensordict) pair rejected: {r[1]}: {r[2][:100]}")
        else:
            tc = r[1]
            if type(tc) is not C:
                probs.append(f"result is a {type(tc).__name__}")
            bad, extra = wf(tc)
            if bad or extra:
                probs.append(f"fields {bad} are not in exactly one store; foreign keys {extra}")
            if tc.__dict__["_tensordict"] is not td:
                probs.append("the tensordict passed in is not the underlying tensordict of the result")
            for f in fields:
                g = call(lambda: getattr(tc, f))
                if f in case["tdkeys"]:
                    okv = g[0] == "ok" and isinstance(g[1], torch.Tensor) and bool((g[1] == td.get(f)).all())
                elif f in nt_eff:
                    okv = g[0] == "ok" and g[1] == nt_eff[f]
                else:
                    okv = g[0] == "ok" and g[1] is None
                if not okv:
                    probs.append(f"field {f!r} reads {repr(g)[:80]}")
    return ("fail" if probs else "ok"), probs, flags, {"outcome": list(r[:2]) if r[0] == "raise" else "ok"}


# ------------------------------------------------------------------------------------------------ chains stream
def step_menu(bs):
    """operation descriptors applicable to a subject of batch shape bs (list).  ("name", args, kwargs, pick, mode)"""
    L = Lb.L
    n = 1
    for s in bs:
        n *= s
    m = []
    if len(bs) >= 1:
        m += [("reshape", [L(n)], {}, None, "call"), ("view", [L(n)], {}, None, "call"), ("flatten", [], {}, None, "call"),
              ("unsqueeze", [L(0)], {}, None, "call"), ("unsqueeze", [L(-1)], {}, None, "call"),
              ("unbind", [L(0)], {}, 0, "call"), ("split", [L(1), L(0)], {}, -1, "call"), ("chunk", [L(1), L(0)], {}, 0, "call"),
              ("__getitem__", [["slice", 0, None]], {}, None, "op"), ("__getitem__", [L(None)], {}, None, "op"),
              ("__getitem__", [["ellipsis"]], {}, None, "op"), ("expand", [L(2)] + [L(s) for s in bs], {}, None, "call"),
              ("repeat", [L(1)] * len(bs), {}, None, "call"), ("unflatten", [L(0), ["tup", L(bs[0]), L(1)]], {}, None, "call")]
        if bs[0] >= 2:
            m += [("__getitem__", [["slice", 0, bs[0] - 1]], {}, None, "op"), ("__getitem__", [L(0)], {}, None, "op"),
                  ("__getitem__", [["tensor", [2], "int64", "index"]], {}, None, "op")]
    if len(bs) >= 2:
        m += [("permute", [L(i) for i in reversed(range(len(bs)))], {}, None, "call"), ("transpose", [L(0), L(1)], {}, None, "call"),
              ("flatten", [L(0), L(1)], {}, None, "call")]
    if 1 in bs:
        m += [("squeeze", [], {}, None, "call"), ("squeeze", [L(bs.index(1))], {}, None, "call")]
    m += [("clone", [], {}, None, "call"), ("copy", [], {}, None, "call"), ("contiguous", [], {}, None, "call"),
          ("to", [L("cpu")], {}, None, "call"), ("stack2", [], {}, None, "x"), ("cat2", [], {}, None, "x"), ("lazystack2", [], {}, None, "x"),
          ("torchstack2", [], {}, None, "x"), ("pickle", [], {}, None, "x"), ("memmap", [], {}, None, "x"), ("setitem-self", [], {}, None, "x"),
          ("state_dict", [], {}, None, "x")]
    return m


def apply_step(obj, step):
    """apply one step of a chain to a tensorclass or to a tensordict (same code for both sides)"""
    t = Lb.T()
    torch = t["torch"]
    name, args, kwargs, pick, mode = step
    mat = Lb.Mat("Dec", "plain", "tc", None, [])
    a = [mat(x) for x in args]
    k = {kk: mat(v) for kk, v in kwargs.items()}
    if mode == "call":
        r = getattr(obj, name)(*a, **k)
    elif mode == "op":
        r = Lb.OPS[name][1](obj, *a)
    elif name == "stack2":
        r = obj.stack([obj, obj], 0) if False else torch.stack([obj, obj], 0)
    elif name == "torchstack2":
        r = torch.stack([obj, obj.clone()], -1)
    elif name == "cat2":
        if obj.batch_dims == 0:
            raise RuntimeError("cat of rank 0")
        r = torch.cat([obj, obj], 0)
    elif name == "lazystack2":
        r = t["lazy_stack"]([obj, obj.clone()], 0)
    elif name == "pickle":
        r = pickle.loads(pickle.dumps(obj))
    elif name == "memmap":
        d = tempfile.mkdtemp(prefix="c15-")
        try:
            obj.memmap(d)
            r = obj.load_memmap(d)
        finally:
            pass
        apply_step.tmp.append(d)
    elif name == "setitem-self":
        r = obj.clone()
        if r.batch_dims == 0:
            raise RuntimeError("indexed assignment on rank 0")
        r[0] = obj[-1]
    elif name == "state_dict":
        r = obj.clone()
        r.load_state_dict(obj.state_dict())
    else:
        raise ValueError(name)
    if pick is not None:
        r = r[pick]
    return r


apply_step.tmp = []


def chain_cases(R):
    rng = R.rng
    out = []
    n = 260 if R.quick else 6000
    combos = [(c, l) for c in Lb.CLASS_INFO for l in ("plain", "lazy", "lazyhet", "legacy", "named") if not (l == "legacy" and c in ("Nest", "SubNest"))]
    for i in range(n):
        cname, layout = combos[i % len(combos)] if i < 2 * len(combos) else rng.choice(combos)
        bs = list(Lb.BS)
        prog = []
        td = Lb.build("Dec", "plain")._tensordict     # shape oracle for choosing applicable steps
        for _ in range(rng.randrange(2, 7)):
            menu = step_menu(list(td.batch_size))
            st = rng.choice(menu)
            try:
                td = apply_step(td, st)
            except Exception:  # noqa: BLE001 -- not applicable at this shape: choose another one next round
                continue
            if not hasattr(td, "batch_size") or td.numel() > 5000:
                break
            prog.append([st[0], st[1], st[2], st[3], st[4]])
        for p in apply_step.tmp:
            shutil.rmtree(p, ignore_errors=True)
        apply_step.tmp.clear()
        if prog:
            out.append({"stream": "chains", "cls": cname, "layout": layout, "prog": prog})
    return out


def run_chain(case):
    t = Lb.T()
    cname = case["cls"]
    cls = "C15" + cname
    fields = Lb.fields_of(cname)
    tc = Lb.build(cname, case["layout"])
    td = Lb.build(cname, case["layout"])._tensordict
    nt0 = sorted([k, Lb._py(v)] for k, v in tc._non_tensordict.items())
    probs, flags = [], []
    try:
        for i, st in enumerate(case["prog"]):
            st = tuple(st)
            rt = call(lambda: apply_step(td, st))
            rc = call(lambda: apply_step(tc, st))
            flags.append("step:" + st[0])
            if rt[0] != "ok":
                if rc[0] == "ok":
                    probs.append(f"step {i} {st[0]}: the tensordict raises {rt[1]}, the tensorclass does not")
                flags.append("chain-cut")
                break
            if rc[0] != "ok":
                probs.append(f"step {i} {st[0]}: the tensordict succeeds, the tensorclass raises {rc[1]}: {rc[2][:100]}")
                break
            td, tc = rt[1], rc[1]
            c_tc, c_td = Lb.canon(tc, {"ids": {}}), Lb.canon(td, {"ids": {}})
            if isinstance(c_tc, list) and c_tc[0] == "TC" and isinstance(c_tc[2], list) and c_tc[2][0] == "TD" and c_td[0] == "TD" and c_tc[2][1] != c_td[1]:
                # dense vs lazily stacked container (torch.cat of lazy operands, finding D178): later steps are not comparable
                flags.append("chain-cut:container-kind")
                break
            if not (isinstance(c_tc, list) and c_tc[0] == "TC" and c_tc[1] == cls):
                probs.append(f"step {i} {st[0]}: result is {Lb.short(c_tc)}, not an instance of {cls}")
                break
            d = Lb.first_diff(Lb.strip_lock(Lb.erase(c_tc)), Lb.strip_lock(Lb.erase(c_td)), "content")
            if d:
                probs.append(f"step {i} {st[0]}: {d}")
                break
            s = Lb.nt_survives(c_tc, nt0)
            if s:
                probs.append(f"step {i} {st[0]}: " + "; ".join(s))
                break
            for f in fields:
                g = call(lambda: getattr(tc, f))
                if g[0] != "ok":
                    probs.append(f"step {i} {st[0]}: reading field {f!r} raises {g[1]}")
                    break
    finally:
        for p in apply_step.tmp:
            shutil.rmtree(p, ignore_errors=True)
        apply_step.tmp.clear()
    return ("fail" if probs else "ok"), probs, flags, {}


# ------------------------------------------------------------------------------------------------ glue
def gen(R):
    return attr_cases(R) + fromtd_cases(R) + chain_cases(R)


def run_extra(case):
    if case["stream"] == "attr":
        return run_attr(case)
    if case["stream"] == "fromtd":
        return run_fromtd(case)
    return run_chain(case)


def replay(case):
    v, probs, flags, detail = run_extra(case)
    print("oracle       :", v, flags[:8], detail)
    for p in probs:
        print("   -", p[:400])
    return 0 if v != "fail" else 1
