"""C15 — correspondence between the extracted Gallina model (coq/Model/C15_TCWrap.v) and the code:
  dispatch   which mechanism serves a name on each subject class (installation order + guards of _tensorclass)
  wrap       what a wrapped call returns given what the tensordict returned (_wrap_td_method / the __getattr__ fallback)
  from-td    _from_tensordict: accepted / rejected, resulting _non_tensordict
  attr       _getattr on the two stores; where tc.set(key, value) puts a value (cast rules), resulting stores"""
import dataclasses
import inspect
import json

from . import c15_extra
from . import c15_lib as Lb
from .core import Sym, sx


def S(x):
    return Sym(x)


def strs(l):
    return [str(x) for x in l]


# ------------------------------------------------------------------------------------------------ dispatch
def class_env(cname):
    """the class as _tensorclass() finds it: names visible through hasattr, names in its __dict__, fields"""
    t = Lb.T()
    C = t["classes"][cname]
    how, options, _ = Lb.CLASS_INFO[cname]
    flds = C.__dataclass_fields__
    ann = {k: f.type for k, f in flds.items()}
    ns = {"__annotations__": ann}
    for k, f in flds.items():
        if f.default is not dataclasses.MISSING:
            ns[k] = f.default
    twin = dataclasses.dataclass(type("Twin" + cname, (), dict(ns)), frozen="frozen" in options)
    defaults = [k for k, f in flds.items() if f.default is not dataclasses.MISSING]
    own = set(twin.__dict__) - set(defaults)
    base = set(dir(twin)) - set(defaults)
    td_cm = [a for a in t["TD"].__dict__ if inspect.ismethod(getattr(t["TD"], a))]
    cmw = []
    if how == "subclass":
        parent = C.__mro__[1]
        base |= set(dir(parent))
        for a in td_cm:      # inherited wrappers of the classmethod loop (installed on an already decorated base)
            v = inspect.getattr_static(parent, a, None)
            code = getattr(v, "__code__", None)
            if code is not None and code.co_name == "wrapped_func" and "td_cls" in code.co_freevars:
                cmw.append(a)
    return {"base": sorted(base), "own": sorted(own), "fields": list(flds), "nt": False, "tdcm": td_cm, "cmw": cmw}


def env_sx(e):
    return [strs(e["base"]), strs(e["own"]), strs(e["fields"]), e["nt"], strs(e["tdcm"]), strs(e["cmw"])]


def observed_dispatch(C, n, fields):
    t = Lb.T()
    if n not in C.__dict__:
        if hasattr(C, n) and n not in fields:
            return "inherited"
        try:
            inspect.getattr_static(C, n)
            return "inherited"
        except AttributeError:
            pass
        if n in fields:
            return "field"
        if n.startswith("__") and n.endswith("__") and len(n) >= 4:
            return "absent"
        return "getattr"
    v = C.__dict__[n]
    if isinstance(v, property):
        f = v.fget
        if f is not None and "_wrap_td_method" in getattr(f, "__qualname__", ""):
            return "nowrap"
        return "present"
    if isinstance(v, (classmethod, staticmethod)):
        v = v.__func__
    q = getattr(v, "__qualname__", "")
    code = getattr(v, "__code__", None)
    if code is not None and code.co_name == "wrapped_func" and "funcname" in code.co_freevars:
        cells = dict(zip(code.co_freevars, [c.cell_contents for c in v.__closure__]))
        if cells.get("no_wrap"):
            return "nowrap"
        dr = cells.get("deliver_result")
        copy = False
        if dr is not None and dr.__closure__:
            inner = dict(zip(dr.__code__.co_freevars, [c.cell_contents for c in dr.__closure__]))
            copy = bool(inner.get("copy_non_tensor"))
        return ["wrap", copy]
    if code is not None and code.co_name == "wrapped_func" and "td_cls" in code.co_freevars:
        return "classmethod"
    tdv = inspect.getattr_static(t["TD"], n, None)
    if tdv is not None and callable(v) and (v is tdv or getattr(tdv, "__func__", None) is v):
        return "direct"
    mod = getattr(v, "__module__", None)
    if mod == "tensordict.tensorclass" or n in ("fields", "__doc__", "_is_non_tensor", "_is_tensorclass", "__expected_keys__", "device", "data", "grad",
                                                "load", "load_memmap", "__init__"):
        return "present"
    return "inherited"     # in the class dict before the installation (dataclass machinery, user definitions)


def norm_model_disp(m):
    if m == "inherited":
        return "inherited"
    if isinstance(m, list) and m[0] == "installed":
        k = m[1]
        if k == "explicit":
            return "present"
        if isinstance(k, list) and k[0] == "wrap":
            return ["wrap", k[1] == "t"]
        return k
    return m


def correspond_dispatch(R, info):
    t = Lb.T()
    names = set(Lb.public_names()) | set(Lb.api_dunders())
    for tab in info["tables"].values():
        names |= set(x for x in tab if isinstance(x, str))
    names |= {s[1] for s in info["steps"] if s[0] == "one"}
    names |= {"not_an_attribute", "__matmul__", "__float__", "_private_helper"}
    names = sorted(n for n in names if '"' not in n and n not in Lb.NOT_OPERATORS)
    lines, meta = [], []
    for cname in Lb.CLASS_INFO:
        e = class_env(cname)
        esx = env_sx(e)
        for n in names:
            lines.append(sx([S("dispatch"), esx, n]))
            meta.append((cname, n, e))
    res = R.model(lines)
    for (cname, n, e), m in zip(meta, res):
        C = t["classes"][cname]
        obs = observed_dispatch(C, n, e["fields"])
        mod = norm_model_disp(m)
        R.count("dispatch:" + (obs if isinstance(obs, str) else "wrap"))
        R.traces += 1
        ok = obs == mod
        if ok:
            continue
        R.mismatch("dispatch", {"cls": cname, "name": n}, obs, mod)


# ------------------------------------------------------------------------------------------------ wrap
def model_kind(info, e, n, cache):
    key = (tuple(e["fields"]), n)
    return cache.get(key)


def r_sx(r):
    def atom(a):
        if isinstance(a, str):
            return S(a)
        return [S("td"), strs(a[1]), bool(a[2])]
    if isinstance(r, list) and r and r[0] == "tuple":
        return [S("tuple")] + [atom(a) for a in r[1:]]
    return atom(r)


def norm_model_t(m):
    """model tshape -> the vocabulary of Lb._tatom"""
    def atom(a):
        if isinstance(a, str):
            return a
        if a[0] == "wrapped":
            nt = sorted([k, "none" if v == "none" else "val"] for k, v in a[2])
            return ["wrapped", sorted(a[1]), nt, a[4] == "t"]
        if a[0] == "bare":
            return "out" if a[2] == "t" else ["bare", sorted(a[1])]
        if a[0] == "raise":
            return ["raise", a[1]]
        return a
    if isinstance(m, list) and m and m[0] == "tuple":
        return ["tuple"] + [atom(a) for a in m[1:]]
    return atom(m)


def same_t(obs, mod):
    def atom(o, m):
        if isinstance(o, list) and isinstance(m, list) and o and m and o[0] == "wrapped" and m[0] == "wrapped":
            # the identity of the wrapped tensordict is observed for single results only
            return o[1] == m[1] and o[2] == m[2] and (o[3] is None or o[3] == m[3])
        return o == m
    if isinstance(obs, list) and obs and obs[0] == "tuple":
        return isinstance(mod, list) and mod and mod[0] == "tuple" and len(obs) == len(mod) and all(atom(a, b) for a, b in zip(obs[1:], mod[1:]))
    return atom(obs, mod)


def correspond_wrap(R, cases, abstracts):
    envs = {c: class_env(c) for c in Lb.CLASS_INFO}
    # dispatch kind of every (class, name) that occurs
    need = sorted({(cases[i]["cls"], cases[i]["name"]) for i, ab in abstracts})
    lines = [sx([S("dispatch"), env_sx(envs[c]), n]) for c, n in need]
    kinds = dict(zip(need, R.model(lines))) if lines else {}
    lines, meta = [], []
    for i, ab in abstracts:
        case = cases[i]
        k = kinds.get((case["cls"], case["name"]))
        fields = envs[case["cls"]]["fields"]
        nt = [[a, S("none") if b == "none" else idx + 1] for idx, (a, b) in enumerate(ab["nt"])]
        if isinstance(k, list) and k[0] == "installed" and (k[1] == "nowrap" or (isinstance(k[1], list) and k[1][0] == "wrap")):
            nw = k[1] == "nowrap"
            cp = (not nw) and k[1][1] == "t"
            lines.append(sx([S("wrap"), S("td-method"), nw, cp, strs(fields), strs(ab["selfkeys"]), nt, r_sx(ab["r"])]))
        elif k == "getattr":
            lines.append(sx([S("wrap"), S("getattr"), case["name"], strs(fields), strs(ab["selfkeys"]), nt, r_sx(ab["r"])]))
        else:
            R.count("wrap-model:not-a-wrapper")
            continue
        meta.append((i, ab, k))
    res = R.model(lines) if lines else []
    for (i, ab, k), m in zip(meta, res):
        mod = norm_model_t(m)
        obs = ab["t"]
        R.traces += 1
        R.count("wrap-model:" + ("nowrap" if k != "getattr" and k[1] == "nowrap" else ("getattr" if k == "getattr" else "wrap")))
        if isinstance(obs, list) and obs and obs[0] == "raise":
            if obs[1] not in ("KeyError", "ValueError"):
                R.count("wrap-model:raised-inside-the-call")     # not an exception of the wrapper (_from_tensordict raises KeyError / ValueError)
                continue
            if isinstance(mod, list) and mod and mod[0] == "raise" and obs[1] == mod[1]:
                continue
        if same_t(obs, mod):
            continue
        R.mismatch("wrap", cases[i], obs, mod)


# ------------------------------------------------------------------------------------------------ from-td, attr
def correspond_fromtd(R, cases, results):
    t = Lb.T()
    torch = t["torch"]
    lines, meta = [], []
    for i, case in enumerate(cases):
        if case.get("stream") != "fromtd":
            continue
        fields = Lb.fields_of(case["cls"])
        nt = case["nt"] if case["pass_nt"] else {}
        ids = {}
        ntx = []
        for k, v in nt.items():
            if v is None:
                ntx.append([k, S("none")])
            else:
                ids[k] = len(ids) + 1
                ntx.append([k, ids[k]])
        lines.append(sx([S("from-td"), strs(fields), strs(case["tdkeys"]), ntx]))
        meta.append((i, case, ids))
    res = R.model(lines) if lines else []
    for (i, case, ids), m in zip(meta, res):
        C = t["classes"][case["cls"]]
        td = t["TD"]({k: torch.zeros(3, 2) for k in case["tdkeys"]}, batch_size=[3, 2])
        nt = dict(case["nt"]) if case["pass_nt"] else None
        r = c15_extra.call(lambda: C.from_tensordict(td, nt) if nt is not None else C.from_tensordict(td))
        if r[0] == "raise":
            obs = ["raise", r[1]]
        else:
            got = r[1].__dict__["_non_tensordict"]
            obs = ["ok", sorted([k, "none" if v is None else ids.get(k, "?")] for k, v in got.items())]
        mod = ["raise", m[1]] if m[0] == "raise" else ["ok", sorted([k, v] for k, v in m[1])]
        R.traces += 1
        R.count("fromtd-model:" + obs[0])
        if obs != mod:
            R.mismatch("from_tensordict", case, obs, mod)


HINTS = {"tensor": "tensor", "str": "concrete", "int": "concrete", "any": "any", "optional": "any", "tc": "coll"}
VK = {"tensor": "tensor", "tensor4": "tensor", "tensor0": "tensor", "int": "number", "float": "number", "bool": "number", "ndarray": "number",
      "str": "other", "numstr": "other", "list": "other", "dict": "dict", "tcdict": "dict", "none": "none"}


def state_sx(st):
    td = [[k, [S(v), i + 1]] for i, (k, v) in enumerate(sorted(st["td"].items()))]
    nt = [[k, S("none") if v == "none" else 100 + i] for i, (k, v) in enumerate(sorted(st["nt"].items()))]
    return [td, nt]


def correspond_attr(R, cases, results):
    lines, meta = [], []
    for (i, verdict, probs, flags, detail, _o, _ab) in results:
        case = cases[i]
        if case.get("stream") != "attr" or not isinstance(detail, dict) or "pre" not in detail:
            continue
        cname = case["cls"]
        fields = Lb.fields_of(cname)
        if case["op"] == "getattr" and case["field"] in fields:
            if case["field"] not in detail["pre"]["td"] and case["field"] not in detail["pre"]["nt"]:
                # frozen classes keep a None default in the instance __dict__ (the dataclass __init__ wrote it): outside the two stores
                R.count("attr-model:field-in-instance-dict")
                continue
            lines.append(sx([S("getattr"), strs(fields), state_sx(detail["pre"]), case["field"]]))
            meta.append(("getattr", i, case, detail))
        elif case["op"] in ("set", "setattr") and detail.get("set-ok") and case["field"] in fields:
            opts = Lb.CLASS_INFO[cname][1]
            h = HINTS[c15_extra.hint_of(cname, case["field"])]
            lines.append(sx([S("set"), strs(fields), False, "autocast" in opts, "nocast" in opts, S(h), state_sx(detail["pre"]), case["field"],
                             S(VK[case["vkind"]]), 999]))
            meta.append(("set", i, case, detail))
    res = R.model(lines) if lines else []
    for (what, i, case, detail), m in zip(meta, res):
        R.traces += 1
        R.count("attr-model:" + what)
        if what == "getattr":
            g = detail["got"]
            obs = {"td": "td", "td-nt": "py", "nt": "nt"}.get(g, g) if isinstance(g, str) else g
            if isinstance(m, list):
                kind = m[0]
                mod = {"t": "td", "c": "td", "py": "py?"}.get(kind, kind)
            else:
                mod = "nt" if m == "none" else m
            # a python value comes either from a NonTensorData entry of _tensordict (td-nt) or from _non_tensordict (nt)
            pre = detail["pre"]
            if mod == "py?":
                mod = "nt" if case["field"] in pre["nt"] else "py"
            if obs != mod:
                R.mismatch("getattr", case, [obs, detail["pre"]], mod)
        else:
            post = detail["post"]
            if m[0] != "ok":
                R.mismatch("set", case, "ok", m)
                continue
            mtd = {k: v[0] for k, v in m[1][0]}
            mnt = {k: ("none" if v == "none" else "val") for k, v in m[1][1]}
            if mtd != post["td"] or mnt != post["nt"]:
                R.mismatch("set", case, post, {"td": mtd, "nt": mnt})


def correspond_setitem(R, cases, abstracts):
    lines, meta = [], []
    for i, ab in abstracts:
        si = ab.get("setitem")
        if not si:
            continue
        v = si["value"]
        if isinstance(v, list) and v[0] == "tc":
            vs = [S("tc"), bool(v[1]), state_sx(v[2])]
        elif isinstance(v, list) and v[0] == "td":
            vs = [S("td"), strs(v[1])]
        else:
            vs = S(v)
        lines.append(sx([S("setitem"), False, state_sx(si["pre"]), vs]))
        meta.append((i, si))
    res = R.model(lines) if lines else []
    for (i, si), m in zip(meta, res):
        R.traces += 1
        R.count("setitem-model")
        if m[0] != "ok":
            R.mismatch("setitem", cases[i], "ok", m)
            continue
        mtd = sorted(k for k, v in m[1][0])
        mnt = {k: ("none" if v == "none" else "val") for k, v in m[1][1]}
        if mtd != sorted(si["post"]["td"]) or mnt != si["post"]["nt"]:
            R.mismatch("setitem", cases[i], si["post"], {"td": mtd, "nt": mnt})


def correspond(R, cases, abstracts, results=None, info=None):
    if info is not None:
        correspond_dispatch(R, info)
    correspond_wrap(R, cases, abstracts)
    correspond_setitem(R, cases, abstracts)
    if results is not None:
        correspond_fromtd(R, cases, results)
        correspond_attr(R, cases, results)


def replay_model(case, o_tc, o_td):
    from .core import run_model
    ab = Lb.abstract_pair(case, o_tc, o_td)
    if ab is None:
        print("model        : (this call is outside the wrapper model)")
        return
    e = class_env(case["cls"])
    k = run_model("C15", [sx([S("dispatch"), env_sx(e), case["name"]])])[0]
    print("model dispatch:", k)
    print("abstraction  : tensordict returned", ab["r"], "; tensorclass returned", ab["t"])
