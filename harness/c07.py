"""C07 — in-place operations keep storage; out-of-place operations never disturb it (DESIGN.md §4 C07).

Two streams:
 * reflection (harness/c07_reflect.py): every classified public operation x container kind x entry layout x preceding
   history, judged by the sentinel / storage oracles directly on the implementation (no model involved);
 * programs: register-machine programs (fixture construction + history + operation) run on the real objects AND on
   the extracted heap model (coq/Model/C07_Alias.v); final heaps (storage classes, index maps, key order, lock flags,
   storage contents) and per-instruction outcomes are compared after canonical renaming of identities."""
import json
import os
import random

from .core import Sym, sx
from . import c07_reflect as RF

T = RF.T

ERR_CLASSES = {"key": {"KeyError"}, "lock": {"RuntimeError"}, "overlap": {"RuntimeError", "ValueError"},
               "shape": {"RuntimeError", "ValueError"}, "type": {"RuntimeError", "ValueError", "TypeError", "KeyError", "AttributeError"},
               "fuel": set()}


# =============================================================================================== program interpreter (real side)
def _batch_op(x, how):
    """apply a batch-level view / index operation given as JSON to a tensordict or to the proxy tensor"""
    torch = T()["torch"]
    k = how[0]
    if k == "index":
        return x[build_index(how[1])]
    if k == "cindex":
        # an index of the C03 grammar, rebuilt from its descriptors (bare range / list / numpy / tensor / mask, tuples, None, Ellipsis)
        from . import c03
        py = c03.to_py(how[1])
        return x[py[0] if how[2] else py]
    if k == "permute":
        return x.permute(*how[1])
    if k == "transpose":
        return x.transpose(how[1], how[2])
    if k == "squeeze":
        return x.squeeze(how[1]) if how[1] is not None else x.squeeze()
    if k == "unsqueeze":
        return x.unsqueeze(how[1])
    if k == "expand":
        return x.expand(*how[1])
    if k == "view":
        return x.view(*how[1])
    if k == "unflatten":
        return x.unflatten(how[1], tuple(how[2]))
    if k == "unbind":
        return x.unbind(how[1])[how[2]]
    if k == "split":
        return x.split(how[1], how[2])[how[3]]
    if k == "chunk":
        return x.chunk(how[1], how[2])[how[3]]
    if k == "masked_select":
        m = torch.tensor(how[1], dtype=torch.bool)
        if isinstance(x, torch.Tensor):
            return x[m]
        return x.masked_select(m)
    raise ValueError(how)


def build_index(d):
    torch = T()["torch"]

    def one(i):
        if isinstance(i, list):
            if i and i[0] == "slice":
                return slice(i[1], i[2], i[3])
            if i and i[0] == "tensor":
                return torch.tensor(i[2], dtype=torch.bool if i[1] == "bool" else torch.int64)
            if i and i[0] == "list":
                return list(i[1])
            if i and i[0] == "tuple":
                return tuple(one(j) for j in i[1])
        return i
    return one(d)


def index_json(idx):
    torch = T()["torch"]

    def one(i):
        if isinstance(i, slice):
            return ["slice", i.start, i.stop, i.step]
        if isinstance(i, torch.Tensor):
            return ["tensor", "bool" if i.dtype == torch.bool else "int64", i.tolist()]
        if isinstance(i, list):
            return ["list", i]
        if isinstance(i, tuple):
            return ["tuple", [one(j) for j in i]]
        return i
    return one(idx)


PF_REAL = {"neg": (lambda td: td.neg_(), lambda td: td.neg(), lambda t: -t),
           "abs": (lambda td: td.abs_(), lambda td: td.abs(), lambda t: t.abs())}


def pf_sx(f):
    return Sym(f[0]) if len(f) == 1 else [Sym(f[0]), int(f[1])]


class Interp:
    """executes instruction JSON on real objects; produces the model's encoding of each instruction"""

    def __init__(self):
        self.regs = []
        self.lines = []
        self.outs = []

    def bs(self, r):
        x = self.regs[r]
        if isinstance(x, T()["torch"].Tensor):
            return [x.shape[0]]       # a plain buffer: its rows are the "batch" the row views are taken from
        return list(x.batch_size)

    def nb(self, r):
        n = 1
        for s in self.bs(r):
            n *= s
        return n

    def bsel(self, r, how):
        torch = T()["torch"]
        proxy = torch.arange(self.nb(r)).reshape(self.bs(r))
        return _batch_op(proxy, how).reshape(-1).tolist()

    def run(self, ins):
        """returns ('ok'|exception class name); appends the model line"""
        torch = T()["torch"]
        TD = T()["TD"]
        k = ins["i"]
        R = self.regs
        line = None
        push = None
        try:
            if k == "newt":
                t = RF.make_leaf(ins["shape"], ins["layout"], ins["seed"])
                content = [int(x) for x in RF.flat(t).tolist()] if t.numel() else []
                line = [Sym("newt"), content, RF.cells(t)]
                push = t
            elif k == "newtd":
                line = [Sym("newtd"), [[kk, i] for kk, i in ins["ents"]]]
                push = TD({kk: R[i] for kk, i in ins["ents"]}, batch_size=ins["bs"], device=ins.get("device"))
            elif k == "get":
                line = [Sym("get"), ins["r"], list(ins["p"])]
                push = R[ins["r"]].get(tuple(ins["p"]))
            elif k == "set_":
                line = [Sym("set_"), ins["r"], list(ins["p"]), ins["v"]]
                R[ins["r"]].set_(tuple(ins["p"]), R[ins["v"]])
            elif k == "set":
                line = [Sym("set"), ins["r"], list(ins["p"]), ins["v"], Sym(ins["inplace"])]
                if ins["inplace"] == "false":
                    if ins.get("via") == "setitem":
                        R[ins["r"]][tuple(ins["p"])] = R[ins["v"]]
                    else:
                        R[ins["r"]].set(tuple(ins["p"]), R[ins["v"]])
                else:
                    R[ins["r"]].set(tuple(ins["p"]), R[ins["v"]], inplace=True)
            elif k == "update_":
                line = [Sym("update_"), ins["r"], ins["o"]]
                getattr(R[ins["r"]], ins.get("via", "update_"))(R[ins["o"]])
            elif k == "update":
                line = [Sym("update"), ins["r"], ins["o"], bool(ins["clone"]), bool(ins["inplace"])]
                R[ins["r"]].update(R[ins["o"]], clone=bool(ins["clone"]), inplace=bool(ins["inplace"]))
            elif k == "set_at_":
                how = ["index", ins["idx"]]
                line = [Sym("set_at_"), ins["r"], list(ins["p"]), ins["v"], self.nb(ins["r"]), self.bsel(ins["r"], how)]
                R[ins["r"]].set_at_(tuple(ins["p"]), R[ins["v"]], build_index(ins["idx"]))
            elif k == "update_at_":
                how = ["index", ins["idx"]]
                line = [Sym("update_at_"), ins["r"], ins["o"], self.nb(ins["r"]), self.bsel(ins["r"], how)]
                via = ins.get("via", "update_at_")
                if via == "setitem":
                    R[ins["r"]][build_index(ins["idx"])] = R[ins["o"]]
                else:
                    getattr(R[ins["r"]], via)(R[ins["o"]], build_index(ins["idx"]))
            elif k == "setitem-scalar":
                if ins.get("via") == "masked_fill_":
                    how = ["masked_select", ins["mask"]]
                    line = [Sym("setitem-scalar"), ins["r"], int(ins["z"]), self.nb(ins["r"]), self.bsel(ins["r"], how)]
                    R[ins["r"]].masked_fill_(torch.tensor(ins["mask"], dtype=torch.bool), float(ins["z"]))
                else:
                    how = ["index", ins["idx"]]
                    line = [Sym("setitem-scalar"), ins["r"], int(ins["z"]), self.nb(ins["r"]), self.bsel(ins["r"], how)]
                    R[ins["r"]][build_index(ins["idx"])] = torch.tensor(float(ins["z"]), dtype=torch.float64)
            elif k == "fill_":
                line = [Sym("fill_"), ins["r"], list(ins["p"]), int(ins["z"])]
                R[ins["r"]].fill_(tuple(ins["p"]), float(ins["z"]))
            elif k == "zero_":
                line = [Sym("const_"), ins["r"], 0]
                R[ins["r"]].zero_()
            elif k == "unary_":
                f = ins["f"]
                line = [Sym("unary_"), ins["r"], pf_sx(f)]
                td = R[ins["r"]]
                via = ins.get("via", "method")
                if f[0] in PF_REAL:
                    PF_REAL[f[0]][0](td) if via == "method" else td.apply_(PF_REAL[f[0]][2])
                elif f[0] == "addc":
                    if via == "method":
                        td.add_(float(f[1]))
                    elif via == "aug":
                        td += float(f[1])
                    else:
                        td.apply_(lambda t: t + float(f[1]))
                elif f[0] == "mulc":
                    if via == "method":
                        td.mul_(float(f[1]))
                    elif via == "aug":
                        td *= float(f[1])
                    else:
                        td.apply_(lambda t: t * float(f[1]))
            elif k == "binary_":
                line = [Sym("binary_"), ins["r"], Sym(ins["f"]), ins["o"]]
                m = {"add": "add_", "sub": "sub_", "mul": "mul_", "max": "maximum_", "min": "minimum_"}[ins["f"]]
                getattr(R[ins["r"]], m)(R[ins["o"]])
            elif k == "del":
                line = [Sym("del"), ins["r"], list(ins["p"])]
                if ins.get("via") == "pop":
                    R[ins["r"]].pop(tuple(ins["p"]))
                else:
                    R[ins["r"]].del_(tuple(ins["p"]))
            elif k == "lock":
                line = [Sym("lock"), ins["r"], bool(ins["b"])]
                R[ins["r"]].lock_() if ins["b"] else R[ins["r"]].unlock_()
            elif k == "view":
                pl = ins["how"][0] in ("permute", "transpose", "squeeze", "unsqueeze", "expand", "view", "unflatten") \
                    and not isinstance(R[ins["r"]], torch.Tensor)
                line = [Sym("view"), ins["r"], self.nb(ins["r"]), self.bsel(ins["r"], ins["how"]), pl]
                try:
                    push = _batch_op(R[ins["r"]], ins["how"])
                except RuntimeError:
                    if ins["how"][0] in ("view", "unflatten"):
                        # torch refuses to view this layout with that shape (stride rule of the leaf): outside the model
                        self.skipped = getattr(self, "skipped", 0) + 1
                        return "skip"
                    raise
                if push is R[ins["r"]]:
                    # the operation returned the receiver itself (full slices, transpose(d, d), nothing to squeeze ...)
                    line = [Sym("get"), ins["r"], []]
            elif k == "gather":
                line = [Sym("gather"), ins["r"], self.nb(ins["r"]), self.bsel(ins["r"], ins["how"])]
                push = _batch_op(R[ins["r"]], ins["how"])
            elif k == "select":
                line = [Sym("select"), ins["r"], list(ins["ks"])]
                push = R[ins["r"]].select(*ins["ks"])
            elif k == "exclude":
                line = [Sym("exclude"), ins["r"], list(ins["ks"])]
                push = R[ins["r"]].exclude(*ins["ks"])
            elif k == "shallow":
                line = [Sym("shallow"), ins["r"]]
                push = R[ins["r"]].copy() if ins.get("via") != "clone" else R[ins["r"]].clone(False)
            elif k == "flatten-keys":
                line = [Sym("flatten-keys"), ins["r"], ins["sep"]]
                push = R[ins["r"]].flatten_keys(ins["sep"])
            elif k == "clone":
                line = [Sym("clone"), ins["r"]]
                push = R[ins["r"]].clone() if ins.get("via") != "to_tensordict" else R[ins["r"]].to_tensordict()
            elif k == "unary":
                f = ins["f"]
                line = [Sym("unary"), ins["r"], pf_sx(f), ins.get("via") != "apply", ins.get("via") != "apply" and f[0] in ("addc", "mulc")]
                td = R[ins["r"]]
                if f[0] in PF_REAL:
                    push = PF_REAL[f[0]][1](td) if ins.get("via") != "apply" else td.apply(PF_REAL[f[0]][2])
                elif f[0] == "addc":
                    push = td.add(float(f[1])) if ins.get("via") != "op" else td + float(f[1])
                elif f[0] == "mulc":
                    push = td.mul(float(f[1])) if ins.get("via") != "op" else td * float(f[1])
            elif k == "binary":
                line = [Sym("binary"), ins["r"], Sym(ins["f"]), ins["o"]]
                m = {"add": "add", "sub": "sub", "mul": "mul", "max": "maximum", "min": "minimum"}[ins["f"]]
                push = getattr(R[ins["r"]], m)(R[ins["o"]])
            elif k == "contiguous":
                line = [Sym("contiguous"), ins["r"]]
                push = R[ins["r"]].contiguous()
            else:
                raise ValueError(k)
            out = "ok"
        except Exception as e:  # noqa: BLE001
            out = type(e).__name__
            if line is None:
                raise
        if out == "skip":
            return out
        if out == "ok" and push is not None and isinstance(push, T()["TD"]) and k not in ("get",):
            # the call returned an object the caller already holds (the receiver itself for full slices / transpose(d, d) /
            # nothing to squeeze; a memoised result of a locked tensordict — C06's subject): an alias, not a new node
            for j, x in enumerate(self.regs):
                if x is push:
                    line = [Sym("get"), j, []]
                    break
        self.lines.append(line)
        self.outs.append(out)
        if out == "ok" and push is not None:
            self.regs.append(push)
        return out

    # ---- canonical dump of what the caller can reach
    def dump(self):
        return canon_dump_real(self.regs)


class _Cells:
    """canonical renaming of storages and of the cells inside each storage by first appearance (identity as equivalence
    classes: two dumps are equal iff a bijection of storages and cells maps every view, every content onto the other)"""

    def __init__(self, content_of):
        self.sid, self.cid, self.content, self.content_of = {}, {}, {}, content_of

    def leaf(self, key, cs):
        if not cs:
            return ["leaf", None, []]
        if key not in self.sid:
            self.sid[key] = len(self.sid)
            self.cid[key] = {}
            self.content[self.sid[key]] = []
        m = self.cid[key]
        out = []
        for c in cs:
            if c not in m:
                m[c] = len(m)
                self.content[self.sid[key]].append(self.content_of(key, c))
            out.append(m[c])
        return ["leaf", self.sid[key], out]

    def stor(self):
        return [self.content[i] for i in range(len(self.content))]


def canon_dump_real(regs):
    TDc = T()["TD"]
    nid = {}
    nodes = {}
    flats = {}

    def content_of(p, c):
        return int(flats[p][c])
    C = _Cells(content_of)

    def ref(x):
        if isinstance(x, TDc):
            i = id(x)
            if i not in nid:
                nid[i] = len(nid)
                me = nid[i]
                nodes[me] = None
                ents = [[k, ref(v)] for k, v in x._tensordict.items()]
                nodes[me] = [bool(x.is_locked), ents]
            return ["node", nid[i]]
        p = RF.sptr(x)
        if p is None:
            return ["leaf", None, []]
        if p not in flats:
            flats[p] = RF.flat(x).tolist()
        return C.leaf(p, RF.cells(x))
    rr = [ref(x) for x in regs]
    return {"regs": rr, "nodes": [nodes[i] for i in range(len(nodes))], "stor": C.stor()}


def canon_dump_model(res):
    """res = parsed model result [[outs...], [[regs...],[stor...],[nodes...]]]"""
    outs = res[0][1:]
    st = res[1]
    regs, stor_raw, nodes_raw = st[0][1:], st[1][1:], st[2][1:]
    nid = {}
    nodes = {}
    C = _Cells(lambda s_, c: stor_raw[s_][c] if c < len(stor_raw[s_]) else None)

    def ref(x):
        if x[0] == "node":
            n = x[1]
            if n not in nid:
                nid[n] = len(nid)
                me = nid[n]
                nodes[me] = None
                lock, ents = nodes_raw[n]
                e2 = [[k, ref(v)] for k, v in ents]
                nodes[me] = [lock == "t", e2]
            return ["node", nid[n]]
        return C.leaf(x[1], list(x[2]))
    rr = [ref(x) for x in regs]
    return outs, {"regs": rr, "nodes": [nodes[i] for i in range(len(nodes))], "stor": C.stor()}


def outs_agree(real, model):
    """real: list of 'ok' / exception class names; model: list of 'ok' / ['raised', kind]"""
    if len(real) != len(model):
        return False
    for a, b in zip(real, model):
        if b == "ok":
            if a != "ok":
                return False
        else:
            if a == "ok" or a not in ERR_CLASSES.get(b[1], set()):
                return False
    return True


# =============================================================================================== program generation
PROG_LAYOUTS = ["contiguous", "offset", "strided", "transposed", "expanded", "zerofeat", "zerobatch", "mixed"]


def gen_program(rng, n_hist, force=None):
    """returns (list of instruction JSON, Interp after execution).  Instructions are generated against the live real
    state (keys, batch sizes), executed at once; the program stops at the first instruction that raises."""
    torch = T()["torch"]
    layout = rng.choice(PROG_LAYOUTS)
    bs = rng.choice([[3], [2, 3], [2, 1, 3], [4, 2], [2], [1]])
    if layout == "zerobatch":
        bs = [0] + bs[1:]
    zf = layout == "zerofeat"
    it = Interp()
    prog = []

    def lay():
        return RF.leaf_layout(layout, rng)

    def emit(ins):
        out = it.run(ins)
        if out != "skip":
            prog.append(ins)
        return out

    seedc = [0]

    def newt(shape):
        seedc[0] += 1
        emit({"i": "newt", "shape": list(shape), "layout": lay(), "seed": seedc[0]})
        return len(it.regs) - 1

    def fresh(shape):
        seedc[0] += 1
        emit({"i": "newt", "shape": list(shape), "layout": rng.choice(["contiguous", "contiguous", "offset", "strided"]), "seed": 20 + seedc[0]})
        return len(it.regs) - 1

    nested = rng.random() < 0.75
    dev = rng.choice([None, "cpu"])     # a tensordict with a device takes other code paths (_clone_recurse ...)
    buffered = rng.random() < 0.5 and layout != "zerobatch"
    sib = {}                            # leaf register -> register of a disjoint view of the same buffer (its sibling row)

    def leaf(shape):
        if not buffered:
            return newt(shape)
        # the entry is row 0 of a pre-allocated buffer, row 1 is kept as a handle: values that alias the entry's storage
        buf = newt([2] + list(shape))
        emit({"i": "view", "r": buf, "how": ["index", 0]})
        l0 = len(it.regs) - 1
        emit({"i": "view", "r": buf, "how": ["index", 1]})
        sib[l0] = len(it.regs) - 1
        return l0

    a = leaf(bs)
    b = leaf(bs + ([0] if zf else [2]))
    if nested:
        c = leaf(bs + [3])
        d = leaf(bs)
        emit({"i": "newtd", "ents": [["d", d]], "bs": bs, "device": dev})
        m = len(it.regs) - 1
        emit({"i": "newtd", "ents": [["c", c], ["m", m]], "bs": bs, "device": dev})
        n = len(it.regs) - 1
        ents = [["a", a], ["b", b], ["n", n]]
        rng.shuffle(ents)
        emit({"i": "newtd", "ents": ents, "bs": bs, "device": dev})
    else:
        emit({"i": "newtd", "ents": [["a", a], ["b", b]], "bs": bs, "device": dev})
    root = len(it.regs) - 1
    leaf_reg = {("a",): a, ("b",): b}
    if nested:
        leaf_reg.update({("n", "c"): c, ("n", "m", "d"): d})
    if rng.random() < 0.15:
        emit({"i": "lock", "r": root, "b": True})

    TD = T()["TD"]

    def node_regs():
        return [i for i, x in enumerate(it.regs) if isinstance(x, TD)]

    def leaf_paths(r):
        return RF.leafpaths(it.regs[r])

    def all_paths(r):
        return [tuple(k.split("/")) for k in RF.keyset(it.regs[r])]

    def src_like(r, paths, shape_of=None, alias=False):
        """a fresh source tensordict with the given leaf paths (nested nodes built bottom-up); returns its register"""
        tree = {}
        for p in paths:
            cur = tree
            for k in p[:-1]:
                cur = cur.setdefault(k, {})
            cur[p[-1]] = p

        def build(t, sbs):
            ents = []
            for k, v in t.items():
                if isinstance(v, dict):
                    ents.append([k, build(v, sbs)])
                else:
                    shp = shape_of(v) if shape_of else list(it.regs[r].get(v).shape)
                    lr = leaf_reg.get(tuple(v)) if (alias and r == root and not shape_of) else None
                    if lr is not None and lr in sib and it.regs[lr] is it.regs[r].get(tuple(v)):
                        ents.append([k, sib[lr]])      # the sibling row of the destination's own buffer
                    else:
                        ents.append([k, fresh(shp)])
            if rng.random() < 0.5:
                ents = ents[::-1]
            # same device as the fixture: a value of another device is cast by _validate_value (a new node object; C01's subject)
            emit({"i": "newtd", "ents": ents, "bs": sbs, "device": dev})
            return len(it.regs) - 1
        sbs = it.bs(r) if shape_of is None else shape_of(None)
        return build(tree, sbs)

    def emit_cindex(r, bsr):
        """an index of the C03 grammar; whether the model instruction is the sharing one (view) or the copying one (gather) is
        decided by what TORCH does with this index on a plain tensor of the batch shape"""
        idx, leaf_idx, descs, single = RF.c03_index(bsr, rng)
        proxy = torch.arange(max(it.nb(r), 1)).reshape(bsr) if it.nb(r) else torch.zeros(bsr)
        try:
            res = proxy[idx]
        except Exception:  # noqa: BLE001
            return None                # torch rejects the index for the batch shape: C03's subject
        if proxy.numel() == 0 or res.numel() == 0:
            return None                # nothing to alias
        shares = res.untyped_storage().data_ptr() == proxy.untyped_storage().data_ptr()
        return emit({"i": "view" if shares else "gather", "r": r, "how": ["cindex", descs, single]})

    def gen_idx(r, adv):
        idx, basic = RF.gen_index(it.bs(r), rng, adv=adv)
        return index_json(idx), basic

    def one(kind=None):
        nr = node_regs()
        r = rng.choice(nr[-3:] + [root, root]) if nr else root
        tdr = it.regs[r]
        lp = leaf_paths(r)
        ap = all_paths(r)
        kinds = ["unary_", "unary_", "binary_", "zero_", "fill_", "set_", "set_", "update_", "update_", "set_at_", "update_at_",
                 "setitem-scalar", "set", "set", "update", "del", "lock", "view", "view", "view", "select", "exclude", "shallow",
                 "flatten-keys", "clone", "gather", "unary", "binary", "contiguous", "get", "set_missing", "cindex", "cindex"]
        k = kind or rng.choice(kinds)
        bsr = it.bs(r)
        if k in ("unary_", "unary", "zero_") and not lp:
            return None     # torch._foreach_* refuses an empty tensor list: not tensordict's decision
        if k in ("unary_", "unary"):
            f = rng.choice([["neg"], ["abs"], ["addc", rng.choice([1, -2, 3])], ["mulc", rng.choice([2, -1, 3])]])
            via = rng.choice(["method", "method", "apply"] + (["aug"] if f[0] in ("addc", "mulc") else [])) if k == "unary_" \
                else rng.choice(["method", "apply" if f[0] in PF_REAL else "op"])
            return emit({"i": k, "r": r, "f": f, "via": via})
        if k in ("binary_", "binary"):
            if not lp:
                return None
            o = src_like(r, lp)
            return emit({"i": k, "r": r, "f": rng.choice(["add", "sub", "mul", "max", "min"]), "o": o})
        if k == "zero_":
            return emit({"i": "zero_", "r": r})
        if k == "fill_":
            if not ap:
                return None
            return emit({"i": "fill_", "r": r, "p": list(rng.choice(ap)), "z": rng.choice([7, -9, 0])})
        def alias_reg(p):
            """a register whose tensor aliases the storage of the entry at p of the ROOT fixture: its sibling row or the entry itself"""
            lr = leaf_reg.get(tuple(p))
            if r != root or lr is None or it.regs[lr] is not tdr.get(tuple(p)):
                return None
            return rng.choice([sib[lr], sib[lr], lr]) if lr in sib else lr

        if k == "set_":
            if not lp:
                return None
            p = rng.choice(lp)
            v = alias_reg(p) if rng.random() < 0.5 else None
            if v is None:
                v = fresh(list(tdr.get(p).shape))
            return emit({"i": "set_", "r": r, "p": list(p), "v": v})
        if k == "set_missing":
            # in-place write to a key that does not exist (possibly below a missing node)
            p = rng.choice([("zz",), ("n", "zz"), ("qq", "zz"), ("a", "zz")])
            v = fresh(bsr + [2])
            return emit({"i": rng.choice(["set_", "set_", "set"]), "r": r, "p": list(p), "v": v, "inplace": "best"})
        if k == "set":
            mode = rng.choice(["false", "false", "best"])
            if lp and rng.random() < 0.6:
                p = rng.choice(lp)
                v = alias_reg(p) if (mode == "best" and rng.random() < 0.5) else None
                if v is None:
                    v = fresh(list(tdr.get(p).shape))
            else:
                p = rng.choice([("z",), ("n", "z"), ("q", "w")])
                v = fresh(bsr + [2])
            return emit({"i": "set", "r": r, "p": list(p), "v": v, "inplace": mode, "via": rng.choice(["set", "setitem"])})
        if k in ("update_", "update"):
            if not lp:
                return None
            sel = sorted(rng.sample(lp, rng.randint(1, len(lp))))
            if k == "update" and rng.random() < 0.4:
                sel = sel + [rng.choice([("z2",), ("n", "z2")])]
                o = src_like(r, sel, shape_of=None if False else (lambda p: (bsr if p is None else (list(tdr.get(p).shape) if p in lp else bsr + [2]))))
            else:
                o = src_like(r, sel, alias=rng.random() < 0.5)
            if k == "update_":
                return emit({"i": "update_", "r": r, "o": o, "via": rng.choice(["update_", "copy_"])})
            return emit({"i": "update", "r": r, "o": o, "clone": rng.random() < 0.3, "inplace": rng.random() < 0.4})
        if k in ("set_at_", "update_at_", "setitem-scalar"):
            if not bsr or not lp:
                return None
            idxj, basic = gen_idx(r, adv=rng.random() < 0.4)
            try:
                ish = list(torch.zeros(bsr)[build_index(idxj)].shape)
            except Exception:  # noqa: BLE001
                return None
            nbr = len(bsr)
            if k == "set_at_":
                p = rng.choice(lp)
                v = fresh(ish + list(tdr.get(p).shape[nbr:]))
                return emit({"i": "set_at_", "r": r, "p": list(p), "v": v, "idx": idxj})
            if k == "update_at_":
                sel = sorted(rng.sample(lp, rng.randint(1, len(lp))))
                o = src_like(r, sel, shape_of=lambda p: (ish if p is None else ish + list(tdr.get(p).shape[nbr:])))
                return emit({"i": "update_at_", "r": r, "o": o, "idx": idxj, "via": rng.choice(["update_at_", "copy_at_", "setitem"])})
            if rng.random() < 0.3:
                nbv = it.nb(r)
                mask = [rng.random() < 0.5 for _ in range(nbv)]
                mask = torch.tensor(mask, dtype=torch.bool).reshape(bsr).tolist()
                return emit({"i": "setitem-scalar", "r": r, "z": rng.choice([5, -6]), "via": "masked_fill_", "mask": mask})
            return emit({"i": "setitem-scalar", "r": r, "z": rng.choice([5, -6]), "idx": idxj})
        if k == "del":
            if not ap:
                return None
            return emit({"i": "del", "r": r, "p": list(rng.choice(ap)), "via": rng.choice(["del_", "pop"])})
        if k == "lock":
            return None     # the lock graph is C05's subject: programs lock the root at construction only
        if k == "get":
            if not ap:
                return None
            return emit({"i": "get", "r": r, "p": list(rng.choice(ap))})
        if k == "cindex":
            return emit_cindex(r, bsr) if bsr else None
        if k in ("view", "gather"):
            if not bsr:
                return None
            if k == "gather" and rng.random() < 0.5:
                return emit_cindex(r, bsr)
            if k == "gather":
                if rng.random() < 0.3:
                    nbv = it.nb(r)
                    mask = torch.tensor([rng.random() < 0.5 for _ in range(nbv)], dtype=torch.bool).reshape(bsr).tolist()
                    return emit({"i": "gather", "r": r, "how": ["masked_select", mask]})
                idxj, basic = gen_idx(r, adv=True)
                if basic:
                    return None
                return emit({"i": "gather", "r": r, "how": ["index", idxj]})
            nbv = it.nb(r)
            choice = rng.choice(["index", "cindex", "cindex", "permute", "transpose", "squeeze", "unsqueeze", "expand", "view", "unflatten",
                                 "unbind", "split", "chunk"])
            if choice == "cindex":
                return emit_cindex(r, bsr)
            d = rng.randrange(len(bsr))
            if choice == "index":
                idxj, basic = gen_idx(r, adv=False)
                how = ["index", idxj]
            elif choice == "permute":
                dims = list(range(len(bsr)))
                rng.shuffle(dims)
                how = ["permute", dims]
            elif choice == "transpose":
                how = ["transpose", d, rng.randrange(len(bsr))]
            elif choice == "squeeze":
                how = ["squeeze", rng.choice([None, d])]
                if how[1] is None and all(s == 1 for s in bsr):
                    return None   # D5 (C02): squeeze() on an all-singleton batch raises
            elif choice == "unsqueeze":
                how = ["unsqueeze", rng.randrange(-len(bsr) - 1, len(bsr) + 1)]
            elif choice == "expand":
                how = ["expand", [2] + bsr]
            elif choice == "view":
                how = ["view", rng.choice([[nbv], [1, nbv], bsr + [1]])]
            elif choice == "unflatten":
                how = ["unflatten", d, [1, bsr[d]]]
            elif choice == "unbind":
                if bsr[d] == 0:
                    return None
                how = ["unbind", d, rng.randrange(bsr[d])]
            elif choice == "split":
                if bsr[d] == 0:
                    return None
                sz = rng.randint(1, bsr[d])
                how = ["split", sz, d, rng.randrange((bsr[d] + sz - 1) // sz)]
            else:
                if bsr[d] == 0:
                    return None
                cnum = rng.randint(1, 3)
                npieces = len(torch.zeros(bsr).chunk(cnum, d))
                how = ["chunk", cnum, d, rng.randrange(npieces)]
            return emit({"i": "view", "r": r, "how": how})
        if k in ("select", "exclude"):
            top = list(tdr.keys())
            if not top:
                return None
            ks = rng.sample(top, rng.randint(1, len(top)))
            if k == "exclude" and rng.random() < 0.3:
                ks = ks + ["nokey"]
            return emit({"i": k, "r": r, "ks": ks})
        if k == "shallow":
            return emit({"i": "shallow", "r": r, "via": rng.choice(["copy", "clone"])})
        if k == "flatten-keys":
            return emit({"i": "flatten-keys", "r": r, "sep": rng.choice([".", "_"])})
        if k == "clone":
            return emit({"i": "clone", "r": r, "via": rng.choice(["clone", "to_tensordict"])})
        if k == "contiguous":
            return emit({"i": "contiguous", "r": r})
        return None

    for _ in range(n_hist):
        if it.outs and it.outs[-1] != "ok":
            break
        one()
    if not (it.outs and it.outs[-1] != "ok"):
        one(force)
    return prog, it


def replay_program(prog):
    it = Interp()
    for ins in prog:
        out = it.run(ins)
        if out not in ("ok", "skip"):
            break
    return it


def has_overlap_write(prog, it):
    """an in-place instruction reached a view with internal overlap (expanded entry): torch's behaviour there is
    kernel-specific (some kernels refuse, some warn) and is excluded from the correspondence"""
    return any(ins.get("layout") == "expanded" or (ins["i"] == "view" and ins["how"][0] == "expand") for ins in prog)


def model_line(it):
    return sx([Sym("run"), it.lines])


# =============================================================================================== streams
def reflect_cases(rng, reps, max_hist):
    hist_ops = [o.name for o in RF.OPS if o.cls in ("inplace", "struct", "view") and o.name not in RF.UNARY_INEXACT]
    cases = []
    for kind in RF.KINDS:
        layouts = RF.LAYOUTS if kind not in ("memmap", "shared") else ["contiguous", "zerobatch", "strided"]
        for layout in layouts:
            for o in RF.OPS:
                for rep in range(reps):
                    bs = rng.choice([[2, 3], [3], [2, 1, 3], [4, 2]])
                    half = o.name in ("ceil_", "floor_", "round_", "trunc_", "frac_")
                    nh = 0 if rep == 0 else rng.randint(1, max_hist)
                    hist = [[rng.choice(hist_ops), rng.randrange(10 ** 6)] for _ in range(nh)]
                    cases.append({"fx": {"kind": kind, "layout": layout, "bs": bs, "v": rng.randrange(1000), "half": half},
                                  "hist": hist, "op": o.name, "v": rng.randrange(10 ** 6)})
    return cases


class _CaseTimeout(BaseException):
    """raised by SIGALRM inside a worker: BaseException so that no `except Exception` of the code under test swallows it"""


def _alarm(signum, frame):
    raise _CaseTimeout()


def _guard_worker():
    """a runaway case (endless loop, runaway allocation) must become an observation, never a dead worker"""
    import resource
    import signal
    import warnings
    warnings.filterwarnings("ignore")
    T()["torch"].set_num_threads(1)
    try:
        resource.setrlimit(resource.RLIMIT_AS, (12 << 30, 12 << 30))
    except Exception:  # noqa: BLE001
        pass
    signal.signal(signal.SIGALRM, _alarm)
    return signal


def _reflect_worker(chunk):
    signal = _guard_worker()
    out = []
    for case in chunk:
        signal.alarm(20)
        try:
            r = RF.run_case(case)
        except _CaseTimeout:
            r = {"status": "timeout", "fails": [], "cls": "?", "desc": None, "method": "?", "obs": {}}
        except MemoryError:
            r = {"status": "memory", "fails": [], "cls": "?", "desc": None, "method": "?", "obs": {}}
        except Exception as e:  # noqa: BLE001
            r = {"status": "harness-error:" + type(e).__name__ + ":" + str(e)[:200], "fails": [], "cls": "?", "desc": None, "method": "?", "obs": {}}
        finally:
            signal.alarm(0)
        out.append({"status": r["status"], "fails": r["fails"], "cls": r["cls"], "desc": r.get("desc"), "method": r.get("method"),
                    "obs": r.get("obs", {})})
    return out


def pmap(fn, items, procs=14, chunk=60):
    """fork pool that survives a dying worker: chunks whose worker died are re-run in this process"""
    import concurrent.futures as cf
    import multiprocessing as mp
    chunks = [items[i:i + chunk] for i in range(0, len(items), chunk)]
    if len(chunks) <= 1:
        return [y for c in chunks for y in fn(c)]
    res = [None] * len(chunks)
    try:
        with cf.ProcessPoolExecutor(max_workers=min(procs, len(chunks)), mp_context=mp.get_context("fork")) as ex:
            futs = {ex.submit(fn, c): i for i, c in enumerate(chunks)}
            for f in cf.as_completed(futs):
                try:
                    res[futs[f]] = f.result()
                except Exception:  # noqa: BLE001  (BrokenProcessPool and friends)
                    pass
    except Exception:  # noqa: BLE001
        pass
    for i, c in enumerate(chunks):
        if res[i] is None:
            res[i] = fn(c)
    return [y for c in res for y in c]


def _program_worker(jobs):
    signal = _guard_worker()
    out = []
    for (seed, nh, force) in jobs:
        rng = random.Random(seed)
        signal.alarm(20)
        try:
            prog, it = gen_program(rng, nh, force)
            out.append({"seed": seed, "prog": prog, "line": model_line(it), "outs": it.outs, "dump": it.dump(),
                        "expanded": has_overlap_write(prog, it)})
        except (_CaseTimeout, MemoryError) as e:
            out.append({"seed": seed, "error": type(e).__name__})
        except Exception as e:  # noqa: BLE001
            out.append({"seed": seed, "error": type(e).__name__ + ":" + str(e)[:300]})
        finally:
            signal.alarm(0)
    return out


MODEL_TO_DOC = {   # model instruction -> (documented public operations it stands for, class by documentation)
    "set_": "inplace", "update_": "inplace", "set_at_": "inplace", "update_at_": "inplace", "setitem-scalar": "inplace",
    "fill_": "inplace", "const_": "inplace", "unary_": "inplace", "binary_": "inplace",
    "view": "view", "select": "view", "exclude": "view", "shallow": "view", "flatten-keys": "view",
    "clone": "copy", "gather": "copy", "unary": "copy", "binary": "copy", "contiguous": "rule",
}
SAMPLE_INSTR = {
    "set_": '(set_ 0 ("a") 1)', "update_": "(update_ 0 1)", "set_at_": '(set_at_ 0 ("a") 1 2 (0))', "update_at_": "(update_at_ 0 1 2 (0))",
    "setitem-scalar": "(setitem-scalar 0 1 2 (0))", "fill_": '(fill_ 0 ("a") 1)', "const_": "(const_ 0 0)", "unary_": "(unary_ 0 neg)",
    "binary_": "(binary_ 0 add 1)", "view": "(view 0 2 (0) f)", "select": '(select 0 ("a"))', "exclude": '(exclude 0 ("a"))',
    "shallow": "(shallow 0)", "flatten-keys": '(flatten-keys 0 ".")', "clone": "(clone 0)", "gather": "(gather 0 2 (0))",
    "unary": "(unary 0 neg t f)", "binary": "(binary 0 add 1)", "contiguous": "(contiguous 0)",
}


def main(R):
    import warnings
    warnings.filterwarnings("ignore")
    torch = T()["torch"]
    torch.set_num_threads(1)
    R.rule = ("reflection: every classified public operation (%d call templates over %d public methods) x 7 container kinds (regular, nested, "
              "lazy stack, _SubTensorDict with int/slice/tuple/list/mask windows, tensorclass, memory-mapped, shared) x 8 entry layouts "
              "(contiguous, offset, strided, transposed, expanded, 0-size feature, 0-size batch, mixed) x preceding histories of 0..k random "
              "in-place/structure/view calls; programs: register-machine programs of fixture construction + history + operation run on "
              "real objects and on the extracted model; x-programs (harness/c07_ext.py): the same for _SubTensorDict windows (basic and "
              "advanced), lazy stacks (stack dim 0..2, 2-3 members) and memmap_/share_memory_ conversions, with the sentinel conclusions "
              "of the window / stack theorems evaluated on the implementation. distinct by (kind, layout, op, args, history); non-trivial = the call ran (did "
              "not raise before touching anything) and at least one non-empty tensor was involved" % (len(RF.OPS), len({o.method for o in RF.OPS})))
    R.assumptions = ["which cells a torch kernel writes / which index map a torch view op produces is torch's behaviour (trusted); the harness "
                     "reads index maps from shape/stride/storage_offset and contents from the flat storage view",
                     "leaves hold distinct small integers (float64); transcendental in-place ops are compared with the same torch kernel "
                     "on a clone with rtol 1e-6",
                     "an in-place kernel refusing an expanded (self-overlapping) entry is torch's rule, not a violation"]
    R.trusted = ["classification table method -> {in-place, view, copy, rule, structure, pure} transcribed by hand from the docstrings "
                 "(harness/c07_reflect.py OPS); the model's class of each instruction is compared with it on every run",
                 "harness/c07_reflect.py memory observation (untyped_storage().data_ptr(), as_strided index maps, bit-exact snapshots)"]
    R.step_prove()
    ok = R.step_driver()
    quick = R.quick
    # ------------------------------------------------------------------ (1) reflection stream, oracle only
    cases = reflect_cases(R.rng, reps=2 if quick else 8, max_hist=3 if quick else 10)
    res = pmap(_reflect_worker, cases)
    covered = set()
    for case, r in zip(cases, res):
        st = r["status"]
        ran = st.startswith("ok")
        key = json.dumps(case, sort_keys=True)
        R.case(key, nontrivial=ran, sample={"case": case, "class": r["cls"], "status": st} if len(R.samples) < 3 and ran and case["hist"] else None)
        R.count("reflect:%s:%s" % (r["cls"], st.split(":")[0].split("+")[0]))
        R.count("kind:" + case["fx"]["kind"])
        R.count("layout:" + case["fx"]["layout"])
        R.count("history-length:%d" % len(case["hist"]))
        if st.startswith("harness-error"):
            R.broken.append("reflection harness error on %s: %s" % (key[:200], st))
        if st in ("timeout", "memory"):
            R.count("reflect:runaway-case:" + st)
            R.extra.setdefault("runaway_cases", []).append(case)
        if ran:
            covered.add(r["method"])
            if isinstance(r.get("desc"), dict) and isinstance(r["desc"].get("m"), str):
                covered.add(r["desc"]["m"].split("(")[0])
            R.traces += 1
        if "+" in st:
            R.count("reflect:check-incomplete:" + st.split("+")[1].split(":")[0])
        for (label, detail, sig) in r["fails"]:
            R.oracle_fail(label, {"stream": "reflect", "case": case}, detail, sig)
        if r["cls"] == "inplace" and st.startswith("raised") and not r["obs"].get("legit_reject"):
            R.count("inplace-rejected-without-overlap:" + case["op"])
    R.extra["public_methods_exercised"] = sorted(covered)
    R.extra["public_methods_skipped_with_reason"] = {k: v for k, v in RF.SKIPPED.items()}
    public = sorted(n for n in dir(T()["TD"]) if not n.startswith("_") or (n.startswith("__") and n.endswith("__")))
    skipped = {m for v in RF.SKIPPED.values() for m in v}
    R.extra["public_names"] = len(public)
    R.extra["public_names_not_classified"] = [n for n in public if n not in covered and n not in skipped]
    # ------------------------------------------------------------------ (2) programs: model vs implementation
    if ok:
        # the model's classification against the documentation-derived one
        lines = [sx([Sym("class"), Sym("@")]).replace("@", SAMPLE_INSTR[k]) for k in sorted(MODEL_TO_DOC)]
        got = R.model(lines)
        for k, g in zip(sorted(MODEL_TO_DOC), got):
            if g != MODEL_TO_DOC[k]:
                R.mismatch("classification-table", {"instruction": k}, MODEL_TO_DOC[k], g)
        nprog = 2500 if quick else 40000
        jobs = []
        forced = [None, None, None] + ["unary_", "binary_", "set_", "update_", "set_at_", "update_at_", "setitem-scalar", "fill_", "zero_",
                                       "set", "update", "view", "gather", "select", "exclude", "shallow", "flatten-keys", "clone", "unary",
                                       "binary", "contiguous", "set_missing", "del", "cindex", "cindex", "set_", "update_"]
        for j in range(nprog):
            jobs.append((R.rng.randrange(10 ** 9), R.rng.randint(0, 4 if quick else 10), forced[j % len(forced)]))
        pres = pmap(_program_worker, jobs, chunk=40)
        good = [p for p in pres if "error" not in p]
        for p in pres:
            if "error" in p:
                R.broken.append("program generator error (seed %d): %s" % (p["seed"], p["error"]))
        mres = R.model([p["line"] for p in good])
        for p, mr in zip(good, mres):
            last = p["prog"][-1]["i"] if p["prog"] else "?"
            R.case(("prog", p["seed"]), nontrivial=p["outs"][-1] == "ok", sample=None)
            R.count("program:last:" + last + (":ok" if p["outs"][-1] == "ok" else ":raised"))
            R.count("program:length:%d" % min(len(p["prog"]), 20))
            if not (isinstance(mr, list) and len(mr) == 2 and isinstance(mr[0], list) and mr[0] and mr[0][0] == "outs"):
                R.mismatch("program:model-rejected", {"stream": "program", "seed": p["seed"], "prog": p["prog"]}, p["outs"], mr)
                continue
            mouts, mdump = canon_dump_model(mr)
            R.traces += 1
            if p["expanded"] and (not outs_agree(p["outs"], mouts) or mdump != p["dump"]):
                R.count("program:expanded-entry-kernel-specific")   # torch's overlap handling is kernel specific; not compared
                continue
            if not outs_agree(p["outs"], mouts):
                R.mismatch("program:outcome", {"stream": "program", "seed": p["seed"], "prog": p["prog"]}, p["outs"], mouts)
            elif p["outs"][-1] == "ok" and mdump != p["dump"]:
                R.mismatch("program:heap", {"stream": "program", "seed": p["seed"], "prog": p["prog"]}, _diff(p["dump"], mdump), "see implementation column")
            elif p["outs"][-1] != "ok" and [n[1] for n in mdump["nodes"]] != [n[1] for n in p["dump"]["nodes"]] and False:
                pass
            # the theorems' conclusions, evaluated on the implementation's side of the trace (independent of the model):
            # D75: set_ below a missing node adds keys
            if last == "set_" and p["outs"][-1] == "ok":
                _check_set_keys(R, p)
        # -------------------------------------------------------------- (3) windows, lazy stacks, conversions: model vs implementation
        from . import c07_ext as X
        X.run_stream(R, 1000 if quick else 16000)
    if len(R.samples) < 6:
        R.samples.append({"note": "programs are replayable from their seed: see harness/c07.py gen_program"})


def _check_set_keys(R, p):
    """set_ is documented to need an existing key: after a successful set_ the key set must be what it was"""
    prog = p["prog"]
    it = replay_program(prog[:-1])
    last = prog[-1]
    before = RF.keyset(it.regs[last["r"]])
    it.run(last)
    after = RF.keyset(it.regs[last["r"]])
    if before != after:
        parent_missing = len(last["p"]) > 1 and "/".join(last["p"][:-1]) not in before
        R.oracle_fail("inplace:key-set-changed", {"stream": "program", "prog": prog},
                      {"before": before, "after": after},
                      {"op": "set_", "method": "set_", "check": "inplace:key-set-changed", "missing_intermediate_node": parent_missing})


def _diff(a, b):
    out = {}
    for k in ("regs", "nodes", "stor"):
        if a[k] != b[k]:
            for i, (x, y) in enumerate(zip(a[k], b[k])):
                if x != y:
                    out[k] = {"index": i, "implementation": x, "model": y}
                    break
            else:
                out[k] = {"implementation_len": len(a[k]), "model_len": len(b[k])}
    return out


def replay(body):
    import warnings
    warnings.filterwarnings("ignore")
    if body.get("kind") == "no-failing-input-found":
        rc = 0
        for u in body.get("no_longer_checks", []):
            if "case" in u and isinstance(u["case"], dict) and "prog" in u["case"]:
                print("correspondence no longer checks:", u.get("correspondence"))
                rc |= replay({"case": u["case"], "check": u.get("correspondence"), "signature": None})
            else:
                print("no longer shown:", json.dumps(u, default=str)[:1500])
        return rc
    case = body["case"]
    print("check:", body.get("check"), " signature:", json.dumps(body.get("signature")))
    if case.get("stream") == "reflect" or "fx" in case:
        c = case.get("case", case)
        print("case:", json.dumps(c))
        r = RF.run_case(c)
        print("implementation: status =", r["status"], " class =", r["cls"], " call =", json.dumps(r["desc"], default=str))
        print("oracle:", "FAILS " + json.dumps([(l, d) for (l, d, s) in r["fails"]], default=str) if r["fails"] else "holds")
        print("model: (the reflection stream is judged by the oracle only; kinds covered by the model are exercised by the program stream)")
        return 0
    if case.get("stream") == "xprogram":
        from . import c07_ext as X
        return X.replay_x(case)
    prog = case["prog"]
    it = replay_program(prog)
    print("program:")
    for ins, o in zip(prog, it.outs):
        print("   ", json.dumps(ins), "->", o)
    from .core import run_model, build_driver
    build_driver("C07")
    mr = run_model("C07", [model_line(it)])[0]
    mouts, mdump = canon_dump_model(mr)
    print("implementation outcomes:", it.outs)
    print("model outcomes:         ", mouts)
    d = it.dump()
    print("heaps agree:", d == mdump)
    if d != mdump:
        print(json.dumps(_diff(d, mdump), default=str)[:3000])
    if prog and prog[-1]["i"] == "set_":
        it2 = replay_program(prog[:-1])
        b = RF.keyset(it2.regs[prog[-1]["r"]])
        it2.run(prog[-1])
        a = RF.keyset(it2.regs[prog[-1]["r"]])
        print("oracle (set_ keeps the key set):", "holds" if a == b else "FAILS %s -> %s" % (b, a))
    return 0
