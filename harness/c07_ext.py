"""C07 — correspondence streams for the container kinds of coq/Model/C07_Ext.v: _SubTensorDict windows (basic and advanced),
lazy stacks, memmap_ / share_memory_ conversions.

Programs = fixture construction (instructions of the regular machine, harness/c07.py) + creation of the window / the stack /
the conversion + a short history + the operation under test, run on the real objects AND on the extracted model (`xrun`).
Compared: per-instruction outcomes and the final heap reachable from every handle the caller holds (the regular registers,
the source of every window, the members of every stack): storage classes, index maps, contents, key order, lock flags.
Independent of the model, the sentinel conclusions of the new theorems are evaluated on the implementation's side:
 * a write through a BASIC window is seen in the source at exactly the window's cells and nowhere else;
 * an in-place operation through a stack keeps every member entry bound to the same storage / index map;
 * lazy.get(leaf key) shares no storage with any member.
Indices are described to the model by (number of batch positions, selected flat positions, torch-answers-with-a-view),
measured with torch on an arange proxy of the batch shape — never by tensordict's own index code."""
import json
import random
import shutil
import tempfile

from .core import Sym, sx, some
from . import c07 as C
from . import c07_reflect as RF

T = RF.T

X_PREFIX = ("sub-", "lazy-")
X_NAMES = ("mksub", "mklazy", "memmap_", "share_memory_")


def is_x(k):
    return k.startswith(X_PREFIX) or k in X_NAMES


class XInterp(C.Interp):
    def __init__(self):
        super().__init__()
        self.subs = []
        self.lazies = []
        self.tmp = []
        self.has_x = False

    def close(self):
        for d in self.tmp:
            shutil.rmtree(d, ignore_errors=True)
        self.tmp = []

    # ---- index abstraction, measured with torch on a proxy
    def win_of(self, bs, idxj):
        torch = T()["torch"]
        n = 1
        for s in bs:
            n *= s
        proxy = torch.arange(n).reshape(bs)
        idx = C.build_index(idxj)
        res = proxy[idx]
        basic = bool(res.numel() == 0 or res.untyped_storage().data_ptr() == proxy.untyped_storage().data_ptr())
        return [n, res.reshape(-1).tolist(), basic]

    def lazy_sels(self, L):
        torch = T()["torch"]
        bs = list(L.batch_size)
        n = 1
        for s in bs:
            n *= s
        proxy = torch.arange(n).reshape(bs)
        return n, [p.reshape(-1).tolist() for p in proxy.unbind(L.stack_dim)]

    def lazy_parts(self, L, idxj):
        """for lazy[idx] = value: per touched member (in the order of the value's positions) the member-level positions and the
        value-level positions, by unravelling the stack positions torch selects on a proxy; `whole` = the member-level index
        is empty (read off _split_index: it only chooses between member.update(inplace=True) and member[idx] = piece)"""
        torch = T()["torch"]
        bs = list(L.batch_size)
        sd = L.stack_dim
        n = 1
        for s in bs:
            n *= s
        proxy = torch.arange(n).reshape(bs)
        idx = C.build_index(idxj)
        sel = proxy[idx].reshape(-1).tolist()
        mbs = bs[:sd] + bs[sd + 1:]
        mnb = 1
        for s in mbs:
            mnb *= s
        per = {}
        order = []
        for rank, P in enumerate(sel):
            coords = []
            rem = P
            for s in reversed(bs):
                coords.append(rem % s)
                rem //= s
            coords = coords[::-1]
            j = coords[sd]
            mc = coords[:sd] + coords[sd + 1:]
            q = 0
            for c, s in zip(mc, mbs):
                q = q * s + c
            if j not in per:
                per[j] = ([], [])
                order.append(j)
            per[j][0].append(q)
            per[j][1].append(rank)
        try:
            si = L._split_index(idx)
            cd = si["index_dict"]
            if isinstance(cd, dict):
                whole = {int(k): (v == ()) for k, v in cd.items()}
            else:
                whole = {}

                def walk(x):
                    for it_ in x:
                        if isinstance(it_, list):
                            walk(it_)
                        else:
                            whole[int(it_[0])] = (it_[1] == ())
                walk(cd)
            direct = bool(si.get("isinteger"))
        except Exception:  # noqa: BLE001
            whole, direct = {}, False
        parts = []
        for j in order:
            qs, ranks = per[j]
            parts.append([j, bool(whole.get(j, False)), mnb, qs, Sym("none") if direct else some(ranks)])
        return len(sel), parts

    # ---- execution
    def xrun(self, ins):
        k = ins["i"]
        if not is_x(k):
            return self.run(ins)
        self.has_x = True
        torch = T()["torch"]
        TD = T()["TD"]
        R = self.regs
        line = None
        push = push_sub = push_lazy = None
        try:
            if k == "mksub":
                src = R[ins["r"]]
                w = self.win_of(list(src.batch_size), ins["idx"])
                line = [Sym("mksub"), ins["r"], w]
                push_sub = src._get_sub_tensordict(C.build_index(ins["idx"]))
            elif k == "sub-get":
                line = [Sym("sub-get"), ins["s"], list(ins["p"])]
                push = self.subs[ins["s"]].get(tuple(ins["p"]))
            elif k == "sub-set_":
                line = [Sym("sub-set_"), ins["s"], list(ins["p"]), ins["v"]]
                self.subs[ins["s"]].set_(tuple(ins["p"]), R[ins["v"]])
            elif k == "sub-update_":
                line = [Sym("sub-update_"), ins["s"], ins["o"]]
                getattr(self.subs[ins["s"]], ins.get("via", "update_"))(R[ins["o"]])
            elif k == "sub-set_at_":
                s = self.subs[ins["s"]]
                w2 = self.win_of(list(s.batch_size), ins["idx"])
                w2[2] = True
                line = [Sym("sub-set_at_"), ins["s"], list(ins["p"]), ins["v"], w2]
                s.set_at_(tuple(ins["p"]), R[ins["v"]], C.build_index(ins["idx"]))
            elif k == "sub-fill_":
                line = [Sym("sub-fill_"), ins["s"], list(ins["p"]), int(ins["z"])]
                self.subs[ins["s"]].fill_(tuple(ins["p"]), float(ins["z"]))
            elif k == "sub-zero_":
                line = [Sym("sub-const_"), ins["s"], 0]
                self.subs[ins["s"]].zero_()
            elif k == "sub-unary_":
                f = ins["f"]
                line = [Sym("sub-unary_"), ins["s"], C.pf_sx(f)]
                _unary_inplace(self.subs[ins["s"]], f, ins.get("via", "method"))
            elif k == "sub-binary_":
                line = [Sym("sub-binary_"), ins["s"], Sym(ins["f"]), ins["o"]]
                m = {"add": "add_", "sub": "sub_", "mul": "mul_", "max": "maximum_", "min": "minimum_"}[ins["f"]]
                getattr(self.subs[ins["s"]], m)(R[ins["o"]])
            elif k == "sub-clone":
                line = [Sym("sub-clone"), ins["s"]]
                s = self.subs[ins["s"]]
                push = s.clone() if ins.get("via") != "to_tensordict" else s.to_tensordict()
            elif k == "sub-shallow":
                line = [Sym("sub-shallow"), ins["s"]]
                push_sub = self.subs[ins["s"]].clone(False)
            elif k == "sub-select":
                line = [Sym("sub-select"), ins["s"], list(ins["ks"])]
                push = self.subs[ins["s"]].select(*ins["ks"])
            elif k == "sub-exclude":
                line = [Sym("sub-exclude"), ins["s"], list(ins["ks"])]
                push = self.subs[ins["s"]].exclude(*ins["ks"])
            elif k == "sub-unary":
                f = ins["f"]
                line = [Sym("sub-unary"), ins["s"], C.pf_sx(f)]
                push = _unary_oop(self.subs[ins["s"]], f)
            elif k == "mklazy":
                ms = [R[i] for i in ins["ms"]]
                L = T()["lazy_stack"](ms, ins["dim"])
                nb, sels = self.lazy_sels(L)
                line = [Sym("mklazy"), list(ins["ms"]), nb, sels]
                push_lazy = L
            elif k == "lazy-member":
                line = [Sym("lazy-member"), ins["l"], ins["j"]]
                push = self.lazies[ins["l"]].tensordicts[ins["j"]]
            elif k == "lazy-get":
                line = [Sym("lazy-get"), ins["l"], list(ins["p"])]
                g = self.lazies[ins["l"]].get(tuple(ins["p"]))
                if isinstance(g, torch.Tensor):
                    push = g
                else:
                    push_lazy = g
            elif k == "lazy-set_":
                line = [Sym("lazy-set_"), ins["l"], list(ins["p"]), ins["v"]]
                self.lazies[ins["l"]].set_(tuple(ins["p"]), R[ins["v"]])
            elif k == "lazy-update_":
                line = [Sym("lazy-update_"), ins["l"], ins["o"]]
                getattr(self.lazies[ins["l"]], ins.get("via", "update_"))(R[ins["o"]])
            elif k == "lazy-setitem":
                L = self.lazies[ins["l"]]
                vnb, parts = self.lazy_parts(L, ins["idx"])
                line = [Sym("lazy-setitem"), ins["l"], ins["o"], vnb, parts]
                L[C.build_index(ins["idx"])] = R[ins["o"]]
            elif k == "lazy-fill_":
                line = [Sym("lazy-fill_"), ins["l"], list(ins["p"]), int(ins["z"])]
                self.lazies[ins["l"]].fill_(tuple(ins["p"]), float(ins["z"]))
            elif k == "lazy-zero_":
                line = [Sym("lazy-const_"), ins["l"], 0]
                self.lazies[ins["l"]].zero_()
            elif k == "lazy-unary_":
                f = ins["f"]
                line = [Sym("lazy-unary_"), ins["l"], C.pf_sx(f)]
                _unary_inplace(self.lazies[ins["l"]], f, ins.get("via", "method"))
            elif k == "lazy-clone":
                line = [Sym("lazy-clone"), ins["l"]]
                push_lazy = self.lazies[ins["l"]].clone()
            elif k == "lazy-dense":
                via = ins.get("via", "contiguous")
                line = [Sym("lazy-dense"), ins["l"], via == "to_tensordict"]
                push = getattr(self.lazies[ins["l"]], via)()
            elif k == "lazy-narrow":
                L = self.lazies[ins["l"]]
                sd, how = L.stack_dim, ins["how"]
                if how[0] == "slice":
                    P = L[(slice(None),) * sd + (slice(how[1], how[2]),)]
                elif how[0] == "split":
                    P = L.split(how[1], sd)[how[2]]
                else:
                    P = L.chunk(how[1], sd)[how[2]]
                if not isinstance(P, T()["Lazy"]):
                    raise TypeError("expected a LazyStackedTensorDict, got %s" % type(P).__name__)
                ids = [id(m) for m in L.tensordicts]
                js = [ids.index(id(m)) if id(m) in ids else len(ids) for m in P.tensordicts]   # a member that is a new object: no such index
                nb, sels = self.lazy_sels(P)
                line = [Sym("lazy-narrow"), ins["l"], js, nb, sels]
                push_lazy = P
            elif k == "lazy-flatten-keys":
                line = [Sym("lazy-flatten-keys"), ins["l"], ins["sep"]]
                push_lazy = self.lazies[ins["l"]].flatten_keys(ins["sep"])
            elif k == "memmap_":
                line = [Sym("memmap_"), ins["r"]]
                d = tempfile.mkdtemp(prefix="c07x-")
                self.tmp.append(d)
                R[ins["r"]].memmap_(d)
            elif k == "share_memory_":
                line = [Sym("share_memory_"), ins["r"]]
                R[ins["r"]].share_memory_()
            else:
                raise ValueError(k)
            out = "ok"
        except Exception as e:  # noqa: BLE001
            out = type(e).__name__
            if line is None:
                raise
        self.lines.append(line)
        self.outs.append(out)
        if out == "ok":
            if push is not None:
                self.regs.append(push)
            if push_sub is not None:
                if not isinstance(push_sub, T()["Sub"]):
                    raise TypeError("expected a _SubTensorDict, got %s" % type(push_sub).__name__)
                self.subs.append(push_sub)
            if push_lazy is not None:
                if not isinstance(push_lazy, T()["Lazy"]):
                    raise TypeError("expected a LazyStackedTensorDict, got %s" % type(push_lazy).__name__)
                self.lazies.append(push_lazy)
        return out

    def handles(self):
        return list(self.regs) + [s._source for s in self.subs] + [m for L in self.lazies for m in L.tensordicts]

    def dump(self):
        return C.canon_dump_real(self.handles())


def _unary_inplace(td, f, via):
    if f[0] in C.PF_REAL:
        C.PF_REAL[f[0]][0](td)
    elif f[0] == "addc":
        if via == "aug":
            td += float(f[1])
        else:
            td.add_(float(f[1]))
    elif f[0] == "mulc":
        if via == "aug":
            td *= float(f[1])
        else:
            td.mul_(float(f[1]))


def _unary_oop(td, f):
    if f[0] in C.PF_REAL:
        return C.PF_REAL[f[0]][1](td)
    if f[0] == "addc":
        return td.add(float(f[1]))
    return td.mul(float(f[1]))


def xmodel_line(it):
    return sx([Sym("xrun"), it.lines])


# =============================================================================================== generation
X_LAYOUTS = ["contiguous", "offset", "strided", "transposed", "mixed", "zerofeat"]
SUB_OPS = ["sub-get", "sub-get", "sub-set_", "sub-set_", "sub-update_", "sub-update_", "sub-set_at_", "sub-fill_", "sub-zero_",
           "sub-unary_", "sub-unary_", "sub-binary_", "sub-clone", "sub-shallow", "sub-select", "sub-exclude", "sub-unary",
           "sub-set_missing", "base"]
LAZY_OPS = ["lazy-member", "lazy-get", "lazy-get", "lazy-set_", "lazy-set_", "lazy-update_", "lazy-update_", "lazy-setitem",
            "lazy-setitem", "lazy-fill_", "lazy-zero_", "lazy-unary_", "lazy-unary_", "lazy-clone", "lazy-flatten-keys",
            "lazy-set_missing", "lazy-dense", "lazy-dense", "lazy-narrow", "lazy-narrow", "base"]
CONV_OPS = ["unary_", "binary_", "set_", "update_", "set_at_", "setitem-scalar", "fill_", "zero_", "view", "gather", "select",
            "exclude", "shallow", "flatten-keys", "clone", "unary", "contiguous", "set", "del"]


class _Gen:
    def __init__(self, rng, kind):
        self.rng, self.kind = rng, kind
        self.it = XInterp()
        self.prog = []
        self.seedc = 0
        self.layout = rng.choice(X_LAYOUTS)
        self.dev = rng.choice([None, "cpu"])

    def emit(self, ins):
        out = self.it.xrun(ins)
        if out != "skip":
            self.prog.append(ins)
        return out

    def newt(self, shape, layout=None):
        self.seedc += 1
        # no expanded (self-overlapping) entries: which in-place kernels refuse them is torch's business (kernel specific)
        lay = layout or (self.rng.choice(["contiguous", "offset", "strided", "transposed"]) if self.layout == "mixed"
                         else RF.leaf_layout(self.layout, self.rng))
        self.emit({"i": "newt", "shape": list(shape), "layout": lay, "seed": self.seedc})
        return len(self.it.regs) - 1

    def fresh(self, shape):
        return self.newt(shape, self.rng.choice(["contiguous", "contiguous", "offset", "strided"]))

    def tree(self, bs, nested, order=None):
        """{a: bs, b: bs+[2], n: {c: bs+[3], m: {d: bs}}}; returns the root register"""
        zf = self.layout == "zerofeat"
        a = self.newt(bs)
        b = self.newt(bs + ([0] if zf else [2]))
        ents = [["a", a], ["b", b]]
        if nested:
            c = self.newt(bs + [3])
            d = self.newt(bs)
            self.emit({"i": "newtd", "ents": [["d", d]], "bs": bs, "device": self.dev})
            m = len(self.it.regs) - 1
            self.emit({"i": "newtd", "ents": [["c", c], ["m", m]], "bs": bs, "device": self.dev})
            ents.append(["n", len(self.it.regs) - 1])
        if order is None:
            self.rng.shuffle(ents)
            order = [e[0] for e in ents]
        ents = sorted(ents, key=lambda e: order.index(e[0]))
        self.emit({"i": "newtd", "ents": ents, "bs": bs, "device": self.dev})
        return len(self.it.regs) - 1, order

    def src_td(self, paths, shape_of, bs):
        """a fresh tensordict with the given leaf paths (nested nodes bottom-up); returns its register"""
        tree = {}
        for p in paths:
            cur = tree
            for k in p[:-1]:
                cur = cur.setdefault(k, {})
            cur[p[-1]] = p

        def build(t):
            ents = []
            for k, v in t.items():
                ents.append([k, build(v) if isinstance(v, dict) else self.fresh(shape_of(v))])
            if self.rng.random() < 0.5:
                ents = ents[::-1]
            self.emit({"i": "newtd", "ents": ents, "bs": list(bs), "device": self.dev})
            return len(self.it.regs) - 1
        return build(tree)

    def idx_for(self, bs, adv):
        idx, basic = RF.gen_index(bs, self.rng, adv=adv)
        if not adv and isinstance(idx, tuple) and any(i is None for i in idx):
            idx = tuple(i for i in idx if i is not None) or slice(None)
        return C.index_json(idx)

    def unary_f(self):
        rng = self.rng
        return rng.choice([["neg"], ["abs"], ["addc", rng.choice([1, -2, 3])], ["mulc", rng.choice([2, -1, 3])]])


def _shape_after(bs, idxj):
    torch = T()["torch"]
    return list(torch.zeros(bs)[C.build_index(idxj)].shape)


def gen_sub(rng, n_hist, force=None):
    g = _Gen(rng, "sub")
    it = g.it
    bs = rng.choice([[3], [4], [3, 2], [2, 3], [4, 2]])
    nested = rng.random() < 0.75
    root, _ = g.tree(bs, nested)
    td = it.regs[root]
    for _ in range(8):
        idxj = g.idx_for(bs, adv=rng.random() < 0.45)
        try:
            ish = _shape_after(bs, idxj)
        except Exception:  # noqa: BLE001
            continue
        # a window that is the whole source (only full slices) is answered with the source itself by get(): not a window
        if ish != bs or not it.win_of(bs, idxj)[2]:
            break
    else:
        idxj = C.index_json(slice(1, None))
    if g.emit({"i": "mksub", "r": root, "idx": idxj}) != "ok":
        return g.prog, it
    # handles on the source the caller keeps
    for p in RF.leafpaths(td):
        if rng.random() < 0.5:
            g.emit({"i": "get", "r": root, "p": list(p)})

    def one(kind=None):
        si = rng.randrange(len(it.subs))
        s = it.subs[si]
        src = s._source
        sbs = list(s.batch_size)
        nbd = len(src.batch_size)
        lp = RF.leafpaths(src)
        k = kind or rng.choice(SUB_OPS)
        if k == "base":
            kk = rng.choice(["unary_", "zero_", "view", "clone"])
            if kk in ("unary_",):
                return g.emit({"i": "unary_", "r": root, "f": g.unary_f(), "via": "method"})
            if kk == "zero_":
                return g.emit({"i": "zero_", "r": root})
            if kk == "view":
                return g.emit({"i": "view", "r": root, "how": ["index", g.idx_for(bs, adv=False)]})
            return g.emit({"i": "clone", "r": root})
        if k == "sub-get":
            ap = [tuple(x.split("/")) for x in RF.keyset(src)]
            return g.emit({"i": "sub-get", "s": si, "p": list(rng.choice(ap))})
        if k == "sub-set_":
            p = rng.choice(lp)
            v = g.fresh(sbs + list(src.get(p).shape[nbd:]))
            return g.emit({"i": "sub-set_", "s": si, "p": list(p), "v": v})
        if k == "sub-set_missing":
            p = rng.choice([("zz",), ("n", "zz"), ("qq", "zz")])
            v = g.fresh(sbs + [2])
            return g.emit({"i": "sub-set_", "s": si, "p": list(p), "v": v})
        if k == "sub-update_":
            sel = sorted(rng.sample(lp, rng.randint(1, len(lp))))
            o = g.src_td(sel, lambda p: sbs + list(src.get(p).shape[nbd:]), sbs)
            return g.emit({"i": "sub-update_", "s": si, "o": o, "via": rng.choice(["update_", "copy_"])})
        if k == "sub-set_at_":
            if not sbs:
                return None
            idx2 = g.idx_for(sbs, adv=rng.random() < 0.3)
            try:
                ish = _shape_after(sbs, idx2)
            except Exception:  # noqa: BLE001
                return None
            p = rng.choice(lp)
            v = g.fresh(ish + list(src.get(p).shape[nbd:]))
            return g.emit({"i": "sub-set_at_", "s": si, "p": list(p), "v": v, "idx": idx2})
        if k == "sub-fill_":
            ap = [tuple(x.split("/")) for x in RF.keyset(src)]
            return g.emit({"i": "sub-fill_", "s": si, "p": list(rng.choice(ap)), "z": rng.choice([7, -9, 0])})
        if k == "sub-zero_":
            return g.emit({"i": "sub-zero_", "s": si})
        if k == "sub-unary_":
            f = g.unary_f()
            return g.emit({"i": "sub-unary_", "s": si, "f": f, "via": rng.choice(["method", "aug"] if f[0] in ("addc", "mulc") else ["method"])})
        if k == "sub-binary_":
            o = g.src_td(lp, lambda p: sbs + list(src.get(p).shape[nbd:]), sbs)
            return g.emit({"i": "sub-binary_", "s": si, "f": rng.choice(["add", "sub", "mul", "max", "min"]), "o": o})
        if k == "sub-clone":
            return g.emit({"i": "sub-clone", "s": si, "via": rng.choice(["clone", "to_tensordict"])})
        if k == "sub-shallow":
            return g.emit({"i": "sub-shallow", "s": si})
        if k in ("sub-select", "sub-exclude"):
            top = list(src.keys())
            ks = rng.sample(top, rng.randint(1, len(top)))
            return g.emit({"i": k, "s": si, "ks": ks})
        if k == "sub-unary":
            return g.emit({"i": "sub-unary", "s": si, "f": g.unary_f()})
        return None

    for _ in range(n_hist):
        if it.outs and it.outs[-1] != "ok":
            break
        one()
    if not (it.outs and it.outs[-1] != "ok"):
        one(force)
    return g.prog, it


def gen_lazy(rng, n_hist, force=None):
    g = _Gen(rng, "lazy")
    it = g.it
    mbs = rng.choice([[3], [2], [2, 3], [3, 2], []])
    nm = rng.choice([1, 1, 2, 2, 3])     # member counts 1..3 (one member: nothing to stack, still a fresh tensor on every read)
    sd = rng.randrange(len(mbs) + 1)
    nested = rng.random() < 0.75
    ms = []
    order = None
    for _ in range(nm):
        r, order = g.tree(mbs, nested, order if rng.random() < 0.7 else None)
        ms.append(r)
    if g.emit({"i": "mklazy", "ms": ms, "dim": sd}) != "ok":
        return g.prog, it
    for m in ms:
        for p in RF.leafpaths(it.regs[m]):
            if rng.random() < 0.3:
                g.emit({"i": "get", "r": m, "p": list(p)})

    def one(kind=None):
        li = rng.randrange(len(it.lazies))
        L = it.lazies[li]
        lbs = list(L.batch_size)
        m0 = L.tensordicts[0]
        nbd = len(m0.batch_size)
        lp = RF.leafpaths(m0)
        k = kind or rng.choice(LAZY_OPS)
        if k == "base":
            m = rng.choice(ms)
            kk = rng.choice(["unary_", "zero_", "clone"])
            if kk == "unary_":
                return g.emit({"i": "unary_", "r": m, "f": g.unary_f(), "via": "method"})
            if kk == "zero_":
                return g.emit({"i": "zero_", "r": m})
            return g.emit({"i": "clone", "r": m})
        if k == "lazy-member":
            return g.emit({"i": "lazy-member", "l": li, "j": rng.randrange(len(L.tensordicts))})
        if k == "lazy-get":
            ap = [tuple(x.split("/")) for x in RF.keyset(m0)]
            return g.emit({"i": "lazy-get", "l": li, "p": list(rng.choice(ap))})
        if k == "lazy-set_":
            p = rng.choice(lp)
            v = g.fresh(lbs + list(m0.get(p).shape[nbd:]))
            return g.emit({"i": "lazy-set_", "l": li, "p": list(p), "v": v})
        if k == "lazy-set_missing":
            p = rng.choice([("zz",), ("n", "zz"), ("qq", "zz")])
            v = g.fresh(lbs + [2])
            return g.emit({"i": "lazy-set_", "l": li, "p": list(p), "v": v})
        if k == "lazy-update_":
            sel = sorted(rng.sample(lp, rng.randint(1, len(lp))))
            o = g.src_td(sel, lambda p: lbs + list(m0.get(p).shape[nbd:]), lbs)
            return g.emit({"i": "lazy-update_", "l": li, "o": o, "via": rng.choice(["update_", "copy_"])})
        if k == "lazy-setitem":
            # an index on the stack dim (int / slice / integer tensor: the branch repaired for D23) and basic items elsewhere
            torch = T()["torch"]
            items = []
            for d, s in enumerate(lbs[:rng.randint(L.stack_dim + 1, len(lbs))]):
                if d == L.stack_dim:
                    c = rng.choice(["int", "slice", "tensor", "list", "full"])
                    if c == "int":
                        items.append(rng.randrange(s))
                    elif c == "slice":
                        items.append(rng.choice([slice(0, 1), slice(1, None), slice(None, None, 2)]))
                    elif c == "full":
                        items.append(slice(None))
                    elif c == "tensor":
                        items.append(torch.tensor(rng.sample(range(s), rng.randint(1, s)), dtype=torch.int64))
                    else:
                        items.append(rng.sample(range(s), rng.randint(1, s)))
                else:
                    c = rng.choice(["int", "slice", "full"])
                    items.append(rng.randrange(s) if c == "int" else (slice(None) if c == "full" else rng.choice([slice(0, 1), slice(1, None)])))
            idx = tuple(items)
            if len(idx) == 1 and rng.random() < 0.6:
                idx = idx[0]
            idxj = C.index_json(idx)
            try:
                ish = _shape_after(lbs, idxj)
            except Exception:  # noqa: BLE001
                return None
            if 0 in ish:
                return None
            sel = sorted(rng.sample(lp, rng.randint(1, len(lp))))
            o = g.src_td(sel, lambda p: ish + list(m0.get(p).shape[nbd:]), ish)
            return g.emit({"i": "lazy-setitem", "l": li, "o": o, "idx": idxj})
        if k == "lazy-fill_":
            ap = [tuple(x.split("/")) for x in RF.keyset(m0)]
            return g.emit({"i": "lazy-fill_", "l": li, "p": list(rng.choice(ap)), "z": rng.choice([7, -9, 0])})
        if k == "lazy-zero_":
            return g.emit({"i": "lazy-zero_", "l": li})
        if k == "lazy-unary_":
            f = g.unary_f()
            return g.emit({"i": "lazy-unary_", "l": li, "f": f, "via": rng.choice(["method", "aug"] if f[0] in ("addc", "mulc") else ["method"])})
        if k == "lazy-clone":
            return g.emit({"i": "lazy-clone", "l": li})
        if k == "lazy-flatten-keys":
            return g.emit({"i": "lazy-flatten-keys", "l": li, "sep": rng.choice([".", "_"])})
        if k == "lazy-dense":
            return g.emit({"i": "lazy-dense", "l": li, "via": rng.choice(["contiguous", "contiguous", "to_tensordict", "densify"])})
        if k == "lazy-narrow":
            n = len(L.tensordicts)
            c = rng.choice(["slice", "slice", "split", "chunk"])
            if c == "slice":
                a = rng.randrange(n)
                how = ["slice", a, rng.choice([a + 1, a + 1, n])]
            elif c == "split":
                sz = rng.randint(1, n)
                how = ["split", sz, rng.randrange((n + sz - 1) // sz)]
            else:
                cn = rng.randint(1, n)
                how = ["chunk", cn, rng.randrange(len(T()["torch"].zeros(n).chunk(cn)))]
            return g.emit({"i": "lazy-narrow", "l": li, "how": how})
        return None

    for _ in range(n_hist):
        if it.outs and it.outs[-1] != "ok":
            break
        one()
    if not (it.outs and it.outs[-1] != "ok"):
        one(force)
    return g.prog, it


def gen_conv(rng, n_hist, force=None):
    """fixture -> handles -> memmap_ / share_memory_ -> operations of the regular machine on the converted tree"""
    g = _Gen(rng, "conv")
    it = g.it
    bs = rng.choice([[3], [2, 3], [4, 2], [2]])
    root, _ = g.tree(bs, rng.random() < 0.75)
    td = it.regs[root]
    for p in RF.leafpaths(td):
        if rng.random() < 0.6:
            g.emit({"i": "get", "r": root, "p": list(p)})
    conv = rng.choice(["memmap_", "share_memory_"])
    if g.emit({"i": conv, "r": root}) != "ok":
        return g.prog, it

    def one(kind=None):
        k = kind or rng.choice(CONV_OPS)
        lp = RF.leafpaths(td)
        if k in ("unary_", "unary"):
            return g.emit({"i": k, "r": root, "f": g.unary_f(), "via": "method"})
        if k == "binary_":
            o = g.src_td(lp, lambda p: list(td.get(p).shape), bs)
            return g.emit({"i": k, "r": root, "f": rng.choice(["add", "sub", "mul"]), "o": o})
        if k == "zero_":
            return g.emit({"i": "zero_", "r": root})
        if k == "fill_":
            return g.emit({"i": "fill_", "r": root, "p": list(rng.choice(lp)), "z": rng.choice([7, -9])})
        if k in ("set_", "set"):
            p = rng.choice(lp)
            v = g.fresh(list(td.get(p).shape))
            if k == "set_":
                return g.emit({"i": "set_", "r": root, "p": list(p), "v": v})
            return g.emit({"i": "set", "r": root, "p": list(p) if rng.random() < 0.5 else ["znew"], "v": v,
                           "inplace": rng.choice(["false", "best"]), "via": "set"})
        if k == "update_":
            sel = sorted(rng.sample(lp, rng.randint(1, len(lp))))
            o = g.src_td(sel, lambda p: list(td.get(p).shape), bs)
            return g.emit({"i": "update_", "r": root, "o": o, "via": rng.choice(["update_", "copy_"])})
        if k in ("set_at_", "setitem-scalar"):
            idxj = g.idx_for(bs, adv=rng.random() < 0.3)
            try:
                ish = _shape_after(bs, idxj)
            except Exception:  # noqa: BLE001
                return None
            if k == "set_at_":
                p = rng.choice(lp)
                v = g.fresh(ish + list(td.get(p).shape[len(bs):]))
                return g.emit({"i": "set_at_", "r": root, "p": list(p), "v": v, "idx": idxj})
            return g.emit({"i": "setitem-scalar", "r": root, "z": rng.choice([5, -6]), "idx": idxj})
        if k == "view":
            return g.emit({"i": "view", "r": root, "how": ["index", g.idx_for(bs, adv=False)]})
        if k == "gather":
            idxj = g.idx_for(bs, adv=True)
            w = it.win_of(bs, idxj)
            if w[2]:
                return None
            return g.emit({"i": "gather", "r": root, "how": ["index", idxj]})
        if k in ("select", "exclude"):
            top = list(td.keys())
            return g.emit({"i": k, "r": root, "ks": rng.sample(top, rng.randint(1, len(top)))})
        if k == "shallow":
            return g.emit({"i": "shallow", "r": root, "via": rng.choice(["copy", "clone"])})
        if k == "flatten-keys":
            return g.emit({"i": "flatten-keys", "r": root, "sep": "."})
        if k == "clone":
            return g.emit({"i": "clone", "r": root, "via": rng.choice(["clone", "to_tensordict"])})
        if k == "contiguous":
            return g.emit({"i": "contiguous", "r": root})
        if k == "del":
            return g.emit({"i": "del", "r": root, "p": list(rng.choice(lp)), "via": "del_"})
        return None

    for _ in range(n_hist):
        if it.outs and it.outs[-1] != "ok":
            break
        one()
    if not (it.outs and it.outs[-1] != "ok"):
        one(force)
    return g.prog, it


GENS = {"sub": gen_sub, "lazy": gen_lazy, "conv": gen_conv}
FORCED = {"sub": [None] + [k for k in sorted(set(SUB_OPS)) if k != "base"],
          "lazy": [None] + [k for k in sorted(set(LAZY_OPS)) if k != "base"],
          "conv": [None] + sorted(set(CONV_OPS))}


def xreplay_program(prog):
    it = XInterp()
    for ins in prog:
        out = it.xrun(ins)
        if out not in ("ok", "skip"):
            break
    return it


# =============================================================================================== sentinel oracles (no model)
def _snapshot(handles):
    """{storage ptr: flat content} of every tensor reachable from the handles + per-leaf binding (ptr, cells)"""
    torch = T()["torch"]
    flats = {}
    binds = []
    TDc = T()["TD"]

    def walk(x, pre):
        if isinstance(x, torch.Tensor):
            p = RF.sptr(x)
            if p is not None and p not in flats:
                flats[p] = RF.flat(x)
            binds.append((pre, p, RF.cells(x) if p is not None else []))
        elif isinstance(x, TDc):
            for k2, v in x._tensordict.items():
                walk(v, pre + (k2,))
    for i, x in enumerate(handles):
        walk(x, ("#%d" % i,))
    return flats, binds


def oracle_last(prog):
    """re-executes the program, stops before the last instruction, and evaluates on the implementation what the theorems state.
    Returns a list of (label, detail, signature)."""
    torch = T()["torch"]
    fails = []
    if not prog or not is_x(prog[-1]["i"]):
        return fails
    last = prog[-1]
    k = last["i"]
    it = xreplay_program(prog[:-1])
    try:
        if it.outs and it.outs[-1] != "ok":
            return fails
        handles = it.handles()
        flats, binds = _snapshot(handles)
        before = {p: f.clone() for p, f in flats.items()}
        if k in ("sub-set_", "sub-update_", "sub-fill_", "sub-zero_", "sub-unary_", "sub-binary_", "sub-set_at_"):
            s = it.subs[last["s"]]
            src = s._source
            w = it.win_of(list(src.batch_size), _sub_idx_json(prog, last["s"]))
            # expected new content of the window of every source leaf, computed with torch on clones
            exp = {}
            for p in RF.leafpaths(src):
                leaf = src.get(p)
                exp[p] = (leaf, leaf[s.idx].clone())
            out = it.xrun(last)
            if out != "ok":
                return fails
            allowed = {}
            for p, (leaf, _) in exp.items():
                sp = RF.sptr(leaf)
                if sp is None:
                    continue
                cs = RF.cells(leaf)
                nbp = w[0]
                f = len(cs) // nbp if nbp else 0
                for b in w[1]:
                    allowed.setdefault(sp, set()).update(cs[b * f:(b + 1) * f])
            # frame: nothing outside the window's cells changed, in any storage the caller can reach
            for p_, f_ in flats.items():
                diff = (RF.bits(f_) != RF.bits(before[p_])).nonzero().reshape(-1).tolist()
                bad = [c for c in diff if c not in allowed.get(p_, set())]
                if bad:
                    fails.append(("sub-window:wrote-outside-window", {"cells": bad[:8], "op": k},
                                  {"kind": "sub", "check": "sub-window:wrote-outside-window", "op": k}))
            # the write is seen in the source (basic windows: the theorem; advanced windows: D70 for the _values_list family)
            family = k in ("sub-zero_", "sub-unary_", "sub-binary_") or (k == "sub-fill_" and not isinstance(src.get(tuple(last["p"])), torch.Tensor))
            if k in ("sub-zero_", "sub-fill_"):
                z = 0.0 if k == "sub-zero_" else float(last["z"])
                paths = RF.leafpaths(src) if k == "sub-zero_" else [p for p in RF.leafpaths(src) if tuple(p[:len(last["p"])]) == tuple(last["p"])]
                for p in paths:
                    got = src.get(p)[s.idx]
                    if got.numel() and not bool((got == z).all()):
                        fails.append(("inplace:existing-tensor-does-not-hold-new-value", {"op": k, "key": list(p)},
                                      {"kind": "sub", "sub_index_advanced": not w[2], "values_list_family": bool(family),
                                       "check": "inplace:existing-tensor-does-not-hold-new-value"}))
                        break
            if k == "sub-unary_":
                f = last["f"]
                fn = {"neg": lambda t: -t, "abs": lambda t: t.abs(), "addc": lambda t: t + float(f[1]), "mulc": lambda t: t * float(f[1])}[f[0]]
                for p, (leaf, old) in exp.items():
                    if old.numel() and not torch.equal(leaf[s.idx], fn(old)):
                        fails.append(("inplace:existing-tensor-does-not-hold-new-value", {"op": k, "key": list(p)},
                                      {"kind": "sub", "sub_index_advanced": not w[2], "values_list_family": True,
                                       "check": "inplace:existing-tensor-does-not-hold-new-value"}))
                        break
            if k == "sub-set_":
                got = src.get(tuple(last["p"]))[s.idx]
                want = it.regs[last["v"]]
                if got.shape == want.shape and not torch.equal(got, want):
                    fails.append(("inplace:existing-tensor-does-not-hold-new-value", {"op": k},
                                  {"kind": "sub", "sub_index_advanced": not w[2], "values_list_family": False,
                                   "check": "inplace:existing-tensor-does-not-hold-new-value"}))
        elif k in ("lazy-set_", "lazy-update_", "lazy-setitem", "lazy-fill_", "lazy-zero_", "lazy-unary_"):
            L = it.lazies[last["l"]]
            members = list(L.tensordicts)
            b0 = [RF.binding(m) for m in members]
            keys0 = [RF.keyset(m) for m in members]
            out = it.xrun(last)
            if out != "ok":
                return fails
            if [id(m) for m in L.tensordicts] != [id(m) for m in members]:
                fails.append(("inplace:member-replaced", {"op": k}, {"kind": "lazy", "check": "inplace:member-replaced", "op": k}))
            for m, b, ks in zip(members, b0, keys0):
                if RF.binding(m) != b or RF.keyset(m) != ks:
                    fails.append(("inplace:storage-rebound", {"op": k}, {"kind": "lazy", "check": "inplace:storage-rebound", "op": k}))
                    break
            if k in ("lazy-zero_", "lazy-fill_"):
                z = 0.0 if k == "lazy-zero_" else float(last["z"])
                for m in members:
                    for p, v in RF.existing(m):
                        if k == "lazy-fill_" and tuple(p[:len(last["p"])]) != tuple(last["p"]):
                            continue
                        if v.numel() and not bool((v == z).all()):
                            fails.append(("inplace:existing-tensor-does-not-hold-new-value", {"op": k, "key": list(p)},
                                          {"kind": "lazy", "check": "inplace:existing-tensor-does-not-hold-new-value", "op": k}))
                            return fails
        elif k in ("lazy-get", "lazy-dense", "lazy-clone"):
            # copy class on a stack (get of a leaf, contiguous / to_tensordict / densify, clone), ANY number of members: the result
            # lives in no storage the caller can reach, and a sentinel written on either side is not seen on the other
            L = it.lazies[last["l"]]
            nmem = len(L.tensordicts)
            nl0 = len(it.lazies)
            out = it.xrun(last)
            if out != "ok":
                return fails
            if k == "lazy-get":
                if len(it.lazies) != nl0:
                    return fails            # a nested key: the stack of the members' own nodes (a view)
                res = [it.regs[-1]]
            elif k == "lazy-dense":
                res = [v for _, v in RF.existing(it.regs[-1])]
            else:
                res = [v for m in it.lazies[-1].tensordicts for _, v in RF.existing(m)]
            res = [r for r in res if isinstance(r, torch.Tensor) and r.numel() > 0]
            sig = {"kind": "lazy", "op": k, "via": last.get("via"), "members": nmem}
            for p_, f_ in flats.items():
                if not torch.equal(RF.bits(f_), RF.bits(before[p_])):
                    fails.append(("out-of-place:wrote-into-held-tensor", {"op": k}, dict(sig, check="out-of-place:wrote-into-held-tensor")))
                    return fails
            if any(RF.sptr(r) in flats for r in res):
                fails.append(("copy:result-shares-memory", {"op": k, "members": nmem}, dict(sig, check="copy:result-shares-memory")))
                return fails
            for f_ in flats.values():
                f_.fill_(RF.S1)
            if any(bool((r == RF.S1).any()) for r in res):
                fails.append(("copy:sentinel-written-through-source-seen", {"op": k, "members": nmem},
                              dict(sig, check="copy:sentinel-written-through-source-seen")))
                return fails
            snap = {p_: f_.clone() for p_, f_ in flats.items()}
            for r in res:
                try:
                    r.detach().fill_(RF.S2)
                except Exception:  # noqa: BLE001
                    pass
            if any(not torch.equal(RF.bits(f_), RF.bits(snap[p_])) for p_, f_ in flats.items()):
                fails.append(("copy:sentinel-written-through-result-reached-held-tensor", {"op": k, "members": nmem},
                              dict(sig, check="copy:sentinel-written-through-result-reached-held-tensor")))
        elif k in ("sub-clone", "sub-unary", "sub-select", "sub-exclude", "sub-get", "sub-shallow", "lazy-flatten-keys", "lazy-narrow"):
            # out-of-place: no storage the caller can reach changes
            out = it.xrun(last)
            if out != "ok":
                return fails
            for p_, f_ in flats.items():
                if not torch.equal(RF.bits(f_), RF.bits(before[p_])):
                    fails.append(("out-of-place:wrote-into-held-tensor", {"op": k}, {"check": "out-of-place:wrote-into-held-tensor", "op": k}))
                    break
            if k in ("sub-clone", "sub-unary"):
                res = it.regs[-1]
                for _, v in RF.existing(res):
                    if RF.sptr(v) is not None and RF.sptr(v) in flats:
                        fails.append(("copy:result-shares-memory", {"op": k}, {"kind": "sub", "check": "copy:result-shares-memory", "op": k}))
                        break
            if k in ("sub-select", "sub-exclude"):
                s = it.subs[last["s"]]
                w = it.win_of(list(s._source.batch_size), _sub_idx_json(prog, last["s"]))
                res = it.regs[-1]
                for _, v in RF.existing(res):
                    sp = RF.sptr(v)
                    if sp is None:
                        continue
                    if w[2] and sp not in flats:
                        fails.append(("view:result-does-not-share", {"op": k}, {"kind": "sub", "check": "view:result-does-not-share", "op": k}))
                        break
    finally:
        it.close()
    return fails


def _sub_idx_json(prog, si):
    """the index of the si-th window created by the program (mksub / sub-shallow keep creation order)"""
    made = []
    for ins in prog:
        if ins["i"] == "mksub":
            made.append(ins["idx"])
        elif ins["i"] == "sub-shallow":
            made.append(made[ins["s"]])
    return made[si]


# =============================================================================================== worker / stream
def _xworker(jobs):
    signal = C._guard_worker()
    out = []
    for (kind, seed, nh, force) in jobs:
        rng = random.Random(seed)
        signal.alarm(30)
        it = None
        try:
            prog, it = GENS[kind](rng, nh, force)
            rec = {"kind": kind, "seed": seed, "prog": prog, "line": xmodel_line(it), "outs": it.outs, "dump": it.dump()}
            rec["fails"] = oracle_last(prog) if it.outs and it.outs[-1] == "ok" else []
            # densify() orders the result's keys its own way (not transcribed): such programs are judged by the oracle only
            rec["oracle_only"] = any(i_["i"] == "lazy-dense" and i_.get("via") == "densify" for i_ in prog)
            out.append(rec)
        except (C._CaseTimeout, MemoryError) as e:
            out.append({"kind": kind, "seed": seed, "error": type(e).__name__})
        except Exception as e:  # noqa: BLE001
            import traceback
            out.append({"kind": kind, "seed": seed, "error": type(e).__name__ + ":" + str(e)[:200] + " @ " + traceback.format_exc()[-300:]})
        finally:
            signal.alarm(0)
            if it is not None:
                it.close()
    return out


XMODEL_TO_DOC = {
    '(mksub 0 (2 (0) t))': "alloc", '(sub-get 0 ("a"))': "view", '(sub-set_ 0 ("a") 1)': "inplace", "(sub-update_ 0 1)": "inplace",
    '(sub-set_at_ 0 ("a") 1 (2 (0) t))': "inplace", '(sub-fill_ 0 ("a") 1)': "inplace", "(sub-const_ 0 0)": "inplace",
    "(sub-unary_ 0 neg)": "inplace", "(sub-binary_ 0 add 1)": "inplace", "(sub-clone 0)": "copy", "(sub-shallow 0)": "view",
    '(sub-select 0 ("a"))': "view", '(sub-exclude 0 ("a"))': "view", "(sub-unary 0 neg)": "copy",
    "(mklazy (0) 1 ((0)))": "alloc", "(lazy-member 0 0)": "alloc", '(lazy-get 0 ("a"))': "copy", '(lazy-set_ 0 ("a") 1)': "inplace",
    "(lazy-update_ 0 1)": "inplace", "(lazy-setitem 0 1 1 ())": "inplace", '(lazy-fill_ 0 ("a") 1)': "inplace",
    "(lazy-const_ 0 0)": "inplace", "(lazy-unary_ 0 neg)": "inplace", "(lazy-clone 0)": "copy", '(lazy-flatten-keys 0 ".")': "view",
    "(lazy-dense 0 f)": "copy", "(lazy-dense 0 t)": "copy", "(lazy-narrow 0 (0) 1 ((0)))": "view",
    "(memmap_ 0)": "conversion", "(share_memory_ 0)": "conversion",
}


def run_stream(R, nprog):
    """called from harness/c07.py main(R) after the driver is built"""
    lines = [sx([Sym("xclass"), Sym("@")]).replace("@", k) for k in sorted(XMODEL_TO_DOC)]
    got = R.model(lines)
    for k, gcls in zip(sorted(XMODEL_TO_DOC), got):
        if gcls != XMODEL_TO_DOC[k]:
            R.mismatch("xclassification-table", {"instruction": k}, XMODEL_TO_DOC[k], gcls)
    jobs = []
    for kind, share in (("sub", 0.45), ("lazy", 0.4), ("conv", 0.15)):
        n = int(nprog * share)
        forced = FORCED[kind]
        for j in range(n):
            jobs.append((kind, R.rng.randrange(10 ** 9), R.rng.randint(0, 3 if R.quick else 8), forced[j % len(forced)]))
    pres = C.pmap(_xworker, jobs, chunk=30)
    good = [p for p in pres if "error" not in p]
    for p in pres:
        if "error" in p:
            R.broken.append("x-program generator error (%s seed %d): %s" % (p["kind"], p["seed"], p["error"]))
    mres = R.model([p["line"] for p in good])
    for p, mr in zip(good, mres):
        last = p["prog"][-1]["i"] if p["prog"] else "?"
        case = {"stream": "xprogram", "kind": p["kind"], "seed": p["seed"], "prog": p["prog"]}
        R.case(("xprog", p["kind"], p["seed"]), nontrivial=p["outs"][-1] == "ok", sample=None)
        R.count("xprogram:%s:last:%s%s" % (p["kind"], last, ":ok" if p["outs"][-1] == "ok" else ":raised"))
        R.count("xprogram:%s:length:%d" % (p["kind"], min(len(p["prog"]), 30)))
        for ins in p["prog"]:
            if ins["i"] == "mksub":
                R.count("xprogram:sub:window:" + ("basic" if _is_basic_json(ins["idx"]) else "advanced"))
            if ins["i"] == "mklazy":
                R.count("xprogram:lazy:stack_dim:%d:members:%d" % (ins["dim"], len(ins["ms"])))
            if ins["i"] == "lazy-narrow":
                R.count("xprogram:lazy:narrow:" + ins["how"][0])
        for (label, detail, sig) in p.get("fails", []):
            R.oracle_fail(label, case, detail, sig)
        if p.get("oracle_only"):
            R.count("xprogram:lazy:densify-oracle-only")
            continue
        if not (isinstance(mr, list) and len(mr) == 2 and isinstance(mr[0], list) and mr[0] and mr[0][0] == "outs"):
            R.mismatch("xprogram:model-rejected", case, p["outs"], mr)
            continue
        mouts, mdump = C.canon_dump_model(mr)
        R.traces += 1
        if p["kind"] == "conv":
            # results derived from a memory-mapped / shared tree inherit that status and are born locked (C05's subject; the
            # model's nodes carry no storage-class flag): lock flags are not compared in this stream
            mdump, p["dump"] = _nolock(mdump), _nolock(p["dump"])
        if not C.outs_agree(p["outs"], mouts):
            R.mismatch("xprogram:outcome", case, p["outs"], mouts)
        elif p["outs"][-1] == "ok" and mdump != p["dump"]:
            R.mismatch("xprogram:heap", case, C._diff(p["dump"], mdump), "see implementation column")


def _nolock(d):
    return {"regs": d["regs"], "stor": d["stor"], "nodes": [[None, n[1]] for n in d["nodes"]]}


def _is_basic_json(idxj):
    def adv(i):
        if isinstance(i, list) and i:
            if i[0] in ("tensor", "list"):
                return True
            if i[0] == "tuple":
                return any(adv(j) for j in i[1])
        return False
    return not adv(idxj)


def replay_x(case):
    prog = case["prog"]
    it = xreplay_program(prog)
    try:
        print("program (%s):" % case.get("kind"))
        for ins, o in zip(prog, it.outs):
            print("   ", json.dumps(ins), "->", o)
        from .core import run_model, build_driver
        build_driver("C07")
        mr = run_model("C07", [xmodel_line(it)])[0]
        mouts, mdump = C.canon_dump_model(mr)
        print("implementation outcomes:", it.outs)
        print("model outcomes:         ", mouts)
        d = it.dump()
        print("heaps agree:", d == mdump)
        if d != mdump:
            print(json.dumps(C._diff(d, mdump), default=str)[:3000])
        fails = oracle_last(prog)
        print("oracle:", "FAILS " + json.dumps([(l, dd) for (l, dd, s) in fails], default=str) if fails else "holds")
    finally:
        it.close()
    return 0
