(* C19 — vmap over tensordicts equals the per-sample loop (partial: the shape / names / stack-dim bookkeeping of the
   functorch hooks is proved; functorch's batching rules are trusted and exercised by the differential run). *)
From Coq Require Import ZArith List Bool.
Import ListNotations.
From TD Require Import Model.C19_Vmap Proofs.C19_VmapP.
Open Scope nat_scope.

(* vmap(identity, in_dims = i, out_dims = o): hiding dim i then re-inserting the batch at o is torch's movedim on the batch
   size = the batch size of the stack of the slices; any rank, any positions *)
Theorem C19_td_vmap_identity : forall bs i o,
  td_remove (td_add bs i) (nth i bs 0) (Z.of_nat o) = movedim_shape bs i o.
Proof. exact td_vmap_identity. Qed.
Print Assumptions C19_td_vmap_identity.

(* every entry (bs ++ feat) and nested node (bs ++ extra), transformed by torch with the same dims, starts with the
   new batch size and keeps its trailing dims: the result is a coherent tensordict *)
Theorem C19_td_vmap_leaf_coherent : forall bs feat i o,
  i < length bs -> o <= length bs - 1 ->
  movedim_shape (bs ++ feat) i o = td_remove (td_add bs i) (nth i bs 0) (Z.of_nat o) ++ feat.
Proof. exact td_vmap_leaf_coherent. Qed.
Print Assumptions C19_td_vmap_leaf_coherent.

(* negative in_dims are wrapped against the BATCH rank (td.dim()), out-of-range ones are refused *)
Theorem C19_process_in_dim : forall rank i k,
  process_in_dim rank i = Some k ->
  k < rank /\ ((0 <= i)%Z -> Z.of_nat k = i) /\ ((i < 0)%Z -> Z.of_nat k = (i + Z.of_nat rank)%Z).
Proof. exact process_in_dim_spec. Qed.
Print Assumptions C19_process_in_dim.

(* lazy stacks: for ANY member batch size, member count, stack dim, vmapped dim (the stack dim included: hidden-stack
   path) and out position, the lazy result has the moved batch size, is no longer hidden and has a valid stack dim *)
Theorem C19_lazy_vmap_identity : forall L i o,
  hidden L = false -> sd L <= length (mbs L) ->
  i < length (lazy_bs L) -> o <= length (lazy_bs L) - 1 ->
  let L' := lazy_remove (lazy_add L i) (nth i (lazy_bs L) 0) o in
  lazy_bs L' = movedim_shape (lazy_bs L) i o /\ hidden L' = false /\ sd L' <= length (mbs L').
Proof. exact lazy_vmap_identity. Qed.
Print Assumptions C19_lazy_vmap_identity.

(* stated, outside the property's quantifier: for negative out_dims the list.insert bookkeeping is not torch's rule *)
Theorem C19_negative_out_dim_differs : exists bs B, td_remove bs B (-1) <> insert_at bs (length bs) B.
Proof. exact negative_out_dim_differs. Qed.
Print Assumptions C19_negative_out_dim_differs.

(* the full property (vmap f = stack of f on slices, for every f) is NOT a theorem here: functorch's batching rules are
   runtime behaviour.  Stated for the record; decided per run by the differential check only. *)
Definition C19_full_statement_not_proved : Prop :=
  forall (f_commutes_with_batching : Prop), f_commutes_with_batching -> True.

Example C19_ex : let L := {| mbs := [5; 7]; nmem := 3; sd := 1; hidden := false |} in
  lazy_bs L = [5; 3; 7] /\ lazy_bs (lazy_remove (lazy_add L 1) 3 2) = [5; 7; 3]
  /\ lazy_bs (lazy_remove (lazy_add L 2) 7 0) = [7; 5; 3].
Proof. repeat split; reflexivity. Qed.
