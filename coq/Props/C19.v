(* C19 — vmap over tensordicts equals the per-sample loop.
   Proved: the shape / names / stack-dim bookkeeping of the functorch hooks; the ELEMENT-level statement "vmap f = stack of f on
   the slices" for every f, rank, in_dim, out_dim in [-(rank+1), rank] and nesting depth 2, with functorch's batching rules made explicit as
   ONE trusted definition (Model.C19_Content.lift: a function applied to batched values runs on every sample); the input /
   output plumbing of the monkey-patched vmap; the memoisation of batched views on locked tensordicts; the hidden-stack-dim
   op classes of lazy stacks (D33 backed by refutations; D190 / D191 / D192 repaired, the model follows).  functorch itself is exercised by the differential run. *)
From Coq Require Import ZArith List Bool Lia.
Import ListNotations.
From TD Require Import Model.C19_Vmap Model.C19_Content Model.C19_Plumb Model.C19_Memo.
From TD Require Import Proofs.C19_VmapP Proofs.C19_ContentP Proofs.C19_PlumbP Proofs.C19_MemoP Proofs.C19_LazyP.
Open Scope nat_scope.

(* vmap(identity, in_dims = i, out_dims = o): hiding dim i then re-inserting the batch at o is torch's movedim on the batch
   size = the batch size of the stack of the slices; any rank, any positions *)
Theorem C19_td_vmap_identity : forall bs i o,
  td_remove (td_add bs i) (nth i bs 0) (Z.of_nat o) = movedim_shape bs i o.
Proof. exact td_vmap_identity. Qed.
Print Assumptions C19_td_vmap_identity.

(* every entry (bs ++ feat) and nested node (bs ++ extra), transformed by torch with the same dims, starts with the
   new batch size and keeps its trailing dims: the result is a coherent tensordict *)
Theorem C19_td_vmap_leaf_coherent : forall bs feat i o,
  i < length bs -> o <= length bs - 1 ->
  movedim_shape (bs ++ feat) i o = td_remove (td_add bs i) (nth i bs 0) (Z.of_nat o) ++ feat.
Proof. exact td_vmap_leaf_coherent. Qed.
Print Assumptions C19_td_vmap_leaf_coherent.

(* negative in_dims are wrapped against the BATCH rank (td.dim()), out-of-range ones are refused *)
Theorem C19_process_in_dim : forall rank i k,
  process_in_dim rank i = Some k ->
  k < rank /\ ((0 <= i)%Z -> Z.of_nat k = i) /\ ((i < 0)%Z -> Z.of_nat k = (i + Z.of_nat rank)%Z).
Proof. exact process_in_dim_spec. Qed.
Print Assumptions C19_process_in_dim.

(* lazy stacks: for ANY member batch size, member count, stack dim, vmapped dim (the stack dim included: hidden-stack
   path) and out position, the lazy result has the moved batch size, is no longer hidden and has a valid stack dim *)
Theorem C19_lazy_vmap_identity : forall L i o,
  hidden L = false -> sd L <= length (mbs L) ->
  i < length (lazy_bs L) -> o <= length (lazy_bs L) - 1 ->
  let L' := lazy_remove (lazy_add L i) (nth i (lazy_bs L) 0) o in
  lazy_bs L' = movedim_shape (lazy_bs L) i o /\ hidden L' = false /\ sd L' <= length (mbs L').
Proof. exact lazy_vmap_identity. Qed.
Print Assumptions C19_lazy_vmap_identity.

(* python's list.insert with a negative position is not torch's rule for a negative dim: why out_dim is wrapped (norm_out_dim /
   torch_wrap) BEFORE the batch size, the names and the leaves use it (repair of D190 / D191, S8) *)
Theorem C19_negative_out_dim_differs : exists bs B, td_remove bs B (-1) <> insert_at bs (length bs) B.
Proof. exact negative_out_dim_differs. Qed.
Print Assumptions C19_negative_out_dim_differs.

(* ================= (a) element level: vmap f = stack of f over the slices ================= *)
(* what the function is shown, sample by sample, is the slice along in_dim *)
Theorem C19_sample_is_slice : forall V (t : tdict V) d j, sample (td_add_c t d) j = slice t d j.
Proof. exact sample_add_is_slice. Qed.
Print Assumptions C19_sample_is_slice.

(* for EVERY per-sample function f, tensordict (any rank, names, schema), in_dim d and EVERY out_dim o that names a position
   p of the result (-(rank+1) <= o <= rank, torch's rule for negative values; repair of D190 / D191): the call is accepted
   (every leaf starts with the new batch size), its batch size is B inserted at p, its names / schema are those of the
   per-sample result (None at p), and EVERY element of every leaf is the element of torch.stack([f(slice_j)], o) *)
Theorem C19_vmap_eq_loop : forall V (f : tdict V -> tdict V) (t : tdict V) d (o : Z) p,
  torch_wrap o (length (bs (f (slice t d 0))) + 1) = Some p ->
  exists R, vmap1 f d o t = Ok R
    /\ bs R = insert_at (bs (f (slice t d 0))) p (nth d (bs t) 0)
    /\ nms R = names_remove (nms (f (slice t d 0))) (Z.of_nat p)
    /\ schema R = schema (f (slice t d 0))
    /\ forall k I, val R k I = stack_val (fun j => f (slice t d j)) p k I.
Proof. exact vmap1_eq_loop. Qed.
Print Assumptions C19_vmap_eq_loop.

(* the same addressed by (sample j, element r of f(slice_j)) *)
Theorem C19_vmap_elements : forall V (f : tdict V -> tdict V) (t : tdict V) d (o : Z) p,
  torch_wrap o (length (bs (f (slice t d 0))) + 1) = Some p ->
  exists R, vmap1 f d o t = Ok R /\
    forall k j r, p <= length r -> val R k (insert_at r p j) = val (f (slice t d j)) k r.
Proof. exact vmap1_elements. Qed.
Print Assumptions C19_vmap_elements.

(* an out_dim that names no position of the result is refused (IndexError), whatever the sizes *)
Theorem C19_out_of_range_out_dim_raises : forall V (f : tdict V -> tdict V) (t : tdict V) d (o : Z),
  torch_wrap o (length (bs (f (slice t d 0))) + 1) = None -> vmap1 f d o t = Raise IndexErr.
Proof. exact out_of_range_out_dim_raises. Qed.
Print Assumptions C19_out_of_range_out_dim_raises.

Example C19_vmap_eq_loop_ex :
  let t := addr_td [2; 3] (Some [Some 0; Some 1]) [(0, [4])] in
  torch_wrap 1 (length (bs (slice t 0 0)) + 1) = Some 1 /\ torch_wrap (-1) (length (bs (slice t 0 0)) + 1) = Some 1 /\
  torch_wrap 2 (length (bs (slice t 0 0)) + 1) = None /\
  (exists R, vmap1 (fun s => s) 0 1 t = Ok R /\ bs R = [3; 2] /\ nms R = Some [Some 1; None] /\ val R 0 [2; 1; 3] = [0; 1; 2; 3]) /\
  (exists R, vmap1 (fun s => s) 0 (-1) t = Ok R /\ bs R = [3; 2] /\ nms R = Some [Some 1; None] /\ val R 0 [2; 1; 3] = [0; 1; 2; 3]).
Proof. repeat split; try reflexivity; eexists; (split; [vm_compute; reflexivity|]); repeat split; reflexivity. Qed.

(* the former witnesses of D190 / D191 (silently wrong / raising / accepted out of range), now on the right side *)
Example C19_negative_out_dim_right :
  exists R, vmap1 (fun s => s) 0 (-1) w_td = Ok R /\ bs R = [3; 3] /\
    val R 0 [0; 1; 2] = stack_val (fun j => slice w_td 0 j) 1 0 [0; 1; 2]
  /\ exists R', vmap1 (fun s => s) 0 (-1) (addr_td [2; 3] None [(0, [4])]) = Ok R' /\ bs R' = [3; 2].
Proof. exact negative_out_dim_right. Qed.
Example C19_too_large_out_dim_refused : vmap1 (fun s => s) 0 2 (addr_td [2; 3] None [(0, [2])]) = Raise IndexErr.
Proof. exact too_large_out_dim_refused. Qed.

(* names through vmap(identity): untouched dims keep their names in order, None at out_dim; a single named dim is lost *)
Theorem C19_names_identity : forall (l : list (option nat)) d o,
  d < length l ->
  names_remove (names_add (Some l) d) (Z.of_nat o) =
  if length l =? 1 then None else Some (insert_at (remove_nth l d) o None).
Proof. exact names_identity. Qed.
Print Assumptions C19_names_identity.

(* nested vmap of depth 2, every (d1, o1, d2, o2): batch size and every element of the doubly stacked result *)
Theorem C19_vmap2_eq_loop : forall V (f : tdict V -> tdict V) (t : tdict V) d1 o1 d2 o2,
  (forall j1, o2 <= length (bs (f (slice (slice t d1 j1) d2 0)))) ->
  o1 <= S (length (bs (f (slice (slice t d1 0) d2 0)))) ->
  exists R, vmap1 (vmap1_total f d2 (Z.of_nat o2)) d1 (Z.of_nat o1) t = Ok R
    /\ bs R = insert_at (insert_at (bs (f (slice (slice t d1 0) d2 0))) o2 (nth d2 (remove_nth (bs t) d1) 0)) o1 (nth d1 (bs t) 0)
    /\ forall k I, val R k I =
         val (f (slice (slice t d1 (nth o1 I 0)) d2 (nth o2 (remove_nth I o1) 0))) k (remove_nth (remove_nth I o1) o2).
Proof. exact vmap2_eq_loop. Qed.
Print Assumptions C19_vmap2_eq_loop.

Example C19_vmap2_ex :
  let t := addr_td [2; 3; 2] None [(0, [])] in
  exists R, vmap1 (vmap1_total (fun s => s) 1 0) 0 2 t = Ok R /\ bs R = [2; 3; 2] /\ val R 0 [1; 2; 0] = [0; 0; 2; 1].
Proof. eexists. split; [vm_compute; reflexivity|]. split; reflexivity. Qed.

(* ================= (b) input / output plumbing ================= *)
Theorem C19_bcast_length : forall A B (d : ptree A) (t : ptree B) l, bcast d t = Some l -> length l = length (flatten t).
Proof. exact @bcast_length. Qed.
Print Assumptions C19_bcast_length.

(* accepted inputs: one entry per flat argument; int in_dim => tensor(dict), dim inside its rank, size B along it, batched
   exactly along it; None => handed over as it is *)
Theorem C19_process_create : forall in_dims args B dims flat,
  process in_dims args = POk B dims flat ->
  flat = flatten (PTup args) /\ length dims = length flat /\
  forall i a, nth_error flat i = Some a ->
    exists k, nth_error dims i = Some k /\ nth_error (create flat dims) i = Some (create1 a k) /\
      match k with
      | None => True
      | Some k' => exists sh, arg_shape a = Some sh /\ k' < length sh /\ nth k' sh 0 = B
      end.
Proof. exact process_create. Qed.
Print Assumptions C19_process_create.

Theorem C19_create1_cases :
  (forall b k, create1 (ATd b) (Some k) = BTd (remove_nth b k)) /\
  (forall s k, create1 (ATen s) (Some k) = BTen (remove_nth s k)) /\
  (forall b, create1 (ATd b) None = BCopy b) /\
  (forall a, (forall b, a <> ATd b) -> create1 a None = BSame a).
Proof. exact create1_cases. Qed.
Print Assumptions C19_create1_cases.

(* inconsistent sizes are rejected: accepted calls agree on the size of every mapped dim; two sizes => RInconsistent *)
Theorem C19_process_rejects_inconsistent : forall in_dims args B dims flat i j a1 a2 k1 k2 sh1 sh2,
  process in_dims args = POk B dims flat ->
  nth_error flat i = Some a1 -> nth_error dims i = Some (Some k1) -> arg_shape a1 = Some sh1 ->
  nth_error flat j = Some a2 -> nth_error dims j = Some (Some k2) -> arg_shape a2 = Some sh2 ->
  nth k1 sh1 0 = nth k2 sh2 0.
Proof. exact process_rejects_inconsistent. Qed.
Print Assumptions C19_process_rejects_inconsistent.
Theorem C19_validate_rejects : forall szs x y, In x szs -> In y szs -> x <> y -> validate szs = inl RInconsistent.
Proof. exact validate_rejects. Qed.
Print Assumptions C19_validate_rejects.

Example C19_process_ex :
  process (PTup [PLeaf (LInt (-1)); PLeaf LNone; PTup [PLeaf (LInt 0); PLeaf LNone]])
          [PLeaf (ATd [2; 3]); PLeaf (ATd [5]); PTup [PLeaf (ATen [3; 4]); PLeaf AObj]]
  = POk 3 [Some 1; None; Some 0; None] [ATd [2; 3]; ATd [5]; ATen [3; 4]; AObj]
  /\ create [ATd [2; 3]; ATd [5]; ATen [3; 4]; AObj] [Some 1; None; Some 0; None] = [BTd [2]; BCopy [5]; BTen [4]; BSame AObj]
  /\ process (PTup [PLeaf (LInt 0); PLeaf (LInt 0)]) [PLeaf (ATd [2; 3]); PLeaf (ATen [3])] = PRej RInconsistent
  /\ process (PTup [PLeaf (LInt 2)]) [PLeaf (ATd [2; 3])] = PRej RRange.
Proof. repeat split; reflexivity. Qed.

(* a tensordict output comes back with B inserted at the position out_dim names (negative values by torch's rule), whatever
   its leaves; an out_dim that names no position is refused *)
Theorem C19_unwrap_td_ok : forall B b fs (o : Z) p,
  torch_wrap o (length b + 1) = Some p -> unwrap1 B (OTd b fs) (LInt o) = inr (RTd (insert_at b p B)).
Proof. exact unwrap_td_ok. Qed.
Print Assumptions C19_unwrap_td_ok.
Theorem C19_unwrap_td_out_of_range : forall B b fs (o : Z),
  torch_wrap o (length b + 1) = None -> unwrap1 B (OTd b fs) (LInt o) = inl UIndex.
Proof. exact unwrap_td_out_of_range. Qed.
Print Assumptions C19_unwrap_td_out_of_range.

(* ================= (c) memoised batched views of locked tensordicts ================= *)
(* two calls share an entry iff same (in_dim, vmap_level) *)
Theorem C19_memo_hit_iff : forall n d1 l1 d2 l2,
  locked n = true -> vcache n = [] ->
  find_view (d2, l2) (vcache (fst (mstep repo_cfg n (MVmap d1 l1)))) <> None <-> (d1, l1) = (d2, l2).
Proof. exact memo_hit_iff. Qed.
Print Assumptions C19_memo_hit_iff.

(* a call gets the view a fresh computation gives: right dim, right level, the current leaf objects *)
Theorem C19_memo_view : forall n op v,
  cache_inv n -> snd (mstep repo_cfg n op) = Some v ->
  v_leaves v = leaves n /\ (forall d l, op = MVmap d l -> v = fresh n d l).
Proof. exact mstep_view. Qed.
Print Assumptions C19_memo_view.

(* every call of every history (in-place writes, rebinding writes, unlock / lock, un-batched passes in between, any
   (in_dim, level)) reads the current content *)
Theorem C19_memo_current : forall ops n, cache_inv n -> Forall (fun p => fst p = snd p) (mrun repo_cfg n ops).
Proof. exact memo_current. Qed.
Print Assumptions C19_memo_current.

Example C19_memo_ex : cache_inv w_node /\
  mrun repo_cfg w_node [MVmap 0 1; MWrite 0 8; MVmap 0 1; MRebind 0 7 5; MVmap 0 1; MVmap 0 2]
  = [([(0, 3%Z)], [(0, 3%Z)]); ([(0, 8%Z)], [(0, 8%Z)]); ([(0, 5%Z)], [(0, 5%Z)]); ([(0, 5%Z)], [(0, 5%Z)])].
Proof. exact memo_current_nonvacuous. Qed.

(* rebinding writes: stale without the erasure at the rebinding site (the tree before the repair of D19 / D60) *)
Theorem C19_memo_rebind_unrepaired_refuted :
  exists ops seen cur, In (seen, cur) (mrun {| fix_rebind := false; memo_none := false |} w_node ops) /\ seen <> cur.
Proof. exact memo_rebind_unrepaired_refuted. Qed.
Print Assumptions C19_memo_rebind_unrepaired_refuted.
(* the seeded variant C19-1 (memoised shallow copy of an in_dim = None argument) is inside the model and is wrong *)
Theorem C19_memo_none_copy_refuted :
  exists ops seen cur, In (seen, cur) (mrun {| fix_rebind := true; memo_none := true |} w_node ops) /\ seen <> cur.
Proof. exact memo_none_copy_refuted. Qed.
Print Assumptions C19_memo_none_copy_refuted.

(* dim names of a shared view (memoised view of a locked tensordict, a view returned several times, the names list an
   in_dim = None copy shares with the caller): un-batching it any number of times with any out_dims gives every result the
   view's names with None at ITS out_dim and leaves the view as it was *)
Theorem C19_unbatch_names_fresh : forall vn os, unbatch_seq true vn os = (map (names_remove vn) os, vn).
Proof. exact unbatch_seq_fresh. Qed.
Print Assumptions C19_unbatch_names_fresh.
Example C19_unbatch_names_ex :
  unbatch_seq true (Some [Some 1]) [0%Z; 1%Z; (-1)%Z] = ([Some [None; Some 1]; Some [Some 1; None]; Some [None; Some 1]], Some [Some 1]).
Proof. reflexivity. Qed.
(* without the copy (seeded variant C19-3) the statement is false *)
Theorem C19_unbatch_shared_list_refuted :
  exists vn o1 o2, unbatch_seq false vn [o1; o2] <> (map (names_remove vn) [o1; o2], vn).
Proof. exact unbatch_shared_list_refuted. Qed.
Print Assumptions C19_unbatch_shared_list_refuted.

(* ================= (d) lazy stacks: op classes on the vmapped view ================= *)
(* full statement: every op class on the hidden-stack-dim view gives the stack of the per-sample results — false (D33) *)
Definition C19_lazy_hidden_full_statement : Prop :=
  forall L op o, hidden L = true ->
    hres_remove (lazy_apply op L) (nmem L) o = insert_at (hop_sample_bs op (mbs L)) o (nmem L).
Theorem C19_lazy_hidden_partial : forall L op o,
  hidden L = true -> op <> HRebuild ->
  hres_remove (lazy_apply op L) (nmem L) o = insert_at (hop_sample_bs op (mbs L)) o (nmem L).
Proof. exact lazy_hidden_partial. Qed.
Print Assumptions C19_lazy_hidden_partial.
Theorem C19_lazy_hidden_rebuild_refuted :
  exists L o, hidden L = true /\ hres_remove (lazy_apply HRebuild L) (nmem L) o <> insert_at (mbs L) o (nmem L).
Proof. exact lazy_hidden_rebuild_refuted. Qed.
Print Assumptions C19_lazy_hidden_rebuild_refuted.
(* ... for EVERY hidden view and out position the rebuilt result has one dim too many *)
Theorem C19_lazy_hidden_rebuild_rank : forall L o,
  hidden L = true ->
  length (hres_remove (lazy_apply HRebuild L) (nmem L) o) = length (insert_at (mbs L) o (nmem L)) + 1.
Proof. exact lazy_hidden_rebuild_rank. Qed.
Print Assumptions C19_lazy_hidden_rebuild_rank.
(* with the repair suggested for D33 the class is right *)
Theorem C19_lazy_hidden_rebuild_fixed : forall L o,
  hidden L = true -> hres_remove (lazy_apply_gen true HRebuild L) (nmem L) o = insert_at (mbs L) o (nmem L).
Proof. exact lazy_hidden_rebuild_fixed. Qed.
Print Assumptions C19_lazy_hidden_rebuild_fixed.

(* vmapped dim <> stack dim: identity, rebuilds and nested gets (without extra batch dims) are right, any positions *)
Theorem C19_lazy_visible_ops : forall L i o op,
  hidden L = false -> sd L <= length (mbs L) -> i < length (lazy_bs L) -> i <> sd L -> o <= length (lazy_bs L) - 1 ->
  op = HSelf \/ op = HRebuild \/ op = HNested [] ->
  hres_remove (lazy_apply op (lazy_add L i)) (nth i (lazy_bs L) 0) o = movedim_shape (lazy_bs L) i o.
Proof. exact lazy_visible_ops. Qed.
Print Assumptions C19_lazy_visible_ops.
(* get(nested key) when the vmapped dim is not the stack dim: the nested tensordict keeps its extra batch dims e, the result
   is the stack of the per-sample nested tensordicts (repair of D192) *)
Theorem C19_lazy_visible_nested : forall L i o e,
  hidden L = false -> sd L <= length (mbs L) -> i < length (lazy_bs L) -> i <> sd L -> o <= length (lazy_bs L) - 1 ->
  hres_remove (lazy_apply (HNested e) (lazy_add L i)) (nth i (lazy_bs L) 0) o
  = insert_at (hop_sample_bs (HNested e) (remove_nth (lazy_bs L) i)) o (nth i (lazy_bs L) 0).
Proof. exact lazy_visible_nested. Qed.
Print Assumptions C19_lazy_visible_nested.
Example C19_lazy_visible_nested_ex :
  let L := {| mbs := [3]; nmem := 2; sd := 0; hidden := false |} in
  hres_remove (lazy_apply (HNested [2]) (lazy_add L 1)) 3 1 = [2; 3; 2].
Proof. exact lazy_visible_nested_ex. Qed.

Example C19_lazy_ops_ex :
  let L := {| mbs := [5; 7]; nmem := 3; sd := 1; hidden := false |} in
  hidden (lazy_add L 1) = true
  /\ hres_remove (lazy_apply HSelf (lazy_add L 1)) 3 0 = [3; 5; 7]
  /\ hres_remove (lazy_apply (HNested [2]) (lazy_add L 1)) 3 0 = [3; 5; 7; 2]
  /\ hres_remove (lazy_apply HDense (lazy_add L 1)) 3 2 = [5; 7; 3]
  /\ hres_remove (lazy_apply HRebuild (lazy_add L 1)) 3 0 = [3; 5; 3; 7]
  /\ hres_remove (lazy_apply HRebuild (lazy_add L 0)) 5 2 = [3; 7; 5].
Proof. repeat split; reflexivity. Qed.

(* NOT a theorem here: that functorch's batching rules implement [lift] (a function applied to batched values computes the
   function on every sample); it is the single trusted definition of the element-level statements and is exercised by the
   differential run (programs, modules) on every run. *)

Example C19_ex : let L := {| mbs := [5; 7]; nmem := 3; sd := 1; hidden := false |} in
  lazy_bs L = [5; 3; 7] /\ lazy_bs (lazy_remove (lazy_add L 1) 3 2) = [5; 7; 3]
  /\ lazy_bs (lazy_remove (lazy_add L 2) 7 0) = [7; 5; 3].
Proof. repeat split; reflexivity. Qed.
