(* C06 — locking is observationally transparent: memoised reads never go stale.  Property theorems only.
   Model: Model/C06_Cache.v (the @cache decorator, its key, erase_cache, the lock graph, the writes permitted under lock).
   [repo] = /repo as it is today; the refutations are histories /repo accepts (replayed by harness/c06.py). *)
From Coq Require Import ZArith List String Bool.
Import ListNotations.
From TD Require Import Model.C06_Cache Proofs.C06_KeyP Proofs.C06_CacheP Proofs.C06_ReadP Proofs.C06_StepP Proofs.C06_WitnessP Proofs.C06_FixedP.
From TD Require Gen.C06_Sites.
Open Scope string_scope.
Open Scope list_scope.

(* -------- the full statement, kept visible: FALSE of the faithful model (refutations below) *)
Definition permitted (s : state) (o : op) : Prop := exists hk, snd (step repo hk s o) = Done.
Definition C06_cache_sound_full_statement : Prop :=
  forall U hk s ops, objs_consistent U -> Good U s ->
    (forall pre o post, ops = pre ++ o :: post -> permitted (run repo hk s pre) o) ->
    forall pre p m a k post, ops = pre ++ ORead p m a k :: post ->
    forall acc v b, snd (read hk (run repo hk s pre) p m a k) = Some (acc, v, b) ->
    exists n, find_node (run repo hk s pre) p = Some n /\ v = fresh (run repo hk s pre) n m a k.

(* -------- cache_sound_partial: all histories whose writes under lock are in-place value writes.
   Any tree of TensorDicts (any depth, any locked sub-forest with its lock graph), any interleaving of memoised reads (hit,
   miss, not locked; verification hook on or off), in-place writes, lock_/unlock_ at any node (accepted or refused),
   structural writes (accepted where the owner is unlocked, refused under lock): every read returns exactly what a fresh
   computation returns.  Hypotheses: objects occurring in the calls are determined by their address (no address reuse),
   keyword arguments listed in sorted order. *)
Theorem C06_cache_sound_partial : forall U hk s ops,
  objs_consistent U -> Good U s -> Forall (clean_op U) ops ->
  forall pre p m a k post, ops = pre ++ ORead p m a k :: post ->
  forall acc v b, snd (read hk (run repo hk s pre) p m a k) = Some (acc, v, b) ->
  exists n, find_node (run repo hk s pre) p = Some n /\ v = fresh (run repo hk s pre) n m a k.
Proof. exact cache_sound_partial. Qed.
Print Assumptions C06_cache_sound_partial.

(* the invariant behind it (every memoised entry equals a fresh call; unlocked nodes hold no entry; the lock graph is closed)
   is kept by every step *)
Theorem C06_invariant_step : forall U hk s o, objs_consistent U -> Good U s -> clean_op U o -> Good U (fst (step repo hk s o)).
Proof. exact step_good. Qed.
Print Assumptions C06_invariant_step.

(* the object a caller holds keeps showing what a fresh call shows while in-place writes go on *)
Theorem C06_held_result_tracks_inplace : forall U hk writes s p n m a k,
  Good U s -> find_node s p = Some n ->
  exists n', find_node (run repo hk s (map (fun pv => OInplace (fst pv) (snd pv)) writes)) p = Some n'
             /\ fresh (run repo hk s (map (fun pv => OInplace (fst pv) (snd pv)) writes)) n' m a k = fresh s n m a k.
Proof. exact held_result_tracks_inplace. Qed.
Print Assumptions C06_held_result_tracks_inplace.

(* -------- key_injective: equal keys only for arguments equal by value or at the same address; with live objects
   (address determines object) the key determines the call *)
Theorem C06_key_injective : forall a k a' k',
  make_cache_key a k = make_cache_key a' k' -> Forall2 same_arg a a' /\ Forall2 same_kw (sort_kw k) (sort_kw k').
Proof. exact key_injective. Qed.
Print Assumptions C06_key_injective.

Theorem C06_key_determines_call : forall U a k a' k',
  objs_consistent U -> incl (call_objs a k) U -> incl (call_objs a' k') U -> sort_kw k = k -> sort_kw k' = k' ->
  make_cache_key a k = make_cache_key a' k' -> a = a' /\ k = k'.
Proof. exact key_determines_call. Qed.
Print Assumptions C06_key_determines_call.

(* refuted without liveness: a dead object's address can be taken by another object ... *)
Theorem C06_key_injective_refuted : exists a a' k, a <> a' /\ make_cache_key a k = make_cache_key a' k.
Proof. exact key_injective_needs_liveness. Qed.
Print Assumptions C06_key_injective_refuted.
(* ... and a memoised list does not keep its is_leaf argument alive: a stale hit (private _values_list(collapse=True, is_leaf=f)) *)
Theorem C06_address_reuse_refuted :
  stale_hit (run repo false w0 [ORead [] MValuesList [ABool true; ABool true] (kw_collapse f_tensors)])
            [] MValuesList [ABool true; ABool true] (kw_collapse f_all).
Proof. exact refuted_address_reuse. Qed.
Print Assumptions C06_address_reuse_refuted.

(* -------- unlock_erases: after unlock_ (accepted or refused) no node at or below holds an entry; lock_ adds none *)
Theorem C06_unlock_erases : forall s p n,
  In n (nodes (fst (unlock_ s p))) -> is_prefix p (n_path n) = true -> snd (unlock_ s p) <> NoSuchTarget -> n_cache n = [].
Proof. exact unlock_erases. Qed.
Print Assumptions C06_unlock_erases.

Theorem C06_lock_adds_no_entry : forall s p n', In n' (nodes (fst (lock_ s p))) ->
  exists n, In n (nodes s) /\ n_path n' = n_path n /\ n_cache n' = n_cache n.
Proof. exact lock_adds_no_entry. Qed.
Print Assumptions C06_lock_adds_no_entry.

(* refuted for a lazy stack whose lock is derived from member-wise locks: cycling the members never erases its cache *)
Theorem C06_unlock_erases_lazy_refuted :
  outcomes repo false w_lazy_members member_cycle_ops = [Done; Done; Done; Done; Done; Done; Done]
  /\ stale_hit (run repo false w_lazy_members member_cycle_ops) [] MKeyList [] [].
Proof. exact refuted_lazy_member_cycle. Qed.
Print Assumptions C06_unlock_erases_lazy_refuted.

(* -------- the decorator's side conditions *)
Theorem C06_not_consulted_when_unlocked : forall s p n m a k v,
  find_node s p = Some n -> node_locked s n = false -> decorate s p m a k v = (s, Some (Bypass, v)).
Proof. exact not_consulted_when_unlocked. Qed.
Print Assumptions C06_not_consulted_when_unlocked.

Theorem C06_tensor_never_stored : forall s p m a k, fst (decorate s p m a k VTensor) = s.
Proof. exact tensor_never_stored. Qed.
Print Assumptions C06_tensor_never_stored.

(* -------- cache_sound refuted: writes /repo accepts under lock that leave memoised results observably stale *)
(* D19 / S4: td[idx] = <non-tensor>: NonTensorData -> NonTensorStack rebinding with ignore_lock=True *)
Theorem C06_cache_sound_refuted_nontensor_promotion :
  outcomes repo false w0 D19_ops = [Done; Done] /\ stale_hit (run repo false w0 D19_ops) [] MFlattenKeys [] []
  /\ stale_hit (run repo false w0 [ORead [] MValuesList [] []; OPromote ["nt"] (lfNS 20 20)]) [] MValuesList [] [].
Proof. split; [apply refuted_nontensor_promotion|split; [apply refuted_nontensor_promotion|exact refuted_values_list_after_promotion]]. Qed.
Print Assumptions C06_cache_sound_refuted_nontensor_promotion.

Theorem C06_cache_sound_refuted_make_memmap :
  outcomes repo false w_mm make_memmap_ops = [Done; Done; Done]
  /\ stale_hit (run repo false w_mm make_memmap_ops) [] MSortedKeys [] []
  /\ stale_hit (run repo false w_mm make_memmap_ops) [] MParamCount [] [].
Proof. exact refuted_make_memmap. Qed.
Print Assumptions C06_cache_sound_refuted_make_memmap.

Theorem C06_cache_sound_refuted_memmap_on_locked :
  outcomes repo false w0 memmap_under_lock_ops = [Done; Done; Done] /\ stale_hit (run repo false w0 memmap_under_lock_ops) [] MDetach [] [].
Proof. exact refuted_memmap_on_locked. Qed.
Print Assumptions C06_cache_sound_refuted_memmap_on_locked.

Theorem C06_cache_sound_refuted_memmap_subtree_unlock :
  outcomes repo false w_mm subtree_unlock_ops = [Done; Done; Done; Done] /\ stale_hit (run repo false w_mm subtree_unlock_ops) [] MFlattenKeys [] [].
Proof. exact refuted_memmap_subtree_unlock. Qed.
Print Assumptions C06_cache_sound_refuted_memmap_subtree_unlock.

Theorem C06_cache_sound_refuted_metadata_under_lock :
  stale_hit (run repo false w0 [ORead [] MDetach [] []; OSetNames [] (Some ["u"])]) [] MDetach [] []
  /\ stale_hit (run repo false w0 [ORead [] MFlattenKeys [] []; OSetBatchSize [] []]) [] MFlattenKeys [] [].
Proof. split; [apply refuted_names_under_lock|apply refuted_batch_size_under_lock]. Qed.
Print Assumptions C06_cache_sound_refuted_metadata_under_lock.

(* S11 *)
Theorem C06_cache_sound_refuted_lazy_member_names :
  outcomes repo false w_lazy [ORead [] MLazyNames [] []; OSetNames ["#0"] (Some ["u"])] = [Done; Done]
  /\ stale_hit (run repo false w_lazy [ORead [] MLazyNames [] []; OSetNames ["#0"] (Some ["u"])]) [] MLazyNames [] [].
Proof. exact refuted_lazy_member_names. Qed.
Print Assumptions C06_cache_sound_refuted_lazy_member_names.

(* in-place writes alone suffice when a lazy stack is involved: its memoised flatten_keys holds stacked copies *)
Theorem C06_cache_sound_refuted_lazy_materialised :
  outcomes repo false w_lazy [ORead [] MFlattenKeys [] []; OInplace ["#0"; "x"] 9%Z] = [Done; Done]
  /\ stale_hit (run repo false w_lazy [ORead [] MFlattenKeys [] []; OInplace ["#0"; "x"] 9%Z]) [] MFlattenKeys [] [].
Proof. exact refuted_lazy_materialised. Qed.
Print Assumptions C06_cache_sound_refuted_lazy_materialised.

(* -------- what changes when the repairs land: with [fix_rebind] and [fix_meta] (erase the caches of the node, of the nodes above it
   and of its subtree wherever ignore_lock=True rebinds an entry or a names / batch_size setter runs) the FULL statement holds for
   every history over trees of TensorDicts — non-tensor promotion, make_memmap*, names and batch_size assignment included
   (memmap_() on a locked tree excluded: that is the lock graph's defect D7/D61) *)
Theorem C06_cache_sound_if_repaired : forall fx U hk s ops,
  fixed fx -> objs_consistent U -> Good U s -> Forall (permitted_op U) ops ->
  forall pre p m a k post, ops = pre ++ ORead p m a k :: post ->
  forall acc v b, snd (read hk (run fx hk s pre) p m a k) = Some (acc, v, b) ->
  exists n, find_node (run fx hk s pre) p = Some n /\ v = fresh (run fx hk s pre) n m a k.
Proof. exact cache_sound_fixed. Qed.
Print Assumptions C06_cache_sound_if_repaired.

(* -------- translated table (harness/tr_c06.py): every @cache site of /repo's current source is a method the model knows
   (or is listed as not modelled), and every site the model relies on is still decorated *)
Theorem C06_cache_sites_covered : Gen.C06_Sites.sites_ok = true.
Proof. vm_compute. reflexivity. Qed.
Print Assumptions C06_cache_sites_covered.

(* -------- non-vacuity *)
Example C06_ex_good_state : forall U, Good U w0.
Proof. exact w0_good. Qed.
Example C06_ex_clean_history : Forall (clean_op [none_obj; nontensor_fn]) [ORead [] MFlattenKeys [] []; OInplace ["a"] 7%Z; OUnlock []; OLock []; ORead [] MDepth [] []].
Proof.
  assert (R : forall m, incl (sub_objs m [] []) [none_obj; nontensor_fn] -> read_ok [none_obj; nontensor_fn] m [] []).
  { intros m H. split; [split; [intros o []|reflexivity]|exact H]. }
  apply Forall_cons; [apply R; intros o []|]. apply Forall_cons; [exact I|]. apply Forall_cons; [exact I|]. apply Forall_cons; [exact I|].
  apply Forall_cons; [|constructor]. apply R. vm_compute. intros o [<-|[]]. right. now left.
Qed.
Example C06_ex_sound_hit :
  let s1 := run repo false w0 [ORead [] MFlattenKeys [] []; OInplace ["a"] 7%Z] in
  exists v n, snd (read false s1 [] MFlattenKeys [] []) = Some (Hit, v, None) /\ find_node s1 [] = Some n
              /\ v = fresh s1 n MFlattenKeys [] []
              /\ observe s1 [] v = ObsItems [([], mt3)] [(["a"], OTensor 7 0 3); (["nt"], ONonTensor KNonTensorData 1); (["n"; "c"], OTensor 2 0 3)].
Proof. exact sound_hit_after_inplace. Qed.
Example C06_ex_lazy_names_setter_erases :
  let s1 := run repo false w_lazy [ORead [] MLazyNames [] []; OSetNames [] (Some ["u"])] in
  exists acc v, snd (read false s1 [] MLazyNames [] []) = Some (acc, v, Some v) /\ acc = Miss.
Proof. exact lazy_names_setter_erases. Qed.
Example C06_ex_pins : fresh w0 (mknode [] 1 NTD (Some true) [] false) MNestedKeys [] [("is_leaf", AObj f_tensors)] = VView false false 1 false [f_tensors].
Proof. reflexivity. Qed.
