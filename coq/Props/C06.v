(* C06 — locking is observationally transparent: memoised reads never go stale.  Property theorems only.
   Model: Model/C06_Cache.v (the @cache decorator, its key, erase_cache, the lock graph, the writes permitted under lock).
   [repo] = /repo as it is today (the fix: commits of C06 and of the lock graph, C05, applied); [unrepaired] = the library before
   them; the refutations are histories the respective library accepts (replayed by harness/c06.py `witnesses()`). *)
From Coq Require Import ZArith List String Bool.
Import ListNotations.
From TD Require Import Model.C06_Cache Proofs.C06_KeyP Proofs.C06_CacheP Proofs.C06_ReadP Proofs.C06_StepP Proofs.C06_WitnessP Proofs.C06_FixedP.
From TD Require Gen.C06_Sites.
Open Scope string_scope.
Open Scope list_scope.

(* -------- the full statement, kept visible: still FALSE of the faithful model because of D65 (lazy stacks memoise stacked
   copies); see the refutation.  D62 (memmap_ built no lock graph: a nested node unlocked alone — the lock graph's defect D7) is
   repaired: memmap_() is one of the permitted operations of C06_cache_sound below *)
Definition permitted (s : state) (o : op) : Prop := exists hk, snd (step repo hk s o) = Done.
Definition C06_cache_sound_full_statement : Prop :=
  forall U hk s ops, objs_consistent U ->
    (forall pre o post, ops = pre ++ o :: post -> permitted (run repo hk s pre) o) ->
    forall pre p m a k post, ops = pre ++ ORead p m a k :: post ->
    forall acc v b, snd (read hk (run repo hk s pre) p m a k) = Some (acc, v, b) ->
    exists n, find_node (run repo hk s pre) p = Some n /\ v = fresh (run repo hk s pre) n m a k.

(* -------- cache_sound ([repo] = /repo with the fix: commits of D19/D60, D61, D63, S11, D64, D66, D67, D68, D69 and of the lock graph: D7, D55).
   Any tree of TensorDicts (any depth, any locked sub-forest with its lock graph), any interleaving of memoised reads (hit, miss,
   not locked; verification hook on or off), in-place writes, lock_/unlock_ at any node (accepted or refused), structural writes
   (accepted where the owner is unlocked, refused under lock) AND the writes that are accepted under lock — non-tensor promotion,
   make_memmap / _from_tensor / _from_storage (plain key, or a nested key that binds a new nested tensordict), names and
   batch_size assignment at any node, memmap_() of any node (locked or not,
   with locked or unlocked nodes below it): every read returns exactly what a fresh computation returns.  Hypotheses: objects
   occurring in the calls are determined by their address (guaranteed by CPython now that every entry keeps its arguments alive,
   D67), keyword arguments listed in sorted order.
   Outside: lazy stacks (D65). *)
Theorem C06_cache_sound : forall U hk s ops,
  objs_consistent U -> Good U s -> Forall (permitted_op U) ops ->
  forall pre p m a k post, ops = pre ++ ORead p m a k :: post ->
  forall acc v b, snd (read hk (run repo hk s pre) p m a k) = Some (acc, v, b) ->
  exists n, find_node (run repo hk s pre) p = Some n /\ v = fresh (run repo hk s pre) n m a k.
Proof. exact cache_sound_repaired. Qed.
Print Assumptions C06_cache_sound.

(* the invariant behind it (every memoised entry equals a fresh call; unlocked nodes hold no entry; the lock graph is closed and
   registered) is kept by every permitted step *)
Theorem C06_invariant_step : forall U hk s o, objs_consistent U -> Good U s -> permitted_op U o -> Good U (fst (step repo hk s o)).
Proof. exact step_good_repaired. Qed.
Print Assumptions C06_invariant_step.

(* the clean fragment does not depend on the repairs: it holds for the library before them as well *)
Theorem C06_cache_sound_partial_any_version : forall fx U hk s o,
  objs_consistent U -> Good U s -> clean_op U o -> Good U (fst (step fx hk s o)).
Proof. exact step_good_any. Qed.
Print Assumptions C06_cache_sound_partial_any_version.

(* the object a caller holds keeps showing what a fresh call shows while in-place writes go on *)
Theorem C06_held_result_tracks_inplace : forall U hk writes s p n m a k,
  objs_consistent U -> Good U s -> find_node s p = Some n ->
  exists n', find_node (run repo hk s (map (fun pv => OInplace (fst pv) (snd pv)) writes)) p = Some n'
             /\ fresh (run repo hk s (map (fun pv => OInplace (fst pv) (snd pv)) writes)) n' m a k = fresh s n m a k.
Proof. exact held_result_tracks_inplace. Qed.
Print Assumptions C06_held_result_tracks_inplace.

(* -------- key_injective: equal keys only for arguments equal by value or at the same address; with live objects
   (address determines object) the key determines the call *)
Theorem C06_key_injective : forall a k a' k',
  make_cache_key a k = make_cache_key a' k' -> Forall2 same_arg a a' /\ Forall2 same_kw (sort_kw k) (sort_kw k').
Proof. exact key_injective. Qed.
Print Assumptions C06_key_injective.

Theorem C06_key_determines_call : forall U a k a' k',
  objs_consistent U -> incl (call_objs a k) U -> incl (call_objs a' k') U -> sort_kw k = k -> sort_kw k' = k' ->
  make_cache_key a k = make_cache_key a' k' -> a = a' /\ k = k'.
Proof. exact key_determines_call. Qed.
Print Assumptions C06_key_determines_call.

(* without liveness the key would not determine the call (a dead object's address can be taken by another object): this is why
   D67's repair keeps the arguments alive with the entry *)
Theorem C06_key_injective_refuted : exists a a' k, a <> a' /\ make_cache_key a k = make_cache_key a' k.
Proof. exact key_injective_needs_liveness. Qed.
Print Assumptions C06_key_injective_refuted.
(* -------- unlock_erases: after unlock_ (accepted or refused) no node at or below holds an entry; lock_ adds none *)
Theorem C06_unlock_erases : forall fx s p n,
  In n (nodes (fst (unlock_ fx s p))) -> is_prefix p (n_path n) = true -> snd (unlock_ fx s p) <> NoSuchTarget -> n_cache n = [].
Proof. exact unlock_erases. Qed.
Print Assumptions C06_unlock_erases.

Theorem C06_lock_adds_no_entry : forall fx s p n', In n' (nodes (fst (lock_ fx s p))) ->
  exists n, In n (nodes s) /\ n_path n' = n_path n /\ n_cache n' = n_cache n.
Proof. exact lock_adds_no_entry. Qed.
Print Assumptions C06_lock_adds_no_entry.

(* -------- the decorator's side conditions *)
Theorem C06_not_consulted_when_unlocked : forall s p n m a k v,
  find_node s p = Some n -> node_locked s n = false -> decorate s p m a k v = (s, Some (Bypass, v)).
Proof. exact not_consulted_when_unlocked. Qed.
Print Assumptions C06_not_consulted_when_unlocked.

Theorem C06_tensor_never_stored : forall s p m a k, fst (decorate s p m a k VTensor) = s.
Proof. exact tensor_never_stored. Qed.
Print Assumptions C06_tensor_never_stored.

(* -------- D62 (consequence of D7, C05) repaired: memmap_() locks through the lock graph *)
(* in any state that satisfies the invariant — whatever was locked before — after memmap_() of node p the unlock_() of any node
   strictly below p is refused *)
Theorem C06_memmap_nested_unlock_refused : forall U hk s p base q,
  Good U s -> is_node_path s p = true -> is_node_path s q = true -> proper_prefix p q = true ->
  snd (step repo hk (fst (step repo hk s (OMemmap p base))) (OUnlock q)) = RaisedLock.
Proof. exact memmap_nested_unlock_refused. Qed.
Print Assumptions C06_memmap_nested_unlock_refused.

(* the history that D62 recorded (memmap_(); read; n.unlock_(); n.set(new); n.lock_(); read), from an unlocked tree: memmap_()
   flags every node and registers the nested node under the root; the nested unlock is refused and leaves the lock flags, the
   parents and (D68 repaired) the memmap flags as they were; the structural write is refused; the root's memoised flatten_keys is
   a sound hit *)
Theorem C06_memmap_subtree_unlock_refused :
  let s1 := fst (step repo false w_plain (OMemmap [] 100)) in
  lock_graph s1 = [([], Some true, [], true); (["n"], Some true, [[]], true)]
  /\ snd (step repo false s1 (OUnlock ["n"])) = RaisedLock
  /\ lock_graph (fst (step repo false s1 (OUnlock ["n"]))) = lock_graph s1
  /\ outcomes repo false w_plain memmap_then_subtree_unlock = [Done; Done; RaisedLock; RaisedLock; Done]
  /\ exists v n, snd (read false (run repo false w_plain memmap_then_subtree_unlock) [] MFlattenKeys [] []) = Some (Hit, v, None)
                 /\ find_node (run repo false w_plain memmap_then_subtree_unlock) [] = Some n
                 /\ v = fresh (run repo false w_plain memmap_then_subtree_unlock) n MFlattenKeys [] [].
Proof. exact memmap_subtree_unlock_refused. Qed.
Print Assumptions C06_memmap_subtree_unlock_refused.

(* D68: before its repair the refused unlock_ left _is_memmap of the node that tried cleared *)
Example C06_ex_unrepaired_refused_unlock_clears_memmap :
  let s1 := fst (step before_D68 false w_plain (OMemmap [] 100)) in
  snd (step before_D68 false s1 (OUnlock ["n"])) = RaisedLock
  /\ lock_graph (fst (step before_D68 false s1 (OUnlock ["n"]))) = [([], Some true, [], true); (["n"], Some true, [[]], false)].
Proof. exact unrepaired_refused_unlock_clears_memmap. Qed.

(* ... and what the library did before the repair of D7 ([unrepaired]): nothing registered, every call accepted, a stale hit *)
Theorem C06_unrepaired_refuted_memmap_subtree_unlock :
  lock_graph (fst (step unrepaired false w_plain (OMemmap [] 100))) = [([], Some true, [], true); (["n"], Some true, [], true)]
  /\ outcomes unrepaired false w_plain memmap_then_subtree_unlock = [Done; Done; Done; Done; Done]
  /\ stale_hit (run unrepaired false w_plain memmap_then_subtree_unlock) [] MFlattenKeys [] [].
Proof. exact unrepaired_memmap_subtree_unlock. Qed.
Print Assumptions C06_unrepaired_refuted_memmap_subtree_unlock.

(* -------- D69 repaired: make_memmap* with a nested key binds a nested tensordict that is locked under the locked tree (it is one
   of the permitted operations of C06_cache_sound); the history that D69 recorded, before and after *)
Theorem C06_nested_make_memmap_attached_locked :
  lock_graph (run repo false w_mm [OMakeMemmapNested ["mn"] 50 "x" mm_leaf])
  = [([], Some true, [], true); (["n"], Some true, [[]], true); (["mn"], Some true, [[]], true)]
  /\ outcomes repo false w_mm (nested_make_memmap_ops ++ [OUnlock ["mn"]]) = [Done; Done; Done; RaisedLock; RaisedLock]
  /\ exists v n, snd (read false (run repo false w_mm nested_make_memmap_ops) [] MFlattenKeys [] []) = Some (Hit, v, None)
                 /\ find_node (run repo false w_mm nested_make_memmap_ops) [] = Some n
                 /\ v = fresh (run repo false w_mm nested_make_memmap_ops) n MFlattenKeys [] [].
Proof. exact nested_make_memmap_attached_locked. Qed.
Print Assumptions C06_nested_make_memmap_attached_locked.

Theorem C06_unrepaired_refuted_nested_make_memmap :
  lock_graph (run before_D69 false w_mm [OMakeMemmapNested ["mn"] 50 "x" mm_leaf])
  = [([], Some true, [], true); (["n"], Some true, [[]], true); (["mn"], Some false, [], false)]
  /\ outcomes before_D69 false w_mm nested_make_memmap_ops = [Done; Done; Done; Done]
  /\ stale_hit (run before_D69 false w_mm nested_make_memmap_ops) [] MFlattenKeys [] [].
Proof. exact unrepaired_nested_make_memmap. Qed.
Print Assumptions C06_unrepaired_refuted_nested_make_memmap.

(* -------- what remains refuted *)
(* D65: in-place writes alone suffice when a lazy stack is involved: its memoised flatten_keys holds stacked copies *)
Theorem C06_cache_sound_refuted_lazy_materialised :
  outcomes repo false w_lazy [ORead [] MFlattenKeys [] []; OInplace ["#0"; "x"] 9%Z] = [Done; Done]
  /\ stale_hit (run repo false w_lazy [ORead [] MFlattenKeys [] []; OInplace ["#0"; "x"] 9%Z]) [] MFlattenKeys [] [].
Proof. exact refuted_lazy_materialised. Qed.
Print Assumptions C06_cache_sound_refuted_lazy_materialised.

(* -------- translated table (harness/tr_c06.py): every @cache site of /repo's current source is a method the model knows
   (or is listed as not modelled), and every site the model relies on is still decorated *)
Theorem C06_cache_sites_covered : Gen.C06_Sites.sites_ok = true.
Proof. vm_compute. reflexivity. Qed.
Print Assumptions C06_cache_sites_covered.

(* -------- non-vacuity *)
Example C06_ex_good_state : forall U, Good U w0.
Proof. exact w0_good. Qed.
Example C06_ex_clean_history : Forall (clean_op [none_obj; nontensor_fn]) [ORead [] MFlattenKeys [] []; OInplace ["a"] 7%Z; OUnlock []; OLock []; ORead [] MDepth [] []].
Proof.
  assert (R : forall m, incl (sub_objs m [] []) [none_obj; nontensor_fn] -> read_ok [none_obj; nontensor_fn] m [] []).
  { intros m H. split; [split; [intros o []|reflexivity]|exact H]. }
  apply Forall_cons; [apply R; intros o []|]. apply Forall_cons; [exact I|]. apply Forall_cons; [exact I|]. apply Forall_cons; [exact I|].
  apply Forall_cons; [|constructor]. apply R. vm_compute. intros o [<-|[]]. right. now left.
Qed.
Example C06_ex_sound_hit :
  let s1 := run repo false w0 [ORead [] MFlattenKeys [] []; OInplace ["a"] 7%Z] in
  exists v n, snd (read false s1 [] MFlattenKeys [] []) = Some (Hit, v, None) /\ find_node s1 [] = Some n
              /\ v = fresh s1 n MFlattenKeys [] []
              /\ observe s1 [] v = ObsItems [([], mt3)] [(["a"], OTensor 7 0 3); (["nt"], ONonTensor KNonTensorData 1); (["n"; "c"], OTensor 2 0 3)].
Proof. exact sound_hit_after_inplace. Qed.
Example C06_ex_repaired_promotion :
  outcomes repo false w0 D19_ops = [Done; Done] /\ fresh_miss (run repo false w0 D19_ops) [] MFlattenKeys [] []
  /\ stale_hit (run unrepaired false w0 D19_ops) [] MFlattenKeys [] [].
Proof. split; [apply repaired_nontensor_promotion|split; [apply repaired_nontensor_promotion|exact unrepaired_nontensor_promotion]]. Qed.
Example C06_ex_repaired_erases_upwards :
  fresh_miss (run repo false w0_nested [ORead [] MFlattenKeys [] []; ORead ["n"] MFlattenKeys [] []; OPromote ["n"; "nt"] (lfNS 20 20)]) [] MFlattenKeys [] [].
Proof. exact repaired_promotion_erases_upwards. Qed.
Example C06_ex_repaired_make_memmap : fresh_miss (run repo false w_mm make_memmap_ops) [] MSortedKeys [] [].
Proof. apply repaired_make_memmap. Qed.
Example C06_ex_repaired_memmap_on_locked : fresh_miss (run repo false w0 memmap_under_lock_ops) [] MDetach [] [].
Proof. apply repaired_memmap_on_locked. Qed.
Example C06_ex_repaired_metadata :
  fresh_miss (run repo false w0 [ORead [] MDetach [] []; OSetNames [] (Some ["u"])]) [] MDetach [] []
  /\ fresh_miss (run repo false w0 [ORead [] MFlattenKeys [] []; OSetBatchSize [] []]) [] MFlattenKeys [] [].
Proof. split; [exact repaired_names_under_lock|exact repaired_batch_size_under_lock]. Qed.
Example C06_ex_derived_lock_not_memoised :
  exists v, snd (read false w_lazy_members [] MKeyList [] []) = Some (Bypass, v, Some v)
            /\ nodes (fst (read false w_lazy_members [] MKeyList [] [])) = nodes w_lazy_members.
Proof. exact derived_lock_not_memoised. Qed.
Example C06_ex_permitted_history : Forall (permitted_op [none_obj; nontensor_fn])
  [ORead [] MFlattenKeys [] []; OPromote ["nt"] (lfNS 20 20); OSetNames [] (Some ["u"]); OSetBatchSize ["n"] []; OInplace ["a"] 7%Z; OUnlock []; OLock [];
   OMemmap [] 100; OMemmap ["n"] 300; OMakeMemmapNested ["mn"] 50 "x" mm_leaf].
Proof.
  apply Forall_cons; [split; [split; [intros o []|reflexivity]|intros o []]|]. repeat (apply Forall_cons; [exact I|]). constructor.
Qed.
Example C06_ex_good_unlocked_state : forall U, Good U w_plain.
Proof. exact w_plain_good. Qed.
Example C06_ex_memmap_nested_unlock_hypotheses :
  is_node_path w_plain [] = true /\ is_node_path w_plain ["n"] = true /\ proper_prefix [] ["n"] = true
  /\ is_node_path w0 [] = true /\ is_node_path w0 ["n"] = true.
Proof. repeat split. Qed.
Example C06_ex_pins : fresh w0 (mknode [] 1 NTD (Some true) [] false) MNestedKeys [] [("is_leaf", AObj f_tensors)] = VView false false 1 false [f_tensors].
Proof. reflexivity. Qed.
