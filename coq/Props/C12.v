(* C12 — chunked / multi-process / multi-thread execution = sequential execution.  Property theorems only.
   Model: Model/C12_Chunk.v (utils._split_tensordict, chunk, split, base._map) and Model/C12_Sched.v
   (_multithread_apply_flat/_rebuild, _apply_nest, memmap / consolidate writer tasks).
   TRUSTED (named in the model): multiprocessing.Pool.imap yields results in submission order (trusted_imap);
   a future's result is what its task returned. *)
From Coq Require Import ZArith List Bool Permutation Lia.
Import ListNotations.
From TD Require Import Model.C12_Chunk Model.C12_Sched Model.C12_Map Model.C12_Meta Proofs.C12_ChunkP Proofs.C12_SchedP Proofs.C12_AssignP Proofs.C12_InPlaceP Proofs.C12_MapP Proofs.C12_MetaP Proofs.C12_FailP.
Open Scope nat_scope.

(* ================================================================= the partition *)
(* for ALL n > 0, chunksize, num_chunks, num_workers, generator on/off, shuffle on/off: whenever _split_tensordict returns,
   the slices it hands out are consecutive, non-empty, in order and cover [0, n) *)
Theorem C12_chunks_partition : forall n cs nc nw gen sh l,
  n > 0 -> split_pieces n cs nc nw gen sh = Ok l -> tiles 0 n (map (bounds n) l).
Proof. exact chunks_partition. Qed.
Print Assumptions C12_chunks_partition.

(* what [tiles] gives: every row lies in a piece, and pieces are pairwise disjoint and increasing *)
Theorem C12_tiles_cover_disjoint : forall lo hi bs, tiles lo hi bs ->
  (forall i, lo <= i < hi -> exists a b, In (a, b) bs /\ a <= i < b) /\
  (forall i j a b c d, nth_error bs i = Some (a, b) -> nth_error bs j = Some (c, d) -> i < j -> lo <= a /\ b <= c /\ d <= hi).
Proof. intros lo hi bs H. split; [exact (tiles_cover lo hi bs H)|exact (tiles_disjoint lo hi bs H)]. Qed.
Print Assumptions C12_tiles_cover_disjoint.

(* hence: concatenating the slices of any list of n rows, in order, gives the list back *)
Theorem C12_pieces_concat : forall (A : Type) n cs nc nw gen sh l (rows : list A),
  n > 0 -> List.length rows = n -> split_pieces n cs nc nw gen sh = Ok l ->
  concat (map (take rows) (map (bounds n) l)) = rows.
Proof. intro A. exact (@pieces_concat A). Qed.
Print Assumptions C12_pieces_concat.

(* it does return for every argument combination the documentation allows (one of chunksize / num_chunks, positive counts) *)
Theorem C12_split_returns : forall n cs nc nw gen sh,
  n > 0 -> (sh = true -> gen = true) -> split_sizes_ok n cs nc nw ->
  exists l, split_pieces n cs nc nw gen sh = Ok l.
Proof. exact split_ok. Qed.
Print Assumptions C12_split_returns.

(* python's -(n // -k) is the ceiling of n / k *)
Theorem C12_pyceil_is_ceiling : forall n k, k > 0 ->
  pyceil n k = (n + k - 1) / k /\ n <= pyceil n k * k /\ pyceil n k * k < n + k.
Proof. intros n k H. split; [now apply pyceil_closed|now apply pyceil_bounds]. Qed.
Print Assumptions C12_pyceil_is_ceiling.

(* the pieces are exactly: size s = chunksize (or ceil(n / min(n, num_chunks))), the last one ragged *)
Theorem C12_pieces_closed_form : forall n cs nc nw gen sh l s,
  n > 0 -> split_pieces n cs nc nw gen sh = Ok l -> eff_size n cs nc nw = Some s ->
  map (bounds n) l = spec_bounds n s.
Proof. exact pieces_closed_form. Qed.
Print Assumptions C12_pieces_closed_form.

Theorem C12_num_chunks_bound : forall n k nw gen sh l,
  n > 0 -> split_pieces n None (Some k) nw gen sh = Ok l -> List.length l <= k.
Proof. exact num_chunks_bound. Qed.
Print Assumptions C12_num_chunks_bound.

(* index_with_generator on/off: same slices *)
Theorem C12_gen_eq_nogen : forall n cs nc nw,
  n > 0 -> split_sizes_ok n cs nc nw ->
  rmap (map (bounds n)) (split_pieces n cs nc nw true false) = rmap (map (bounds n)) (split_pieces n cs nc nw false false).
Proof. exact gen_eq_nogen. Qed.
Print Assumptions C12_gen_eq_nogen.

(* shuffle=True: the chunks are consecutive pieces of the random permutation: every row exactly once *)
Theorem C12_shuffle_partition : forall rp cs nc nw l,
  rp <> [] -> split_pieces (List.length rp) cs nc nw true true = Ok l -> concat (shuffle_pieces rp l) = rp.
Proof. exact shuffle_partition. Qed.
Print Assumptions C12_shuffle_partition.

(* ================================================================= reassembly *)
(* the property as stated, for ALL result lists (None results anywhere): with out= (regular, or shared / memmap written
   by the workers) chunk k of the results is written at slice k of out, a None result leaves its slice as it was.
   (Before fix S1 / C12-a this was false of the faithful model: `start` was not advanced for None items.) *)
Theorem C12_reassembly_offsets : forall (B : Type) n bs (items : list (option (list B))) out,
  tiles 0 n bs -> List.length out = n ->
  Forall2 (fun ab it => match it with Some rows => List.length rows = snd ab - fst ab | None => True end) bs items ->
  reassemble_out out bs items = Ok (seq_out out bs items) /\ shared_out out bs items = Ok (seq_out out bs items).
Proof.
  intros B n bs items out Ht Hn HF. apply (reassembly_offsets bs items out 0 n Ht); [rewrite Hn; apply le_n|exact HF].
Qed.
Print Assumptions C12_reassembly_offsets.

(* map with ANY function whose non-None results have the length of their chunk: both out= kinds hold the sequential form *)
Theorem C12_map_out_sequential : forall (A B : Type) (f : list A -> option (list B)) (rows : list A) out cs nc nw gen l,
  List.length rows > 0 -> List.length out = List.length rows ->
  split_pieces (List.length rows) cs nc nw gen false = Ok l ->
  (forall ab, In ab (map (bounds (List.length rows)) l) -> fitsn ab (f (take rows ab))) ->
  let bs := map (bounds (List.length rows)) l in
  let items := trusted_imap (fun ab => f (take rows ab)) bs in
  map_model f rows ORegular out cs nc nw gen = Ok (RetOut (seq_out out bs items)) /\
  map_model f rows OShared out cs nc nw gen = Ok (RetNoneOut (seq_out out bs items)).
Proof. intros A B. exact (@map_out_sequential A B). Qed.
Print Assumptions C12_map_out_sequential.

(* map with a row-wise function = the function applied to the whole, for every chunking and every out= kind
   (imap in submission order is the trusted part) *)
Theorem C12_map_eq_whole : forall (A B : Type) (g : A -> B) (rows : list A) out cs nc nw gen l,
  List.length rows > 0 -> split_pieces (List.length rows) cs nc nw gen false = Ok l ->
  map_model (fun r => Some (map g r)) rows ONone out cs nc nw gen = Ok (RetCat (map g rows)) /\
  (List.length out = List.length rows ->
     map_model (fun r => Some (map g r)) rows ORegular out cs nc nw gen = Ok (RetOut (map g rows)) /\
     map_model (fun r => Some (map g r)) rows OShared out cs nc nw gen = Ok (RetNoneOut (map g rows))).
Proof.
  intros A B g rows out cs nc nw gen l Hn Hs. split; [eapply map_rowwise_cat; eassumption|].
  intro Ho. eapply map_rowwise_out; eassumption.
Qed.
Print Assumptions C12_map_eq_whole.

(* shared / memmap out=: the workers write their own slices; any completion order gives the same buffer *)
Theorem C12_shared_out_order_free : forall (B : Type) n bs (items : list (option (list B))) out ws,
  tiles 0 n bs -> Forall2 fits bs items -> List.length out = n ->
  Permutation (combine (map fst bs) (somes items)) ws ->
  run_assign ws out = concat (somes items) /\ shared_out out bs items = Ok (concat (somes items)).
Proof. intro B. exact (@shared_out_order_free B). Qed.
Print Assumptions C12_shared_out_order_free.

(* ================================================================= map / map_iter end to end (Model/C12_Map.v) *)
(* map over ANY dim (negative dims normalised as _maybe_correct_neg_dim does), any chunksize (0: unbind and re-stack), num_chunks,
   worker count, generator mode, progress bar, with a row-wise function: the result is the function applied to the whole;
   with out= (regular / shared / memmap) the buffer ends up holding it *)
Theorem C12_map_full_eq_whole : forall (A B : Type) (g : A -> B) shape rows oshape out p d l,
  correct_neg_dim (p_dim p) (List.length shape) = Ok d ->
  List.length rows = nth d shape 0 -> List.length rows > 0 ->
  split_pieces (List.length rows) (p_cs p) (p_nc p) (p_nw p) (p_gen p) false = Ok l ->
  map_full (rowfn g) shape rows ONone oshape out p = Ok (RetCat (map g rows)) /\
  (d < List.length oshape -> nth d oshape 0 = List.length rows -> List.length out = List.length rows ->
     map_full (rowfn g) shape rows ORegular oshape out p = Ok (RetOut (map g rows)) /\
     map_full (rowfn g) shape rows OShared oshape out p = Ok (RetNoneOut (map g rows))).
Proof.
  intros A B g shape rows oshape out p d l Hd Hn Hpos Hs. split; [eapply map_full_rowwise_cat; eassumption|].
  intros Hod Hon Hol. split.
  - apply (map_full_rowwise_out g shape rows ORegular oshape out p d l); try assumption; discriminate.
  - apply (map_full_rowwise_out g shape rows OShared oshape out p d l); try assumption; discriminate.
Qed.
Print Assumptions C12_map_full_eq_whole.

(* ANY function whose results are None or have the batch size of their chunk along dim: out= holds the sequential form
   (result k at slice k, None leaves the slice as it was), for every dim and chunking parameter *)
Theorem C12_map_full_out_sequential : forall (A B : Type) (f : bool -> list A -> option (list B)) shape rows kind oshape out p d l,
  kind <> ONone ->
  correct_neg_dim (p_dim p) (List.length shape) = Ok d ->
  List.length rows = nth d shape 0 -> List.length rows > 0 ->
  d < List.length oshape -> nth d oshape 0 = List.length rows -> List.length out = List.length rows ->
  split_pieces (List.length rows) (p_cs p) (p_nc p) (p_nw p) (p_gen p) false = Ok l ->
  (forall q, In q l -> fitsn (bounds (List.length rows) q) (f (is_unbound q) (piece_rows rows q))) ->
  map_full f shape rows kind oshape out p
  = Ok (wrap_out kind (seq_out out (map (bounds (List.length rows)) l) (map_items f rows l))).
Proof. intros A B. exact (@map_full_out_sequential A B). Qed.
Print Assumptions C12_map_full_out_sequential.

(* ANY function, no out=: the cat along dim of the non-None results in order — results may have another batch size along dim *)
Theorem C12_map_full_cat_sequential : forall (A B : Type) (f : bool -> list A -> option (list B)) shape rows oshape out p d l,
  correct_neg_dim (p_dim p) (List.length shape) = Ok d ->
  List.length rows = nth d shape 0 ->
  split_pieces (List.length rows) (p_cs p) (p_nc p) (p_nw p) (p_gen p) false = Ok l ->
  p_cs p <> Some 0 ->
  map_full f shape rows ONone oshape out p
  = Ok (match somes (map_items f rows l) with [] => RetNone | r => RetCat (concat r) end).
Proof. intros A B. exact (@map_full_cat_sequential A B). Qed.
Print Assumptions C12_map_full_cat_sequential.

(* dim: a negative dim is the same call as its positive form; a dim outside [-rank, rank) is rejected (IndexError) *)
Theorem C12_map_full_dim : forall (A B : Type) (f : bool -> list A -> option (list B)) shape rows kind oshape out cs nc nw gen pbar,
  (forall d, d < List.length shape ->
     map_full f shape rows kind oshape out
       {| p_dim := Z.of_nat d - Z.of_nat (List.length shape); p_cs := cs; p_nc := nc; p_nw := nw; p_gen := gen; p_pbar := pbar |}
     = map_full f shape rows kind oshape out
       {| p_dim := Z.of_nat d; p_cs := cs; p_nc := nc; p_nw := nw; p_gen := gen; p_pbar := pbar |}) /\
  (forall dim, (dim < - Z.of_nat (List.length shape) \/ Z.of_nat (List.length shape) <= dim)%Z ->
     map_full f shape rows kind oshape out
       {| p_dim := dim; p_cs := cs; p_nc := nc; p_nw := nw; p_gen := gen; p_pbar := pbar |} = Raised EIndex).
Proof.
  intros. split.
  - intros d Hd. now apply map_full_neg_dim.
  - intros dim Hd. now apply map_full_bad_dim.
Qed.
Print Assumptions C12_map_full_dim.

(* an EMPTY mapped dim (n = 0), as the code behaves: num_chunks / default mode raises (ValueError from chunk(0), or
   ZeroDivisionError from the generator), chunksize == 0 returns None, chunksize >= 1 calls the function once on the empty
   tensordict without the generator and not at all with it — the generator and non-generator modes agree only for n > 0 *)
Theorem C12_map_full_empty_dim : forall (A B : Type) (f : bool -> list A -> option (list B)) shape oshape out p d,
  correct_neg_dim (p_dim p) (List.length shape) = Ok d -> nth d shape 0 = 0 ->
  map_full f shape [] ONone oshape out p =
  match p_cs p, p_nc p with
  | Some _, Some _ => Raised EValue
  | Some 0, None => Ok RetNone
  | Some (S _), None => if p_gen p then Ok RetNone
                        else Ok (match f false [] with None => RetNone | Some r => RetCat (concat [r]) end)
  | None, _ => if p_gen p then Raised EZeroDiv else Raised EValue
  end.
Proof. intros A B. exact (@map_full_empty_dim A B). Qed.
Print Assumptions C12_map_full_empty_dim.

(* the progress bar changes nothing, and is told the number of chunks (nothing with the generator) *)
Theorem C12_map_full_pbar : forall (A B : Type) (f : bool -> list A -> option (list B)) shape rows kind oshape out p,
  map_full f shape rows kind oshape out p
  = map_full f shape rows kind oshape out
      {| p_dim := p_dim p; p_cs := p_cs p; p_nc := p_nc p; p_nw := p_nw p; p_gen := p_gen p; p_pbar := negb (p_pbar p) |}
  /\ (forall d l, correct_neg_dim (p_dim p) (List.length shape) = Ok d ->
       split_pieces (nth d shape 0) (p_cs p) (p_nc p) (p_nw p) (p_gen p) false = Ok l ->
       map_pbar_total shape p = Ok (if p_pbar p then Some (if p_gen p then None else Some (List.length l)) else None)).
Proof.
  intros. split; [apply map_full_pbar_transparent|]. intros d l. apply pbar_total_num_chunks.
Qed.
Print Assumptions C12_map_full_pbar.

(* map_iter without shuffle yields exactly the results of the chunks, in order (None results included); the chunks tile
   the mapped dim; with a row-wise function the concatenation of what is yielded is the function applied to the whole *)
Theorem C12_map_iter_in_order : forall (A B : Type) (f : bool -> list A -> option (list B)) shape rows p d l rp pi,
  correct_neg_dim (p_dim p) (List.length shape) = Ok d ->
  List.length rows = nth d shape 0 -> List.length rows > 0 ->
  split_pieces (List.length rows) (p_cs p) (p_nc p) (p_nw p) (p_gen p) false = Ok l ->
  map_iter_full f shape rows p false rp pi
  = Ok (map (fun q => f (is_unbound q) (take rows (bounds (List.length rows) q))) l)
  /\ tiles 0 (List.length rows) (map (bounds (List.length rows)) l).
Proof. intros A B. exact (@map_iter_in_order A B). Qed.
Print Assumptions C12_map_iter_in_order.

Theorem C12_map_iter_rowwise : forall (A B : Type) (g : A -> B) shape rows p d l rp pi yielded,
  correct_neg_dim (p_dim p) (List.length shape) = Ok d ->
  List.length rows = nth d shape 0 -> List.length rows > 0 ->
  split_pieces (List.length rows) (p_cs p) (p_nc p) (p_nw p) (p_gen p) false = Ok l ->
  map_iter_full (rowfn g) shape rows p false rp pi = Ok yielded ->
  concat (somes yielded) = map g rows.
Proof. intros A B. exact (@map_iter_rowwise A B). Qed.
Print Assumptions C12_map_iter_rowwise.

(* shuffle=True: for EVERY random permutation rp of the rows and EVERY completion order pi of the pool, what is yielded is a
   permutation of the results of the shuffled chunks, and (row-wise function) its rows are a permutation of the function
   applied to the whole: every row exactly once *)
Theorem C12_map_iter_shuffle : forall (A B : Type) (f : bool -> list A -> option (list B)) shape rows p d l rp pi,
  correct_neg_dim (p_dim p) (List.length shape) = Ok d ->
  List.length rows = nth d shape 0 ->
  split_pieces (List.length rows) (p_cs p) (p_nc p) (p_nw p) (p_gen p) true = Ok l ->
  Permutation pi (seq 0 (List.length l)) ->
  exists yielded,
    map_iter_full f shape rows p true rp pi = Ok yielded /\
    Permutation yielded (map (fun q => f (is_unbound q) (select_by rows (take rp (bounds (List.length rp) q)))) l).
Proof. intros A B. exact (@map_iter_shuffle_items A B). Qed.
Print Assumptions C12_map_iter_shuffle.

Theorem C12_map_iter_shuffle_rowwise : forall (A B : Type) (g : A -> B) shape rows p d l rp pi,
  correct_neg_dim (p_dim p) (List.length shape) = Ok d ->
  List.length rows = nth d shape 0 -> List.length rows > 0 ->
  Permutation rp (seq 0 (List.length rows)) ->
  split_pieces (List.length rows) (p_cs p) (p_nc p) (p_nw p) (p_gen p) true = Ok l ->
  Permutation pi (seq 0 (List.length l)) ->
  exists yielded,
    map_iter_full (rowfn g) shape rows p true rp pi = Ok yielded /\
    Permutation (concat (somes yielded)) (map g rows).
Proof. intros A B. exact (@map_iter_shuffle_rowwise A B). Qed.
Print Assumptions C12_map_iter_shuffle_rowwise.

(* ================================================================= thread pools *)
(* for EVERY option combination (also the defective ones) the result of the multithreaded apply does not depend on the
   completion order of the tasks *)
Theorem C12_mt_apply_order_free : forall fn o d con self others out pi1 pi2,
  Permutation pi1 pi2 ->
  mt_apply fn o d con self others out pi1 = mt_apply fn o d con self others out pi2.
Proof. exact mt_apply_order_free. Qed.
Print Assumptions C12_mt_apply_order_free.

(* ... and for EVERY option combination (inplace, out=, filter_empty in {True, False, None}, default=, call_on_nested,
   named / nested_keys, any other operands) it equals the single-threaded _apply_nest, result or exception, for every
   completion order in which all tasks complete.
   (Before fixes S16 / S15 / C12-b this was false of the faithful model for out=, default= and filter_empty=None.) *)
Theorem C12_mt_eq_st : forall fn o d con self others out pi,
  (forall id, id < ntasks con self -> In id pi) ->
  mt_apply fn o d con self others out pi = st_apply fn o d con self others out.
Proof. exact mt_eq_st_all_complete. Qed.
Print Assumptions C12_mt_eq_st.

(* in-place apply (inplace=True): the state left behind is the single-threaded one as well — every leaf of self keeps its
   IDENTITY (the tensors are written into with copy_, never rebound) and the structure is unchanged, for every completion
   order; [erase] forgets the contents and keeps keys, nesting and leaf identities.  (A thread-pool setter that rebinds
   result._tensordict[key] in place — seeded change C12-2 — makes the model's leaves take the identity 0 of the fresh tensors.) *)
Theorem C12_mt_inplace_keeps_identities : forall fn o d self others out pi f',
  o_inplace o = true -> leafy fn -> uniq_f self ->
  (forall id, id < ntasks false self -> In id pi) ->
  mt_apply fn o d false self others out pi = ORet (Some f') -> erase_f f' = erase_f self.
Proof. exact mt_inplace_keeps_identities. Qed.
Print Assumptions C12_mt_inplace_keeps_identities.

(* the METADATA of the result (Model/C12_Meta.v): batch size, dim names, device and lock of the result and of every nested
   tensordict in it are those of the single-threaded form — for every nesting, every batch_size= / device= / names= override
   (given as torch.Size / torch.device or as list / string), inplace, checked on or off, and every out= (also locked, of another
   batch size or device, or lacking entries); exceptions included *)
Theorem C12_mt_meta_eq_st : forall o dev self names out,
  mt_meta o dev names self out = st_meta o dev names self out.
Proof. exact mt_meta_eq_st_meta. Qed.
Print Assumptions C12_mt_meta_eq_st.

(* in place the metadata is untouched; out of place in checked mode (the _fast_apply default) the root carries names= *)
Theorem C12_mt_meta_root : forall o dev self names out,
  (mo_inplace o = true -> mt_meta o dev names self out = MOk self) /\
  (forall nm r, mo_inplace o = false -> mo_checked o = true -> names = Some nm -> out = None ->
     mt_meta o dev names self out = MOk r -> match r with MNode m _ => m_names m = nm end).
Proof.
  intros o dev self names out. split.
  - intro H. now apply meta_inplace.
  - intros nm r Hip Hc -> ->. now apply meta_root_names.
Qed.
Print Assumptions C12_mt_meta_root.

(* ================================================================= multithreaded writers *)
(* memmap_ / memmap / memmap_like: every completion order of the writer tasks leaves the same value under every key *)
Theorem C12_writers_order_free : forall ops1 ops2 d0,
  Permutation ops1 ops2 -> NoDup (map fst ops1) ->
  forall q, aget (run_writes ops1 d0) q = aget (run_writes ops2 d0) q.
Proof. exact writers_order_free. Qed.
Print Assumptions C12_writers_order_free.

(* in place (memmap_) the key order is the single-threaded one as well ... *)
Theorem C12_writers_inplace_key_order : forall ops d0,
  (forall p, In p (map fst ops) -> In p (map fst d0)) -> map fst (run_writes ops d0) = map fst d0.
Proof. exact writers_inplace_key_order. Qed.
Print Assumptions C12_writers_inplace_key_order.

(* ... out of place (memmap, memmap_like) the KEY ORDER of the result follows the completion order *)
Theorem C12_writers_fresh_key_order_refuted :
  exists ops1 ops2, Permutation ops1 ops2 /\ NoDup (map fst ops1) /\
                    map fst (run_writes ops1 []) <> map fst (run_writes ops2 []).
Proof. exact writers_fresh_key_order_refuted. Qed.
Print Assumptions C12_writers_fresh_key_order_refuted.

(* consolidate(num_threads): the assign tasks write disjoint ranges; every completion order fills the storage with the
   concatenation of the (padded) entries *)
Theorem C12_consolidate_order_free : forall (B : Type) (chunks : list (list B)) (storage : list B) ws,
  List.length storage = List.length (concat chunks) ->
  Permutation (layout_writes 0 chunks) ws ->
  run_assign ws storage = concat chunks.
Proof. intro B. exact (@consolidate_order_free B). Qed.
Print Assumptions C12_consolidate_order_free.

(* a FAILING writer task (repair S2): the threaded form raises exactly when the single-threaded form does, and the SAME failure
   (the first failing task in submission order), whatever the completion order; without a failure every completion order
   leaves the values of the single-threaded form *)
Theorem C12_writers_failure_as_sequential : forall submitted completed d0,
  Permutation submitted completed -> NoDup (map fst submitted) ->
  match run_writes_st submitted d0 with
  | WRaised e => run_writes_mt submitted completed d0 = WRaised e
  | WDone d1 => exists d2, run_writes_mt submitted completed d0 = WDone d2 /\ forall q, aget d2 q = aget d1 q
  end.
Proof. exact writers_failure_as_sequential. Qed.
Print Assumptions C12_writers_failure_as_sequential.

Theorem C12_writers_mt_raises_iff : forall submitted completed d0 e,
  run_writes_mt submitted completed d0 = WRaised e <-> run_writes_st submitted d0 = WRaised e.
Proof. exact writers_mt_raises_iff. Qed.
Print Assumptions C12_writers_mt_raises_iff.

(* ================================================================= non-vacuity *)
Example C12_ex_partition :
  split_pieces 7 (Some 3) None 2 true false = Ok [PSl 0 3; PSl 3 6; PSl 6 9]
  /\ map (bounds 7) [PSl 0 3; PSl 3 6; PSl 6 9] = [(0, 3); (3, 6); (6, 7)]
  /\ split_pieces 7 None (Some 4) 2 false false = Ok [PSl 0 2; PSl 2 4; PSl 4 6; PSl 6 7]
  /\ split_sizes_ok 7 None (Some 4) 2 /\ eff_size 7 None (Some 4) 2 = Some 2.
Proof. repeat split; try reflexivity. cbn. auto. Qed.

Example C12_ex_reassembly :
  reassemble_out [0; 0; 0; 0; 0]%Z [(0, 2); (2, 4); (4, 5)] [None; Some [3; 4]%Z; Some [5]%Z] = Ok [0; 0; 3; 4; 5]%Z
  /\ seq_out [0; 0; 0; 0; 0]%Z [(0, 2); (2, 4); (4, 5)] [None; Some [3; 4]%Z; Some [5]%Z] = [0; 0; 3; 4; 5]%Z
  /\ tiles 0 5 [(0, 2); (2, 4); (4, 5)].
Proof. split; [reflexivity|]. split; [reflexivity|]. cbn. repeat split; auto with arith. Qed.

(* map over dim -1 of a [2, 7] batch, chunksize 3 with the generator and a progress bar, out= shared; chunksize 0; a result with
   a single row is BROADCAST over its chunk by update_; the empty dim with and without the generator *)
Example C12_ex_map_full :
  let p := {| p_dim := (-1)%Z; p_cs := Some 3; p_nc := None; p_nw := 2; p_gen := true; p_pbar := true |} in
  let p0 := {| p_dim := 1%Z; p_cs := Some 0; p_nc := None; p_nw := 2; p_gen := false; p_pbar := false |} in
  let rows := [10; 11; 12; 13; 14; 15; 16]%Z in
  correct_neg_dim (p_dim p) 2 = Ok 1 /\ List.length rows = nth 1 [2; 7] 0 /\
  split_pieces 7 (p_cs p) (p_nc p) (p_nw p) (p_gen p) false = Ok [PSl 0 3; PSl 3 6; PSl 6 9] /\
  map_full (rowfn Z.succ) [2; 7] rows OShared [2; 7] (repeat 0%Z 7) p = Ok (RetNoneOut [11; 12; 13; 14; 15; 16; 17]%Z) /\
  map_full (rowfn Z.succ) [2; 7] rows ONone [] [] p0 = Ok (RetCat [11; 12; 13; 14; 15; 16; 17]%Z) /\
  map_full (fun _ r => Some (firstn 1 r)) [2; 7] rows ORegular [2; 7] (repeat 0%Z 7) p
    = Ok (RetOut [10; 10; 10; 13; 13; 13; 16]%Z) /\
  map_full (fun _ r => Some (r ++ r)) [2; 7] rows ONone [] [] p
    = Ok (RetCat [10; 11; 12; 10; 11; 12; 13; 14; 15; 13; 14; 15; 16; 16]%Z) /\
  map_full (rowfn Z.succ) [2; 0] [] ONone [] [] {| p_dim := 1%Z; p_cs := Some 3; p_nc := None; p_nw := 2; p_gen := false; p_pbar := false |}
    = Ok (RetCat []) /\
  map_full (rowfn Z.succ) [2; 0] [] ONone [] [] {| p_dim := 1%Z; p_cs := Some 3; p_nc := None; p_nw := 2; p_gen := true; p_pbar := false |}
    = Ok RetNone /\
  map_iter_full (rowfn Z.succ) [2; 7] rows p true [3; 1; 4; 0; 6; 5; 2] [2; 0; 1]
    = Ok [Some [13]; Some [14; 12; 15]; Some [11; 17; 16]]%Z /\
  Permutation [2; 0; 1] (seq 0 3) /\ Permutation [3; 1; 4; 0; 6; 5; 2] (seq 0 7).
Proof.
  cbn zeta. repeat split; try (vm_compute; reflexivity).
  - apply (perm_trans (l' := [0; 2; 1])); [apply perm_swap|apply perm_skip, perm_swap].
  - apply NoDup_Permutation; [repeat constructor; cbn; intuition lia|apply seq_NoDup|].
    intro x. rewrite in_seq. cbn. lia.
Qed.

From Coq Require Import String.
Open Scope string_scope.
Example C12_ex_threads :
  let self := FCons "a" (Leaf 1 1) (FCons "n" (Node (FCons "c" (Leaf 2 2) (FCons "d" (Leaf 3 3) FNil))) (FCons "b" (Leaf 4 4) FNil)) in
  let oi := {| o_named := false; o_nested_keys := false; o_inplace := true; o_fe := Some false |} in
  let o := {| o_named := false; o_nested_keys := false; o_inplace := false; o_fe := Some false |} in
  ntasks false self = 4
  /\ (forall id, id < 4 -> In id [3; 1; 0; 2])
  /\ mt_apply inc_fn o NoDefault false self [] None [3; 1; 0; 2] = st_apply inc_fn o NoDefault false self [] None
  /\ mt_apply inc_fn o Default false self [FCons "n" (Node FNil) FNil] (Some self) [3; 1; 0; 2]
     = ORet (Some (FCons "a" (Leaf 0 2) (FCons "n" (Node (FCons "c" (Leaf 0 3) (FCons "d" (Leaf 0 4) FNil))) (FCons "b" (Leaf 0 5) FNil))))
  /\ st_apply inc_fn o NoDefault false self [] None
     = ORet (Some (FCons "a" (Leaf 0 2) (FCons "n" (Node (FCons "c" (Leaf 0 3) (FCons "d" (Leaf 0 4) FNil))) (FCons "b" (Leaf 0 5) FNil))))
  (* out of place the result holds the fresh tensors (identity 0); in place the leaves of self keep theirs *)
  /\ mt_apply inc_fn oi NoDefault false self [] None [3; 1; 0; 2]
     = ORet (Some (FCons "a" (Leaf 1 2) (FCons "n" (Node (FCons "c" (Leaf 2 3) (FCons "d" (Leaf 3 4) FNil))) (FCons "b" (Leaf 4 5) FNil))))
  /\ leafy inc_fn /\ uniq_f self.
Proof.
  cbn zeta. split; [reflexivity|]. split.
  - intros id H. do 4 (destruct id as [|id]; [cbn; tauto|]). lia.
  - repeat split; try (vm_compute; reflexivity); try (cbn; intuition congruence).
    intros key i v ov. right. eexists _, _. reflexivity.
Qed.

Example C12_ex_meta :
  let m0 := {| m_bs := [3]; m_names := Some ["a"]; m_dev := None; m_locked := false |} in
  let self := MNode m0 (MCons "n" (MNode m0 MNil) MNil) in
  let o := {| mo_bs := Some [3; 2]; mo_bs_size := true; mo_dev_obj := true; mo_inplace := false; mo_checked := true |} in
  let m1 := {| m_bs := [3; 2]; m_names := Some ["t"; "u"]; m_dev := Some 0; m_locked := false |} in
  let m2 := {| m_bs := [3; 2]; m_names := None; m_dev := Some 0; m_locked := false |} in
  mt_meta o (Some (Some 0)) (Some (Some ["t"; "u"])) self None = MOk (MNode m1 (MCons "n" (MNode m2 MNil) MNil))
  /\ st_meta o (Some (Some 0)) (Some (Some ["t"; "u"])) self None = MOk (MNode m1 (MCons "n" (MNode m2 MNil) MNil))
  (* device given as a string, out= on the same device: refused unless checked *)
  /\ mt_meta {| mo_bs := None; mo_bs_size := true; mo_dev_obj := false; mo_inplace := false; mo_checked := false |}
             (Some None) None self (Some self) = MRaised MDevice.
Proof. cbn zeta. repeat split; vm_compute; reflexivity. Qed.

Example C12_ex_writer_failure :
  let sub := [(["a"], inl 1%Z); (["b"], inr 7); (["c"], inl 3%Z); (["d"], inr 9)] in
  let comp := [(["d"], inr 9); (["c"], inl 3%Z); (["a"], inl 1%Z); (["b"], inr 7)] in
  run_writes_st sub [] = WRaised 7 /\ run_writes_mt sub comp [] = WRaised 7 /\ Permutation sub comp
  /\ NoDup (map fst sub).
Proof.
  cbn zeta. repeat split; try reflexivity.
  - apply Permutation_sym. apply (perm_trans (l' := [(["c"], inl 3%Z); (["d"], inr 9); (["a"], inl 1%Z); (["b"], inr 7)])); [apply perm_swap|].
    apply (Permutation_app_comm [(["c"], inl 3%Z); (["d"], inr 9)] [(["a"], inl 1%Z); (["b"], inr 7)]).
  - repeat constructor; cbn; intuition congruence.
Qed.

Example C12_ex_consolidate :
  layout_writes 0 [[1%Z; 2%Z]; [3%Z]; [4%Z; 5%Z; 6%Z]] = [(0, [1%Z; 2%Z]); (2, [3%Z]); (3, [4%Z; 5%Z; 6%Z])]
  /\ run_assign [(3, [4%Z; 5%Z; 6%Z]); (0, [1%Z; 2%Z]); (2, [3%Z])] [0%Z; 0%Z; 0%Z; 0%Z; 0%Z; 0%Z]
     = [1%Z; 2%Z; 3%Z; 4%Z; 5%Z; 6%Z].
Proof. split; reflexivity. Qed.
