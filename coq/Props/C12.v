(* C12 — placeholder while the harness is brought up (replaced below) *)
From Coq Require Import List.
From TD Require Import Model.C12_Chunk.
Theorem C12_placeholder : True. Proof. exact I. Qed.
Print Assumptions C12_placeholder.
