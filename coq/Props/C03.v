(* C03 — indexing selects exactly what torch indexing selects.  Property theorems only. *)
From Coq Require Import ZArith List Bool.
Import ListNotations.
From TD Require Import Spec.PySlice Model.C03_Index Spec.C03_TorchIndex Proofs.C03_IndexP.
Open Scope nat_scope.

(* batch size of td[idx] = torch's shape for a tensor of the batch shape: every rank, every Ellipsis-free index
   (ints, slices, None, integer arrays of any shape, 0-dim integer tensors, boolean masks of any rank, any number
   of advanced indices in any position) that torch accepts *)
Theorem C03_gbs_eq_torch : forall bs idx r,
  existsb is_ell idx = false -> torch_shape bs idx = Some r -> gbs bs idx = Ok r.
Proof. exact gbs_eq_torch_shape. Qed.
Print Assumptions C03_gbs_eq_torch.

(* the code's pass-1 flag is exactly "the advanced indices are not adjacent" *)
Theorem C03_disjoint_iff_not_adjacent : forall idx dims sl,
  slots idx dims = Some sl -> pass1 idx = negb (adjacent sl).
Proof. exact pass1_not_adjacent. Qed.
Print Assumptions C03_disjoint_iff_not_adjacent.

(* Ellipsis: the library's expansion is the spec's (one Ellipsis, masks count their rank) ... *)
Theorem C03_convert_ellipsis_spec : forall pre post bs,
  existsb is_ell pre = false -> existsb is_ell post = false ->
  forallb mask_wf (pre ++ post) = true ->
  total_consumed (pre ++ post) <= length bs ->
  convert_ellipsis (pre ++ IEll :: post) bs
  = Ok (pre ++ repeat full_slice (length bs - total_consumed (pre ++ post)) ++ post)
  /\ expand_ell (pre ++ IEll :: post) (length bs)
  = Some (pre ++ repeat full_slice (length bs - total_consumed (pre ++ post)) ++ post).
Proof. intros; split; [now apply convert_ellipsis_spec|now apply expand_ell_one]. Qed.
Print Assumptions C03_convert_ellipsis_spec.

(* every entry (shape bs ++ feat) and every nested node indexed with the same index gets the computed batch size
   as prefix and keeps its trailing dims *)
Theorem C03_index_feat : forall bs feat idx sl B,
  slots idx bs = Some sl -> bcast_all (adv_shapes idx) = Ok B ->
  slots idx (bs ++ feat) = Some (sl ++ map K feat) /\ place B (sl ++ map K feat) = place B sl ++ feat.
Proof. exact index_feat. Qed.
Print Assumptions C03_index_feat.

(* rejection (partial): if an entry accepts an index that stays within the batch dims, torch accepts it on the batch
   shape with the prefix result — so, contrapositively, an index torch rejects for the batch shape is rejected by
   the entry's own indexing as soon as there is an entry *)
Theorem C03_reject_partial : forall bs feat idx r',
  existsb is_ell idx = false -> total_consumed idx <= length bs ->
  torch_shape (bs ++ feat) idx = Some r' -> exists r, torch_shape bs idx = Some r /\ r' = r ++ feat.
Proof. exact reject_partial. Qed.
Print Assumptions C03_reject_partial.

(* full rejection statement is false of the faithful model (finding D25): the bookkeeping accepts an index that
   consumes more dims than the batch rank *)
Definition C03_reject_full_statement : Prop :=
  forall bs idx, torch_shape bs idx = None -> gbs bs idx = Reject.
Theorem C03_reject_refuted : exists bs idx, torch_shape bs idx = None /\ exists r, gbs bs idx = Ok r.
Proof. exact reject_refuted. Qed.
Print Assumptions C03_reject_refuted.

(* non-vacuity *)
Example C03_ex1 : torch_shape [3; 4; 5; 6] [ISl None None None; IAdv [2]; INone; IAdv [2]] = Some [2; 3; 1; 6]
  /\ gbs [3; 4; 5; 6] [ISl None None None; IAdv [2]; INone; IAdv [2]] = Ok [2; 3; 1; 6].
Proof. split; reflexivity. Qed.
Example C03_ex2 : torch_shape [2; 3; 4] [IMask [2; 3] 4; IEll] = Some [4; 4]
  /\ convert_ellipsis [IMask [2; 3] 4; IEll] [2; 3; 4] = Ok [IMask [2; 3] 4; full_slice].
Proof. split; reflexivity. Qed.
