(* C03 — indexing selects exactly what torch indexing selects.  Property theorems only. *)
From Coq Require Import ZArith List Bool Lia.
Import ListNotations.
From TD Require Import Spec.PySlice Model.C03_Index Spec.C03_TorchIndex Proofs.C03_IndexP.
From TD Require Import Spec.C03_TorchSel Model.C03_Names Model.C03_SetItem Proofs.C03_SelP Proofs.C03_SetP Proofs.C03_NamesP Proofs.C03_BoundsP Proofs.C03_OriginP Proofs.C03_ProvP.
Open Scope nat_scope.

(* batch size of td[idx] = torch's shape for a tensor of the batch shape: every rank, every Ellipsis-free index
   (ints, slices, None, integer arrays of any shape, 0-dim integer tensors, boolean masks of any rank, any number
   of advanced indices in any position) that torch accepts *)
Theorem C03_gbs_eq_torch : forall bs idx r,
  existsb is_ell idx = false -> torch_shape bs idx = Some r -> gbs bs idx = Ok r.
Proof. exact gbs_eq_torch_shape. Qed.
Print Assumptions C03_gbs_eq_torch.

(* the code's pass-1 flag is exactly "the advanced indices are not adjacent" *)
Theorem C03_disjoint_iff_not_adjacent : forall idx dims sl,
  slots idx dims = Some sl -> pass1 idx = negb (adjacent sl).
Proof. exact pass1_not_adjacent. Qed.
Print Assumptions C03_disjoint_iff_not_adjacent.

(* Ellipsis: the library's expansion is the spec's (one Ellipsis, masks count their rank) ... *)
Theorem C03_convert_ellipsis_spec : forall pre post bs,
  existsb is_ell pre = false -> existsb is_ell post = false ->
  forallb mask_wf (pre ++ post) = true ->
  total_consumed (pre ++ post) <= length bs ->
  convert_ellipsis (pre ++ IEll :: post) bs
  = Ok (pre ++ repeat full_slice (length bs - total_consumed (pre ++ post)) ++ post)
  /\ expand_ell (pre ++ IEll :: post) (length bs)
  = Some (pre ++ repeat full_slice (length bs - total_consumed (pre ++ post)) ++ post).
Proof. intros; split; [now apply convert_ellipsis_spec|now apply expand_ell_one]. Qed.
Print Assumptions C03_convert_ellipsis_spec.

(* every entry (shape bs ++ feat) and every nested node indexed with the same index gets the computed batch size
   as prefix and keeps its trailing dims *)
Theorem C03_index_feat : forall bs feat idx sl B,
  slots idx bs = Some sl -> bcast_all (adv_shapes idx) = Ok B ->
  slots idx (bs ++ feat) = Some (sl ++ map K feat) /\ place B (sl ++ map K feat) = place B sl ++ feat.
Proof. exact index_feat. Qed.
Print Assumptions C03_index_feat.

(* rejection (partial): if an entry accepts an index that stays within the batch dims, torch accepts it on the batch
   shape with the prefix result — so, contrapositively, an index torch rejects for the batch shape is rejected by
   the entry's own indexing as soon as there is an entry *)
Theorem C03_reject_partial : forall bs feat idx r',
  existsb is_ell idx = false -> total_consumed idx <= length bs ->
  torch_shape (bs ++ feat) idx = Some r' -> exists r, torch_shape bs idx = Some r /\ r' = r ++ feat.
Proof. exact reject_partial. Qed.
Print Assumptions C03_reject_partial.

(* full rejection statement is false of the faithful model (finding D25): the bookkeeping accepts an index that
   consumes more dims than the batch rank *)
Definition C03_reject_full_statement : Prop :=
  forall bs idx, torch_shape bs idx = None -> gbs bs idx = Reject.
Theorem C03_reject_refuted : exists bs idx, torch_shape bs idx = None /\ exists r, gbs bs idx = Ok r.
Proof. exact reject_refuted. Qed.
Print Assumptions C03_reject_refuted.

(* non-vacuity *)
Example C03_ex1 : torch_shape [3; 4; 5; 6] [ISl None None None; IAdv [2]; INone; IAdv [2]] = Some [2; 3; 1; 6]
  /\ gbs [3; 4; 5; 6] [ISl None None None; IAdv [2]; INone; IAdv [2]] = Ok [2; 3; 1; 6].
Proof. split; reflexivity. Qed.
Example C03_ex2 : torch_shape [2; 3; 4] [IMask [2; 3] 4; IEll] = Some [4; 4]
  /\ convert_ellipsis [IMask [2; 3] 4; IEll] [2; 3; 4] = Ok [IMask [2; 3] 4; full_slice].
Proof. split; reflexivity. Qed.

(* ================= element selection (Spec/C03_TorchSel.sel: result position -> source position, index VALUES included) *)

(* every entry is indexed along its batch dims only: the element at position r ++ f of an indexed entry of shape
   bs ++ feat is the source element at (sel bs idx r) ++ f — all ranks, all Ellipsis-free indices (ints incl. negative,
   slices, None, integer arrays and boolean masks by value, any number, any position) *)
Theorem C03_sel_feat : forall bs feat idx r f s,
  sel_ne bs idx r = Some s -> length f = length feat ->
  sel_ne (bs ++ feat) idx (r ++ f) = Some (s ++ map Z.of_nat f).
Proof. exact sel_ne_feat. Qed.
Print Assumptions C03_sel_feat.

(* the same through the library's Ellipsis handling: the index is expanded against the BATCH shape, then handed to
   the entry *)
Theorem C03_sel_entry : forall bs feat idx idx' r f s,
  vexpand_ell idx (length bs) = Some idx' -> sel bs idx r = Some s -> length f = length feat ->
  sel_ne (bs ++ feat) idx' (r ++ f) = Some (s ++ map Z.of_nat f).
Proof. exact sel_entry. Qed.
Print Assumptions C03_sel_entry.

(* sel lives exactly on the positions of torch's result shape: defined only there ... *)
Theorem C03_sel_domain : forall bs idx r s,
  sel bs idx r = Some s -> exists sh, torch_shape bs (map erase idx) = Some sh /\ length r = length sh.
Proof. exact sel_some_shape. Qed.
Print Assumptions C03_sel_domain.

(* ... and defined everywhere there *)
Theorem C03_sel_total : forall bs idx sl B r,
  slots (map erase idx) bs = Some sl -> bcast_all (adv_shapes (map erase idx)) = Ok B ->
  length r = length (place B sl) -> exists s, sel_ne bs idx r = Some s.
Proof. exact sel_ne_defined. Qed.
Print Assumptions C03_sel_total.

(* ... and it lands inside the source: every position of the result shape is sent to a position of the indexed tensor,
   given that the index entries read for that position are valid indices (vwf_at = torch's bounds check for them) *)
Theorem C03_sel_in_bounds : forall bs idx sl B r s,
  slots (map erase idx) bs = Some sl -> bcast_all (adv_shapes (map erase idx)) = Ok B ->
  in_range (place B sl) r ->
  vwf_at (fst (unplace (length B) sl r)) idx bs ->
  sel_ne bs idx r = Some s -> in_rangeZ bs s.
Proof. exact sel_ne_in_bounds. Qed.
Print Assumptions C03_sel_in_bounds.

(* ================= writes *)

(* the batch size a tensordict / dict value is expanded or reset to = torch's shape of the indexed batch *)
Theorem C03_setitem_bs : forall bs idx T,
  existsb is_ell idx = false -> torch_shape bs idx = Some T -> setitem_target bs idx = Ok T.
Proof. exact setitem_target_torch. Qed.
Print Assumptions C03_setitem_bs.

Theorem C03_setitem_action : forall bs idx vbs T a,
  existsb is_ell idx = false -> torch_shape bs idx = Some T -> setitem_value_action bs idx vbs = Ok a ->
  (a = SetAsIs /\ vbs = T) \/ (a = SetExpand T /\ is_suffix vbs T = true) \/ (a = SetReshape T /\ is_suffix vbs T = false).
Proof. exact setitem_action_torch. Qed.
Print Assumptions C03_setitem_action.

(* a key missing from the destination: the created entry, indexed with the same index, has exactly the value's shape *)
Theorem C03_new_key_shape : forall bs idx sl B s,
  slots idx bs = Some sl -> bcast_all (adv_shapes idx) = Ok B ->
  prefix_is (place B sl) s = true ->
  torch_shape (new_shape bs (place B sl) s) idx = Some s.
Proof. exact new_key_shape. Qed.
Print Assumptions C03_new_key_shape.

(* frame: an entry of shape bs ++ feat written through idx is touched exactly at (positions sel reaches in the batch) x
   (all feature positions) ... *)
Theorem C03_written_feat : forall bs feat idx q,
  existsb is_ell (map erase idx) = false -> total_consumed (map erase idx) <= length bs ->
  (written_ne (bs ++ feat) idx q <->
   exists p f, q = p ++ map Z.of_nat f /\ written_ne bs idx p /\ in_range feat f).
Proof. exact written_feat. Qed.
Print Assumptions C03_written_feat.

(* ... so a batch position outside the image of sel is unchanged in every entry, at every feature position *)
Theorem C03_write_frame : forall bs feat idx p f,
  existsb is_ell (map erase idx) = false -> total_consumed (map erase idx) <= length bs ->
  length f = length feat ->
  ~ written_ne bs idx p -> ~ written_ne (bs ++ feat) idx (p ++ map Z.of_nat f).
Proof. exact write_frame. Qed.
Print Assumptions C03_write_frame.

(* ... and an entry whose key does not occur in the value is the same entry after the write *)
Theorem C03_setitem_other_keys : forall f bs kids idx T items d' k',
  gbs bs idx = Ok T ->
  setitem (S f) (VN bs kids) idx (WTree (VN T items)) = Ok d' ->
  ~ In k' (map fst items) ->
  exists kids', d' = VN bs kids' /\ find_key k' kids' = find_key k' kids.
Proof. exact setitem_other_keys. Qed.
Print Assumptions C03_setitem_other_keys.

(* acceptance.  Full statement: a write torch accepts entry by entry is accepted.  False of the faithful model for nested
   dict values (finding D30): witness below; what holds: flat tensordict values with the indexed batch size *)
Definition C03_setitem_accept_full_statement : Prop :=
  forall dest idx t, leafwise_ok dest t idx = true -> setitem 8 dest idx (WDict t) <> Reject.
Theorem C03_setitem_accept_refuted :
  exists dest idx t, leafwise_ok dest t idx = true /\ setitem 8 dest idx (WDict t) = Reject.
Proof. exact setitem_dict_refuted. Qed.
Print Assumptions C03_setitem_accept_refuted.
Theorem C03_setitem_accept_partial : forall f bs kids idx T items,
  gbs bs idx = Ok T -> Forall (flat_item_ok kids idx) items ->
  setitem (S (S f)) (VN bs kids) idx (WTree (VN T items)) = Ok (VN bs kids).
Proof. exact setitem_flat_accepts. Qed.
Print Assumptions C03_setitem_accept_partial.

(* ================= names of an indexed result: one per dim of torch's result shape *)
Theorem C03_names_length : forall bs idx sl B,
  slots idx bs = Some sl -> bcast_all (adv_shapes idx) = Ok B ->
  exists tk, names_take bs idx = Ok tk /\ length tk = length (place B sl).
Proof. exact names_take_length. Qed.
Print Assumptions C03_names_length.

Theorem C03_names_idx_length : forall (nm : list (option nat)) bs idx sl B fast l,
  slots idx bs = Some sl -> bcast_all (adv_shapes idx) = Ok B -> length nm = length bs ->
  names_idx (Some nm) bs idx fast = Ok (Some l) -> length l = length (place B sl).
Proof. intros nm. exact (names_idx_length nm). Qed.
Print Assumptions C03_names_idx_length.

(* WHICH names survive.  Index without advanced items: the names of the sliced dims in order, None for inserted dims,
   then the untouched trailing dims ... *)
Theorem C03_names_basic : forall bs idx sl,
  slots idx bs = Some sl -> nadv idx = 0 ->
  names_take bs idx = Ok (origins idx 0 ++ map Some (seq (total_consumed idx) (length bs - total_consumed idx))).
Proof. exact names_take_basic. Qed.
Print Assumptions C03_names_basic.

(* ... one integer index array among basic items: its result dims (one per dim of the array) all carry the name of the
   dim it indexes (so a rank-2 array duplicates that name: the code's choice, transcribed) ... *)
Theorem C03_names_single_adv : forall bs pre sh post sl,
  slots (pre ++ IAdv sh :: post) bs = Some sl -> nadv pre = 0 -> nadv post = 0 ->
  names_take bs (pre ++ IAdv sh :: post)
  = Ok (origins pre 0 ++ repeat (Some (total_consumed pre)) (length sh) ++ origins post (S (total_consumed pre))
        ++ map Some (seq (total_consumed (pre ++ IAdv sh :: post)) (length bs - total_consumed (pre ++ IAdv sh :: post)))).
Proof. exact names_take_single_adv. Qed.
Print Assumptions C03_names_single_adv.

(* ... and these labels are the dims the element map reads from: if kept result dim j is labelled with source dim i, the
   i-th source coordinate of sel is a function of the j-th kept coordinate alone (any other coordinates, any position in
   the broadcast block); an inserted dim is labelled None *)
Theorem C03_names_follow_sel : forall idx dims b b' ks ks' s s' c j i,
  Forall mask_len_ok idx ->
  sel_items idx dims b ks = Some s -> sel_items idx dims b' ks' = Some s' ->
  nth_error (origins (map erase idx) c) j = Some (Some i) ->
  nth_error ks j = nth_error ks' j ->
  c <= i /\ nth_error s (i - c) = nth_error s' (i - c).
Proof. exact sel_items_origin. Qed.
Print Assumptions C03_names_follow_sel.

(* the dim a lone index array is named after: its source coordinate is norm (array entry at the block position),
   independent of every kept coordinate *)
Theorem C03_adv_name_follows_sel : forall pre sh vals post dims b ks ks' s s',
  nadv (map erase pre) = 0 -> existsb vis_ell pre = false ->
  sel_items (pre ++ VAdv sh vals :: post) dims b ks = Some s ->
  sel_items (pre ++ VAdv sh vals :: post) dims b ks' = Some s' ->
  nth_error s (total_consumed (map erase pre)) = nth_error s' (total_consumed (map erase pre))
  /\ exists n, nth_error s (total_consumed (map erase pre)) = Some (norm n (lookup sh vals b)).
Proof. exact sel_items_adv_coord. Qed.
Print Assumptions C03_adv_name_follows_sel.

(* ALL indices: the names of td[idx] are torch's own placement rule ([place], the function that gives the result SHAPE)
   applied to labels — kept dims labelled with the source dim they slice (0 = unnamed inserted dim, S i = dim i), the
   broadcast block labelled with the dim of the lone integer index array, unnamed when a mask or several advanced items
   share it — on slots that have the skeleton of the slots torch's shape rule uses *)
Theorem C03_names_place : forall bs idx sl,
  slots idx bs = Some sl ->
  exists tk, names_take bs idx = Ok tk /\
    map code tk = place (repeat (code (first_adv_src idx 0)) (advnd idx))
                        (lslots idx 0 ++ map K (map S (seq (total_consumed idx) (length bs - total_consumed idx)))).
Proof. exact names_take_place. Qed.
Print Assumptions C03_names_place.

Theorem C03_names_skeleton : forall bs idx sl,
  slots idx bs = Some sl ->
  let lsl := lslots idx 0 ++ map K (map S (seq (total_consumed idx) (length bs - total_consumed idx))) in
  map unlabel lsl = map unlabel sl /\ has_A lsl = has_A sl /\ adjacent lsl = adjacent sl
  /\ length (before_A lsl) = length (before_A sl) /\ length (keeps lsl) = length (keeps sl).
Proof. exact names_skeleton. Qed.
Print Assumptions C03_names_skeleton.

(* ================= memory sharing: the index that reaches the leaves is the user's index with its Ellipsis replaced by
   full slices — the same advanced items (no list / range / ndarray conversion), hence the same view-vs-copy class *)
Theorem C03_dispatch_keeps_class : forall bs idx idx',
  getitem_dispatch bs idx = HIndex idx' ->
  (exists n, idx' = subst_ell n idx) /\ filter is_adv idx' = filter is_adv idx /\ is_view idx' = is_view idx.
Proof. exact dispatch_keeps_class. Qed.
Print Assumptions C03_dispatch_keeps_class.

Theorem C03_dispatch_self_is_view : forall bs idx, getitem_dispatch bs idx = HSelf -> is_view idx = true.
Proof. exact dispatch_self_is_view. Qed.
Print Assumptions C03_dispatch_self_is_view.

(* non-vacuity *)
Example C03_ex3 :   (* negative int, stepped slice, None, 2 broadcast index arrays separated by a slice -> block in front *)
  sel [3; 4; 5] [VAdv [2] [0; -1]%Z; VSl (Some 1%Z) None (Some 2%Z); VAdv [1] [3%Z]] [1; 1] = Some [2; 3; 3]%Z
  /\ sel_ne ([3; 4; 5] ++ [7]) [VAdv [2] [0; -1]%Z; VSl (Some 1%Z) None (Some 2%Z); VAdv [1] [3%Z]] ([1; 1] ++ [6])
     = Some ([2; 3; 3] ++ [6])%Z.
Proof. split; reflexivity. Qed.
Example C03_ex3b : vwf_at [1] [VAdv [2] [0; -1]%Z; VSl (Some 1%Z) None (Some 2%Z); VAdv [1] [3%Z]] [3; 4; 5]
  /\ in_range [2; 2] [1; 1].
Proof. split; [cbn; lia|repeat constructor]. Qed.
Example C03_ex4 :   (* 2-dim mask with True at (0,1) and (2,0), then an Ellipsis *)
  sel [3; 2; 4] [VMask [3; 2] [[0; 1]; [2; 0]]; VEll] [1; 3] = Some [2; 0; 3]%Z.
Proof. reflexivity. Qed.
Example C03_ex5 : written_ne [3] [VSl (Some 1%Z) None None] [2%Z] /\ ~ written_ne [3] [VSl (Some 1%Z) None None] [0%Z].
Proof.
  split.
  - exists [K 2], [], [1]. repeat split; try reflexivity. repeat constructor.
  - intros (sl & B & r & Hs & HB & Hr & Hsel). cbn in Hs, HB. injection Hs as <-. injection HB as <-.
    cbn in Hr. inversion Hr as [|i n r' l' Hi Hr' E1 E2]; subst. inversion Hr'; subst.
    cbn in Hsel. destruct i as [|[|i]]; cbn in Hsel; try discriminate; lia.
Qed.
Example C03_ex6 : names_take [3; 4; 5] [ISl None None None; IAdv [2; 2]] = Ok [Some 0; Some 1; Some 1; Some 2]
  /\ names_take [3; 4; 5] [IAdv [2]; ISl None None None; IAdv [2]] = Ok [None; Some 1].
Proof. split; reflexivity. Qed.
Example C03_ex7 : setitem_target [3; 4] [IInt (-1)%Z; IAdv [2]] = Ok [2]
  /\ torch_shape (new_shape [3; 4] [2] [2; 7]) [IInt (-1)%Z; IAdv [2]] = Some [2; 7].
Proof. split; reflexivity. Qed.
Example C03_ex8 : getitem_dispatch [3; 4] [IEll; IAdv [2]] = HIndex [ISl None None None; IAdv [2]]
  /\ getitem_dispatch [3; 4] [IEll] = HSelf.
Proof. split; reflexivity. Qed.
Example C03_ex9 :   (* names: int, None, stepped slice on [3;4;5] -> [None; dim 1; dim 2]; sel reads dim 1 from kept coordinate 1 *)
  names_take [3; 4; 5] [IInt 0%Z; INone; ISl None None (Some 2%Z)] = Ok [None; Some 1; Some 2]
  /\ origins [IInt 0%Z; INone; ISl None None (Some 2%Z)] 0 = [None; Some 1]
  /\ sel_items [VInt 0%Z; VNone; VSl None None (Some 2%Z)] [3; 4; 5] [] [0; 1; 4] = Some [0; 2; 4]%Z.
Proof. repeat split; reflexivity. Qed.
Example C03_ex10 :  (* a rank-2 index array on dim 1: both result dims are named after dim 1 *)
  names_take [3; 4; 5] ([ISl None None None] ++ IAdv [2; 2] :: []) = Ok [Some 0; Some 1; Some 1; Some 2]
  /\ nadv [ISl None None None] = 0.
Proof. split; reflexivity. Qed.
Example C03_ex11 :  (* two index arrays separated by a slice: unnamed block in front; a mask: unnamed block in place *)
  names_take [3; 4; 5] [IAdv [2]; ISl None None None; IAdv [2]] = Ok [None; Some 1]
  /\ place (repeat (code (first_adv_src [IAdv [2]; ISl None None None; IAdv [2]] 0)) 1)
           (lslots [IAdv [2]; ISl None None None; IAdv [2]] 0 ++ map K (map S (seq 3 0))) = [0; 2]
  /\ names_take [3; 4; 5] [ISl None None None; IMask [4] 2] = Ok [Some 0; None; Some 2].
Proof. repeat split; reflexivity. Qed.
Example C03_ex12 :  (* a write of {b, z(new)} on a destination {a, b}: accepted, a untouched, z created with the batch shape in front *)
  setitem 8 ex12_dest [IInt 1%Z] (WTree ex12_value) = Ok ex12_result.
Proof. vm_compute. reflexivity. Qed.
