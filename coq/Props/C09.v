(* C09 — arithmetic, comparisons and reductions act entry by entry, matched by key.
   Property theorems only: each is closed by [exact] of a lemma proved in Proofs/C09_*P.v and followed by
   Print Assumptions (parsed by the harness on every run).  The model (Model/C09_*.v) transcribes /repo as it is
   with fixes/C09/*.diff applied (switches fixed_D18, fixed_inplace_extra, fixed_D49, fixed_rsub, fixed_reduce = true);
   the witnesses of the former behaviour stay in Proofs/C09_*P.v as lemmas about the switches at [false]. *)
From Coq Require Import ZArith List String Bool Arith.
Import ListNotations.
From TD Require Import Model.Dual Model.C09_Align Model.C09_Shape Model.C09_Reduce Model.C09_Lazy Spec.C09_KeyWise
  Spec.C09_TorchReduce Proofs.C09_AlignP Proofs.C09_CompareP Proofs.C09_ReduceP Proofs.C09_ShapeP Proofs.C09_CmpP Proofs.C09_LazyP.
Local Open Scope string_scope.
Local Open Scope list_scope.

(* ------------------------------------------------------------------ binary family (add, sub, mul, div, pow, maximum,
   minimum, clamp_max, clamp_min, bitwise_and, logical_and, __and__), default=None *)

(* same key set, ANY insertion / nesting order, any value type, any number of keys: the result holds, under every key,
   the pair (self[k], other[k]) — for the fused, the clamp and the python-loop variants, locked or not *)
Theorem C09_binary_keywise : forall (V : Type) fx f closed (s o : @items V),
  NoDup (keys_of s) -> NoDup (keys_of o) -> s <> [] -> same_keysb s o = true ->
  exists r, binary_plan fx f closed s (OpTd o) DNone = Ok r /\ forall k, dget r k = spec_same s o k.
Proof. exact @binary_same_keys. Qed.
Print Assumptions C09_binary_keywise.

(* different key sets raise, an empty `other` included (D49 repaired: fixes/C09/D49.diff) *)
Theorem C09_binary_diff_keys_raise : forall (V : Type) f closed (s o : @items V),
  NoDup (keys_of s) -> NoDup (keys_of o) -> same_keysb s o = false ->
  binary_plan fixed_D49 f closed s (OpTd o) DNone = Raised.
Proof. exact @binary_diff_keys_raises. Qed.
Print Assumptions C09_binary_diff_keys_raise.

(* a scalar / tensor operand meets every entry of self *)
Theorem C09_binary_scalar : forall (V : Type) fx f closed (s : @items V) d,
  NoDup (keys_of s) -> s <> [] ->
  exists r, binary_plan fx f closed s OpScalar d = Ok r /\ forall k, dget r k = spec_scalar s k.
Proof. exact @binary_scalar. Qed.
Print Assumptions C09_binary_scalar.

(* documented defaults: default=<value> gives the union, the missing side replaced by the value (on a locked self too:
   D48 repaired, the model's [closed] is now only the tensorclass case "no such field");
   default="intersection" the common keys only *)
Theorem C09_binary_default_value : forall (V : Type) fx f (s o : @items V) (v : V),
  NoDup (keys_of s) -> NoDup (keys_of o) -> o <> [] ->
  exists r, binary_plan fx f false s (OpTd o) (DVal v) = Ok r /\ forall k, dget r k = spec_default v s o k.
Proof. exact @binary_default_value. Qed.
Print Assumptions C09_binary_default_value.
Theorem C09_binary_intersection : forall (V : Type) (s o : @items V) closed,
  NoDup (keys_of s) -> NoDup (keys_of o) ->
  exists r, binary_plan fixed_D49 Loop closed s (OpTd o) DInter = Ok r /\ forall k, dget r k = spec_inter s o k.
Proof. exact @binary_intersection. Qed.
Print Assumptions C09_binary_intersection.

(* ------------------------------------------------------------------ in-place binary family (D42 repaired) *)
Theorem C09_inplace_keywise : forall (V : Type) f fixed (s o : @items V),
  NoDup (keys_of s) -> NoDup (keys_of o) -> s <> [] -> same_keysb s o = true ->
  exists r, inplace_plan f fixed s (OpTd o) = Ok r /\ forall k, dget r k = spec_same s o k.
Proof. exact @inplace_same_keys. Qed.
Print Assumptions C09_inplace_keywise.
Theorem C09_inplace_diff_keys_raise : forall (V : Type) f (s o : @items V),
  NoDup (keys_of s) -> NoDup (keys_of o) -> same_keysb s o = false ->
  inplace_plan f fixed_inplace_extra s (OpTd o) = Raised.
Proof. exact @inplace_fixed_diff_keys_raises. Qed.
Print Assumptions C09_inplace_diff_keys_raise.

(* ------------------------------------------------------------------ ternary family (lerp, addcdiv, addcmul, in-place;
   D18 repaired): operands are matched by key, for every insertion / nesting order *)
Theorem C09_ternary_keywise : forall (V : Type) (s o1 o2 : @items V),
  NoDup (keys_of s) -> NoDup (keys_of o1) -> NoDup (keys_of o2) -> s <> [] ->
  same_keysb s o1 = true -> same_keysb s o2 = true ->
  exists r, ternary_plan fixed_D18 fixed_inplace_extra s (OpTd o1) (OpTd o2) = Ok r /\
            forall k, dget r k = spec_tern s o1 o2 k.
Proof. intros V. exact (@ternary_fixed_same_keys V fixed_inplace_extra). Qed.
Print Assumptions C09_ternary_keywise.

(* ------------------------------------------------------------------ comparisons / __or__ / __xor__ (per nested node) *)
(* same nested key structure (any depth, any order at every node): the leaf at every path is compared with the leaf
   at the same path *)
Theorem C09_compare_keywise : forall (V : Type) (t1 t2 : tree V), same_struct t1 t2 ->
  exists r, cmp_tree t1 t2 = COk r /\ forall p, cleaf_at r p = spec_cmp t1 t2 p.
Proof. exact @compare_keywise. Qed.
Print Assumptions C09_compare_keywise.
Theorem C09_compare_diff_keys_raise : forall (V : Type) (c1 c2 : list (string * tree V)),
  NoDup (map fst c1) -> NoDup (map fst c2) ->
  forallb (fun k => mem k (map fst c2)) (map fst c1) && forallb (fun k => mem k (map fst c1)) (map fst c2) = false ->
  cmp_tree (Node c1) (Node c2) = CRaised.
Proof. exact @compare_diff_keys_raises. Qed.
Print Assumptions C09_compare_diff_keys_raise.

(* ------------------------------------------------------------------ comparisons dispatched through the right operand
   (`td < tc` runs `tc > td`; a lazy stack hands `inverse_str` to a tensorclass operand): for all six operators the
   operator applied to (other, self) is the CONVERSE relation, so the value is torch's `self <op> other` — and the
   negation (`>=` for `<`) would be wrong on every tie *)
Theorem C09_compare_dispatch : forall c a b,
  cmp_sem (tc_dispatch c) b a = cmp_sem c a b /\ cmp_sem (lazy_dispatch c) b a = cmp_sem c a b.
Proof. intros c a b. split; [apply tc_dispatch_sound|apply lazy_dispatch_sound]. Qed.
Print Assumptions C09_compare_dispatch.
Theorem C09_compare_dispatch_not_negation : forall c, c <> CEq -> c <> CNe ->
  exists a b, cmp_sem (negation c) b a <> cmp_sem c a b.
Proof. exact negation_dispatch_refuted. Qed.
Print Assumptions C09_compare_dispatch_not_negation.

(* ------------------------------------------------------------------ operator spellings (D40 repaired) *)
Theorem C09_operator_order : forall d, order_ok fixed_rsub d = true.
Proof. exact dunder_order_fixed. Qed.
Print Assumptions C09_operator_order.

(* ------------------------------------------------------------------ broadcast against the batch dims from the left *)
(* a tensor operand of shape s that expands to the batch shape B reaches torch, for a leaf of shape B ++ feat, as a
   view of that shape whose element at (batch coordinates ++ feature coordinates) is the operand's element at the
   batch coordinates (torch broadcasting within the batch dims), whatever the feature coordinates *)
Theorem C09_broadcast_left : forall (s B feat : shape),
  expandable s B = true ->
  exists v, operand_view s B feat = Ok v /\ vshape v = B ++ feat /\
    forall ib jf, List.length ib = List.length B -> List.length jf = List.length feat ->
      vidx v (ib ++ jf) = spec_left_index s B (ib ++ jf).
Proof. exact operand_view_left. Qed.
Print Assumptions C09_broadcast_left.
Theorem C09_broadcast_decision : forall (bs s B : shape),
  List.length s <> 0 -> bcast_all [bs; s] = Some B -> maybe_broadcast bs [KTensor s] = BPerLeaf B.
Proof. exact maybe_broadcast_tensor. Qed.
Print Assumptions C09_broadcast_decision.

(* ------------------------------------------------------------------ reductions (D43-D47 repaired) *)
(* sum / nansum / mean / nanmean / std / var over an int or a tuple of ints, any keepdim, any rank: batch size and
   names are torch's reduction of the proxy over the normalised dims, which are also the dims every leaf is reduced on *)
Theorem C09_reduce_bs : forall fx (bs : shape) (names : names_t) dim kd con zs nd,
  user_dims dim = Some zs -> sequence (map (norm_dim (List.length bs)) zs) = Some nd ->
  cast_reduction fx bs names dim kd true con None
  = Ok {| ro_bs := torch_reduce bs nd (kd_truthy kd);
          ro_names := option_map (fun ns => torch_reduce_names ns nd (kd_truthy kd)) names;
          ro_call := LcDim (PTuple nd) kd; ro_post := PostNone |}.
Proof. exact cast_reduction_tuple. Qed.
Print Assumptions C09_reduce_bs.
Theorem C09_reduce_out_of_range : forall fx (bs : shape) names dim kd con zs,
  user_dims dim = Some zs -> sequence (map (norm_dim (List.length bs)) zs) = None ->
  cast_reduction fx bs names dim kd true con None = Raised.
Proof. exact cast_reduction_tuple_out_of_range. Qed.
Print Assumptions C09_reduce_out_of_range.
(* every leaf (shape bs ++ feat) reduced over those dims starts with the result batch size *)
Theorem C09_reduce_leaf_coherent : forall (bs feat : shape) zs nd kd,
  sequence (map (norm_dim (List.length bs)) zs) = Some nd ->
  torch_reduce (bs ++ feat) nd kd = torch_reduce bs nd kd ++ feat.
Proof. intros bs feat zs nd kd H. apply leaf_shape_coherent. exact (normalised_in_range _ _ _ H). Qed.
Print Assumptions C09_reduce_leaf_coherent.
Theorem C09_reduce_names_length : forall (N : Type) (bs : shape) (ns : list N) nd kd,
  List.length ns = List.length bs ->
  List.length (torch_reduce_names ns nd kd) = List.length (torch_reduce bs nd kd).
Proof. exact @names_match_batch. Qed.
Print Assumptions C09_reduce_names_length.
(* min / max / prod (and amin / amax) over one int dim, keepdim False and True *)
Theorem C09_reduce_single : forall fx (bs : shape) (names : names_t) z d con,
  norm_dim (List.length bs) z = Some d ->
  cast_reduction fx bs names (DimInt z) KdFalse false con None
  = Ok {| ro_bs := torch_reduce bs [d] false;
          ro_names := option_map (fun ns => torch_reduce_names ns [d] false) names;
          ro_call := LcDim (PInt (Z.of_nat d)) KdFalse; ro_post := PostNone |}.
Proof. exact cast_reduction_single. Qed.
Print Assumptions C09_reduce_single.
Theorem C09_reduce_single_keepdim : forall (bs : shape) (names : names_t) z d con,
  norm_dim (List.length bs) z = Some d ->
  cast_reduction fixed_reduce bs names (DimInt z) KdTrue false con None
  = Ok {| ro_bs := torch_reduce bs [d] true;
          ro_names := option_map (fun ns => torch_reduce_names ns [d] true) names;
          ro_call := LcDim (PInt (Z.of_nat d)) KdTrue; ro_post := PostNone |}.
Proof. exact cast_reduction_single_keepdim. Qed.
Print Assumptions C09_reduce_single_keepdim.
(* cummin / cummax keep batch size and names *)
Theorem C09_reduce_cumulative : forall (bs : shape) (names : names_t) z d kd,
  norm_dim (List.length bs) z = Some d ->
  front fixed_reduce RCum bs names (DimInt z) kd
  = Ok {| ro_bs := bs; ro_names := names; ro_call := LcDim (PInt (Z.of_nat d)) KdNoDefault; ro_post := PostNone |}.
Proof. exact front_cumulative. Qed.
Print Assumptions C09_reduce_cumulative.
(* dim=None reduces every batch dim *)
Theorem C09_reduce_dim_none : forall (bs : shape) (names : names_t) kd,
  exists r, front fixed_reduce RTuple bs names DimNone kd = Ok r /\
    ro_bs r = torch_reduce bs (seq 0 (List.length bs)) (kd_truthy kd) /\
    ro_names r = (if kd_truthy kd then names else None) /\ ro_call r = LcDim PNone kd.
Proof. exact front_dim_none. Qed.
Print Assumptions C09_reduce_dim_none.
(* amin / amax over an int or a tuple of ints *)
Theorem C09_reduce_aminmax : forall (bs : shape) (names : names_t) dim kd zs nd,
  user_dims dim = Some zs -> sequence (map (norm_dim (List.length bs)) zs) = Some nd ->
  front fixed_reduce RAminmax bs names dim kd
  = Ok {| ro_bs := torch_reduce bs nd (kd_truthy kd);
          ro_names := option_map (fun ns => torch_reduce_names ns nd (kd_truthy kd)) names;
          ro_call := LcDim (PTuple nd) (match kd with KdNoDefault => KdFalse | k => k end); ro_post := PostNone |}.
Proof. exact front_aminmax. Qed.
Print Assumptions C09_reduce_aminmax.
(* prod(dim, keepdim=True): the reduced dim comes back as size 1, for every in-range dim *)
Theorem C09_reduce_prod_keepdim : forall (bs : shape) z d,
  norm_dim (List.length bs) z = Some d ->
  exists r, front fixed_reduce RProd bs None (DimInt z) KdTrue = Ok r /\ ro_bs r = torch_reduce bs [d] true /\
            ro_call r = LcDim (PInt (Z.of_nat d)) KdFalse /\ ro_post r = PostUnsqueeze d.
Proof. exact prod_keepdim. Qed.
Print Assumptions C09_reduce_prod_keepdim.
(* every front-end, every dim / keepdim argument: a result that carries names has one name per batch dim *)
Theorem C09_reduce_names : forall op (bs : shape) ns dim kd r,
  List.length ns = List.length bs -> front fixed_reduce op bs (Some ns) dim kd = Ok r ->
  forall ns', ro_names r = Some ns' -> List.length ns' = List.length (ro_bs r).
Proof. exact front_names_ok. Qed.
Print Assumptions C09_reduce_names.

(* ------------------------------------------------------------------ lazy stacks (D50-D53 repaired: fixes/C09/D50-D51, D52,
   D53.diff).  A lazy stack = list of member item lists (+ stack dim); the dense stack holds under key k the list of
   the members' entries under k, and a pointwise op acts on it slice by slice.  "(lazy op other) materialised =
   (dense op other)" therefore reads: member i of the result holds under k the pair (self_i[k], other_i[k]). *)
(* the fused path on member-indexed keys (str(i), *key): for any member count, any key order PER MEMBER *)
Theorem C09_lazy_binary_keywise : forall (V : Type) fx f (s o : @lazy V),
  List.length s = List.length o -> lazy_items s <> [] ->
  (forall i, i < List.length s -> NoDup (keys_of (nth i s [])) /\ NoDup (keys_of (nth i o [])) /\
                                   same_keysb (nth i s []) (nth i o []) = true) ->
  exists ms, lazy_binary_plan true fx f s (LOpLazy o) DNone = Ok (LzMembers ms) /\ List.length ms = List.length s /\
    forall i k, i < List.length s -> dget (nth i ms []) k = spec_same (nth i s []) (nth i o []) k.
Proof. exact @lazy_binary_keywise. Qed.
Print Assumptions C09_lazy_binary_keywise.
(* default=<value> (D52 repaired): member i gets the union of the keys of self_i and other_i, no member-indexed key *)
Theorem C09_lazy_binary_default : forall (V : Type) fx f (s o : @lazy V) (v : V),
  List.length s = List.length o -> lazy_items o <> [] ->
  (forall i, i < List.length s -> NoDup (keys_of (nth i s [])) /\ NoDup (keys_of (nth i o []))) ->
  exists ms, lazy_binary_plan true fx f s (LOpLazy o) (DVal v) = Ok (LzMembers ms) /\ List.length ms = List.length s /\
    forall i k, i < List.length s -> dget (nth i ms []) k = spec_default v (nth i s []) (nth i o []) k.
Proof. exact @lazy_binary_default. Qed.
Print Assumptions C09_lazy_binary_default.
Theorem C09_lazy_binary_scalar : forall (V : Type) fx f (s : @lazy V) d,
  lazy_items s <> [] -> (forall i, i < List.length s -> NoDup (keys_of (nth i s []))) ->
  exists ms, lazy_binary_plan true fx f s LOpScalar d = Ok (LzMembers ms) /\ List.length ms = List.length s /\
    forall i k, i < List.length s -> dget (nth i ms []) k = spec_scalar (nth i s []) k.
Proof. exact @lazy_binary_scalar. Qed.
Print Assumptions C09_lazy_binary_scalar.
(* the member-indexed keys are an injective pairing, and member i receives exactly the entries keyed (i, _) *)
Theorem C09_lazy_member_keys : forall (A : Type) (r : list (string * A)) i j k k',
  (mkey i k = mkey j k' -> i = j /\ k = k') /\ dget (member_part i r) k = dget r (mkey i k).
Proof. intros A r i j k k'. split; [apply mkey_inj|apply member_part_get]. Qed.
Print Assumptions C09_lazy_member_keys.
(* comparisons: members zipped with other.unbind(stack_dim), each compared per nested node *)
Theorem C09_lazy_compare_keywise : forall (V : Type) (s o : list (tree V)), Forall2 same_struct s o ->
  exists r, lazy_compare s o = Ok r /\
    Forall2 (fun c ab => exists t, c = COk t /\ forall p, cleaf_at t p = spec_cmp (fst ab) (snd ab) p) r (combine s o).
Proof. exact @lazy_compare_keywise. Qed.
Print Assumptions C09_lazy_compare_keywise.
(* a tensor of rank >= 1 (D50 repaired): the stack keeps its shape -> every member is called with ITS slice; the stack
   must grow -> it is dense and the dense theorems (C09_broadcast_left) apply *)
Theorem C09_lazy_broadcast_member : forall (bs s : shape) sd,
  List.length s <> 0 -> bcast_all [bs; s] = Some bs ->
  forall hetero, lazy_maybe_broadcast true hetero bs sd [KTensor s]
                 = LMember bs sd (maybe_broadcast (remove_at sd bs) [KTensor (remove_at sd bs)]).
Proof. exact lazy_broadcast_member. Qed.
Print Assumptions C09_lazy_broadcast_member.
Theorem C09_lazy_broadcast_dense : forall (bs s B : shape) sd,
  List.length s <> 0 -> bcast_all [bs; s] = Some B -> shape_eqb B bs = false ->
  lazy_maybe_broadcast true false bs sd [KTensor s] = LDense (BPerLeaf B) /\
  lazy_maybe_broadcast true true bs sd [KTensor s]
  = LMember B (expand_stack_dim bs sd B)
            (maybe_broadcast (remove_at (expand_stack_dim bs sd B) B) [KTensor (remove_at (expand_stack_dim bs sd B) B)]).
Proof. exact lazy_broadcast_dense. Qed.
Print Assumptions C09_lazy_broadcast_dense.
(* an operand of HIGHER rank than the stack (any rank): the stack is expanded on the left, its stack dim moves to
   stack_dim + (rank B - rank bs), and member i of the expanded stack is member i expanded: the dense stack expanded to B,
   read at (jb with i inserted at the shifted dim), is member i's expansion read at jb.  Together with
   C09_lazy_member_view (stated for ANY operand rank <= rank B and any stack dim of B) this is
   "(lazy op tensor) materialised = (dense op tensor)" for operand ranks below, equal to and above the stack's rank *)
Theorem C09_lazy_expand_member : forall (bs B : shape) sd i jb,
  sd < List.length bs -> List.length bs <= List.length B -> S (List.length jb) = List.length B ->
  bidx bs (insert_at (expand_stack_dim bs sd B) i jb)
  = insert_at sd (if Nat.eqb (nth sd bs 0) 1 then 0 else i) (bidx (remove_at sd bs) jb).
Proof. exact expand_member_commutes. Qed.
Print Assumptions C09_lazy_expand_member.
(* unbinding along the ORIGINAL stack dim after the expansion (seeded change C09-3) reads another member's slice *)
Theorem C09_lazy_expand_original_dim_refuted :
  exists (bs B : shape) sd i jb, sd < List.length bs /\ S (List.length jb) = List.length B /\
    nth sd (bidx bs (insert_at sd i jb)) 0 <> i.
Proof. exact expand_member_original_dim_refuted. Qed.
Print Assumptions C09_lazy_expand_original_dim_refuted.
(* element level, every stack dim, every member: position (jb ++ jf) of member i's leaf reads the operand where the
   dense stack's leaf reads it at (jb with i inserted at the stack dim) ++ jf *)
Theorem C09_lazy_member_view : forall (s B feat : shape) sd i,
  expandable s B = true -> sd < List.length B ->
  exists u, member_operand_view s B sd i feat = Ok u /\ vshape u = remove_at sd B ++ feat /\
    forall jb jf, Forall2 lt jb (remove_at sd B) -> List.length jf = List.length feat ->
      vidx u (jb ++ jf) = spec_left_index s B (insert_at sd i jb ++ jf).
Proof. exact member_view_is_dense_view. Qed.
Print Assumptions C09_lazy_member_view.
(* softmax (D53 repaired): the member axis is the stack's axis; the stack dim itself goes through the dense copy *)
Theorem C09_lazy_softmax_axis : forall nb sd dim d,
  correct_neg_dim dim nb = Some d -> d <> sd ->
  exists d', lazy_softmax true nb sd dim = SmMember d' /\
    forall (j : list nat) (i : nat), sd <= List.length j -> nth d (insert_at sd i j) 0 = nth d' j 0.
Proof. exact lazy_softmax_axis. Qed.
Print Assumptions C09_lazy_softmax_axis.
Theorem C09_lazy_softmax_stack_dim : forall nb sd dim,
  correct_neg_dim dim nb = Some sd -> lazy_softmax true nb sd dim = SmDense sd.
Proof. exact lazy_softmax_stack_dim. Qed.
Print Assumptions C09_lazy_softmax_stack_dim.
(* the code before D53 (switch at false) ran over another axis: kept as a witness of what the repair changed *)
Theorem C09_lazy_softmax_unrepaired_refuted :
  exists nb sd dim d j i, lazy_softmax false nb sd dim = SmLeaf d /\ sd <= List.length j /\
    nth d (insert_at sd i j) 0 <> nth d j 0.
Proof. exact lazy_softmax_before_refuted. Qed.
Print Assumptions C09_lazy_softmax_unrepaired_refuted.

(* reductions of a lazy stack are the dense reductions of its dense copy (same batch size; names kept except for the
   rank-1 quirk lazy_dense_names): every C09_reduce_* theorem applies; a named result has one name per batch dim *)
Theorem C09_lazy_reduce_names : forall op (bs : shape) ns dim kd r,
  2 <= List.length bs -> List.length ns = List.length bs -> lazy_front fixed_reduce op bs (Some ns) dim kd = Ok r ->
  forall ns', ro_names r = Some ns' -> List.length ns' = List.length (ro_bs r).
Proof.
  intros op bs ns dim kd r G L H ns' E. unfold lazy_front, lazy_dense_names in H.
  replace (Nat.leb (List.length bs) 1) with false in H by (symmetry; apply Nat.leb_gt; exact G).
  exact (front_names_ok op bs ns dim kd r L H ns' E).
Qed.
Print Assumptions C09_lazy_reduce_names.

(* ------------------------------------------------------------------ non-vacuity: concrete instances of the hypotheses *)
Example C09_ex_binary :
  let s := [("x", 2%Z); ("n.y", 3%Z); ("n.z", 5%Z)] in let o := [("n.z", 50%Z); ("x", 20%Z); ("n.y", 30%Z)] in
  NoDup (keys_of s) /\ NoDup (keys_of o) /\ s <> [] /\ same_keysb s o = true /\
  binary_plan true Foreach true s (OpTd o) DNone
  = Ok [("x", (2%Z, RLeaf 20%Z)); ("n.y", (3%Z, RLeaf 30%Z)); ("n.z", (5%Z, RLeaf 50%Z))].
Proof. repeat split; try reflexivity; try discriminate; repeat constructor; cbn; intuition discriminate. Qed.
Example C09_ex_diff_keys :
  let s := [("x", 2%Z)] in let o := [("z", 50%Z); ("x", 20%Z)] in
  same_keysb s o = false /\ o <> [] /\ binary_plan true Foreach false s (OpTd o) DNone = Raised
  /\ binary_plan true Foreach false s (OpTd o) (DVal 0%Z) = Ok [("x", (2%Z, RLeaf 20%Z)); ("z", (0%Z, RLeaf 50%Z))]
  /\ binary_plan true Loop false s (OpTd o) DInter = Ok [("x", (2%Z, RLeaf 20%Z))]
  /\ binary_plan true Loop false s (OpTd []) DNone = Raised
  /\ inplace_plan Foreach true s (OpTd o) = Raised
  /\ ternary_plan true true [("x", 1%Z); ("y", 2%Z)] (OpTd [("y", 20%Z); ("x", 10%Z)]) (OpTd [("x", 100%Z); ("y", 200%Z)])
     = Ok [("x", (1%Z, RLeaf 10%Z, RLeaf 100%Z)); ("y", (2%Z, RLeaf 20%Z, RLeaf 200%Z))].
Proof. repeat split; try reflexivity; discriminate. Qed.
Example C09_ex_compare :
  let t1 := Node [("a", Leaf 1%Z); ("n", Node [("p", Leaf 2%Z); ("q", Leaf 3%Z)])] in
  let t2 := Node [("n", Node [("q", Leaf 30%Z); ("p", Leaf 20%Z)]); ("a", Leaf 10%Z)] in
  cmp_tree t1 t2 = COk (CNode [("a", CLeaf 1%Z 10%Z); ("n", CNode [("p", CLeaf 2%Z 20%Z); ("q", CLeaf 3%Z 30%Z)])]).
Proof. reflexivity. Qed.
Example C09_ex_broadcast :
  expandable [3; 1] [2; 3; 4] = true /\
  match operand_view [3; 1] [2; 3; 4] [5] with
  | Ok v => vshape v = [2; 3; 4; 5] /\ vidx v [1; 2; 3; 4] = [2; 0]
  | Raised => False
  end.
Proof. split; [reflexivity|]. cbn. split; reflexivity. Qed.
Example C09_ex_reduce :
  user_dims (DimTuple [(-1)%Z; 0%Z]) = Some [(-1)%Z; 0%Z] /\
  sequence (map (norm_dim 3) [(-1)%Z; 0%Z]) = Some [2; 0] /\
  cast_reduction true [2; 3; 4] (Some [Some "p"; Some "q"; Some "r"]) (DimTuple [(-1)%Z; 0%Z]) KdNoDefault true true None
  = Ok {| ro_bs := [3]; ro_names := Some [Some "q"]; ro_call := LcDim (PTuple [2; 0]) KdNoDefault; ro_post := PostNone |}
  /\ torch_reduce ([2; 3; 4] ++ [7]) [2; 0] false = [3; 7].
Proof. repeat split; reflexivity. Qed.
Example C09_ex_lazy :
  let s := [[("x", 1%Z); ("y", 2%Z)]; [("y", 4%Z); ("x", 3%Z)]] in
  let o := [[("y", 20%Z); ("x", 10%Z)]; [("x", 30%Z); ("y", 40%Z)]] in
  List.length s = List.length o /\ lazy_items s <> [] /\
  lazy_binary_plan true true Foreach s (LOpLazy o) DNone
  = Ok (LzMembers [[("x", (1%Z, RLeaf 10%Z)); ("y", (2%Z, RLeaf 20%Z))]; [("y", (4%Z, RLeaf 40%Z)); ("x", (3%Z, RLeaf 30%Z))]]) /\
  lazy_binary_plan true true Foreach [[("x", 1%Z)]; [("x", 2%Z)]] (LOpLazy [[("x", 10%Z); ("c", 30%Z)]; [("x", 20%Z); ("c", 40%Z)]]) (DVal 0%Z)
  = Ok (LzMembers [[("x", (1%Z, RLeaf 10%Z)); ("c", (0%Z, RLeaf 30%Z))]; [("x", (2%Z, RLeaf 20%Z)); ("c", (0%Z, RLeaf 40%Z))]]) /\
  bcast_all [[2; 3]; [3]] = Some [2; 3] /\
  lazy_maybe_broadcast true false [2; 3] 1 [KTensor [3]] = LMember [2; 3] 1 (BPerLeaf [2]) /\
  lazy_maybe_broadcast true false [3] 0 [KTensor [3]] = LMember [3] 0 BDirect /\
  lazy_maybe_broadcast true false [2; 3] 0 [KTensor [3]] = LMember [2; 3] 0 (BPerLeaf [3]) /\
  lazy_maybe_broadcast true false [3] 0 [KTensor [2; 3]] = LDense (BPerLeaf [2; 3]) /\
  lazy_maybe_broadcast true true [3; 2] 0 [KTensor [3; 3; 2]] = LMember [3; 3; 2] 1 (BPerLeaf [3; 2]) /\
  bidx [3; 2] (insert_at (expand_stack_dim [3; 2] 0 [3; 3; 2]) 2 [1; 0]) = [2; 0] /\
  match member_operand_view [3] [2; 3] 1 2 [4] with
  | Ok u => vshape u = [2; 4] /\ vidx u [1; 3] = [2]
  | Raised => False
  end /\
  correct_neg_dim (-1) 3 = Some 2 /\ lazy_softmax true 3 1 (-1) = SmMember 1 /\ lazy_softmax true 3 1 1 = SmDense 1.
Proof. cbv zeta. repeat split; try reflexivity; try (cbn; discriminate). Qed.
