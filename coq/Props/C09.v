(* C09 — arithmetic, comparisons and reductions act entry by entry, matched by key.
   Property theorems only: each is closed by [exact] of a lemma proved in Proofs/C09_*P.v and followed by
   Print Assumptions (parsed by the harness on every run).  The model (Model/C09_*.v) transcribes /repo as it is
   today; where /repo violates the property the full statement is kept as a [Definition ..._full_statement], refuted by
   a witness ([..._refuted]) and proved on the complement ([..._partial]) and for the repaired variant ([..._fixed]). *)
From Coq Require Import ZArith List String Bool Arith.
Import ListNotations.
From TD Require Import Model.Dual Model.C09_Align Model.C09_Shape Model.C09_Reduce Spec.C09_KeyWise Spec.C09_TorchReduce
  Proofs.C09_AlignP Proofs.C09_CompareP Proofs.C09_ReduceP Proofs.C09_ShapeP.
Local Open Scope string_scope.
Local Open Scope list_scope.

(* ------------------------------------------------------------------ binary family (add, sub, mul, div, pow, maximum,
   minimum, clamp_max, clamp_min, bitwise_and, logical_and, __and__), default=None *)

(* same key set, ANY insertion / nesting order, any value type, any number of keys: the result holds, under every key,
   the pair (self[k], other[k]) — for the fused, the clamp and the python-loop variants, locked or not *)
Theorem C09_binary_keywise : forall (V : Type) f closed (s o : @items V),
  NoDup (keys_of s) -> NoDup (keys_of o) -> s <> [] -> same_keysb s o = true ->
  exists r, binary_plan f closed s (OpTd o) DNone = Ok r /\ forall k, dget r k = spec_same s o k.
Proof. exact @binary_same_keys. Qed.
Print Assumptions C09_binary_keywise.

(* different key sets raise — full statement (false of /repo when `other` is empty: D49) *)
Definition C09_binary_diff_keys_full_statement : Prop := forall (V : Type) f closed (s o : @items V),
  NoDup (keys_of s) -> NoDup (keys_of o) -> same_keysb s o = false -> binary_plan f closed s (OpTd o) DNone = Raised.
Theorem C09_binary_diff_keys_refuted :
  exists (s : @items Z), s <> [] /\ same_keysb s [] = false /\
    binary_plan Loop false s (OpTd []) DNone = Ok [] /\
    binary_plan ForeachSwallow false s (OpTd []) DNone = Ok [("x", (1%Z, RUnchanged))].
Proof. exact empty_other_refuted. Qed.
Print Assumptions C09_binary_diff_keys_refuted.
Theorem C09_binary_diff_keys_partial : forall (V : Type) f closed (s o : @items V),
  NoDup (keys_of s) -> NoDup (keys_of o) -> o <> [] -> same_keysb s o = false ->
  binary_plan f closed s (OpTd o) DNone = Raised.
Proof. exact @binary_diff_keys_raises. Qed.
Print Assumptions C09_binary_diff_keys_partial.

(* a scalar / tensor operand meets every entry of self *)
Theorem C09_binary_scalar : forall (V : Type) f closed (s : @items V) d,
  NoDup (keys_of s) -> s <> [] ->
  exists r, binary_plan f closed s OpScalar d = Ok r /\ forall k, dget r k = spec_scalar s k.
Proof. exact @binary_scalar. Qed.
Print Assumptions C09_binary_scalar.

(* documented defaults: default=<value> gives the union, the missing side replaced by the value;
   default="intersection" the common keys only *)
Theorem C09_binary_default_value : forall (V : Type) f (s o : @items V) (v : V),
  NoDup (keys_of s) -> NoDup (keys_of o) -> o <> [] ->
  exists r, binary_plan f false s (OpTd o) (DVal v) = Ok r /\ forall k, dget r k = spec_default v s o k.
Proof. exact @binary_default_value. Qed.
Print Assumptions C09_binary_default_value.
(* ... but not independently of the lock state (D48): a result that cannot take new keys raises *)
Theorem C09_binary_default_lock_refuted :
  exists (s o : @items Z) r, binary_plan Foreach false s (OpTd o) (DVal 0%Z) = Ok r /\
    binary_plan Foreach true s (OpTd o) (DVal 0%Z) = Raised.
Proof. exact default_closed_refuted. Qed.
Print Assumptions C09_binary_default_lock_refuted.
Theorem C09_binary_intersection : forall (V : Type) (s o : @items V) closed,
  NoDup (keys_of s) -> NoDup (keys_of o) -> o <> [] ->
  exists r, binary_plan Loop closed s (OpTd o) DInter = Ok r /\ forall k, dget r k = spec_inter s o k.
Proof. exact @binary_intersection. Qed.
Print Assumptions C09_binary_intersection.

(* ------------------------------------------------------------------ in-place binary family *)
Theorem C09_inplace_keywise : forall (V : Type) f fixed (s o : @items V),
  NoDup (keys_of s) -> NoDup (keys_of o) -> s <> [] -> same_keysb s o = true ->
  exists r, inplace_plan f fixed s (OpTd o) = Ok r /\ forall k, dget r k = spec_same s o k.
Proof. exact @inplace_same_keys. Qed.
Print Assumptions C09_inplace_keywise.

Definition C09_inplace_diff_keys_full_statement : Prop := forall (V : Type) f (s o : @items V),
  NoDup (keys_of s) -> NoDup (keys_of o) -> same_keysb s o = false -> inplace_plan f false s (OpTd o) = Raised.
(* D42: a key only `other` has is ignored *)
Theorem C09_inplace_diff_keys_refuted :
  exists (s o : @items Z) r, NoDup (keys_of s) /\ NoDup (keys_of o) /\ same_keysb s o = false /\
    inplace_plan Foreach false s (OpTd o) = Ok r.
Proof. exact inplace_extra_key_refuted. Qed.
Print Assumptions C09_inplace_diff_keys_refuted.
(* a key of self that `other` lacks raises *)
Theorem C09_inplace_diff_keys_partial : forall (V : Type) f fixed (s o : @items V) k,
  NoDup (keys_of o) -> In k (keys_of s) -> ~ In k (keys_of o) -> inplace_plan f fixed s (OpTd o) = Raised.
Proof. exact @inplace_missing_key_raises. Qed.
Print Assumptions C09_inplace_diff_keys_partial.
(* with the suggested fix (length check in _values_list) the full statement holds *)
Theorem C09_inplace_diff_keys_fixed : forall (V : Type) f (s o : @items V),
  NoDup (keys_of s) -> NoDup (keys_of o) -> same_keysb s o = false -> inplace_plan f true s (OpTd o) = Raised.
Proof. exact @inplace_fixed_diff_keys_raises. Qed.
Print Assumptions C09_inplace_diff_keys_fixed.

(* ------------------------------------------------------------------ ternary family (lerp, addcdiv, addcmul, in-place) *)
Definition C09_ternary_keywise_full_statement : Prop := forall (V : Type) (s o1 o2 : @items V),
  NoDup (keys_of s) -> NoDup (keys_of o1) -> NoDup (keys_of o2) -> s <> [] ->
  same_keysb s o1 = true -> same_keysb s o2 = true ->
  exists r, ternary_plan false s (OpTd o1) (OpTd o2) = Ok r /\ forall k, dget r k = spec_tern s o1 o2 k.
(* D18: operands are paired by position *)
Theorem C09_ternary_keywise_refuted :
  exists (s o1 o2 : @items Z) r,
    NoDup (keys_of s) /\ same_keysb s o1 = true /\ same_keysb s o2 = true /\
    ternary_plan false s (OpTd o1) (OpTd o2) = Ok r /\ dget r "x" <> spec_tern s o1 o2 "x".
Proof. exact ternary_positional_refuted. Qed.
Print Assumptions C09_ternary_keywise_refuted.
(* key-wise when the operands list their leaves in self's order *)
Theorem C09_ternary_keywise_partial : forall (V : Type) (s o1 o2 : @items V),
  NoDup (keys_of s) -> s <> [] -> keys_of o1 = keys_of s -> keys_of o2 = keys_of s ->
  exists r, ternary_plan false s (OpTd o1) (OpTd o2) = Ok r /\ forall k, dget r k = spec_tern s o1 o2 k.
Proof. exact @ternary_same_order. Qed.
Print Assumptions C09_ternary_keywise_partial.
(* with sorting_keys=keys (the suggested fix) the full statement holds, for every order *)
Theorem C09_ternary_keywise_fixed : forall (V : Type) (s o1 o2 : @items V),
  NoDup (keys_of s) -> NoDup (keys_of o1) -> NoDup (keys_of o2) -> s <> [] ->
  same_keysb s o1 = true -> same_keysb s o2 = true ->
  exists r, ternary_plan true s (OpTd o1) (OpTd o2) = Ok r /\ forall k, dget r k = spec_tern s o1 o2 k.
Proof. exact @ternary_fixed_same_keys. Qed.
Print Assumptions C09_ternary_keywise_fixed.

(* ------------------------------------------------------------------ comparisons / __or__ / __xor__ (per nested node) *)
(* same nested key structure (any depth, any order at every node): the leaf at every path is compared with the leaf
   at the same path *)
Theorem C09_compare_keywise : forall (V : Type) (t1 t2 : tree V), same_struct t1 t2 ->
  exists r, cmp_tree t1 t2 = COk r /\ forall p, cleaf_at r p = spec_cmp t1 t2 p.
Proof. exact @compare_keywise. Qed.
Print Assumptions C09_compare_keywise.
Theorem C09_compare_diff_keys_raise : forall (V : Type) (c1 c2 : list (string * tree V)),
  NoDup (map fst c1) -> NoDup (map fst c2) ->
  forallb (fun k => mem k (map fst c2)) (map fst c1) && forallb (fun k => mem k (map fst c1)) (map fst c2) = false ->
  cmp_tree (Node c1) (Node c2) = CRaised.
Proof. exact @compare_diff_keys_raises. Qed.
Print Assumptions C09_compare_diff_keys_raise.

(* ------------------------------------------------------------------ operator spellings *)
Definition C09_operator_order_full_statement : Prop := forall d, order_ok false d = true.
Theorem C09_operator_order_refuted : order_ok false DuRsub = false.       (* D40: other - td computes td - other *)
Proof. exact dunder_rsub_refuted. Qed.
Print Assumptions C09_operator_order_refuted.
Theorem C09_operator_order_partial : forall d, d <> DuRsub -> order_ok false d = true.
Proof. exact dunder_order_all_but_rsub. Qed.
Print Assumptions C09_operator_order_partial.
Theorem C09_operator_order_fixed : forall d, order_ok true d = true.
Proof. exact dunder_order_fixed. Qed.
Print Assumptions C09_operator_order_fixed.

(* ------------------------------------------------------------------ broadcast against the batch dims from the left *)
(* a tensor operand of shape s that expands to the batch shape B reaches torch, for a leaf of shape B ++ feat, as a
   view of that shape whose element at (batch coordinates ++ feature coordinates) is the operand's element at the
   batch coordinates (torch broadcasting within the batch dims), whatever the feature coordinates *)
Theorem C09_broadcast_left : forall (s B feat : shape),
  expandable s B = true ->
  exists v, operand_view s B feat = Ok v /\ vshape v = B ++ feat /\
    forall ib jf, List.length ib = List.length B -> List.length jf = List.length feat ->
      vidx v (ib ++ jf) = spec_left_index s B (ib ++ jf).
Proof. exact operand_view_left. Qed.
Print Assumptions C09_broadcast_left.
Theorem C09_broadcast_decision : forall (bs s B : shape),
  List.length s <> 0 -> bcast_all [bs; s] = Some B -> maybe_broadcast bs [KTensor s] = BPerLeaf B.
Proof. exact maybe_broadcast_tensor. Qed.
Print Assumptions C09_broadcast_decision.

(* ------------------------------------------------------------------ reductions *)
(* sum / nansum / mean / nanmean / std / var over an int or a tuple of ints, any keepdim, any rank: batch size and
   names are torch's reduction of the proxy over the normalised dims, which are also the dims every leaf is reduced on *)
Theorem C09_reduce_bs : forall (bs : shape) (names : names_t) dim kd con zs nd,
  user_dims dim = Some zs -> sequence (map (norm_dim (List.length bs)) zs) = Some nd ->
  cast_reduction bs names dim kd true con None
  = Ok {| ro_bs := torch_reduce bs nd (kd_truthy kd);
          ro_names := option_map (fun ns => torch_reduce_names ns nd (kd_truthy kd)) names;
          ro_call := LcDim (PTuple nd) kd; ro_post := PostNone |}.
Proof. exact cast_reduction_tuple. Qed.
Print Assumptions C09_reduce_bs.
Theorem C09_reduce_out_of_range : forall (bs : shape) names dim kd con zs,
  user_dims dim = Some zs -> sequence (map (norm_dim (List.length bs)) zs) = None ->
  cast_reduction bs names dim kd true con None = Raised.
Proof. exact cast_reduction_tuple_out_of_range. Qed.
Print Assumptions C09_reduce_out_of_range.
(* every leaf (shape bs ++ feat) reduced over those dims starts with the result batch size *)
Theorem C09_reduce_leaf_coherent : forall (bs feat : shape) zs nd kd,
  sequence (map (norm_dim (List.length bs)) zs) = Some nd ->
  torch_reduce (bs ++ feat) nd kd = torch_reduce bs nd kd ++ feat.
Proof. intros bs feat zs nd kd H. apply leaf_shape_coherent. exact (normalised_in_range _ _ _ H). Qed.
Print Assumptions C09_reduce_leaf_coherent.
Theorem C09_reduce_names_length : forall (N : Type) (bs : shape) (ns : list N) nd kd,
  List.length ns = List.length bs ->
  List.length (torch_reduce_names ns nd kd) = List.length (torch_reduce bs nd kd).
Proof. exact @names_match_batch. Qed.
Print Assumptions C09_reduce_names_length.
(* amin / amax / min / max / prod over one int dim, keepdim=False *)
Theorem C09_reduce_single : forall (bs : shape) (names : names_t) z d con,
  norm_dim (List.length bs) z = Some d ->
  cast_reduction bs names (DimInt z) KdFalse false con None
  = Ok {| ro_bs := torch_reduce bs [d] false;
          ro_names := option_map (fun ns => torch_reduce_names ns [d] false) names;
          ro_call := LcDim (PInt (Z.of_nat d)) KdFalse; ro_post := PostNone |}.
Proof. exact cast_reduction_single. Qed.
Print Assumptions C09_reduce_single.

(* where /repo departs from torch's reduction (each with a concrete witness) *)
Definition C09_reduce_names_full_statement : Prop := forall op bs ns dim kd r,
  List.length ns = List.length bs -> front op bs (Some ns) dim kd = Ok r ->
  option_map (@List.length _) (ro_names r) = Some (List.length (ro_bs r)).
Theorem C09_reduce_names_refuted :                                      (* D43 *)
  exists bs ns r, List.length ns = List.length bs /\
    front RSingle bs (Some ns) (DimInt 0) KdTrue = Ok r /\ ro_bs r = torch_reduce bs [0] true /\
    option_map (@List.length _) (ro_names r) <> Some (List.length (ro_bs r)).
Proof. exact names_keepdim_refuted. Qed.
Print Assumptions C09_reduce_names_refuted.
Theorem C09_reduce_names_cumulative_refuted :                           (* D43 *)
  exists bs ns r, front RCum bs (Some ns) (DimInt 0) KdNoDefault = Ok r /\ ro_bs r = bs /\
    option_map (@List.length _) (ro_names r) <> Some (List.length (ro_bs r)).
Proof. exact names_cumulative_refuted. Qed.
Print Assumptions C09_reduce_names_cumulative_refuted.
Theorem C09_reduce_dim_none_refuted :                                   (* D44 *)
  exists bs r, front RTuple bs None DimNone KdNoDefault = Ok r /\
    ro_bs r <> torch_reduce bs (seq 0 (List.length bs)) false.
Proof. exact dim_none_refuted. Qed.
Print Assumptions C09_reduce_dim_none_refuted.
Theorem C09_reduce_tuple_single_refuted :                               (* D45 *)
  exists bs r, front RSingle bs None (DimTuple [0; 1]%Z) KdNoDefault = Ok r /\ ro_bs r <> torch_reduce bs [0; 1] false.
Proof. exact tuple_single_refuted. Qed.
Print Assumptions C09_reduce_tuple_single_refuted.
Definition C09_reduce_prod_keepdim_full_statement : Prop := forall (bs : shape) z d,
  norm_dim (List.length bs) z = Some d ->
  exists r, front RProd bs None (DimInt z) KdTrue = Ok r /\ ro_bs r = torch_reduce bs [d] true.
(* every in-range dim but the literal 0 (a negative spelling of dim 0 included): the reduced dim comes back as size 1 *)
Theorem C09_reduce_prod_keepdim_partial : forall (bs : shape) z d,
  norm_dim (List.length bs) z = Some d -> z <> 0%Z ->
  exists r, front RProd bs None (DimInt z) KdTrue = Ok r /\ ro_bs r = torch_reduce bs [d] true /\
            ro_call r = LcDim (PInt (Z.of_nat d)) KdFalse /\ ro_post r = PostUnsqueeze d.
Proof. exact prod_keepdim_nonzero. Qed.
Print Assumptions C09_reduce_prod_keepdim_partial.
Theorem C09_reduce_prod_keepdim_refuted :                               (* D46 *)
  exists bs, front RProd bs None (DimInt 0) KdTrue = Raised /\ norm_dim (List.length bs) 0 = Some 0.
Proof. exact prod_keepdim_dim0_refuted. Qed.
Print Assumptions C09_reduce_prod_keepdim_refuted.

(* ------------------------------------------------------------------ non-vacuity: concrete instances of the hypotheses *)
Example C09_ex_binary :
  let s := [("x", 2%Z); ("n.y", 3%Z); ("n.z", 5%Z)] in let o := [("n.z", 50%Z); ("x", 20%Z); ("n.y", 30%Z)] in
  NoDup (keys_of s) /\ NoDup (keys_of o) /\ s <> [] /\ same_keysb s o = true /\
  binary_plan Foreach true s (OpTd o) DNone
  = Ok [("x", (2%Z, RLeaf 20%Z)); ("n.y", (3%Z, RLeaf 30%Z)); ("n.z", (5%Z, RLeaf 50%Z))].
Proof. repeat split; try reflexivity; try discriminate; repeat constructor; cbn; intuition discriminate. Qed.
Example C09_ex_diff_keys :
  let s := [("x", 2%Z)] in let o := [("z", 50%Z); ("x", 20%Z)] in
  same_keysb s o = false /\ o <> [] /\ binary_plan Foreach false s (OpTd o) DNone = Raised
  /\ binary_plan Foreach false s (OpTd o) (DVal 0%Z) = Ok [("x", (2%Z, RLeaf 20%Z)); ("z", (0%Z, RLeaf 50%Z))]
  /\ binary_plan Loop false s (OpTd o) DInter = Ok [("x", (2%Z, RLeaf 20%Z))].
Proof. repeat split; try reflexivity; discriminate. Qed.
Example C09_ex_compare :
  let t1 := Node [("a", Leaf 1%Z); ("n", Node [("p", Leaf 2%Z); ("q", Leaf 3%Z)])] in
  let t2 := Node [("n", Node [("q", Leaf 30%Z); ("p", Leaf 20%Z)]); ("a", Leaf 10%Z)] in
  cmp_tree t1 t2 = COk (CNode [("a", CLeaf 1%Z 10%Z); ("n", CNode [("p", CLeaf 2%Z 20%Z); ("q", CLeaf 3%Z 30%Z)])]).
Proof. reflexivity. Qed.
Example C09_ex_broadcast :
  expandable [3; 1] [2; 3; 4] = true /\
  match operand_view [3; 1] [2; 3; 4] [5] with
  | Ok v => vshape v = [2; 3; 4; 5] /\ vidx v [1; 2; 3; 4] = [2; 0]
  | Raised => False
  end.
Proof. split; [reflexivity|]. cbn. split; reflexivity. Qed.
Example C09_ex_reduce :
  user_dims (DimTuple [(-1)%Z; 0%Z]) = Some [(-1)%Z; 0%Z] /\
  sequence (map (norm_dim 3) [(-1)%Z; 0%Z]) = Some [2; 0] /\
  cast_reduction [2; 3; 4] (Some [Some "p"; Some "q"; Some "r"]) (DimTuple [(-1)%Z; 0%Z]) KdNoDefault true true None
  = Ok {| ro_bs := [3]; ro_names := Some [Some "q"]; ro_call := LcDim (PTuple [2; 0]) KdNoDefault; ro_post := PostNone |}
  /\ torch_reduce ([2; 3; 4] ++ [7]) [2; 0] false = [3; 7].
Proof. repeat split; reflexivity. Qed.
