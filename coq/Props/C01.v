(* C01 — batch-shape, device and dim-name coherence in every reachable state.  Property theorems only.

   Model: Model/C01_Tree.v (tree skeleton, `coherentb`), Model/C01_Ops.v (`step : tree -> op -> tree * outcome`, the state
   the code leaves behind for ok AND raising outcomes), in the state of /repo AFTER the repairs fixes/C01/*.diff
   (D101/D102: the batch-size setter checks first and resizes emptied nested nodes; D103: rename_key_ validates at the
   destination).  `in_scopeb` is the property's stated exclusion (a batch size changed through a handle to a nested node
   must still extend the parent's).  `cleanb` (Model/C01_Scope.clean0) no longer excludes any defect; it holds the
   hypotheses of the proof: values handed to set/update are tensordicts coherent by themselves; when a batch size is
   assigned (batch_size =, auto_batch_size_) the nodes BELOW carry no dim names; auto_batch_size_(k) is in its growing
   regime.  Outside these two proof hypotheses the statement is neither proved nor refuted (the oracle covers it). *)
From Coq Require Import List String Bool Arith.
Import ListNotations.
From TD Require Import Model.C01_Tree Model.C01_Ops Model.C01_Scope Proofs.C01_SetP Proofs.C01_AutoP Proofs.C01_MainP.
Open Scope string_scope.
Open Scope list_scope.

(* the full statement (stated, not proved in full — see C01_step_partial for the proved domain; no counter-example is
   known after the repairs) *)
Definition C01_step_full_statement : Prop :=
  forall t o, Coherent t -> in_scopeb t o = true -> Coherent (fst (step t o)).

(* C01_step on the proved domain: any tree (any depth, any rank, size-0/1 dims, names, devices, hollow nodes), any
   handle, any argument; ok and raising outcomes alike.  rename_key_ into nested keys, unflatten_keys, values with empty
   nested tensordicts, NonTensorData entries under a batch-size change are all inside (they were excluded before the repairs). *)
Theorem C01_step_partial : forall t o,
  Coherent t -> in_scopeb t o = true -> cleanb t o = true -> Coherent (fst (step t o)).
Proof. exact step_coh. Qed.
Print Assumptions C01_step_partial.

(* the former refutation witnesses of D101 / D102 / D103, now with the repaired behaviour *)
Theorem C01_repaired_D101 : step w101_t w101_o = (Node KTd [4] None None [("n", Node KTd [4] None None [])], Done).
Proof. exact repaired_D101. Qed.
Print Assumptions C01_repaired_D101.
Theorem C01_repaired_D102 : step w102_t w102_o = (w102_t, Raised).
Proof. exact repaired_D102. Qed.
Print Assumptions C01_repaired_D102.
Theorem C01_repaired_D103 : step w103_t w103_o = (w103_t, Raised).
Proof. exact repaired_D103. Qed.
Print Assumptions C01_repaired_D103.

(* C01_reachable: induction over the op list from any coherent state; every intermediate state is coherent *)
Theorem C01_reachable_partial : forall ops t, Coherent t -> trace_ok t ops -> forall n, Coherent (run t (firstn n ops)).
Proof. exact run_coh_all. Qed.
Print Assumptions C01_reachable_partial.

(* C01_reject: a tensor whose leading dims are not the batch size is refused and the node is left as it was *)
Theorem C01_reject : forall bs dv nm es k sh d ip,
  bs <> [] -> prefixb bs sh = false ->
  set_str (Node KTd bs dv nm es) k (VTree (Leaf sh d)) ip = (Node KTd bs dv nm es, Raised).
Proof. exact reject_shape. Qed.
Print Assumptions C01_reject.

(* ... and an accepted tensor is stored on the device of its container *)
Theorem C01_stored_on_device : forall bs d0 nm es k sh d self',
  set_str (Node KTd bs (Some d0) nm es) k (VTree (Leaf sh d)) INo = (self', Done) ->
  self' = Node KTd bs (Some d0) nm (aset k (Leaf sh d0) es).
Proof. exact stored_on_device. Qed.
Print Assumptions C01_stored_on_device.

(* C01_names_len: every node of a coherent tree has no names or exactly one per batch dim *)
Theorem C01_names_len : forall t, Coherent t -> all_nodes names_lenb t = true.
Proof. intros t H. exact (coh_names_len t [] None H). Qed.
Print Assumptions C01_names_len.

(* what the separate parts of the machinery keep invariant, in any context (used by the steps above and stated here
   because they are the transcribed mechanisms of the property's anchors) *)
Theorem C01_names_setter : forall t v p d, coh p d t = true -> coh p d (fst (set_names t v)) = true.
Proof. exact Proofs.C01_NamesP.set_names_coh. Qed.
Print Assumptions C01_names_setter.

(* a successful batch-size assignment is coherent wherever the context's size is a prefix of the new one: no hypothesis
   on the tree (hollow nodes, names: anything) *)
Theorem C01_batch_size_setter_ok : forall t sz new t' p d,
  coh p d t = true -> set_bs sz t new = (t', true) -> prefixb p new = true -> coh p d t' = true.
Proof. exact Proofs.C01_BatchP.set_bs_ok_coh. Qed.
Print Assumptions C01_batch_size_setter_ok.

(* both outcomes, for a node whose descendants carry no dim names: a rejected assignment leaves a coherent tree *)
Theorem C01_batch_size_setter : forall t sz new p d,
  coh p d t = true -> no_names_below t = true -> prefixb p new = true -> coh p d (fst (set_bs sz t new)) = true.
Proof. exact Proofs.C01_BatchP.set_bs_coh. Qed.
Print Assumptions C01_batch_size_setter.

(* rename_key_ with any new key (string or nested) keeps the tree coherent *)
Theorem C01_rename_key : forall old new safe self p d,
  coh p d self = true -> coh p d (fst (rename_key old new safe self)) = true.
Proof. exact Proofs.C01_StepP.rename_key_coh. Qed.
Print Assumptions C01_rename_key.

(* _validate_value: whatever it returns (a value to store, or an error) the container stays coherent — also when it
   adopted the value's dim names and pushed them to the other children — and a returned value is a coherent entry of
   the container: leading dims = batch size, on the container's device, one name per dim.  The value is any tensor, or
   any tensordict that is coherent by itself. *)
Theorem C01_validate_value : forall sk sbs sdv snm ses v p d self' r,
  coh p d (Node sk sbs sdv snm ses) = true ->
  coh [] None v = true ->
  validate_tree (Node sk sbs sdv snm ses) v = (self', r) ->
  coh p d self' = true /\ thdr self' = Some (sk, sbs, sdv) /\ (forall t, r = Ok t -> coh sbs sdv t = true).
Proof. exact validate_tree_coh. Qed.
Print Assumptions C01_validate_value.

(* auto_batch_size_(k) in its growing regime (no limit, or a limit not below the rank of any node of the subtree) *)
Theorem C01_auto_batch_size : forall t k p d,
  coh p d t = true -> no_names_below t = true -> auto_scope k p t -> coh p d (fst (auto_bs t k)) = true.
Proof. exact auto_bs_coh. Qed.
Print Assumptions C01_auto_batch_size.

(* non-vacuity: a three-level tree with a rank-0 root, a size-0 dim, names and a device satisfies the premises, and a
   history with an ill-shaped write, a write through a nested handle, a names adoption and a batch-size change is in
   scope and clean *)
Definition ex_tree : tree :=
  Node KTd [] None None
    [("a", Leaf [2; 3] CPU);
     ("n", Node KTd [0; 2] (Some META) (Some [Some "p"; None])
             [("x", Leaf [0; 2; 5] META);
              ("m", Node KTd [0; 2; 1] (Some META) None [("y", Leaf [0; 2; 1] META)])])].
Definition ex_ops : list op :=
  [ OAt ["n"] (OSet ["z"] (VTree (Leaf [3] CPU)) false);                  (* ill-shaped: raises *)
    OAt ["n"; "m"] (OSet ["q"; "w"] (VTree (Leaf [0; 2; 1; 4] CPU)) false);  (* nested handle, creates q *)
    OAt [] (OSet ["t"] (VTree (Node KTd [] None None [("l", Leaf [7] CPU)])) false);
    OAt ["n"] (OBatchSize false [0]);
    OAt [] (ORename ["a"] ["b"] false);
    OAt [] (ORename ["b"] ["n"; "q"; "b"] false);                         (* nested new key: refused by the destination *)
    OAt [] (OSet ["h"] (VTree (Node KTd [5] None None [("e", Node KTd [5] None None [])])) false);  (* hollow value *)
    OAt ["n"] (ONames (Some [Some "r"])) ].
Example C01_ex_premises : Coherent ex_tree /\ trace_ok ex_tree ex_ops.
Proof. vm_compute. repeat split. Qed.
Example C01_ex_outcomes :
  map (fun n => snd (step (run ex_tree (firstn n ex_ops)) (nth n ex_ops (OAt [] OClear)))) [0; 1; 2; 3; 4; 5; 6; 7]
  = [Raised; Done; Done; Done; Done; Raised; Done; Done].
Proof. vm_compute. reflexivity. Qed.
Example C01_ex_final : coherentb (run ex_tree ex_ops) = true /\ is_empty (run ex_tree ex_ops) = false.
Proof. vm_compute. split; reflexivity. Qed.
