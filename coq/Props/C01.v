(* C01 — batch-shape, device and dim-name coherence in every reachable state.  Property theorems only.

   Model: Model/C01_Tree.v (tree skeleton, `coherentb`), Model/C01_Ops.v (`step : tree -> op -> tree * outcome`, the state
   the code leaves behind for ok AND raising outcomes), in the state of /repo AFTER the repairs fixes/C01/*.diff
   (D101/D102: the batch-size setter checks first and resizes emptied nested nodes; D103: rename_key_ validates at the
   destination).  `in_scopeb` is the property's stated exclusion (a batch size changed through a handle to a nested node
   must still extend the parent's).  `cleanb` (Model/C01_Scope.clean0) no longer excludes any defect; it holds the
   hypotheses of the proof: values handed to set/update are tensordicts coherent by themselves; when a batch size is
   assigned (batch_size =, auto_batch_size_) the nodes BELOW carry no dim names; auto_batch_size_(k) is in its growing
   regime.  Outside these two proof hypotheses the statement is neither proved nor refuted (the oracle covers it). *)
From Coq Require Import ZArith List String Bool Arith.
Import ListNotations.
From TD Require Import Model.C01_Tree Model.C01_Ops Model.C01_Scope Model.C01_Index Model.C01_All Model.C01_Lazy.
From TD Require Import Proofs.C01_SetP Proofs.C01_AutoP Proofs.C01_MainP Proofs.C01_IndexP Proofs.C01_AllP Proofs.C01_LazyP.
From TD Require Model.C03_Index.
Open Scope string_scope.
Open Scope list_scope.

(* the full statement (stated, not proved in full — see C01_step_partial for the proved domain; no counter-example is
   known after the repairs) *)
Definition C01_step_full_statement : Prop :=
  forall t o, Coherent t -> in_scopeb t o = true -> Coherent (fst (step t o)).

(* C01_step on the proved domain: any tree (any depth, any rank, size-0/1 dims, names, devices, hollow nodes), any
   handle, any argument; ok and raising outcomes alike.  rename_key_ into nested keys, unflatten_keys, values with empty
   nested tensordicts, NonTensorData entries under a batch-size change are all inside (they were excluded before the repairs). *)
Theorem C01_step_partial : forall t o,
  Coherent t -> in_scopeb t o = true -> cleanb t o = true -> Coherent (fst (step t o)).
Proof. exact step_coh. Qed.
Print Assumptions C01_step_partial.

(* the former refutation witnesses of D101 / D102 / D103, now with the repaired behaviour *)
Theorem C01_repaired_D101 : step w101_t w101_o = (Node KTd [4] None None [("n", Node KTd [4] None None [])], Done).
Proof. exact repaired_D101. Qed.
Print Assumptions C01_repaired_D101.
Theorem C01_repaired_D102 : step w102_t w102_o = (w102_t, Raised).
Proof. exact repaired_D102. Qed.
Print Assumptions C01_repaired_D102.
Theorem C01_repaired_D103 : step w103_t w103_o = (w103_t, Raised).
Proof. exact repaired_D103. Qed.
Print Assumptions C01_repaired_D103.

(* C01_reachable: induction over the op list from any coherent state; every intermediate state is coherent *)
Theorem C01_reachable_partial : forall ops t, Coherent t -> trace_ok t ops -> forall n, Coherent (run t (firstn n ops)).
Proof. exact run_coh_all. Qed.
Print Assumptions C01_reachable_partial.

(* C01_reject: a tensor whose leading dims are not the batch size is refused and the node is left as it was *)
Theorem C01_reject : forall bs dv nm es k sh d ip,
  bs <> [] -> prefixb bs sh = false ->
  set_str (Node KTd bs dv nm es) k (VTree (Leaf sh d)) ip = (Node KTd bs dv nm es, Raised).
Proof. exact reject_shape. Qed.
Print Assumptions C01_reject.

(* ... and an accepted tensor is stored on the device of its container *)
Theorem C01_stored_on_device : forall bs d0 nm es k sh d self',
  set_str (Node KTd bs (Some d0) nm es) k (VTree (Leaf sh d)) INo = (self', Done) ->
  self' = Node KTd bs (Some d0) nm (aset k (Leaf sh d0) es).
Proof. exact stored_on_device. Qed.
Print Assumptions C01_stored_on_device.

(* C01_names_len: every node of a coherent tree has no names or exactly one per batch dim *)
Theorem C01_names_len : forall t, Coherent t -> all_nodes names_lenb t = true.
Proof. intros t H. exact (coh_names_len t [] None H). Qed.
Print Assumptions C01_names_len.

(* what the separate parts of the machinery keep invariant, in any context (used by the steps above and stated here
   because they are the transcribed mechanisms of the property's anchors) *)
Theorem C01_names_setter : forall t v p d, coh p d t = true -> coh p d (fst (set_names t v)) = true.
Proof. exact Proofs.C01_NamesP.set_names_coh. Qed.
Print Assumptions C01_names_setter.

(* a successful batch-size assignment is coherent wherever the context's size is a prefix of the new one: no hypothesis
   on the tree (hollow nodes, names: anything) *)
Theorem C01_batch_size_setter_ok : forall t sz new t' p d,
  coh p d t = true -> set_bs sz t new = (t', true) -> prefixb p new = true -> coh p d t' = true.
Proof. exact Proofs.C01_BatchP.set_bs_ok_coh. Qed.
Print Assumptions C01_batch_size_setter_ok.

(* both outcomes, for a node whose descendants carry no dim names: a rejected assignment leaves a coherent tree *)
Theorem C01_batch_size_setter : forall t sz new p d,
  coh p d t = true -> no_names_below t = true -> prefixb p new = true -> coh p d (fst (set_bs sz t new)) = true.
Proof. exact Proofs.C01_BatchP.set_bs_coh. Qed.
Print Assumptions C01_batch_size_setter.

(* rename_key_ with any new key (string or nested) keeps the tree coherent *)
Theorem C01_rename_key : forall old new safe self p d,
  coh p d self = true -> coh p d (fst (rename_key old new safe self)) = true.
Proof. exact Proofs.C01_StepP.rename_key_coh. Qed.
Print Assumptions C01_rename_key.

(* _validate_value: whatever it returns (a value to store, or an error) the container stays coherent — also when it
   adopted the value's dim names and pushed them to the other children — and a returned value is a coherent entry of
   the container: leading dims = batch size, on the container's device, one name per dim.  The value is any tensor, or
   any tensordict that is coherent by itself. *)
Theorem C01_validate_value : forall sk sbs sdv snm ses v p d self' r,
  coh p d (Node sk sbs sdv snm ses) = true ->
  coh [] None v = true ->
  validate_tree (Node sk sbs sdv snm ses) v = (self', r) ->
  coh p d self' = true /\ thdr self' = Some (sk, sbs, sdv) /\ (forall t, r = Ok t -> coh sbs sdv t = true).
Proof. exact validate_tree_coh. Qed.
Print Assumptions C01_validate_value.

(* auto_batch_size_(k) in its growing regime (no limit, or a limit not below the rank of any node of the subtree) *)
Theorem C01_auto_batch_size : forall t k p d,
  coh p d t = true -> no_names_below t = true -> auto_scope k p t -> coh p d (fst (auto_bs t k)) = true.
Proof. exact auto_bs_coh. Qed.
Print Assumptions C01_auto_batch_size.

(* non-vacuity: a three-level tree with a rank-0 root, a size-0 dim, names and a device satisfies the premises, and a
   history with an ill-shaped write, a write through a nested handle, a names adoption and a batch-size change is in
   scope and clean *)
Definition ex_tree : tree :=
  Node KTd [] None None
    [("a", Leaf [2; 3] CPU);
     ("n", Node KTd [0; 2] (Some META) (Some [Some "p"; None])
             [("x", Leaf [0; 2; 5] META);
              ("m", Node KTd [0; 2; 1] (Some META) None [("y", Leaf [0; 2; 1] META)])])].
Definition ex_ops : list op :=
  [ OAt ["n"] (OSet ["z"] (VTree (Leaf [3] CPU)) false);                  (* ill-shaped: raises *)
    OAt ["n"; "m"] (OSet ["q"; "w"] (VTree (Leaf [0; 2; 1; 4] CPU)) false);  (* nested handle, creates q *)
    OAt [] (OSet ["t"] (VTree (Node KTd [] None None [("l", Leaf [7] CPU)])) false);
    OAt ["n"] (OBatchSize false [0]);
    OAt [] (ORename ["a"] ["b"] false);
    OAt [] (ORename ["b"] ["n"; "q"; "b"] false);                         (* nested new key: refused by the destination *)
    OAt [] (OSet ["h"] (VTree (Node KTd [5] None None [("e", Node KTd [5] None None [])])) false);  (* hollow value *)
    OAt ["n"] (ONames (Some [Some "r"])) ].
Example C01_ex_premises : Coherent ex_tree /\ trace_ok ex_tree ex_ops.
Proof. vm_compute. repeat split. Qed.
Example C01_ex_outcomes :
  map (fun n => snd (step (run ex_tree (firstn n ex_ops)) (nth n ex_ops (OAt [] OClear)))) [0; 1; 2; 3; 4; 5; 6; 7]
  = [Raised; Done; Done; Done; Done; Raised; Done; Done].
Proof. vm_compute. reflexivity. Qed.
Example C01_ex_final : coherentb (run ex_tree ex_ops) = true /\ is_empty (run ex_tree ex_ops) = false.
Proof. vm_compute. split; reflexivity. Qed.

(* ================================================================ index writes (Model/C01_Index.v) ======================
   td[idx] = value (tensor / scalar / tensordict / dict), set_at_(key, value, idx), update_at_(source, idx), index grammar
   ints / slices / None / Ellipsis / one advanced index (Model/C03_Index.item).  The model keeps the partial effect of a call
   that raises midway (entries auto-created before a later item is refused stay). *)

(* C01_index_step: an index write through any handle keeps the whole tree coherent, whatever the index (well-formed or
   not), whatever the outcome (ok, raised midway, outside the model's grammar); the only hypothesis: tensordict values
   handed over are coherent by themselves.  No scope exclusion, no proof hypothesis on dim names. *)
Theorem C01_index_step : forall t path io,
  Coherent t -> value_okb (iop_value io) = true -> Coherent (fst (istep t path io)).
Proof. exact istep_coh. Qed.
Print Assumptions C01_index_step.

(* the same in any context (the node may be a nested entry with any parent batch size / device) *)
Theorem C01_index_write_any_context : forall o self p d,
  value_okb (iop_value o) = true -> coh p d self = true -> coh p d (fst (inode_step o self)) = true.
Proof. exact inode_step_coh. Qed.
Print Assumptions C01_index_write_any_context.

(* histories of index writes only: every coherent start, every list of calls *)
Theorem C01_index_reachable : forall (ops : list (list string * iop)) t,
  Coherent t -> Forall (fun po => value_okb (iop_value (snd po)) = true) ops ->
  Coherent (fold_left (fun t po => fst (istep t (fst po) (snd po))) ops t).
Proof. exact irun_coh. Qed.
Print Assumptions C01_index_reachable.

(* C01_xstep / C01_xreachable: histories that interleave ALL modelled calls (those of C01_step_partial and the index
   writes); _partial for the same reason as C01_step_partial (x_cleanb = cleanb on the old calls, coherent values on the
   index writes) *)
Definition C01_xstep_full_statement : Prop :=
  forall t o, Coherent t -> x_in_scopeb t o = true -> Coherent (fst (xstep t o)).
Theorem C01_xstep_partial : forall t o,
  Coherent t -> x_in_scopeb t o = true -> x_cleanb t o = true -> Coherent (fst (xstep t o)).
Proof. exact xstep_coh. Qed.
Print Assumptions C01_xstep_partial.
Theorem C01_xreachable_partial : forall ops t, Coherent t -> xtrace_ok t ops -> forall n, Coherent (xrun t (firstn n ops)).
Proof. exact xrun_coh_all. Qed.
Print Assumptions C01_xreachable_partial.

(* td[idx] = tensor / scalar never changes a shape, a device or a name: the state is returned as it was, ok or raised *)
Theorem C01_setitem_tensor_keeps_state : forall ix vsh vd self, fst (setitem_idx ix (VTree (Leaf vsh vd)) self) = self.
Proof. exact setitem_tensor_state. Qed.
Print Assumptions C01_setitem_tensor_keeps_state.

(* an index the batch size does not admit (_getitem_batch_size raises) is refused before anything is written *)
Theorem C01_setitem_rejects_bad_index : forall fuel ix v bs dv nm es ix1,
  C03_Index.convert_ellipsis ix bs = C03_Index.Ok ix1 -> idx_unm ix1 = false -> C03_Index.gbs bs ix1 = C03_Index.Reject ->
  is_td v = true ->
  write_td (S fuel) ix v (Node KTd bs dv nm es) = (Node KTd bs dv nm es, Raised).
Proof. exact setitem_td_bad_index. Qed.
Print Assumptions C01_setitem_rejects_bad_index.

(* the entry auto-created for a missing key: either the value is refused and nothing is created, or the new tensor has
   shape  batch_size ++ value.shape[len(indexed batch size):]  and lives on the container's device (cpu when it has none) *)
Theorem C01_autocreated_entry_shape : forall rec k vsh vd ix ibs bs dv nm es self' o c,
  aget k es = None ->
  sub_set rec k (Leaf vsh vd) ix ibs (Node KTd bs dv nm es) = (self', o) -> o <> Unmodelled ->
  (o = Raised /\ self' = Node KTd bs dv nm es) \/
  (aget k (node_ents self') = Some c -> c = Leaf (bs ++ skipn (List.length ibs) vsh) (match dv with Some d => d | None => CPU end)).
Proof. exact autocreated_leaf_shape. Qed.
Print Assumptions C01_autocreated_entry_shape.

(* non-vacuity: index writes on the tree above — an auto-created key through an int index on a nested handle, a dict
   value, a write that raises midway AFTER it created an entry (cpu entry pre-allocated, meta value refused), an
   out-of-range index, a mask, set_at_ through a nested key, update_at_; interleaved with calls of the first family *)
Definition ex_xops : list xop :=
  [ XIdx ["n"] (ISetItem [C03_Index.ISl None None None; C03_Index.IInt 1%Z]
                  (VTree (Node KTd [0] None None [("x", Leaf [0; 5] META); ("new", Leaf [0; 7] CPU)])));
    XIdx [] (ISetItem [C03_Index.IEll] (VDict [("a", VTree (Leaf [2; 3] CPU)); ("k", VTree (Leaf [6] CPU));
                                                ("g", VTree (Node KTd [] None None [("w", Leaf [4] CPU)]))]));
    XIdx [] (ISetItem [] (VTree (Node KTd [] None None [("z", Leaf [4] META)])));          (* creates z on cpu, then raises *)
    XBase (OAt [] (ORename ["a"] ["b"] false));
    XIdx ["n"] (ISetItem [C03_Index.IInt 5%Z] (VTree (Leaf [] CPU)));                        (* out of range *)
    XIdx ["n"] (ISetAt ["m"; "y"] [C03_Index.ISl None None None; C03_Index.IMask [2] 1] (VTree (Leaf [0; 1; 1] CPU)));
    XIdx ["n"] (IUpdateAt (VDict [("x", VTree (Leaf [2; 5] CPU)); ("nope", VTree (Leaf [] CPU))]) [C03_Index.ISl None (Some 0%Z) None]);
    XBase (OAt ["n"] (OBatchSize false [0])) ].
Example C01_ex_xpremises : Coherent ex_tree /\ xtrace_ok ex_tree ex_xops.
Proof. vm_compute. repeat split. Qed.
Example C01_ex_xoutcomes :
  map (fun n => snd (xstep (xrun ex_tree (firstn n ex_xops)) (nth n ex_xops (XBase (OAt [] OClear))))) [0; 1; 2; 3; 4; 5; 6; 7]
  = [Done; Done; Raised; Done; Raised; Done; Raised; Done].
Proof. vm_compute. reflexivity. Qed.
Example C01_ex_xfinal :
  coherentb (xrun ex_tree ex_xops) = true /\
  map fst (node_ents (xrun ex_tree ex_xops)) = ["n"; "k"; "g"; "z"; "b"] /\
  aget "g" (node_ents (xrun ex_tree ex_xops)) = Some (Node KTd [] None None [("w", Leaf [4] CPU)]) /\
  aget "z" (node_ents (xrun ex_tree ex_xops)) = Some (Leaf [4] CPU).
Proof. vm_compute. repeat split. Qed.
(* the premises of C01_setitem_rejects_bad_index and C01_autocreated_entry_shape are met by concrete instances *)
Example C01_ex_bad_index :
  C03_Index.convert_ellipsis [C03_Index.ISl None None None; C03_Index.ISl None None None] [3] = C03_Index.Ok [C03_Index.ISl None None None; C03_Index.ISl None None None]
  /\ C03_Index.gbs [3] [C03_Index.ISl None None None; C03_Index.ISl None None None] = C03_Index.Reject.
Proof. vm_compute. split; reflexivity. Qed.
Example C01_ex_autocreated :
  sub_set (write_td 3) "new" (Leaf [2; 7] META) [C03_Index.IInt 1%Z] [2] (Node KTd [3; 2] (Some META) None [])
  = (Node KTd [3; 2] (Some META) None [("new", Leaf [3; 2; 7] META)], Done).
Proof. vm_compute. reflexivity. Qed.

(* ================================================================ a lazy stack at the root (Model/C01_Lazy.v) ============
   LStack stack_dim members.  Coherence of a lazy stack (lcohb): at least one member, every member a coherent TensorDict, one
   batch size and one device among the members, stack_dim inside the derived batch size (members' batch size with the member
   count inserted at stack_dim).  The names of the stack are NOT part of it: finding D107 (members with different dim names
   are accepted; LazyStackedTensorDict.names then raises) stays a finding of the oracle. *)

(* C01_lazy_step: every modelled call on a lazy stack — set / td[key] = v / set_ (string and nested keys: value validated
   against the derived batch size and device, unbound along stack_dim, written member by member), del_, insert, append,
   batch_size assignment — keeps it coherent, for ok AND raising outcomes: a member that raises leaves the members written
   before it written, and each of them coherent.  Only hypothesis: tensordict values handed over are coherent by themselves. *)
Theorem C01_lazy_step : forall L o, LCoherent L -> lop_value_ok o = true -> LCoherent (fst (lstep L o)).
Proof. exact lstep_coh. Qed.
Print Assumptions C01_lazy_step.

Theorem C01_lazy_reachable : forall ops L,
  LCoherent L -> Forall (fun o => lop_value_ok o = true) ops -> LCoherent (lrun L ops).
Proof. exact lrun_coh. Qed.
Print Assumptions C01_lazy_reachable.

(* what a coherent stack means for an observer: every member is coherent, has the stack's batch size without the stack
   dim, and lives on the stack's (derived) device *)
Theorem C01_lazy_members : forall d ms m, LCoherent (LStack d ms) -> In m ms ->
  Coherent m /\ tshape m = remove_nth d (lbs (LStack d ms)) /\ tdev m = ldev (LStack d ms).
Proof. exact lcoh_members. Qed.
Print Assumptions C01_lazy_members.

(* insert / append: a member with another batch size or on another device is refused, the stack is left as it was *)
Theorem C01_lazy_insert_rejects : forall i d ms vb vd vn ve,
  (shape_eqb vb (mbs ms) = false \/ odev_eqb (mdev ms) vd = false) ->
  linsert i (VTree (Node KTd vb vd vn ve)) (LStack d ms) = (LStack d ms, Raised).
Proof. exact linsert_rejects. Qed.
Print Assumptions C01_lazy_insert_rejects.

(* non-vacuity: a stack of two members along dim 1; a write that raises in the SECOND member after the first was written
   (its entry has another feature shape: the in-place copy is refused), an ill-shaped value, a nested
   key, append of a well- and an ill-shaped member, del_ of a key only one member holds *)
Definition ex_member (extra : ents) : tree :=
  Node KTd [3; 2] (Some CPU) None ([("a", Leaf [3; 2; 4] CPU); ("n", Node KTd [3; 2] (Some CPU) None [("x", Leaf [3; 2] CPU)])] ++ extra).
Definition ex_lstack : lstack :=
  LStack 1 [ex_member [("q", Leaf [3; 2] CPU)]; ex_member [("q", Leaf [3; 2; 9] CPU); ("only", Leaf [3; 2] CPU)]].
Definition ex_lops : list lop :=
  [ LSet ["q"] (VTree (Leaf [3; 2; 2] CPU)) true;                 (* in place: member 0 written, member 1 refuses *)
    LSet ["a"] (VTree (Leaf [3; 5; 2] CPU)) false;                (* ill-shaped against the derived batch size [3; 2; 2] *)
    LSet ["n"; "y"] (VTree (Leaf [3; 2; 2; 7] CPU)) false;
    LAppend (VTree (ex_member []));
    LAppend (VTree (Node KTd [3] (Some CPU) None []));
    LDel ["only"];
    LBatchSize true [3; 3; 2] ].
Example C01_ex_lazy_premises : LCoherent ex_lstack /\ forallb lop_value_ok ex_lops = true.
Proof. vm_compute. split; reflexivity. Qed.
Example C01_ex_lazy_outcomes :
  map (fun n => snd (lstep (lrun ex_lstack (firstn n ex_lops)) (nth n ex_lops (LDel [])))) [0; 1; 2; 3; 4; 5; 6]
  = [Raised; Raised; Done; Done; Raised; Done; Done].
Proof. vm_compute. reflexivity. Qed.
Example C01_ex_lazy_final : lcohb (lrun ex_lstack ex_lops) = true /\ lbs (lrun ex_lstack ex_lops) = [3; 3; 2].
Proof. vm_compute. split; reflexivity. Qed.
