(* C14 — TensorDict modules read in_keys, write out_keys, sequences compose soundly.  Property theorems only.
   Model: Model/C14_Flow.v (dataflow), Model/C14_Interact.v (_dist_sample), Model/C14_Prob.v (key plumbing of probabilistic
   modules); spec: Spec/C14_Fold.v. *)
From Coq Require Import List String Bool.
Import ListNotations.
From TD Require Import Model.C14_Flow Model.C14_Interact Model.C14_Prob Spec.C14_Fold Proofs.C14_FlowP Proofs.C14_SliceP Proofs.C14_InteractP Proofs.C14_ProbP.

(* ---- seq_is_fold: for EVERY module graph whose inner modules write in place (the top module may have any inplace
   mode, select_out_keys, tensordict_out), every environment: the module returns, and each advertised out key holds
   the term the plain fold of the leaf modules computes (nested sequences flatten; the execution copy, the final
   update(keys_to_update=out_keys) and the selection preserve those values) *)
Theorem C14_seq_is_fold : forall n x o e', top_regular n = true -> buildable n = true ->
  spec_run (leaves n) (env_of x) = Some e' ->
  exists x' o' r res, fwd n x o = Done x' o' r /\ result_td (Done x' o' r) = Some res
    /\ forall k v, List.In k (out_keys n) -> k <> sink -> e' k = Some v -> get k res = Some v.
Proof. exact seq_is_fold. Qed.
Print Assumptions C14_seq_is_fold.

(* ... and it raises exactly when the fold meets a missing input *)
Theorem C14_seq_raises_iff_fold_fails : forall n x o, top_regular n = true ->
  spec_run (leaves n) (env_of x) = None <-> exists x' o', fwd n x o = Raised x' o'.
Proof. exact seq_raises_iff_fold_fails. Qed.
Print Assumptions C14_seq_raises_iff_fold_fails.

(* an inner node: the tensordict it returns IS the fold's environment, key by key *)
Theorem C14_inner_is_fold : forall n, regular n = true ->
  forall x, fwd_rel (spec_run (leaves n) (env_of x)) (fwd n x None).
Proof. exact regular_fwd. Qed.
Print Assumptions C14_inner_is_fold.

(* ---- in_keys_sufficient: a tensordict holding the advertised in_keys (computed by _compute_in_and_out_keys through any
   nesting) is enough: no module ever reads a missing key *)
Theorem C14_in_keys_sufficient : forall n x o, top_regular n = true -> no_sink_in n = true ->
  (forall k, List.In k (in_keys n) -> has k x = true) ->
  exists x' o' r, fwd n x o = Done x' o' r.
Proof. exact in_keys_sufficient. Qed.
Print Assumptions C14_in_keys_sufficient.

(* ---- out_keys_last_writer: the value of a key after the sequence is the output of the LAST module that lists it
   (at the last position it occupies in that module's out_keys), applied to what that module read *)
Theorem C14_out_keys_last_writer : forall pre l post e e', spec_run (pre ++ l :: post) e = Some e' ->
  exists e1 args, spec_run pre e = Some e1 /\ eread (ins l) e1 = Some args /\
    forall j k, nth_error (outs l) j = Some k -> k <> sink ->
      (forall j', j < j' -> nth_error (outs l) j' <> Some k) ->
      (forall l', List.In l' post -> ~ List.In k (outs l')) ->
      e' k = Some (App (mid l) j args).
Proof. exact last_writer. Qed.
Print Assumptions C14_out_keys_last_writer.

(* the advertised out_keys are exactly the keys some module lists, each once *)
Theorem C14_out_keys_complete : forall n, regular n = true ->
  forall k, List.In k (out_keys n) <-> exists l, List.In l (leaves n) /\ List.In k (outs l).
Proof. exact out_keys_are_writes. Qed.
Print Assumptions C14_out_keys_complete.
Theorem C14_out_keys_nodup : forall ms, NoDup (all_out_keys ms).
Proof. intro ms. apply dedup_last_NoDup. Qed.
Print Assumptions C14_out_keys_nodup.

(* ---- module_footprint, full statement: entries other than out_keys are the identical bindings afterwards, in the
   input and in tensordict_out *)
Definition C14_module_footprint_full_statement : Prop :=
  forall n x o k, ~ List.In k (out_keys n) -> footprint_statement n x o k.
(* still false one way (D142, kept as a finding: a code comment says it is deliberate): a SEQUENCE with select_out_keys
   writes back every input entry an inner module overwrote, selected or not *)
Theorem C14_module_footprint_refuted_seq_select :
  exists n x k, ~ List.In k (out_keys n) /\ top_regular n = true /\ ~ footprint_statement n x None k.
Proof. exact footprint_refuted_seq_select. Qed.
Print Assumptions C14_module_footprint_refuted_seq_select.
(* on the complement -- no select_out_keys on a sequence; leaf modules may select (D9 / D141 repaired) -- for EVERY graph
   (any keys, any inplace modes at any level, partial_tolerant, nesting), every input, with or without tensordict_out.
   D143 repaired (forward copies its out_keys with select + update instead of update(keys_to_update)): the former
   hypothesis "no two keys share their first component" is gone *)
Theorem C14_module_footprint_partial : forall n x o, noseqsel n = true ->
  forall k, ~ List.In k (out_keys n) -> footprint_statement n x o k.
Proof. exact footprint_partial. Qed.
Print Assumptions C14_module_footprint_partial.
(* the witness of D143 in the library before its repair (switch fixed_D143 = false): update(keys_to_update) copied sibling
   leaves of a nested out key into a tensordict_out that lacked the node *)
Theorem C14_module_footprint_refuted_tout_unrepaired :
  exists n x ot k, ~ List.In k (out_keys n) /\ noseqsel n = true /\ ~ footprint_statement_gen false n x (Some ot) k.
Proof. exact footprint_refuted_tout_unrepaired. Qed.
Print Assumptions C14_module_footprint_refuted_tout_unrepaired.

(* ---- subsequence_sound: for every module graph (any nesting, ModuleList or ModuleDict — D144 repaired), every key set S,
   every environment: the sequence returned by select_subsequence(out_keys=S) computes the SAME TERMS for S; it is again
   a chain of in-place modules, so C14_inner_is_fold / C14_in_keys_sufficient apply to it (it runs on its own in_keys).
   Full statement (no hypothesis on the number of outputs): *)
Definition C14_subsequence_sound_full_statement : Prop :=
  forall n S n', regular n = true -> no_sink_in n = true ->
  select_sub (depth n + 1) n None (Some S) = SOk n' ->
  forall e e', spec_run (leaves n) e = Some e' ->
    exists e'', spec_run (leaves n') e = Some e'' /\ forall k, List.In k S -> e'' k = e' k.
(* proved when every module has at least one out key (a module without outputs is dropped by the forward pass; that
   case is covered by the differential run only) *)
Theorem C14_subsequence_sound_partial : forall n S n',
  regular n = true -> no_sink_in n = true -> has_outs n = true ->
  select_sub (depth n + 1) n None (Some S) = SOk n' ->
  regular n' = true /\ no_sink_in n' = true
  /\ forall e e', spec_run (leaves n) e = Some e' ->
       exists e'', spec_run (leaves n') e = Some e'' /\ forall k, List.In k S -> e'' k = e' k.
Proof. exact subsequence_sound_partial. Qed.
Print Assumptions C14_subsequence_sound_partial.
(* the backward pass alone, for ANY recursive slicer that is sound on the nested sequences (the induction step) *)
Theorem C14_backward_pass_sound : forall rec ms,
  Forall good ms ->
  (forall m, List.In m ms -> forall S m', rec m None (Some S) = SOk m' -> good m' /\ sound m m' S) ->
  forall need kept nr, bpass rec ms need = Some (Some (kept, nr)) ->
    Forall good kept
    /\ (forall k, List.In k need -> List.In k nr)
    /\ (forall (L : key -> Prop), (forall k, L k -> List.In k need) -> forall k, live (flat_map leaves kept) L k -> List.In k nr)
    /\ (forall (L : key -> Prop), (forall k, L k -> List.In k need) ->
        forall e1 e2 e1', agree (live (flat_map leaves kept) L) e1 e2 -> spec_run (flat_map leaves ms) e1 = Some e1' ->
          exists e2', spec_run (flat_map leaves kept) e2 = Some e2' /\ agree L e1' e2').
Proof. exact bpass_sound. Qed.
Print Assumptions C14_backward_pass_sound.
(* the advertised in_keys cover every key that is live before the module *)
Theorem C14_in_keys_cover_live : forall n, regular n = true -> no_sink_in n = true -> covers n.
Proof. exact covers_node. Qed.
Print Assumptions C14_in_keys_cover_live.
(* in_keys selection: stated for every subset, proved for the subsets that cover the sequence's own in_keys (nothing is
   dropped); the general statement (kept modules run on a tensordict holding exactly I) is checked on every subset of
   the key universe by the harness only *)
Definition C14_forward_slice_executable_full_statement : Prop :=
  forall n I S n', regular n = true -> no_sink_in n = true ->
  select_sub (depth n + 1) n (Some I) S = SOk n' ->
  forall k, List.In k (in_keys n') -> List.In k I.
Theorem C14_forward_slice_partial : forall f m, props f m -> forall I S,
    (forall I', I = Some I' -> forall k, List.In k (in_keys m) -> List.In k I') ->
    (forall S', S = Some S' -> forall k, List.In k (out_keys m) -> List.In k S') ->
    select_sub f m I S = SOk (rebuild m) /\ leaves (rebuild m) = leaves m /\ io (rebuild m) = io m.
Proof.
  intros f m P I S HI HS. split; [now apply keepall_all|]. split; [apply leaves_rebuild|].
  apply io_rebuild. now destruct P.
Qed.
Print Assumptions C14_forward_slice_partial.

(* ---- interact_table: over InteractionType x everything the distribution object can answer (19 440 points), _dist_sample
   consults exactly what the documented contract says (D146 repaired: full statement) *)
Theorem C14_interact_table : forall it d, dist_sample it d = spec_sample it d.
Proof. exact interact_table. Qed.
Print Assumptions C14_interact_table.

(* ---- wrapped distributions (torch.distributions.Independent, TransformedDistribution-style classes): full statement *)
Definition C14_interact_table_wrapped_full_statement : Prop :=
  forall it ls b, dist_sample_w it ls b = spec_sample_w it ls b.
(* false with two nested Independent layers: _dist_sample removes ONE layer, then finds D.Independent's own register entry,
   MODE (finding D14A) *)
Theorem C14_interact_table_wrapped_refuted_nested : exists it ls b, dist_sample_w it ls b <> spec_sample_w it ls b.
Proof. exact interact_table_wrapped_refuted_nested. Qed.
Print Assumptions C14_interact_table_wrapped_refuted_nested.
(* proved for every stack of wrappers with at most one Independent layer on top, every base, every interaction type:
   the decision is the documented table for the registration of the UNWRAPPED base class *)
Theorem C14_interact_table_wrapped_partial : forall it ls b, one_step ls = true -> dist_sample_w it ls b = spec_sample_w it ls b.
Proof. exact interact_table_wrapped. Qed.
Print Assumptions C14_interact_table_wrapped_partial.
Theorem C14_interact_wrapped_reg_only : forall it b,
  dist_sample_w it [LIndep] b = dist_sample it (with_reg (reg b) (caps [LIndep] b)).
Proof. exact interact_wrapped_reg_only. Qed.
Print Assumptions C14_interact_wrapped_reg_only.
Example C14_ex_lookup_unwrapped_needed : dist_sample_w_gen false TDeterministic [LIndep] lognormal_like = AMode
  /\ dist_sample_w TDeterministic [LIndep] lognormal_like = AMean
  /\ spec_sample_w TDeterministic [LIndep] lognormal_like = AMean.
Proof. exact interact_lookup_unwrapped_needed. Qed.

(* ---- a probabilistic sequence samples iff some sample key of its final module is not produced by the modules before it
   (ProbabilisticTensorDictSequential._requires_sample; compared with the real attribute on every generated sequence) *)
Theorem C14_requires_sample : forall ks up,
  requires_sample (Some ks) up = true <-> exists k, List.In k ks /\ ~ List.In k up.
Proof. exact requires_sample_spec. Qed.
Print Assumptions C14_requires_sample.


(* ==== probabilistic modules: key plumbing (Model/C14_Prob.v; values are terms: a distribution is (module, keyword names,
   parameter terms), a sample is "component j of what method a of that distribution returns") *)

(* ---- the distribution is built from exactly the entries stored under the advertised in_keys: two tensordicts that agree
   there give the same distribution, and its keywords / parameters are the dist_keys / the entries read (None if absent) *)
Theorem C14_prob_dist_reads_in_keys : forall m x x', (forall k, List.In k (p_in m) -> pget k x = pget k x') ->
  get_dist m x = get_dist m x'.
Proof. exact dist_reads_in_keys. Qed.
Print Assumptions C14_prob_dist_reads_in_keys.
Theorem C14_prob_dist_params : forall m x d, get_dist m x = Some d ->
  d_mod d = pid m /\ d_kw d = p_kw m /\ map Some (d_ps d) = map (fun k => par (pget k x)) (p_in m).
Proof. exact dist_params. Qed.
Print Assumptions C14_prob_dist_params.

(* ---- the sample a plain module writes under its out key is the term "what the method prescribed by the interaction type
   in force (context manager, else the module's default; C14_interact_table) returns on that distribution" *)
Theorem C14_prob_sample_term : forall f148 f149 now ctx cap m x o k x' o',
  p_comp m = None -> p_out m = [k] ->
  (forall lk, p_rlp m = true -> log_prob_key_of now m = Some lk -> lk <> k) ->
  pm_forward f148 f149 now ctx cap m x o true = PDone x' o' ->
  exists d, get_dist m x = Some d
    /\ pget k (dest x' o') = Some (PS d (dist_sample (resolve ctx (p_default m)) cap) 0).
Proof. exact plain_sample_term. Qed.
Print Assumptions C14_prob_sample_term.

(* ---- log-probability keys are advertised: for every module (plain or composite, either aggregate mode) *)
Theorem C14_prob_log_prob_keys_advertised : forall now m oks lpks, p_rlp m = true ->
  pm_out_keys now m = Some oks -> log_prob_keys_of now m = Some lpks ->
  forall k, List.In k lpks -> List.In k oks.
Proof. exact log_prob_keys_advertised. Qed.
Print Assumptions C14_prob_log_prob_keys_advertised.

(* ---- footprint of a probabilistic module, full statement: whatever the settings, entries outside the advertised out_keys
   are the same bindings afterwards (in the destination; with tensordict_out the input is not written at all) *)
Definition C14_prob_footprint_full_statement : Prop :=
  forall now ctx cap m x o req x' o' oks,
  pm_forward true true now ctx cap m x o req = PDone x' o' -> pm_out_keys now m = Some oks ->
  forall k, ~ List.In k oks -> pget k (dest x' o') = pget k (dest x o) /\ (o <> None -> x' = x).
(* false for composite modules in the legacy aggregate mode (D147, kept: the test-suite pins both the advertised out_keys
   and the per-leaf entries) *)
Theorem C14_prob_footprint_refuted_aggregate : exists m, pm_init true (comp_args true None) = Some m
  /\ pm_out_keys true m = Some [kA; kB; slp]
  /\ written (pm_forward true true true None comp_cap m x0 None true) = [kP; kA; kB; add_suffix kA; add_suffix kB; slp].
Proof. exact composite_aggregate_refuted. Qed.
Print Assumptions C14_prob_footprint_refuted_aggregate.
(* proved for every plain module: any interaction type, return_log_prob, log_prob_key, dict in_keys, tensordict_out, with or
   without sampling, either aggregate mode (composite modules in per-leaf mode: compared with the code by the pm-fwd stream) *)
Theorem C14_prob_footprint_partial : forall f148 f149 now ctx cap m x o req x' o' oks,
  p_comp m = None ->
  pm_forward f148 f149 now ctx cap m x o req = PDone x' o' -> pm_out_keys now m = Some oks ->
  forall k, ~ List.In k oks -> pget k (dest x' o') = pget k (dest x o) /\ (o <> None -> x' = x).
Proof. exact plain_footprint. Qed.
Print Assumptions C14_prob_footprint_partial.

(* ---- a probabilistic sequence runs its deterministic part, then its final module with _requires_sample; that flag is true
   iff some sample key of the final module is not produced by the deterministic part *)
Theorem C14_prob_seq_requires_sample : forall q,
  q_requires_sample q = true <-> exists k, List.In k (p_out (q_last q)) /\ ~ List.In k (all_out_keys (q_det q)).
Proof. exact q_requires_sample_spec. Qed.
Print Assumptions C14_prob_seq_requires_sample.
Theorem C14_prob_seq_forward : forall f148 f149 now ctx cap q x x',
  det_run q x = Some (Some x') ->
  q_forward f148 f149 now ctx cap q x = pm_forward f148 f149 now ctx cap (q_last q) (lift x') None (q_requires_sample q).
Proof. exact q_forward_is_last. Qed.
Print Assumptions C14_prob_seq_forward.

(* ---- the repaired defects, each with the behaviour of the library before its repair (switch = false) *)
Theorem C14_prob_D149_witness : exists m, pm_init false (comp_args true (Some [kLa; kLb])) = Some m
  /\ pm_out_keys false m = Some [kA; kB; kLa; kLb]
  /\ written (pm_forward true true false None comp_cap m x0 None true) = [kP; kA; kB; kLa; kLb]
  /\ written (pm_forward true false false None comp_cap m x0 None true) = [kP; kA; kB; add_suffix kA; add_suffix kB].
Proof. exact D149_witness. Qed.
Print Assumptions C14_prob_D149_witness.
Theorem C14_prob_D148_witness : exists m, pm_init false (comp_args true None) = Some m
  /\ pm_forward false true false None comp_cap m x1 None false = PRaise
  /\ written (pm_forward true true false None comp_cap m x1 None false) = [kP; kA; kB; add_suffix kA; add_suffix kB]
  /\ pget (add_suffix kA) (match pm_forward true true false None comp_cap m x1 None false with PDone x _ => x | _ => [] end)
     = Some (PL {| d_mod := 1; d_kw := ["params"%string]; d_ps := [Some (In kP)] |} (Some 0) [SUp (In kA)]).
Proof. exact D148_witness. Qed.
Print Assumptions C14_prob_D148_witness.

(* non-vacuity: a plain module with dict in_keys, a nested out key, return_log_prob, a context interaction type *)
Definition ex_pargs : pargs :=
  {| a_id := 7; a_in := [["p_loc"%string]; ["par"%string; "scale"%string]]; a_dict := Some ["loc"%string; "scale"%string];
     a_out := Some [["s"%string; "v"%string]]; a_comp := None; a_rlp := true; a_lpk := None; a_lpks := None; a_default := TMode |}.
Definition ex_cap : dcap :=
  {| is_lkj := false; has_det := false; reg := None; support_real := None; c_mode := CValue; c_median := CValue;
     c_mean := CValue; has_rsample := true |}.
Example C14_ex_prob : exists m, pm_init false ex_pargs = Some m /\ p_comp m = None
  /\ pm_out_keys false m = Some [["s"; "v"]; ["s"; "v_log_prob"]]%string
  /\ pm_forward true true false (Some TRandom) ex_cap m (lift [(["p_loc"%string], In ["p_loc"%string])]) None true
     = PDone [(["p_loc"%string], PV (In ["p_loc"%string]));
              (["s"; "v"]%string, PS {| d_mod := 7; d_kw := ["loc"; "scale"]%string; d_ps := [Some (In ["p_loc"%string]); None] |} ARsample 0);
              (["s"; "v_log_prob"]%string,
               PL {| d_mod := 7; d_kw := ["loc"; "scale"]%string; d_ps := [Some (In ["p_loc"%string]); None] |} None
                  [SSmp {| d_mod := 7; d_kw := ["loc"; "scale"]%string; d_ps := [Some (In ["p_loc"%string]); None] |} ARsample 0])] None.
Proof. eexists. repeat split; reflexivity. Qed.
Example C14_ex_prob_seq : q_requires_sample {| q_det := [Leaf (mk 1 [kz] [kc; kA])]; q_last :=
    {| pid := 2; p_kw := ["loc"%string]; p_in := [kc]; p_out := [kA; kB]; p_comp := Some [kA; kB]; p_rlp := false;
       p_lpk := None; p_lpks := Some [add_suffix kA; add_suffix kB]; p_agg := false; p_default := TMode |} |} = true.
Proof. reflexivity. Qed.

(* ---- non-vacuity *)
Definition ex_graph : node :=
  Seq {| sinpl := Some IFalse; ssel := Some [kc]; spt := false; sdict := false |}
      [Leaf (mk 1 [ka] [kb; sink]); Seq dcfg [Leaf (mk 2 [kb; ka] [kb]); Leaf (mk 3 [kb] [kc; knx])]].
Example C14_ex_regular : top_regular ex_graph = true /\ buildable ex_graph = true /\ no_sink_in ex_graph = true
  /\ in_keys ex_graph = [ka] /\ out_keys ex_graph = [kc].
Proof. repeat split. Qed.
Example C14_ex_run : fwd ex_graph [(ka, In ka)] None
  = Done [(ka, In ka)] None
         (RFresh [(kc, App 3 0 [App 2 0 [App 1 0 [In ka]; In ka]])]).
Proof. reflexivity. Qed.
Example C14_ex_footprint_hyp : noseqsel (Seq dcfg [Leaf (mksel 1 [ka] [kb; knx] [knx])]) = true
  /\ ~ List.In kny (out_keys (Seq dcfg [Leaf (mksel 1 [ka] [kb; knx] [knx])])).
Proof. split; [reflexivity|]. cbn. intros [H|[]]; discriminate. Qed.
Example C14_ex_D143_repaired : fwd d143_node d143_x (Some []) = Done d143_x (Some [(knx, App 1 0 [In ka])]) ROut
  /\ fwd_gen false d143_node d143_x (Some []) = Done d143_x (Some [(kny, In kny); (knx, App 1 0 [In ka])]) ROut.
Proof. exact footprint_D143_repaired. Qed.
(* the former witnesses of D9 and D144 under the repaired behaviour *)
Example C14_ex_D9_repaired : fwd d9_node d9_x None = Done [(ka, In ka); (kz, In kz); (kc, App 1 1 [In ka])] None RIn.
Proof. exact footprint_D9_repaired. Qed.
Example C14_ex_D144_repaired : select_sub (depth d144_node + 1) d144_node None (Some [kd])
  = SOk (Seq dcfg [Seq (default_cfg true) [Seq dcfg [Leaf (mk 2 [ka] [kb])]; Leaf (mk 3 [kb] [kd])]]).
Proof. exact subsequence_D144_repaired. Qed.
Example C14_ex_last_writer : exists e', spec_run [mk 1 [ka] [kb]; mk 2 [kb] [kb; kb]] (env_of [(ka, In ka)]) = Some e'
  /\ e' kb = Some (App 2 1 [App 1 0 [In ka]]).
Proof. eexists. split; reflexivity. Qed.

Definition ex_chain : node :=
  Seq dcfg [Leaf (mk 1 [ka] [kb]); Seq dcfg [Leaf (mk 2 [kb] [kc]); Leaf (mk 3 [ka] [kb])]; Leaf (mk 4 [kc] [knx])].
Example C14_ex_slice : regular ex_chain = true /\ no_sink_in ex_chain = true /\ has_outs ex_chain = true
  /\ select_sub (depth ex_chain + 1) ex_chain None (Some [kc])
     = SOk (Seq dcfg [Leaf (mk 1 [ka] [kb]); Seq dcfg [Leaf (mk 2 [kb] [kc])]]).
Proof. repeat split. Qed.
Example C14_ex_requires_sample : requires_sample (Some [ka; kb]) [ka; kz] = true /\ requires_sample (Some [ka; kb]) [kb; ka] = false.
Proof. split; reflexivity. Qed.
