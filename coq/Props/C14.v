(* C14 — TensorDict modules read in_keys, write out_keys, sequences compose soundly.  Property theorems only. *)
From Coq Require Import List String Bool.
Import ListNotations.
From TD Require Import Model.C14_Flow Model.C14_Interact Proofs.C14_InteractP.

(* interact_table: over InteractionType x everything the distribution object can answer, _dist_sample consults exactly
   what the documented contract says — full statement *)
Definition C14_interact_table_full_statement : Prop := forall it d, dist_sample it d = spec_sample it d.
(* ... false today (D146): MEAN on a distribution whose `mean` raises NotImplementedError never reaches the empirical
   estimate written for that case *)
Theorem C14_interact_table_refuted : exists it d, dist_sample it d <> spec_sample it d.
Proof. exact interact_table_refuted. Qed.
Print Assumptions C14_interact_table_refuted.
Theorem C14_interact_table_partial : forall it d, d146_region it d = false -> dist_sample it d = spec_sample it d.
Proof. exact interact_table_partial. Qed.
Print Assumptions C14_interact_table_partial.
(* with the one-token repair (fixed_D146 := true) the full statement holds *)
Theorem C14_interact_table_when_fixed : forall it d, dist_sample_gen true it d = spec_sample it d.
Proof. exact interact_table_when_fixed. Qed.
Print Assumptions C14_interact_table_when_fixed.
