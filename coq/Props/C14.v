(* C14 — TensorDict modules read in_keys, write out_keys, sequences compose soundly.  Property theorems only.
   Model: Model/C14_Flow.v (dataflow), Model/C14_Interact.v (_dist_sample); spec: Spec/C14_Fold.v. *)
From Coq Require Import List String Bool.
Import ListNotations.
From TD Require Import Model.C14_Flow Model.C14_Interact Spec.C14_Fold Proofs.C14_FlowP Proofs.C14_SliceP Proofs.C14_InteractP.

(* ---- seq_is_fold: for EVERY module graph whose inner modules write in place (the top module may have any inplace
   mode, select_out_keys, tensordict_out), every environment: the module returns, and each advertised out key holds
   the term the plain fold of the leaf modules computes (nested sequences flatten; the execution copy, the final
   update(keys_to_update=out_keys) and the selection preserve those values) *)
Theorem C14_seq_is_fold : forall n x o e', top_regular n = true -> buildable n = true ->
  spec_run (leaves n) (env_of x) = Some e' ->
  exists x' o' r res, fwd n x o = Done x' o' r /\ result_td (Done x' o' r) = Some res
    /\ forall k v, List.In k (out_keys n) -> k <> sink -> e' k = Some v -> get k res = Some v.
Proof. exact seq_is_fold. Qed.
Print Assumptions C14_seq_is_fold.

(* ... and it raises exactly when the fold meets a missing input *)
Theorem C14_seq_raises_iff_fold_fails : forall n x o, top_regular n = true ->
  spec_run (leaves n) (env_of x) = None <-> exists x' o', fwd n x o = Raised x' o'.
Proof. exact seq_raises_iff_fold_fails. Qed.
Print Assumptions C14_seq_raises_iff_fold_fails.

(* an inner node: the tensordict it returns IS the fold's environment, key by key *)
Theorem C14_inner_is_fold : forall n, regular n = true ->
  forall x, fwd_rel (spec_run (leaves n) (env_of x)) (fwd n x None).
Proof. exact regular_fwd. Qed.
Print Assumptions C14_inner_is_fold.

(* ---- in_keys_sufficient: a tensordict holding the advertised in_keys (computed by _compute_in_and_out_keys through any
   nesting) is enough: no module ever reads a missing key *)
Theorem C14_in_keys_sufficient : forall n x o, top_regular n = true -> no_sink_in n = true ->
  (forall k, List.In k (in_keys n) -> has k x = true) ->
  exists x' o' r, fwd n x o = Done x' o' r.
Proof. exact in_keys_sufficient. Qed.
Print Assumptions C14_in_keys_sufficient.

(* ---- out_keys_last_writer: the value of a key after the sequence is the output of the LAST module that lists it
   (at the last position it occupies in that module's out_keys), applied to what that module read *)
Theorem C14_out_keys_last_writer : forall pre l post e e', spec_run (pre ++ l :: post) e = Some e' ->
  exists e1 args, spec_run pre e = Some e1 /\ eread (ins l) e1 = Some args /\
    forall j k, nth_error (outs l) j = Some k -> k <> sink ->
      (forall j', j < j' -> nth_error (outs l) j' <> Some k) ->
      (forall l', List.In l' post -> ~ List.In k (outs l')) ->
      e' k = Some (App (mid l) j args).
Proof. exact last_writer. Qed.
Print Assumptions C14_out_keys_last_writer.

(* the advertised out_keys are exactly the keys some module lists, each once *)
Theorem C14_out_keys_complete : forall n, regular n = true ->
  forall k, List.In k (out_keys n) <-> exists l, List.In l (leaves n) /\ List.In k (outs l).
Proof. exact out_keys_are_writes. Qed.
Print Assumptions C14_out_keys_complete.
Theorem C14_out_keys_nodup : forall ms, NoDup (all_out_keys ms).
Proof. intro ms. apply dedup_last_NoDup. Qed.
Print Assumptions C14_out_keys_nodup.

(* ---- module_footprint, full statement: entries other than out_keys are the identical bindings afterwards, in the
   input and in tensordict_out *)
Definition C14_module_footprint_full_statement : Prop :=
  forall n x o k, ~ List.In k (out_keys n) -> footprint_statement n x o k.
(* still false one way (D142, kept as a finding: a code comment says it is deliberate): a SEQUENCE with select_out_keys
   writes back every input entry an inner module overwrote, selected or not *)
Theorem C14_module_footprint_refuted_seq_select :
  exists n x k, ~ List.In k (out_keys n) /\ top_regular n = true /\ ~ footprint_statement n x None k.
Proof. exact footprint_refuted_seq_select. Qed.
Print Assumptions C14_module_footprint_refuted_seq_select.
(* ... and another way (D143, kept: the test-suite pins it): update(keys_to_update) copies sibling leaves of a nested
   out key into a tensordict_out that lacks the node *)
Theorem C14_module_footprint_refuted_tout :
  exists n x ot k, ~ List.In k (out_keys n) /\ noseqsel n = true /\ ~ footprint_statement n x (Some ot) k.
Proof. exact footprint_refuted_tout. Qed.
Print Assumptions C14_module_footprint_refuted_tout.
(* on the complement — no select_out_keys on a sequence; leaf modules may select (D9 / D141 repaired); no two distinct
   keys sharing their first component (the D143 region) — for EVERY
   graph (any inplace modes at any level, partial_tolerant, nesting), every input, with or without tensordict_out *)
Theorem C14_module_footprint_partial : forall U n x o, sibling_ok U -> noseqsel n = true -> buildable n = true ->
  (forall k, List.In k (all_outs n) -> List.In k U) -> within U x ->
  (forall ot, o = Some ot -> within U ot) ->
  forall k, ~ List.In k (out_keys n) -> footprint_statement n x o k.
Proof. exact footprint_partial. Qed.
Print Assumptions C14_module_footprint_partial.

(* ---- subsequence_sound: for every module graph (any nesting, ModuleList or ModuleDict — D144 repaired), every key set S,
   every environment: the sequence returned by select_subsequence(out_keys=S) computes the SAME TERMS for S; it is again
   a chain of in-place modules, so C14_inner_is_fold / C14_in_keys_sufficient apply to it (it runs on its own in_keys).
   Full statement (no hypothesis on the number of outputs): *)
Definition C14_subsequence_sound_full_statement : Prop :=
  forall n S n', regular n = true -> no_sink_in n = true ->
  select_sub (depth n + 1) n None (Some S) = SOk n' ->
  forall e e', spec_run (leaves n) e = Some e' ->
    exists e'', spec_run (leaves n') e = Some e'' /\ forall k, List.In k S -> e'' k = e' k.
(* proved when every module has at least one out key (a module without outputs is dropped by the forward pass; that
   case is covered by the differential run only) *)
Theorem C14_subsequence_sound_partial : forall n S n',
  regular n = true -> no_sink_in n = true -> has_outs n = true ->
  select_sub (depth n + 1) n None (Some S) = SOk n' ->
  regular n' = true /\ no_sink_in n' = true
  /\ forall e e', spec_run (leaves n) e = Some e' ->
       exists e'', spec_run (leaves n') e = Some e'' /\ forall k, List.In k S -> e'' k = e' k.
Proof. exact subsequence_sound_partial. Qed.
Print Assumptions C14_subsequence_sound_partial.
(* the backward pass alone, for ANY recursive slicer that is sound on the nested sequences (the induction step) *)
Theorem C14_backward_pass_sound : forall rec ms,
  Forall good ms ->
  (forall m, List.In m ms -> forall S m', rec m None (Some S) = SOk m' -> good m' /\ sound m m' S) ->
  forall need kept nr, bpass rec ms need = Some (Some (kept, nr)) ->
    Forall good kept
    /\ (forall k, List.In k need -> List.In k nr)
    /\ (forall (L : key -> Prop), (forall k, L k -> List.In k need) -> forall k, live (flat_map leaves kept) L k -> List.In k nr)
    /\ (forall (L : key -> Prop), (forall k, L k -> List.In k need) ->
        forall e1 e2 e1', agree (live (flat_map leaves kept) L) e1 e2 -> spec_run (flat_map leaves ms) e1 = Some e1' ->
          exists e2', spec_run (flat_map leaves kept) e2 = Some e2' /\ agree L e1' e2').
Proof. exact bpass_sound. Qed.
Print Assumptions C14_backward_pass_sound.
(* the advertised in_keys cover every key that is live before the module *)
Theorem C14_in_keys_cover_live : forall n, regular n = true -> no_sink_in n = true -> covers n.
Proof. exact covers_node. Qed.
Print Assumptions C14_in_keys_cover_live.
(* in_keys selection: stated for every subset, proved for the subsets that cover the sequence's own in_keys (nothing is
   dropped); the general statement (kept modules run on a tensordict holding exactly I) is checked on every subset of
   the key universe by the harness only *)
Definition C14_forward_slice_executable_full_statement : Prop :=
  forall n I S n', regular n = true -> no_sink_in n = true ->
  select_sub (depth n + 1) n (Some I) S = SOk n' ->
  forall k, List.In k (in_keys n') -> List.In k I.
Theorem C14_forward_slice_partial : forall f m, props f m -> forall I S,
    (forall I', I = Some I' -> forall k, List.In k (in_keys m) -> List.In k I') ->
    (forall S', S = Some S' -> forall k, List.In k (out_keys m) -> List.In k S') ->
    select_sub f m I S = SOk (rebuild m) /\ leaves (rebuild m) = leaves m /\ io (rebuild m) = io m.
Proof.
  intros f m P I S HI HS. split; [now apply keepall_all|]. split; [apply leaves_rebuild|].
  apply io_rebuild. now destruct P.
Qed.
Print Assumptions C14_forward_slice_partial.

(* ---- interact_table: over InteractionType x everything the distribution object can answer (19 440 points), _dist_sample
   consults exactly what the documented contract says (D146 repaired: full statement) *)
Theorem C14_interact_table : forall it d, dist_sample it d = spec_sample it d.
Proof. exact interact_table. Qed.
Print Assumptions C14_interact_table.

(* ---- a probabilistic sequence samples iff some sample key of its final module is not produced by the modules before it
   (ProbabilisticTensorDictSequential._requires_sample; compared with the real attribute on every generated sequence) *)
Theorem C14_requires_sample : forall ks up,
  requires_sample (Some ks) up = true <-> exists k, List.In k ks /\ ~ List.In k up.
Proof. exact requires_sample_spec. Qed.
Print Assumptions C14_requires_sample.

(* ---- non-vacuity *)
Definition ex_graph : node :=
  Seq {| sinpl := Some IFalse; ssel := Some [kc]; spt := false; sdict := false |}
      [Leaf (mk 1 [ka] [kb; sink]); Seq dcfg [Leaf (mk 2 [kb; ka] [kb]); Leaf (mk 3 [kb] [kc; knx])]].
Example C14_ex_regular : top_regular ex_graph = true /\ buildable ex_graph = true /\ no_sink_in ex_graph = true
  /\ in_keys ex_graph = [ka] /\ out_keys ex_graph = [kc].
Proof. repeat split. Qed.
Example C14_ex_run : fwd ex_graph [(ka, In ka)] None
  = Done [(ka, In ka)] None
         (RFresh [(kc, App 3 0 [App 2 0 [App 1 0 [In ka]; In ka]])]).
Proof. reflexivity. Qed.
Example C14_ex_footprint_hyp : sibling_ok [ka; kb; knx]
  /\ noseqsel (Seq dcfg [Leaf (mksel 1 [ka] [kb; knx] [knx])]) = true
  /\ buildable (Seq dcfg [Leaf (mksel 1 [ka] [kb; knx] [knx])]) = true.
Proof.
  split; [|split; reflexivity]. intros k k' H1 H2 E.
  cbn in H1, H2. destruct H1 as [<-|[<-|[<-|[]]]], H2 as [<-|[<-|[<-|[]]]]; cbn in E; try reflexivity; discriminate.
Qed.
(* the former witnesses of D9 and D144 under the repaired behaviour *)
Example C14_ex_D9_repaired : fwd d9_node d9_x None = Done [(ka, In ka); (kz, In kz); (kc, App 1 1 [In ka])] None RIn.
Proof. exact footprint_D9_repaired. Qed.
Example C14_ex_D144_repaired : select_sub (depth d144_node + 1) d144_node None (Some [kd])
  = SOk (Seq dcfg [Seq (default_cfg true) [Seq dcfg [Leaf (mk 2 [ka] [kb])]; Leaf (mk 3 [kb] [kd])]]).
Proof. exact subsequence_D144_repaired. Qed.
Example C14_ex_last_writer : exists e', spec_run [mk 1 [ka] [kb]; mk 2 [kb] [kb; kb]] (env_of [(ka, In ka)]) = Some e'
  /\ e' kb = Some (App 2 1 [App 1 0 [In ka]]).
Proof. eexists. split; reflexivity. Qed.

Definition ex_chain : node :=
  Seq dcfg [Leaf (mk 1 [ka] [kb]); Seq dcfg [Leaf (mk 2 [kb] [kc]); Leaf (mk 3 [ka] [kb])]; Leaf (mk 4 [kc] [knx])].
Example C14_ex_slice : regular ex_chain = true /\ no_sink_in ex_chain = true /\ has_outs ex_chain = true
  /\ select_sub (depth ex_chain + 1) ex_chain None (Some [kc])
     = SOk (Seq dcfg [Leaf (mk 1 [ka] [kb]); Seq dcfg [Leaf (mk 2 [kb] [kc])]]).
Proof. repeat split. Qed.
Example C14_ex_requires_sample : requires_sample (Some [ka; kb]) [ka; kz] = true /\ requires_sample (Some [ka; kb]) [kb; ka] = false.
Proof. split; reflexivity. Qed.
