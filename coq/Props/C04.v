(* C04 — mapping semantics and nested-key canonicalisation.  Property theorems only. *)
From Coq Require Import ZArith List String Bool.
Import ListNotations.
From TD Require Import Model.Keys Proofs.KeysP.

Theorem C04_unravel_spelling : forall k1 k2,
  wfb k1 = true -> wfb k2 = true -> strings k1 = strings k2 ->
  cpp_unravel_to_tuple k1 = cpp_unravel_to_tuple k2 /\ cpp_unravel_key k1 = cpp_unravel_key k2.
Proof. exact unravel_spelling. Qed.
Print Assumptions C04_unravel_spelling.
