(* C04 — mapping semantics and nested-key canonicalisation match a nested-dict model.
   (Section 6: lazy stacks, Model/C04_Lazy.v.)
   Property theorems only: each is closed by [exact] of a lemma proved in Proofs/, followed by Print Assumptions
   (parsed by the harness on every run).  Model: Model/C04_{Tree,Ops,Views,Step}.v (+ Model/Keys.v);
   spec: Spec/C04_NestedDict.v (a plain python nested dict and the replay of a history on it). *)
From Coq Require Import ZArith List String Bool Sorting.Permutation.
Import ListNotations.
From TD Require Import Model.Keys Proofs.KeysP Model.C04_Tree Model.C04_Ops Model.C04_Views Model.C04_Step Model.C04_Lazy Proofs.C04_LazyP
     Spec.C04_NestedDict Proofs.C04_AssocP Proofs.C04_CoreP Proofs.C04_RenameP Proofs.C04_UpdateP Proofs.C04_ViewsP Proofs.C04_FlattenP Proofs.C04_UnflattenP Proofs.C04_PrelimP Proofs.C04_SplitP
     Proofs.C04_HistP Proofs.C04_SpellP Proofs.C04_RefuteP.
Open Scope string_scope.
Open Scope list_scope.

(* ------------------------------------------------------------------------------------------------------------
   1. every spelling of a nested key denotes the same entry (C++ unravelling, Model/Keys.v) *)
Theorem C04_unravel_spelling : forall k1 k2,
  wfb k1 = true -> wfb k2 = true -> strings k1 = strings k2 ->
  cpp_unravel_to_tuple k1 = cpp_unravel_to_tuple k2 /\ cpp_unravel_key k1 = cpp_unravel_key k2.
Proof. exact unravel_spelling. Qed.
Print Assumptions C04_unravel_spelling.

(* ... and therefore for every entry point of the mapping API (str vs 1-tuple vs arbitrarily nested tuples) *)
Theorem C04_spelling_entry_points : forall k1 k2, wfb k1 = true -> wfb k2 = true -> strings k1 = strings k2 ->
  forall v hd inc es,
    set_ k1 v es = set_ k2 v es /\ del_ k1 es = del_ k2 es /\ get k1 es = get k2 es
    /\ pop k1 hd es = pop k2 hd es /\ view_contains inc k1 es = view_contains inc k2 es
    /\ setdefault k1 v es = setdefault k2 v es
    /\ step es (OSet k1 v) = step es (OSetItem k2 v) /\ step es (ODel k1) = step es (ODelItem k2)
    /\ td_contains k1 es = td_contains k2 es.
Proof. exact spelling_entry_points. Qed.
Print Assumptions C04_spelling_entry_points.

Theorem C04_spelling_rename : forall k1 k2 k1' k2' safe es,
  wfb k1 = true -> wfb k2 = true -> strings k1 = strings k2 ->
  wfb k1' = true -> wfb k2' = true -> strings k1' = strings k2' ->
  rename k1 k1' safe es = rename k2 k2' safe es.
Proof. exact spelling_rename. Qed.
Print Assumptions C04_spelling_rename.

Theorem C04_spelling_select_exclude : forall ks1 ks2 strict inplace es,
  Forall2 (fun a b => wfb a = true /\ wfb b = true /\ strings a = strings b) ks1 ks2 ->
  select ks1 strict inplace es = select ks2 strict inplace es /\ exclude ks1 inplace es = exclude ks2 inplace es.
Proof. exact spelling_select_exclude. Qed.
Print Assumptions C04_spelling_select_exclude.

(* ------------------------------------------------------------------------------------------------------------
   2. refinement, one step: for every state and every operation in scope, the model's step (transcribed from the
   code) and the plain nested dict agree on success/failure, on the state afterwards, on the returned value, on the
   out-of-place results and on the object the history continues with; a failing step leaves the state unchanged. *)
Theorem C04_refine_step : forall es o so,
  wfE es -> abs_op o = Some so -> in_scope o ->
  match nd_step py_split (absE es) so with
  | Some r => sr_err (step es o) = None /\ abs_sres (step es o) = r
  | None => sr_err (step es o) <> None /\ (atomic o -> sr_cont (step es o) = es)
  end.
Proof. exact refine_step. Qed.
Print Assumptions C04_refine_step.

(* 3. histories: for ALL operation lists (no bound), from any well-formed state, the abstraction of the model's final
   state is the replay of the same history on the nested dict; well-formedness (unique keys per node) is invariant.
   nd_ok: the non-atomic operations of the history succeed on the nested dict (a hypothesis on the spec side only). *)
Theorem C04_history : forall ops sops es, wfE es ->
  Forall2 (fun o so => abs_op o = Some so /\ in_scope o /\ values_wf o) ops sops ->
  nd_ok (absE es) ops sops ->
  absE (run es ops) = nd_run (absE es) sops /\ wfE (run es ops).
Proof. exact history. Qed.
Print Assumptions C04_history.

(* the rename step in isolation, on canonical keys: pop-then-store (dict) = store-then-delete, or detach-then-store when
   the new key lies under the old one (after the fix of D42).  A SAFE rename onto a key under the old one is left out:
   its membership test raises when the path runs through a tensor below the old entry. *)
Theorem C04_rename_refines : forall p q safe es, p <> [] -> q <> [] -> wfE es -> (strict_prefix p q -> safe = false) ->
  match rename_r (path_keyres p) (path_keyres q) safe es with
  | (es', None) => nd_rename p q safe (absE es) = Some (absE es')
  | (es', Some _) => nd_rename p q safe (absE es) = None /\ es' = es
  end.
Proof. intros p q safe es Np Nq. rewrite rename_r_path by assumption. now apply rename_p_refines. Qed.
Print Assumptions C04_rename_refines.

(* update on canonical keys: the code's merge loop = the nested dict's recursive merge, item after item *)
Theorem C04_update_refines : forall items es,
  match update_paths items es with
  | (es', None) => nd_update (map (fun pv => (fst pv, abs (snd pv))) items) (absE es) = Some (absE es')
  | (_, Some _) => nd_update (map (fun pv => (fst pv, abs (snd pv))) items) (absE es) = None
  end.
Proof. exact update_refines. Qed.
Print Assumptions C04_update_refines.

(* flatten_keys out of place: one entry per leaf (tensor or non-tensor), colliding names raise, empty nodes vanish *)
Theorem C04_flatten_out_refines : forall sep es,
  match flatten_out sep es with
  | Ok out => nd_flatten sep (absE es) = Some (absE out)
  | Raise _ => nd_flatten sep (absE es) = None
  end.
Proof. exact flatten_out_refines. Qed.
Print Assumptions C04_flatten_out_refines.

(* flatten_keys in place (after the fix of D24 / D24b) builds the same mapping and changes nothing when it raises *)
Theorem C04_flatten_in_eq : forall sep es,
  flatten_in sep es = match flatten_out sep es with Ok out => (out, None) | Raise e => (es, Some e) end.
Proof. exact flatten_in_eq. Qed.
Print Assumptions C04_flatten_in_eq.

(* unflatten_keys: python's str.split never returns the key itself as its first piece (so the safe rename the code
   issues never targets the entry's own subtree), and the loop over the root keys refines the dict's "move every key
   that contains the separator to the path of its pieces; an occupied or unreachable destination is an error" *)
Theorem C04_split_pieces : forall sep k, sep <> "" -> str_contains sep k = true ->
  exists q0 q1 qs, split sep k = q0 :: q1 :: qs /\ q0 <> k.
Proof. exact split_pieces. Qed.
Print Assumptions C04_split_pieces.

Theorem C04_unflatten_refines : forall sep, sep <> "" -> forall ks es, wfE es ->
  match unflatten_loop sep ks es with
  | (es', None) => nd_unflatten (py_split sep) ks (absE es) = Some (absE es') /\ wfE es'
  | (es', Some _) => nd_unflatten (py_split sep) ks (absE es) = None /\ wfE es'
  end.
Proof. exact unflatten_loop_refines. Qed.
Print Assumptions C04_unflatten_refines.

(* split_keys: key set after key set, pop from the remainder and set into a fresh dict; in place, self ends as the
   filtered remainder.  No restriction on the keys out of place; in place the key list must be free of prefix pairs
   (the code's epilogue iterates a python set, i.e. in hash order). *)
Theorem C04_split_keys_refines : forall sets pss inplace strict dflt es,
  traverse (traverse kp) sets = Some pss -> split_scope sets inplace ->
  match split_keys sets inplace strict dflt es with
  | (es', Ok outs) =>
      exists rest souts, nd_split pss strict dflt (absE es) [] = Some (rest, souts)
        /\ map absE outs = souts ++ [nd_filter_empty rest]
        /\ absE es' = (if inplace then nd_filter_empty rest else absE es)
  | (es', Raise _) => nd_split pss strict dflt (absE es) [] = None /\ es' = es
  end.
Proof. exact split_keys_refines. Qed.
Print Assumptions C04_split_keys_refines.

(* ------------------------------------------------------------------------------------------------------------
   4. views, for every include_nested x leaves_only x sort x is_leaf combination *)
Theorem C04_items_view : forall inc lo so nt es,
  Permutation (map absI (items_view inc lo so nt es)) (nd_view inc lo nt (absE es))
  /\ (so = false -> map absI (items_view inc lo so nt es) = nd_view inc lo nt (absE es))
  /\ (so = true -> names_sorted (map (fun pv => dotted (fst pv)) (items_view inc lo so nt es))).
Proof. exact items_view_spec. Qed.
Print Assumptions C04_items_view.

Theorem C04_keys_view : forall inc lo so nt es,
  Permutation (keys_view inc lo so nt es) (map fst (nd_view inc lo nt (absE es)))
  /\ (so = true -> names_sorted (map dotted (keys_view inc lo so nt es))).
Proof. exact keys_view_spec. Qed.
Print Assumptions C04_keys_view.

Theorem C04_len_view : forall inc lo so nt es,
  len_view inc lo so nt es = List.length (nd_view inc lo nt (absE es)).
Proof. exact len_view_spec. Qed.
Print Assumptions C04_len_view.

(* values = the values of the items, for every flag combination (D41 fixed) *)
Theorem C04_values_view : forall inc lo so nt es,
  values_view inc lo so nt es = Ok (map snd (items_view inc lo so nt es)).
Proof. exact values_view_spec. Qed.
Print Assumptions C04_values_view.

(* membership agrees with iteration of the same view for EVERY include_nested x leaves_only x sort x is_leaf combination
   and every spelling of the key (S7 fixed); get agrees with the dict *)
Theorem C04_contains : forall inc lo so nt k es b, wfE es -> wfb k = true ->
  keys_contains inc lo nt k es = Ok b -> (b = true <-> In (strings k) (keys_view inc lo so nt es)).
Proof. exact contains_iff_listed. Qed.
Print Assumptions C04_contains.

Theorem C04_get_refines : forall p es d, p <> [] ->
  match get_tuple p es d with
  | GVal v => nd_find p (absE es) = Found (abs v)
  | GDef => nd_find p (absE es) = Missing /\ d = true
  | GRaise e => (nd_find p (absE es) = Missing /\ d = false /\ e = EKey)
                \/ (nd_find p (absE es) = ThroughLeaf /\ e <> EKey)
  end.
Proof. exact get_tuple_refines. Qed.
Print Assumptions C04_get_refines.

Theorem C04_present_refines : forall p es, p <> [] ->
  match view_contains_path true p es with
  | Ok b => b = foundb (nd_find p (absE es))
  | Raise _ => nd_find p (absE es) = ThroughLeaf
  end.
Proof. exact view_contains_refines. Qed.
Print Assumptions C04_present_refines.

Theorem C04_is_empty : forall es, is_empty es = negb (nd_has_leaf (ND (absE es))).
Proof. exact is_empty_spec. Qed.
Print Assumptions C04_is_empty.

Theorem C04_to_dict : forall es, absE (to_dict es) = absE es.
Proof. exact to_dict_spec. Qed.
Print Assumptions C04_to_dict.

(* ------------------------------------------------------------------------------------------------------------
   5. what is left: the operation kinds whose refinement is stated but not proved, and the one remaining deviation *)
Definition C04_refine_step_full_statement : Prop := forall es o so,
  wfE es -> abs_op o = Some so -> values_wf o ->
  match nd_step py_split (absE es) so with
  | Some r => sr_err (step es o) = None /\ abs_sres (step es o) = r
  | None => sr_err (step es o) <> None
  end.

(* stated, not proved (the correspondence run checks it on every generated case): select and exclude refine the nested
   dict on the domain on which a plain dict replay is determined — prefix-free key lists, strict select.  (The code groups
   the keys by their first component and recurses per group; the dict replays them one after the other: the missing
   argument is the commutation of deletions / insertions across groups.) *)
Fixpoint prefix_free (ps : list (list string)) : Prop :=
  match ps with
  | [] => True
  | p :: r => Forall (fun q => ~ (exists t, q = p ++ t) /\ ~ (exists t, p = q ++ t)) r /\ prefix_free r
  end.

Definition in_scope_remaining (o : op) : Prop :=
  match o with
  | OSelect ks _ strict _ => strict = true /\ prefix_free (map strings ks)
  | OExclude ks _ _ => prefix_free (map strings ks)
  | _ => False
  end.

Definition C04_refine_step_remaining_statement : Prop := forall es o so,
  wfE es -> abs_op o = Some so -> in_scope_remaining o ->
  match nd_step py_split (absE es) so with
  | Some r => sr_err (step es o) = None /\ abs_sres (step es o) = r
  | None => sr_err (step es o) <> None
  end.

(* D48 (known finding, not repaired): select(k, (k, sub)) narrows k to k.sub; the dict replay keeps all of k *)
Theorem C04_select_subkey_refuted :
  exists es ks, wfE es /\ Forall (fun k => wfb k = true) ks /\
    match nd_step py_split (absE es) (SSelect (map strings ks) false true false), sr_results (step es (OSelect ks false true false)) with
    | Some r, Some outs => sr_err (step es (OSelect ks false true false)) = None /\ Some (map absE outs) <> s_results r
    | _, _ => False
    end.
Proof. exact select_subkey_refuted. Qed.
Print Assumptions C04_select_subkey_refuted.


(* ------------------------------------------------------------------------------------------------------------
   6. LAZY STACKS (Model/C04_Lazy.v): a stack is the list of its members; it denotes, member by member, the nested dicts
   of its members restricted to the keys they all have; a value handed to it is unbound along the stack dimension.

   6a. the stack's step IS its members' steps for set / __setitem__ / rename_key_ / select / exclude /
   flatten_keys(inplace=True): either every member's own step (on its slice of the value) succeeds and the stack holds and
   continues with exactly the members' results, or the stack raises the exception of the first member that raises. *)
Theorem C04_lazy_step_delegates : forall ms o, ms <> [] -> delegating ms o ->
  match lr_err (lz_step ms o) with
  | None => lr_cont (lz_step ms o) = mapi_from (fun i m => sr_cont (step m (member_op i o))) 0 ms
            /\ lr_self (lz_step ms o) = mapi_from (fun i m => sr_self (step m (member_op i o))) 0 ms
            /\ members_ok ms o
  | Some e => member_raises ms o e
  end.
Proof. exact lz_step_delegates. Qed.
Print Assumptions C04_lazy_step_delegates.

(* ... composed with C04_refine_step: member by member the stack refines the replay on the plain nested dict, with the
   same outcome class (raises iff the replay of some member's share fails) *)
Theorem C04_lazy_refine_step : forall ms o, ms <> [] -> delegating ms o -> Forall wfE ms ->
  (forall i, exists so, abs_op (member_op i o) = Some so /\ in_scope (member_op i o)) ->
  match lr_err (lz_step ms o) with
  | None => forall i m, nth_error ms i = Some m ->
              exists so r m', abs_op (member_op i o) = Some so /\ nd_step py_split (absE m) so = Some r
                              /\ nth_error (lr_cont (lz_step ms o)) i = Some m' /\ absE m' = s_cont r
  | Some _ => exists i m so, nth_error ms i = Some m /\ abs_op (member_op i o) = Some so
                             /\ nd_step py_split (absE m) so = None
  end.
Proof. exact lazy_refine_step. Qed.
Print Assumptions C04_lazy_refine_step.

(* histories (any length): the history of the stack is every member's own history of its shares *)
Theorem C04_lazy_history : forall ops ms, ms <> [] -> lz_ok ms ops ->
  lz_run ms ops = mapi_from (fun i m => run m (map (member_op i) ops)) 0 ms.
Proof. exact lazy_history. Qed.
Print Assumptions C04_lazy_history.

(* 6b. get stacks the members' entries, for every key path: a leaf result lists the members' own leaves, a nested
   result is the lazy stack of the members' own nested nodes *)
Theorem C04_lazy_get_members : forall p ms hd v, lz_get_tuple p ms hd = LGVal v ->
  match v with
  | LVLeaf vs => Forall2 (fun m w => get_tuple p m hd = GVal w /\ is_nodeb w = false) ms vs
  | LVStack subs => Forall2 (fun m s => get_tuple p m hd = GVal (Node s)) ms subs
  end.
Proof. exact lz_get_members. Qed.
Print Assumptions C04_lazy_get_members.

(* 6c. key views: the keys of a stack are the keys common to all members, listed in sorted order; at the root `in`
   agrees with iteration for every leaves_only / sort (D45), len counts what the view iterates (D44), values are the
   values of the items, is_empty says the leaves-only nested view is empty *)
Theorem C04_lazy_key_list : forall m0 r k,
  (In k (lz_key_list (m0 :: r)) <-> (In k (map fst m0) /\ forall m, In m r -> amem k m = true))
  /\ names_sorted (lz_key_list (m0 :: r)).
Proof. intros. split; [apply lz_key_list_spec|apply lz_key_list_sorted]. Qed.
Print Assumptions C04_lazy_key_list.

Theorem C04_lazy_root_contains : forall inc lo so k ms l,
  lz_keys_view false lo so ms = Ok l -> (lz_view_contains inc lo [k] ms = Ok true <-> In [k] l).
Proof. exact lz_root_contains_iff_listed. Qed.
Print Assumptions C04_lazy_root_contains.

Theorem C04_lazy_len : forall inc lo so ms l,
  lz_keys_view inc lo so ms = Ok l -> lz_len_view inc lo so ms = Ok (List.length l).
Proof. exact lz_len_spec. Qed.
Print Assumptions C04_lazy_len.

Theorem C04_lazy_values : forall inc lo so ms,
  lz_values_view inc lo so ms = match lz_items_view inc lo so ms with Ok l => Ok (map snd l) | Raise e => Raise e end.
Proof. exact lz_values_spec. Qed.
Print Assumptions C04_lazy_values.

Theorem C04_lazy_is_empty : forall so ms l, lz_keys_view true true so ms = Ok l -> lz_is_empty ms = Ok (is_nilb l).
Proof. exact lz_is_empty_spec. Qed.
Print Assumptions C04_lazy_is_empty.

(* D401 (known finding): with a nested node in the first member that another member lacks the stack denotes the empty
   dict (items, `in`, get agree) but keys(include_nested=True), its len and is_empty raise KeyError; views without
   include_nested never raise *)
Theorem C04_lazy_keys_nested_refuted :
  common_keys d401_stack = [] /\ lz_items_view true false false d401_stack = Ok []
  /\ lz_td_contains (KS "x") d401_stack = Ok false /\ lz_get (KS "x") d401_stack = LGDef
  /\ lz_keys_view true false false d401_stack = Raise EKey /\ lz_len_view true false false d401_stack = Raise EKey
  /\ lz_is_empty d401_stack = Raise EKey.
Proof. exact lazy_keys_nested_refuted. Qed.
Print Assumptions C04_lazy_keys_nested_refuted.

Theorem C04_lazy_keys_root_partial : forall lo so ms, exists l, lz_keys_view false lo so ms = Ok l.
Proof. exact lazy_keys_root_partial. Qed.
Print Assumptions C04_lazy_keys_root_partial.

(* stated, not proved (checked by the correspondence and the oracle on every generated stack): when the nested keys view
   does not raise it lists the paths of the items *)
Definition C04_lazy_nested_keys_full_statement : Prop := forall lo so ms l its,
  lz_keys_view true lo so ms = Ok l -> lz_items_view true lo so ms = Ok its -> Permutation l (map fst its).

(* D47 (known finding): update() with prefix-related items is not the members' update (the input is merged into ONE
   tensordict first); with a single string-keyed item it is *)
Theorem C04_lazy_update_refuted :
  fst (lz_update d47_items [[]]) = [[("a", Node [("c", Leaf LT 2%Z)])]]
  /\ fst (update (map (fun kv => (fst kv, unbind1 0 (snd kv))) d47_items) [])
     = [("a", Node [("b", Leaf LT 1%Z); ("c", Leaf LT 2%Z)])].
Proof. exact lazy_update_refuted. Qed.
Print Assumptions C04_lazy_update_refuted.

Theorem C04_lazy_update_single_partial : forall s v ms,
  lz_update [(KS s, v)] ms = lz_each (fun i m => update [(KS s, unbind1 i v)] m) 0 ms.
Proof. exact lazy_update_single_partial. Qed.
Print Assumptions C04_lazy_update_single_partial.

(* non-vacuity: two members with different insertion orders and different leaf values; set through a re-spelled nested
   key, rename into a nested node, out-of-place select continued with its result, flatten in place *)
Example C04_ex_lazy_history :
  ex_stack <> [] /\ lz_ok ex_stack ex_lops
  /\ lz_run ex_stack ex_lops = [[("a.d", Leaf LT 7%Z); ("a.e", Leaf LT 1%Z)]; [("a.d", Leaf LT 8%Z); ("a.e", Leaf LT 6%Z)]]
  /\ lz_keys_view true true false (lz_run ex_stack (firstn 3 ex_lops)) = Ok [["a"; "d"]; ["a"; "e"]]
  /\ lz_get_tuple ["a"; "d"] (lz_run ex_stack (firstn 3 ex_lops)) true = LGVal (LVLeaf [Leaf LT 7%Z; Leaf LT 8%Z]).
Proof. split; [discriminate|]. split; [vm_compute; tauto|]. repeat split. Qed.

Example C04_ex_lazy_refine_scope : forall i, exists so,
  abs_op (member_op i (LSet (KT [KS "a"; KT [KS "d"]]) (SLeaf [7%Z; 8%Z]))) = Some so
  /\ in_scope (member_op i (LSet (KT [KS "a"; KT [KS "d"]]) (SLeaf [7%Z; 8%Z]))).
Proof. intro i. eexists. split; [reflexivity|exact I]. Qed.

(* ------------------------------------------------------------------------------------------------------------
   non-vacuity: a three-level tree with an empty nested node and a non-tensor leaf meets the hypotheses *)
Example C04_ex_wf : wfE ex_tree. Proof. exact ex_tree_wf. Qed.
Definition ex_ops : list op :=
  [OSet (KT [KS "n"; KT [KS "b"; KS "c"]]) (Leaf LT 9);            (* through a leaf: raises, state unchanged *)
   ORename (KT [KS "n"; KS "b"]) (KT [KT [KS "n"]]) false;          (* new key is a prefix of the old one *)
   OUpdate [(KT [KS "u"; KS "v"], Node [("w", Leaf LS 4)]); (KS "u", Node [("v", Node [("x", Leaf LT 5)])])];
   OPop (KS "zz") (Some 5%Z); OSetDefault (KT [KS "q"; KS "r"]) (Node []); ODel (KS "a"); OFilterEmpty;
   ORename (KS "u") (KT [KS "u"; KS "t"]) false;                    (* new key under the old one (D42 fixed) *)
   OFlatten "." true false;                                         (* in place (D24 fixed) *)
   OUnflatten "." true false;
   OSplit [[KT [KS "u"; KS "t"; KS "v"; KS "w"]]; [KS "n"]] true false (Some 7%Z) (Some 0%nat)].   (* continue with the 1st result *)

Example C04_ex_history :
  exists sops,
    Forall2 (fun o so => abs_op o = Some so /\ in_scope o /\ values_wf o) ex_ops sops
    /\ nd_ok (absE ex_tree) ex_ops sops
    /\ run ex_tree ex_ops =
       [("u", Node [("t", Node [("v", Node [("w", Leaf LS 4%Z)])])])].
Proof.
  eexists. split; [|split].
  - unfold ex_ops. repeat (apply Forall2_cons; [split; [reflexivity|split]|]); try apply Forall2_nil; cbn;
      try exact I; try (repeat constructor; cbn; intuition discriminate); try (intros _; reflexivity); try discriminate.
  - vm_compute. tauto.
  - reflexivity.
Qed.
