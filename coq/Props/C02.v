(* C02 — placeholder while the model is being built *)
From Coq Require Import ZArith List Bool.
Import ListNotations.
From TD Require Import Spec.C02_TorchShape.
Open Scope Z_scope.

Theorem C02_placeholder : t_squeeze_all [1; 2] = Ok [2].
Proof. reflexivity. Qed.
Print Assumptions C02_placeholder.
