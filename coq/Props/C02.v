(* C02 — shape operations act as on a tensor of the batch shape, expanded to the right.
   Property theorems only: each is closed by [exact] of a lemma proved in Proofs/C02_*.v, followed by
   Print Assumptions (parsed by the harness on every run).

   Vocabulary (Model/C02_ShapeOps.v, Proofs/C02_FrameP.v, Spec/C02_TorchShape.v):
     tree           a tensordict: Leaf shape | Node batch_size names entries   (values are not modelled here)
     apply t o      the model of tensordict's method o on t: Done t' | Raised k | Diverges | Unmodelled
     torch_shape    what torch does to the shape of a tensor for the same call (validated against torch every run)
     wf t           t is coherent: every entry's shape starts with its node's batch size, names name every batch dim
     rel bs bs' t t'  t' is t with the leading bs of EVERY shape (entries and nested batch sizes, at every depth)
                    replaced by bs', same keys in the same order, trailing feature / extra batch dims untouched *)
From Coq Require Import ZArith List Bool String Lia.
Import ListNotations.
From TD Require Import Spec.PySlice Spec.C02_TorchShape Model.C02_ShapeOps
                       Proofs.C02_FrameP Proofs.C02_OpsP Proofs.C02_RefuteP Proofs.C02_MultiP Proofs.C02_StackP
                       Proofs.C02_NamesP Proofs.C02_RejectP Proofs.C02_RejLiftP Proofs.C02_RejOpsP Proofs.C02_RejMultiP
                       Proofs.C02_MoreP Spec.C02_TorchElem Model.C02_Elem Proofs.C02_ElemP.
From TD Require Spec.C08_Dense Model.C08_Lazy Proofs.C02_LazyP.
Open Scope string_scope.
Open Scope Z_scope.

(* ---------------------------------------------------------------------------------------------------------------
   The property for permute, transpose, squeeze (dim / None), unsqueeze, expand (-1 included), view / reshape (-1
   included), flatten, unflatten (-1 included), repeat, repeat_interleave(dim) -- /repo with fixes/C02/*.diff applied.
   [in_domain] now lists only tensordict's DOCUMENTED narrower domain (rank-0 spellings of transpose / squeeze(dim) /
   repeat_interleave(dim), flatten start < end, repeat with one count per batch dim): no recorded defect is excluded.
   For every tree (any depth / width / feature shapes / nested batch longer than the parent's) and every argument torch
   accepts (every dim incl. negative, every permutation, every legal target shape ...) *)
Definition user_op (o : sop) : Prop :=
  match o with OViewStar _ | OSqueezeDims _ | OSqueezeAllChild _ _ _ => False | _ => True end.

Theorem C02_one_result_ops : forall t o bs',
  wf t -> in_domain o (top_shape t) -> torch_shape o (top_shape t) = Ok bs' ->
  exists t', apply t o = Done t' /\ rel (top_shape t) bs' t t' /\ wf t'.
Proof. exact shape_ops_act_on_batch_dims. Qed.
Print Assumptions C02_one_result_ops.

(* outside the documented domain the statement does not hold: flatten(1, 1) is a no-op for torch, tensordict raises
   ("The end dimension must be strictly greater than the start dim") -- a restriction, not a defect *)
Theorem C02_one_result_ops_domain_needed :
  exists t o bs', wf t /\ user_op o /\ torch_shape o (top_shape t) = Ok bs' /\ forall t', apply t o <> Done t'.
Proof. exact full_statement_refuted. Qed.
Print Assumptions C02_one_result_ops_domain_needed.

(* in particular: the result's batch size is torch's shape, and the key set is preserved at every level *)
Theorem C02_batch_size_and_keys : forall t o bs',
  wf t -> in_domain o (top_shape t) -> torch_shape o (top_shape t) = Ok bs' ->
  exists t', apply t o = Done t' /\ top_shape t' = bs' /\ same_keys t t'.
Proof. exact shape_ops_batch_size. Qed.
Print Assumptions C02_batch_size_and_keys.

(* ---------------------------------------------------------------------------------------------------------------
   Operations with several results: one result per shape torch returns, each the input with its batch prefix replaced *)
Theorem C02_unbind : forall t d shapes,
  wf t -> is_node t -> t_unbind (top_shape t) d = Ok shapes ->
  exists ts, td_unbind t d = Done ts /\
             Forall2 (fun s t' => top_shape t' = s /\ rel (top_shape t) s t t' /\ wf t') shapes ts.
Proof. exact unbind_acts_on_batch_dims. Qed.
Print Assumptions C02_unbind.

(* split(list) for every list of sizes torch accepts (tensordict documents: not the empty list) *)
Theorem C02_split_list : forall t l d shapes,
  wf t -> is_node t -> l <> [] -> t_split_list (top_shape t) l d = Ok shapes ->
  exists ts, td_split t (inr l) d = Done ts /\
             Forall2 (fun s t' => top_shape t' = s /\ rel (top_shape t) s t t' /\ wf t') shapes ts.
Proof. exact split_list_acts_on_batch_dims. Qed.
Print Assumptions C02_split_list.

Theorem C02_split_int : forall t k d shapes,
  wf t -> is_node t -> t_split_int (top_shape t) k d = Ok shapes ->
  exists ts, td_split t (inl k) d = Done ts /\
             Forall2 (fun s t' => top_shape t' = s /\ rel (top_shape t) s t t' /\ wf t') shapes ts.
Proof. exact split_int_acts_on_batch_dims. Qed.
Print Assumptions C02_split_int.

(* chunk: every dim, every number of chunks torch accepts, a dim of size 0 included (fixes/C02/C02-e) *)
Theorem C02_chunk : forall t c d shapes,
  wf t -> is_node t -> t_chunk (top_shape t) c d = Ok shapes ->
  exists ts, td_chunk t c d = Done ts /\
             Forall2 (fun s t' => top_shape t' = s /\ rel (top_shape t) s t t' /\ wf t') shapes ts.
Proof. exact chunk_acts_on_batch_dims. Qed.
Print Assumptions C02_chunk.

(* torch.stack over 1 + |others| operands with the same keys and shapes (any number of operands, any depth) *)
Theorem C02_stack : forall t others d bs',
  wf t -> ukeys t -> is_node t -> Forall (cong eq t) others ->
  t_stack (map top_shape (t :: others)) d = Ok bs' ->
  exists t', td_stack (t :: others) d = Done t' /\ top_shape t' = bs' /\ rel (top_shape t) bs' t t' /\ wf t'.
Proof. exact stack_acts_on_batch_dims. Qed.
Print Assumptions C02_stack.

(* torch.cat: the operands have the keys of the first one and, entry by entry, its shapes off the concatenation dim *)
Theorem C02_cat : forall t others d bs' i,
  wf t -> ukeys t -> is_node t -> Forall wf others ->
  wrap_dim d (List.length (top_shape t)) = Ok i -> Forall (cong (cat_R i) t) others ->
  t_cat (map top_shape (t :: others)) d = Ok bs' ->
  exists t', td_cat (t :: others) d = Done t' /\ top_shape t' = bs' /\ rel (top_shape t) bs' t t' /\ wf t'.
Proof. exact cat_acts_on_batch_dims. Qed.
Print Assumptions C02_cat.

(* repeat_interleave on a rank-0 batch (tensordict's coded extension: the batch is treated as one element) *)
Theorem C02_repeat_interleave_rank0 : forall t r d,
  wf t -> is_node t -> top_shape t = [] -> 0 <= r -> (d = None \/ d = Some 0 \/ d = Some (-1)) ->
  exists t', td_repeat_interleave t r d = Done t' /\ top_shape t' = [r] /\ rel [] [r] t t' /\ wf t'.
Proof. exact repeat_interleave_rank0. Qed.
Print Assumptions C02_repeat_interleave_rank0.

(* masked_select by a mask of the batch shape holding cnt True entries *)
Theorem C02_masked_select : forall t cnt,
  wf t -> is_node t -> 0 <= cnt ->
  t_masked_select (top_shape t) (top_shape t) cnt = Ok [cnt] /\
  exists t', td_masked_select t (top_shape t) cnt = Done t' /\ top_shape t' = [cnt] /\ rel (top_shape t) [cnt] t t'.
Proof. exact masked_select_acts_on_batch_dims. Qed.
Print Assumptions C02_masked_select.

Open Scope list_scope.
(* repeat_interleave(r) without a dim on a batch of rank >= 1: tensordict's chain reshape(-1); repeat_interleave(r, dim=0) *)
Theorem C02_repeat_interleave_none : forall t r,
  wf t -> is_node t -> top_shape t <> [] -> 0 <= r ->
  t_repeat_interleave (top_shape t) r None = Ok [numel (top_shape t) * r] /\
  exists t', td_repeat_interleave t r None = Done t' /\ top_shape t' = [numel (top_shape t) * r] /\
             rel (top_shape t) [numel (top_shape t) * r] t t' /\ wf t'.
Proof. exact repeat_interleave_none. Qed.
Print Assumptions C02_repeat_interleave_none.

(* gather: an index with one dim per batch dim, not larger than the batch off the gather dim (torch's rule for the
   batch shape; an index without elements is not validated by torch), first dim not 0 (tensordict's restriction):
   the result has the index's shape, every entry is gathered with the index expanded over its trailing dims *)
Theorem C02_gather : forall t d ish i,
  wf t -> is_node t -> wrap_dim d (List.length (top_shape t)) = Ok i -> gather_ok (top_shape t) ish i ->
  t_gather (top_shape t) d ish = Ok ish /\
  exists t', gather_at t d ish = Done t' /\ top_shape t' = ish /\ rel (top_shape t) ish t t' /\ wf t'.
Proof. exact gather_acts_on_batch_dims. Qed.
Print Assumptions C02_gather.

(* ---------------------------------------------------------------------------------------------------------------
   The element level.  [leaf_calls t o] = the torch calls tensordict's method o makes on the tensors of t (any depth),
   each with the shape of the tensor it is made on; [e_src o' s r] = the position of the source element that the torch
   call o' on a tensor of shape s puts at position r of its result (Spec/C02_TorchElem, validated against torch on every
   run); [inb r s] = r is a multi-index of shape s.  For the order-preserving family (view, reshape, flatten, unflatten,
   squeeze, unsqueeze) and expand, repeat, repeat_interleave(dim): every such call is made on a tensor of shape
   bs ++ feat, and its element map is (the element map of o on a tensor of the batch shape) (x) (identity on feat). *)
Theorem C02_elements_follow_batch_dims : forall t o bs',
  wf t -> is_node t -> in_domain o (top_shape t) -> elem_domain o -> torch_shape o (top_shape t) = Ok bs' ->
  Forall (fun c => exists feat, snd c = top_shape t ++ feat /\
            forall r f, inb r bs' -> inb f feat ->
              exists v, e_src o (top_shape t) r = Some v /\ e_src (fst c) (snd c) (r ++ f) = Some (v ++ f))
         (leaf_calls t o).
Proof. exact elements_follow_batch_dims. Qed.
Print Assumptions C02_elements_follow_batch_dims.

(* the ravel / unravel lemma behind the reshaping family: keeping the row-major order on batch ++ feat is keeping it on the
   batch, for every feat *)
Theorem C02_reshape_is_batch_map_tensor_id : forall s s' tl r f,
  nonneg s -> prodZ s = prodZ s' -> inb r s' -> inb f tl ->
  e_reshape (s ++ tl) (s' ++ tl) (r ++ f) = e_reshape s s' r ++ f.
Proof. exact reshape_tensor. Qed.
Print Assumptions C02_reshape_is_batch_map_tensor_id.

(* ---------------------------------------------------------------------------------------------------------------
   Lazy stacks (LazyStackedTensorDict._permute as transcribed by C08: Model/C08_Lazy.lz_permute).  For every rank, every
   stack dim, every number of members and every permutation torch accepts for the DERIVED batch size (the members' batch
   size with the member count inserted at the stack dim): the result is a lazy stack whose derived batch size is torch's
   shape, whose stack dim holds the member count, and sits where dims names the old stack dim (argsort(dims)[stack_dim]:
   the arithmetic seeded change C02-2 breaks). *)
Theorem C02_lazy_permute : forall sd bs0 parts bs dims bs' fuel,
  parts <> [] -> Forall (fun p => C08_Dense.shape_of p = Some bs) parts -> Forall (fun p => C08_Lazy.is_stack p = false) parts ->
  (sd <= List.length bs)%nat ->
  t_permute (C08_Dense.insert_at sd (C08_Dense.lenZ parts) bs) dims = Ok bs' ->
  exists nsd ms, C08_Lazy.lz_permute (S fuel) (C08_Dense.Stack sd bs0 parts) dims = C08_Lazy.Ok (C08_Dense.Stack nsd bs0 ms) /\
                 C08_Dense.shape_of (C08_Dense.Stack nsd bs0 ms) = Some bs' /\ C08_Dense.lenZ ms = C08_Dense.lenZ parts /\
                 nth_error bs' nsd = Some (C08_Dense.lenZ parts) /\
                 nth_error (map (fun d => if d <? 0 then d + Z.of_nat (S (List.length bs)) else d) dims) nsd = Some (Z.of_nat sd).
Proof. exact C02_LazyP.lazy_permute_batch_size. Qed.
Print Assumptions C02_lazy_permute.

Example C02_ex_lazy_permute :
  let parts := [C08_Dense.Leaf 0 [3; 4]; C08_Dense.Leaf 1 [3; 4]] in
  t_permute (C08_Dense.insert_at 0 (C08_Dense.lenZ parts) [3; 4]) [1; -1; 0] = Ok [3; 4; 2] /\
  C08_Lazy.lz_permute 2 (C08_Dense.Stack 0 [3; 4] parts) [1; -1; 0]
    = C08_Lazy.Ok (C08_Dense.Stack 2 [3; 4] [C08_Dense.Perm [0; 1]%nat (C08_Dense.Leaf 0 [3; 4]); C08_Dense.Perm [0; 1]%nat (C08_Dense.Leaf 1 [3; 4])]).
Proof. split; vm_compute; reflexivity. Qed.

(* ---------------------------------------------------------------------------------------------------------------
   Illegal arguments.  Full statement: whatever torch rejects for the batch shape, tensordict rejects.  After
   fixes/C02 it holds, for every tree (even without entries), for transpose, unsqueeze, squeeze(dim), permute (with one
   dim per batch dim), flatten, split(int) and stack -- the operations whose guards tensordict checks itself.
   It remains false where only the per-entry torch calls validate the arguments: on a tensordict without entries
   (C02-l, same root as C03's D3) and for split(list) with sizes summing beyond the dim (D4 reduced: truncated). *)
Definition C02_illegal_rejected_full_statement : Prop :=
  forall bs nm ents o, user_op o -> torch_shape o bs = Reject -> exists k, apply (Node bs nm ents) o = Raised k.

Theorem C02_illegal_rejected_partial : forall bs nm ents o,
  reject_domain o bs -> torch_shape o bs = Reject -> exists k, apply (Node bs nm ents) o = Raised k.
Proof. exact illegal_is_rejected. Qed.
Print Assumptions C02_illegal_rejected_partial.

Theorem C02_split_int_illegal_rejected : forall bs nm ents k d,
  t_split_int bs k d = Reject -> exists e, td_split (Node bs nm ents) (inl k) d = Raised e.
Proof. exact split_int_illegal_rejected. Qed.
Print Assumptions C02_split_int_illegal_rejected.

Theorem C02_stack_illegal_rejected : forall bs nm ents others d,
  t_stack (map top_shape (Node bs nm ents :: others)) d = Reject ->
  exists e, td_stack (Node bs nm ents :: others) d = Raised e.
Proof. exact stack_illegal_rejected. Qed.
Print Assumptions C02_stack_illegal_rejected.

Theorem C02_illegal_rejected_refuted :
  t_view [3; 3] [3] = Reject /\ apply (Node [3; 3] None []) (OView [3]) = Done (Node [3] None []).
Proof. exact C02l_leafless_accepts. Qed.
Print Assumptions C02_illegal_rejected_refuted.

(* The same statement at full strength for EVERY one-result operation, on every well-formed tree that contains a tensor
   (anywhere, at any depth; [hasleaf G n t]: a tensor whose dims after the first n satisfy G): expand, view / reshape
   (the -1 inference of _infer_size_impl included), unflatten, repeat, repeat_interleave(dim), and permute with any
   number of dims that is not tensordict's prefix-permutation extension, next to the operations above; rank-0 batches
   included (transpose / squeeze(dim) refuse every dim there).  Only the per-entry torch calls validate these
   arguments, so the tensor is needed (C02-l is the complement), and for view / reshape it must not have a size-0
   trailing dim (C02-o: with zero elements in every entry, a view to another numel is accepted). *)
Theorem C02_illegal_rejected_with_entries : forall bs nm ents o,
  wf (Node bs nm ents) -> reject_domain_full o bs -> torch_shape o bs = Reject ->
  hasleaf (leaf_ok o) (List.length bs) (Node bs nm ents) ->
  exists k, apply (Node bs nm ents) o = Raised k.
Proof. exact illegal_is_rejected_with_entries. Qed.
Print Assumptions C02_illegal_rejected_with_entries.

Theorem C02_o_zero_numel_entries_refuted :
  t_view [3; 3] [3] = Reject /\
  apply (Node [3; 3] None [("a", Leaf [3; 3; 0])]) (OView [3]) = Done (Node [3] None [("a", Leaf [3; 0])]) /\
  apply (Node [3; 3] None [("a", Leaf [3; 3; 0])]) (OReshape [3]) = Done (Node [3] None [("a", Leaf [3; 0])]).
Proof. exact C02o_zero_numel_entries_accept. Qed.
Print Assumptions C02_o_zero_numel_entries_refuted.

(* operations with several results: unbind and chunk check their arguments themselves (every tree, even without
   entries); split(list) refuses whatever torch refuses unless the sizes sum beyond the dim (D4, below) *)
Theorem C02_unbind_illegal_rejected : forall bs nm ents d,
  t_unbind bs d = Reject -> exists e, td_unbind (Node bs nm ents) d = Raised e.
Proof. exact unbind_illegal_rejected. Qed.
Print Assumptions C02_unbind_illegal_rejected.

Theorem C02_chunk_illegal_rejected : forall bs nm ents c d,
  t_chunk bs c d = Reject -> exists e, td_chunk (Node bs nm ents) c d = Raised e.
Proof. exact chunk_illegal_rejected. Qed.
Print Assumptions C02_chunk_illegal_rejected.

Definition C02_split_list_illegal_rejected_full_statement : Prop :=
  forall bs nm ents l d, t_split_list bs l d = Reject -> exists e, td_split (Node bs nm ents) (inr l) d = Raised e.

Theorem C02_split_list_illegal_rejected_partial : forall bs nm ents l d,
  t_split_list bs l d = Reject ->
  (forall i, wrap_dim d (List.length bs) = Ok i -> sumZ l <= nthZ bs i) ->
  exists e, td_split (Node bs nm ents) (inr l) d = Raised e.
Proof. exact split_list_illegal_rejected_partial. Qed.
Print Assumptions C02_split_list_illegal_rejected_partial.

(* torch.cat compares the entries, never the batch sizes: operands of different batch RANK whose entries agree are
   concatenated (C02-p; torch.stack does compare batch sizes) *)
Theorem C02_p_cat_batch_rank_refuted :
  t_cat [[2; 3]; [2]] 0 = Reject /\
  td_cat [Node [2; 3] None [("a", Leaf [2; 3])]; Node [2] None [("a", Leaf [2; 3])]] 0
    = Done (Node [4; 3] None [("a", Leaf [4; 3])]) /\
  t_cat [[2]; [2; 3]] 0 = Reject /\
  td_cat [Node [2] None [("a", Leaf [2; 3])]; Node [2; 3] None [("a", Leaf [2; 3])]] 0
    = Done (Node [4] None [("a", Leaf [4; 3])]).
Proof. exact C02p_cat_batch_rank_accept. Qed.
Print Assumptions C02_p_cat_batch_rank_refuted.

Theorem C02_D4_split_list_truncates_refuted :
  t_split_list [3] [5] 0 = Reject /\
  td_split (td1 [3] [2]) (inr [5]) 0 = Done [td1 [3] [2]] /\
  t_split_list [3] [2; 2] 0 = Reject /\
  td_split (td1 [3] []) (inr [2; 2]) 0 = Done [td1 [2] []; td1 [1] []].
Proof. exact D4_split_list_truncates. Qed.
Print Assumptions C02_D4_split_list_truncates_refuted.

(* ---------------------------------------------------------------------------------------------------------------
   Dimension names travel with their dimensions: the result's names are the input's names read through the same
   provenance list as the sizes ([travels]); new dims are unnamed *)
Theorem C02_names_permute : forall bs nm ents dims p t',
  mapM (fun d => wrap_dim d (List.length bs)) dims = Ok p -> is_perm p -> List.length p = List.length bs ->
  names_wf nm bs -> has_names nm = true ->
  apply (Node bs nm ents) (OPermute dims) = Done t' ->
  exists nl', root_names t' = Some nl' /\
              travels (map Some p) bs (top_shape t') (names_list nm (List.length bs)) nl'.
Proof. exact names_permute. Qed.
Print Assumptions C02_names_permute.

Theorem C02_names_unsqueeze : forall bs nm ents d i t',
  wrap_dim d (S (List.length bs)) = Ok i -> names_wf nm bs -> has_names nm = true ->
  apply (Node bs nm ents) (OUnsqueeze d) = Done t' ->
  exists nl', root_names t' = Some nl' /\
              travels (insert_nth i None (id_prov (List.length bs))) bs (top_shape t') (names_list nm (List.length bs)) nl'.
Proof. exact names_unsqueeze. Qed.
Print Assumptions C02_names_unsqueeze.

Theorem C02_names_squeeze : forall bs nm ents d i t',
  bs <> [] -> wrap_dim d (List.length bs) = Ok i -> nthZ bs i = 1 -> names_wf nm bs -> has_names nm = true ->
  apply (Node bs nm ents) (OSqueeze (Some d)) = Done t' ->
  exists nl', root_names t' = Some nl' /\
              travels (remove_nth i (id_prov (List.length bs))) bs (top_shape t') (names_list nm (List.length bs)) nl'.
Proof. exact names_squeeze. Qed.
Print Assumptions C02_names_squeeze.

Theorem C02_names_expand : forall bs nm ents shape t',
  nonneg shape -> t_expand bs shape = Ok shape -> names_wf nm bs -> has_names nm = true ->
  apply (Node bs nm ents) (OExpand shape) = Done t' ->
  root_names t' = Some (repeat None (List.length shape - List.length bs) ++ names_list nm (List.length bs))%list /\ top_shape t' = shape.
Proof. exact names_expand. Qed.
Print Assumptions C02_names_expand.

Theorem C02_names_transpose : forall bs nm ents a b i j t',
  wrap_dim a (List.length bs) = Ok i -> wrap_dim b (List.length bs) = Ok j -> i <> j ->
  names_wf nm bs -> has_names nm = true ->
  apply (Node bs nm ents) (OTranspose a b) = Done t' ->
  exists nl', root_names t' = Some nl' /\ List.length nl' = List.length bs /\ List.length (top_shape t') = List.length bs /\
    forall k, (k < List.length bs)%nat ->
      nth k nl' None = nth (tr i j k) (names_list nm (List.length bs)) None /\ nthZ (top_shape t') k = nthZ bs (tr i j k).
Proof. exact names_transpose. Qed.
Print Assumptions C02_names_transpose.

Theorem C02_names_flatten : forall bs nm ents a b i j t',
  bs <> [] -> wrap_dim a (List.length bs) = Ok i -> wrap_dim b (List.length bs) = Ok j -> (i < j)%nat ->
  names_wf nm bs -> has_names nm = true ->
  apply (Node bs nm ents) (OFlatten a b) = Done t' ->
  exists nl', root_names t' = Some nl' /\
              travels (flatten_prov (List.length bs) i j) bs (top_shape t') (names_list nm (List.length bs)) nl'.
Proof. exact names_flatten. Qed.
Print Assumptions C02_names_flatten.

(* ---------------------------------------------------------------------------------------------------------------
   The former counterexamples (the repro of each repaired finding, fixes/C02/fixed.json) satisfy the property in the
   model of the repaired code *)
Example C02_D4_repaired :
  td_split (td1 [3] []) (inr [4; -1]) 0 = Raised ERuntime /\
  td_split (td1 [2] []) (inl 0) 0 = Raised ERuntime /\ td_split (td1 [2] []) (inl (-1)) 0 = Raised ERuntime /\
  cohb (td1 [3] [2]) = true.
Proof. exact D4_repaired. Qed.
Example C02_D5_repaired :
  t_squeeze_all [1; 1] = Ok [] /\
  apply (named [1; 1] [Some "x"; Some "y"] [2]) (OSqueeze None) = Done (Node [] None [("a", Leaf [2])]) /\
  apply (td1 [1; 1] []) (OSqueeze None) = Done (Node [] None [("a", Leaf [])]).
Proof. exact D5_repaired. Qed.
Example C02_a_repaired :
  apply (Node [1; 2] (Some [Some "x"; Some "y"]) [("n", Node [1; 2] (Some [Some "x"; Some "y"]) [("x", Leaf [1; 2])])])
        (OSqueeze None)
  = Done (Node [2] (Some [Some "y"]) [("n", Node [2] (Some [Some "y"]) [("x", Leaf [2])])]).
Proof. exact C02a_repaired. Qed.
Example C02_D22_b_c_repaired :
  t_stack [[3]; [3]] 2 = Reject /\ td_stack [td1 [3] [4]; td1 [3] [4]] 2 = Raised EIndex /\
  t_stack [[3; 4]; [3; 4]] (-4) = Reject /\ td_stack [td1 [3; 4] []; td1 [3; 4] []] (-4) = Raised EIndex /\
  t_cat [[3; 4]; [3; 4]] (-3) = Reject /\ td_cat [td1 [3; 4] []; td1 [3; 4] []] (-3) = Raised ERuntime.
Proof. exact D22_C02b_C02c_repaired. Qed.
Example C02_S5_d_repaired :
  t_flatten [2] 0 1 = Reject /\ apply (td1 [2] [3; 4]) (OFlatten 0 1) = Raised EIndex /\
  t_repeat_interleave [2] 2 (Some 1) = Reject /\ td_repeat_interleave (td1 [2] [3]) 2 (Some 1) = Raised EValue.
Proof. exact S5_C02d_repaired. Qed.
Example C02_e_repaired :
  t_chunk [0; 2] 3 0 = Ok [[0; 2]; [0; 2]; [0; 2]] /\
  td_chunk (td1 [0; 2] []) 3 0 = Done [td1 [0; 2] []; td1 [0; 2] []; td1 [0; 2] []].
Proof. exact C02e_repaired. Qed.
Example C02_f_g_repaired :
  t_expand [1; 2] [-1; 2] = Ok [1; 2] /\ apply (td1 [1; 2] []) (OExpand [-1; 2]) = Done (td1 [1; 2] []) /\
  t_unflatten [6] 0 [2; -1] = Ok [2; 3] /\ apply (td1 [6] []) (OUnflatten 0 [2; -1]) = Done (td1 [2; 3] []).
Proof. exact C02f_C02g_repaired. Qed.
Example C02_h_repaired :
  t_view [3; 0] [3; -1] = Ok [3; 0] /\ apply (td1 [3; 0] []) (OView [3; -1]) = Done (td1 [3; 0] []) /\
  apply (Node [2; 0] None []) (OReshape [-1]) = Done (Node [0] None []).
Proof. exact C02h_repaired. Qed.
Example C02_i_j_repaired :
  t_gather [2; 2; 2] (-1) [2; 2] = Reject /\ gather_at (td1 [2; 2; 2] []) (-1) [2; 2] = Raised ERuntime /\
  t_gather [3; 4] 1 [1; 2] = Ok [1; 2] /\ gather_at (td1 [3; 4] []) 1 [1; 2] = Done (td1 [1; 2] []).
Proof. exact C02ij_repaired. Qed.
Example C02_k_repaired :
  apply (named [2; 3; 4] [Some "x"; Some "y"; Some "z"] []) (OPermute [1; 0])
  = Done (Node [3; 2; 4] (Some [Some "y"; Some "x"; Some "z"]) [("a", Leaf [3; 2; 4])]).
Proof. exact C02k_repaired. Qed.
Example C02_m_repaired : t_repeat [] [] = Ok [] /\ apply (td1 [] []) (ORepeat []) = Done (td1 [] []).
Proof. exact C02m_repaired. Qed.

(* ---------------------------------------------------------------------------------------------------------------
   Non-vacuity: a three-level tree with a nested batch longer than the parent's, a size-0-free and a size-1 dim,
   satisfies the hypotheses; the theorem's conclusion is computed for it *)
Definition ex_tree : tree := ex_tree_P.
Definition ex_tree_unfolded : tree :=
  Node [2; 1; 3] (Some [Some "x"; None; Some "z"])
    [("a", Leaf [2; 1; 3]);
     ("b", Leaf [2; 1; 3; 4; 5]);
     ("n", Node [2; 1; 3; 2] (Some [Some "x"; None; Some "z"; None])
             [("x", Leaf [2; 1; 3; 2]);
              ("m", Node [2; 1; 3; 2; 1] None [("z", Leaf [2; 1; 3; 2; 1; 3])])])].

Example C02_ex_wf : wf ex_tree.
Proof. exact ex_tree_wf. Qed.

Example C02_ex_permute :
  in_domain (OPermute [-1; 0; 1]) (top_shape ex_tree) /\
  torch_shape (OPermute [-1; 0; 1]) (top_shape ex_tree) = Ok [3; 2; 1] /\
  apply ex_tree (OPermute [-1; 0; 1]) =
    Done (Node [3; 2; 1] (Some [Some "z"; Some "x"; None])
      [("a", Leaf [3; 2; 1]);
       ("b", Leaf [3; 2; 1; 4; 5]);
       ("n", Node [3; 2; 1; 2] (Some [Some "z"; Some "x"; None; None])
               [("x", Leaf [3; 2; 1; 2]);
                ("m", Node [3; 2; 1; 2; 1] None [("z", Leaf [3; 2; 1; 2; 1; 3])])])]).
Proof. split; [exact I|]. split; vm_compute; reflexivity. Qed.

Example C02_ex_flatten :
  in_domain (OFlatten 0 (-1)) (top_shape ex_tree) /\ torch_shape (OFlatten 0 (-1)) (top_shape ex_tree) = Ok [6].
Proof. split; [split; [discriminate|vm_compute; reflexivity]|vm_compute; reflexivity]. Qed.

Example C02_ex_unbind : t_unbind (top_shape ex_tree) (-1) = Ok [[2; 1]; [2; 1]; [2; 1]].
Proof. vm_compute. reflexivity. Qed.

Example C02_ex_split : t_split_list (top_shape ex_tree) [1; 0; 2] 2 = Ok [[2; 1; 1]; [2; 1; 0]; [2; 1; 2]]
  /\ exists ts, td_split ex_tree (inr [1; 0; 2]) 2 = Done ts /\ map top_shape ts = [[2; 1; 1]; [2; 1; 0]; [2; 1; 2]].
Proof. split; [vm_compute; reflexivity|]. eexists. split; vm_compute; reflexivity. Qed.

Example C02_ex_stack :
  ukeys ex_tree /\ cong eq ex_tree ex_tree /\ t_stack (map top_shape [ex_tree; ex_tree; ex_tree]) (-2) = Ok [2; 1; 3; 3]
  /\ exists t', td_stack [ex_tree; ex_tree; ex_tree] (-2) = Done t' /\ top_shape t' = [2; 1; 3; 3].
Proof.
  split; [exact ex_tree_ukeys|]. split; [exact ex_tree_cong|]. split; [vm_compute; reflexivity|].
  eexists. split; vm_compute; reflexivity.
Qed.

Example C02_ex_reject : reject_domain (OPermute [0; 0; 1]) (top_shape ex_tree) /\ torch_shape (OPermute [0; 0; 1]) (top_shape ex_tree) = Reject
  /\ reject_domain (OTranspose 3 0) (top_shape ex_tree) /\ torch_shape (OTranspose 3 0) (top_shape ex_tree) = Reject.
Proof. repeat split; try discriminate; vm_compute; reflexivity. Qed.

Example C02_ex_reject_with_entries :
  reject_domain_full (OView [7]) (top_shape ex_tree) /\ torch_shape (OView [7]) (top_shape ex_tree) = Reject /\
  hasleaf (leaf_ok (OView [7])) 3 ex_tree /\ apply ex_tree (OView [7]) = Raised ERuntime /\
  torch_shape (OView [-1; 4]) (top_shape ex_tree) = Reject /\ apply ex_tree (OView [-1; 4]) = Raised EAssert /\
  torch_shape (OExpand [2; -2; 3]) (top_shape ex_tree) = Reject /\ apply ex_tree (OExpand [2; -2; 3]) = Raised ERuntime /\
  torch_shape (ORepeat [1; -1; 1]) (top_shape ex_tree) = Reject /\ apply ex_tree (ORepeat [1; -1; 1]) = Raised ERuntime /\
  torch_shape (OUnflatten 2 [2; 2]) (top_shape ex_tree) = Reject /\ apply ex_tree (OUnflatten 2 [2; 2]) = Raised ERuntime /\
  t_split_list (top_shape ex_tree) [1; 1] 2 = Reject /\ td_split ex_tree (inr [1; 1]) 2 = Raised ERuntime.
Proof. split; [exact I|]. split; [vm_compute; reflexivity|]. split; [exact ex_hasleaf_view|]. repeat split; vm_compute; reflexivity. Qed.

Example C02_ex_elements :
  elem_domain (OView [3; 2]) /\ torch_shape (OView [3; 2]) (top_shape ex_tree) = Ok [3; 2] /\
  leaf_calls ex_tree (OView [3; 2]) =
    [(OView [3; 2], [2; 1; 3]); (OView [3; 2; 4; 5], [2; 1; 3; 4; 5]); (OView [3; 2; 2], [2; 1; 3; 2]);
     (OView [3; 2; 2; 1; 3], [2; 1; 3; 2; 1; 3])] /\
  inb [2; 1] [3; 2] /\ inb [3; 4] [4; 5] /\
  e_src (OView [3; 2]) [2; 1; 3] [2; 1] = Some [1; 0; 2] /\
  e_src (OView [3; 2; 4; 5]) [2; 1; 3; 4; 5] [2; 1; 3; 4] = Some [1; 0; 2; 3; 4] /\
  e_src (OExpand [2; 2; 2; 3]) [2; 1; 3] [1; 0; 1; 2] = Some [0; 0; 2] /\
  e_src (ORepeat [2; 2; 1]) [2; 1; 3] [3; 1; 2] = Some [1; 0; 2].
Proof. repeat split; try (vm_compute; reflexivity); repeat constructor; lia. Qed.

Example C02_ex_gather :
  wrap_dim (-1) 3 = Ok 2%nat /\ gather_ok (top_shape ex_tree) [2; 1; 5] 2 /\
  exists t', gather_at ex_tree (-1) [2; 1; 5] = Done t' /\ top_shape t' = [2; 1; 5].
Proof.
  split; [reflexivity|]. split.
  { split; [reflexivity|]. split; [cbn; lia|]. split; [repeat constructor; lia|]. split; [unfold nthZ; cbn; lia|].
    right. split; [reflexivity|unfold nthZ; cbn; lia]. }
  eexists. split; vm_compute; reflexivity.
Qed.

Example C02_ex_cat :
  wrap_dim (-1) (List.length (top_shape ex_tree)) = Ok 2%nat /\ cong (cat_R 2) ex_tree ex_tree
  /\ t_cat (map top_shape [ex_tree; ex_tree]) (-1) = Ok [2; 1; 6].
Proof. split; [reflexivity|]. split; [exact ex_tree_cong_cat|vm_compute; reflexivity]. Qed.
