(* C02 — shape operations act as on a tensor of the batch shape, expanded to the right.
   Property theorems only: each is closed by [exact] of a lemma proved in Proofs/C02_*.v, followed by
   Print Assumptions (parsed by the harness on every run).

   Vocabulary (Model/C02_ShapeOps.v, Proofs/C02_FrameP.v, Spec/C02_TorchShape.v):
     tree           a tensordict: Leaf shape | Node batch_size names entries   (values are not modelled here)
     apply t o      the model of tensordict's method o on t: Done t' | Raised k | Diverges | Unmodelled
     torch_shape    what torch does to the shape of a tensor for the same call (validated against torch every run)
     wf t           t is coherent: every entry's shape starts with its node's batch size, names name every batch dim
     rel bs bs' t t'  t' is t with the leading bs of EVERY shape (entries and nested batch sizes, at every depth)
                    replaced by bs', same keys in the same order, trailing feature / extra batch dims untouched *)
From Coq Require Import ZArith List Bool String.
Import ListNotations.
From TD Require Import Spec.PySlice Spec.C02_TorchShape Model.C02_ShapeOps
                       Proofs.C02_FrameP Proofs.C02_OpsP Proofs.C02_RefuteP.
Open Scope string_scope.
Open Scope Z_scope.

(* ---------------------------------------------------------------------------------------------------------------
   The property for permute, transpose, squeeze, unsqueeze, expand, view, reshape, flatten, unflatten, repeat,
   repeat_interleave(dim): as stated it is FALSE of /repo (hence of the faithful model) *)
Definition user_op (o : sop) : Prop := match o with OViewStar _ => False | _ => True end.

Definition C02_one_result_ops_full_statement : Prop :=
  forall t o bs', wf t -> user_op o -> torch_shape o (top_shape t) = Ok bs' ->
  exists t', apply t o = Done t' /\ rel (top_shape t) bs' t t' /\ wf t'.

Theorem C02_one_result_ops_refuted :
  exists t o bs', wf t /\ user_op o /\ torch_shape o (top_shape t) = Ok bs' /\
                  forall t', apply t o <> Done t'.
Proof. exact full_statement_refuted. Qed.
Print Assumptions C02_one_result_ops_refuted.

(* ... and TRUE on the complement of the recorded defects, inside tensordict's documented domain ([in_domain] lists,
   op by op, exactly what is excluded: D5/D5-view, C02-f, C02-g, C02-h, C02-m and the documented restrictions) —
   for every tree (any depth / width / feature shapes / nested batch longer than the parent's), every argument
   torch accepts (every dim incl. negative, every permutation, every legal target shape ...) *)
Theorem C02_one_result_ops_partial : forall t o bs',
  wf t -> in_domain o (top_shape t) -> torch_shape o (top_shape t) = Ok bs' ->
  exists t', apply t o = Done t' /\ rel (top_shape t) bs' t t' /\ wf t'.
Proof. exact shape_ops_act_on_batch_dims. Qed.
Print Assumptions C02_one_result_ops_partial.

(* in particular: the result's batch size is torch's shape, and the key set is preserved at every level *)
Theorem C02_batch_size_and_keys : forall t o bs',
  wf t -> in_domain o (top_shape t) -> torch_shape o (top_shape t) = Ok bs' ->
  exists t', apply t o = Done t' /\ top_shape t' = bs' /\ same_keys t t'.
Proof. exact shape_ops_batch_size. Qed.
Print Assumptions C02_batch_size_and_keys.

(* ---------------------------------------------------------------------------------------------------------------
   The recorded defects are facts about the model (witness = the repro of findings.d/C02.json) *)
Theorem C02_D4_split_list_refuted :
  t_split_list [3] [5] 0 = Reject /\
  td_split (td1 [3] [2]) (inr [5]) 0 = Done [Node [5] None [("a", Leaf [3; 2])]] /\
  cohb (Node [5] None [("a", Leaf [3; 2])]) = false.
Proof. exact D4_split_list_accepts_illegal. Qed.
Print Assumptions C02_D4_split_list_refuted.

Theorem C02_D4_split_terminates_refuted :
  t_split_int [2] 0 0 = Reject /\ td_split (td1 [2] []) (inl 0) 0 = Diverges /\
  t_split_int [2] (-1) 0 = Reject /\ td_split (td1 [2] []) (inl (-1)) 0 = Diverges.
Proof. exact D4_split_zero_diverges. Qed.
Print Assumptions C02_D4_split_terminates_refuted.

Theorem C02_D5_squeeze_refuted :
  t_squeeze_all [1; 1] = Ok [] /\
  apply (named [1; 1] [Some "x"; Some "y"] [2]) (OSqueeze None) = Raised EValue.
Proof. exact D5_squeeze_all_named_raises. Qed.
Print Assumptions C02_D5_squeeze_refuted.

Theorem C02_D22_stack_reject_refuted :
  t_stack [[3]; [3]] 2 = Reject /\
  td_stack [td1 [3] [4]; td1 [3] [4]] 2 = Done (Node [3; 2] None [("a", Leaf [3; 4; 2])]) /\
  cohb (Node [3; 2] None [("a", Leaf [3; 4; 2])]) = false.
Proof. exact D22_stack_dim_past_rank. Qed.
Print Assumptions C02_D22_stack_reject_refuted.

Theorem C02_S5_flatten_reject_refuted :
  t_flatten [2] 0 1 = Reject /\
  apply (td1 [2] [3; 4]) (OFlatten 0 1) = Done (Node [2] None [("a", Leaf [6; 4])]) /\
  cohb (Node [2] None [("a", Leaf [6; 4])]) = false.
Proof. exact S5_flatten_past_batch_dims. Qed.
Print Assumptions C02_S5_flatten_reject_refuted.

(* ---------------------------------------------------------------------------------------------------------------
   Non-vacuity: a three-level tree with a nested batch longer than the parent's, a size-0-free and a size-1 dim,
   satisfies the hypotheses; the theorem's conclusion is computed for it *)
Definition ex_tree : tree := ex_tree_P.
Definition ex_tree_unfolded : tree :=
  Node [2; 1; 3] (Some [Some "x"; None; Some "z"])
    [("a", Leaf [2; 1; 3]);
     ("b", Leaf [2; 1; 3; 4; 5]);
     ("n", Node [2; 1; 3; 2] (Some [Some "x"; None; Some "z"; None])
             [("x", Leaf [2; 1; 3; 2]);
              ("m", Node [2; 1; 3; 2; 1] None [("z", Leaf [2; 1; 3; 2; 1; 3])])])].

Example C02_ex_wf : wf ex_tree.
Proof. exact ex_tree_wf. Qed.

Example C02_ex_permute :
  in_domain (OPermute [-1; 0; 1]) (top_shape ex_tree) /\
  torch_shape (OPermute [-1; 0; 1]) (top_shape ex_tree) = Ok [3; 2; 1] /\
  apply ex_tree (OPermute [-1; 0; 1]) =
    Done (Node [3; 2; 1] (Some [Some "z"; Some "x"; None])
      [("a", Leaf [3; 2; 1]);
       ("b", Leaf [3; 2; 1; 4; 5]);
       ("n", Node [3; 2; 1; 2] (Some [Some "z"; Some "x"; None; None])
               [("x", Leaf [3; 2; 1; 2]);
                ("m", Node [3; 2; 1; 2; 1] None [("z", Leaf [3; 2; 1; 2; 1; 3])])])]).
Proof. split; [exact I|]. split; vm_compute; reflexivity. Qed.

Example C02_ex_flatten :
  in_domain (OFlatten 0 (-1)) (top_shape ex_tree) /\ torch_shape (OFlatten 0 (-1)) (top_shape ex_tree) = Ok [6].
Proof. split; [split; [discriminate|vm_compute; reflexivity]|vm_compute; reflexivity]. Qed.
