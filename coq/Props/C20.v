(* C20 — placeholder while the proofs are being written *)
From Coq Require Import ZArith List String Bool.
From TD Require Import Model.C20_Apply Model.C20_Sched.
Theorem C20_placeholder : True.
Proof. exact I. Qed.
Print Assumptions C20_placeholder.
