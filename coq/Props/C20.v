(* C20 — apply / named_apply honour their contract for every option combination.  Property theorems only.
   Model: Model/C20_Apply.v (_apply_nest, front-ends, _validate_value / _set_str on the way in, NonTensorData, lazy
   stacks), Model/C20_Sched.v (_multithread_apply_flat / _multithread_rebuild).  Reference: Model/C20_Spec.v.
   The user function fn, its result type A and the is_leaf predicate are universally quantified everywhere. *)
From Coq Require Import ZArith List String Bool Permutation.
Import ListNotations.
From TD Require Import Model.C20_Apply Model.C20_Sched Model.C20_Spec
     Proofs.C20_SpecP Proofs.C20_FrameP Proofs.C20_SchedP Proofs.C20_WitnessP.
Open Scope string_scope.

(* ------------------------------------------------------------------ apply_spec *)
(* for every dict-shaped self (no key twice at any level), all other operands (permuted / missing / extra keys, nested
   empties, non-tensor entries), every out=, every point of the option lattice and every function: if the call
   returns, it returns what the reference says (None included).
   (C20-b — the stand-in of a missing nested operand was taken from the parent level — is repaired in /repo: the
   former hypothesis "no nested tensordict reuses a key of its parent level" is gone.) *)
Theorem C20_apply_spec :
  forall A (o : opts) fn con propagate so sm sf (others : list (tree A)) out names r,
    wf_keys A sf = true ->
    front A o fn con propagate (Node so sm sf) others out names = Ok r ->
    ref_apply A o fn con (Node so sm sf) others out = ROk (option_map (erase_t A) r).
Proof. exact apply_spec. Qed.
Print Assumptions C20_apply_spec.

(* ------------------------------------------------------------------ apply_mutates_only *)
(* not in place: every object of the caller that occurs in the result is an object of out= (none without out=), and
   with out= the object returned is out *)
Theorem C20_apply_mutates_only_out :
  forall A (o : opts) fn con propagate so sm sf (others : list (tree A)) out names r,
    o_inplace o = false ->
    front A o fn con propagate (Node so sm sf) others out names = Ok (Some r) ->
    incl (olds_t A r) (match out with Some X => olds_t A X | None => [] end)
    /\ (forall oo om og, out = Some (Node oo om og) -> exists m f, r = Node oo m f).
Proof. exact result_objects. Qed.
Print Assumptions C20_apply_mutates_only_out.

(* in place: self is returned with the same objects, the same keys in the same order and the same leaf storages *)
Theorem C20_apply_mutates_only_inplace :
  forall A (o : opts) fn con propagate so sm sf (others : list (tree A)) out names r,
    o_inplace o = true -> wf_keys A sf = true ->
    front A o fn con propagate (Node so sm sf) others out names = Ok (Some r) ->
    shape_t A r = shape_t A (Node so sm sf).
Proof. exact inplace_shape. Qed.
Print Assumptions C20_apply_mutates_only_inplace.

(* result creation: batch size / device as requested else self's, names erased when the batch size is overridden,
   locked iff propagate_lock and self is locked *)
Theorem C20_new_result_metadata :
  forall A (o : opts) fn con propagate so sm sf (others : list (tree A)) names ob m f,
    o_inplace o = false ->
    front A o fn con propagate (Node so sm sf) others None names = Ok (Some (Node ob m f)) ->
    m_bs m = match o_bs o with Some b => b | None => m_bs sm end
    /\ m_dev m = match o_dev o with Some d => d | None => m_dev sm end
    /\ m_lock m = (propagate && m_lock sm)
    /\ (o_checked o = true ->
          m_names m = match names with Some n => n | None => match o_bs o with Some _ => None | None => m_names sm end end).
Proof. exact new_result_meta. Qed.
Print Assumptions C20_new_result_metadata.

(* ------------------------------------------------------------------ mt_equals_st *)
(* every permutation of the completion order gives the same answer *)
Theorem C20_mt_order_free :
  forall A (o : opts) fn con propagate (self : tree A) others out names pi1 pi2,
    Permutation pi1 pi2 ->
    mt_front A o fn con propagate self others out names pi1 = mt_front A o fn con propagate self others out names pi2.
Proof. exact mt_order_free. Qed.
Print Assumptions C20_mt_order_free.

(* the statement at full strength: whenever the operand lookups of the flat phase succeed, the two forms agree —
   on the result AND on the exception class — for every option point, every out=, every completion order *)
Definition C20_mt_equals_st_full_statement : Prop :=
  forall A (o : opts) fn con propagate so sm sf (others : list (tree A)) out names pi tasks lfs,
    flat_items A o (o_default o) con [] sm sf others sf 0%nat = Ok (tasks, lfs) ->
    (forall id, (id < List.length tasks)%nat -> In id pi) ->
    mt_front A o fn con propagate (Node so sm sf) others out names pi
    = st_front A o fn con propagate (Node so sm sf) others out names.

(* proved for every point of the lattice — out=, default=, filter_empty None / True / False, names=, batch size and device
   overrides, checked, call_on_nested, named, every is_leaf — when self holds no non-tensor entry or the call is neither
   in place nor given out=.  What is missing: an untouched non-tensor entry is re-created by the two forms from different
   sources (a copy of self's entry / the tensorclass wrapper around out[key] or around the entry itself), so its METADATA
   can differ when nothing is validated on the way in (checked) — see the witness below; its data agree since C20-f. *)
Theorem C20_mt_equals_st_partial :
  forall A (o : opts) fn con propagate so sm sf (others : list (tree A)) out names pi,
    (o_inplace o = true -> nont_free A sf = true) ->
    (out <> None -> nont_free A sf = true) ->
    (forall tasks lfs, flat_items A o (o_default o) con [] sm sf others sf 0%nat = Ok (tasks, lfs) ->
                       forall id, (id < List.length tasks)%nat -> In id pi) ->
    match flat_items A o (o_default o) con [] sm sf others sf 0%nat with
    | Ok _ => mt_front A o fn con propagate (Node so sm sf) others out names pi
              = st_front A o fn con propagate (Node so sm sf) others out names
    | _ => forall r, st_front A o fn con propagate (Node so sm sf) others out names <> MOk r
                     /\ mt_front A o fn con propagate (Node so sm sf) others out names pi <> MOk r
    end.
Proof. exact mt_equals_st. Qed.
Print Assumptions C20_mt_equals_st_partial.

(* the full statement is false of the model (and of /repo, finding C20-g): the metadata of a non-tensor entry re-created
   under out= (here with checked, where nothing evens it out) *)
Theorem C20_mt_equals_st_refuted :
  exists (o : opts) fn self out pi m f m' f',
    o_checked o = true
    /\ st_front Z o fn false false self [] (Some out) None = MOk (Some (Node (Old 30%Z) m f))
    /\ fget Z f "t" = Some (NonT New 5%Z m0)
    /\ mt_front Z o fn false false self [] (Some out) None pi = MOk (Some (Node (Old 30%Z) m' f'))
    /\ fget Z f' "t" = Some (NonT New 5%Z (mkMeta [3%nat] (Some CPU) None false)).
Proof.
  destruct mt_nontensor_out_witness as (m & f & m' & f' & H1 & H2 & H3 & H4).
  exists (with_checked base_opts), (fn_of []), self_f, out_g, [0%nat], m, f, m', f'. repeat split; assumption.
Qed.
Print Assumptions C20_mt_equals_st_refuted.

(* ------------------------------------------------------------------ non-vacuity *)
(* a three-level self with a non-tensor entry, a nested empty node, an operand with permuted / extra / missing keys, default=,
   filter_empty=None and a None result: inside the domain of C20_apply_spec, and the call returns *)
Example C20_ex_apply_spec :
  let o := with_default (with_fe base_opts None) in
  wf_keys Z self_ex_forest = true
  /\ exists x, front Z o (fn_of [3%Z]) false false self_ex [other_ex] None None = Ok (Some x)
               /\ List.length (fkeys Z (match x with Node _ _ f => f | _ => FNil end)) = 2%nat.
Proof. exact example_apply_spec. Qed.
Example C20_ex_inplace :
  let o := with_inplace base_opts in
  exists x, front Z o (fn_of [3%Z]) false false self_ex [] None None = Ok (Some x) /\ x <> self_ex.
Proof. exact example_inplace. Qed.
Example C20_ex_out :
  let o := base_opts in
  exists x, front Z o (fn_of []) false false nested2 [] (Some out2) None = Ok (Some x) /\ olds_t Z x = [30%Z; 32%Z].
Proof. exact example_out. Qed.
Example C20_ex_mt :
  let o := with_checked base_opts in
  flat_items Z o (o_default o) false [] m0 (match nested2 with Node _ _ f => f | _ => FNil end) [] (match nested2 with Node _ _ f => f | _ => FNil end) 0%nat
  = Ok ([mkTask Z None (lf 1) []; mkTask Z None (lf 2) []], [LFut 0%nat; LList [LFut 1%nat]])
  /\ exists x, mt_front Z o (fn_of []) false false nested2 [] (Some out2) (Some (Some [Some "t"])) [1%nat; 0%nat] = MOk (Some x).
Proof. exact example_mt. Qed.
(* the five former defects of the thread-pool form (S16, S15, C12-b, C12-c, C20-d): the forms agree on their witnesses now *)
Example C20_ex_mt_former_defects :
  (let o := with_checked base_opts in
   mt_front Z o (fn_of []) false false nested2 [] (Some out2) None [1%nat; 0%nat] = st_front Z o (fn_of []) false false nested2 [] (Some out2) None)
  /\ (let o := with_default (with_checked base_opts) in
      mt_front Z o (fn_of []) false false nested2 [other_s15] None None [1%nat; 0%nat] = st_front Z o (fn_of []) false false nested2 [other_s15] None None)
  /\ (let o := with_fe (with_checked base_opts) None in
      mt_front Z o (fn_of [2%Z]) false false nested2 [] None None [0%nat; 1%nat] = st_front Z o (fn_of [2%Z]) false false nested2 [] None None)
  /\ (let o := with_checked base_opts in
      mt_front Z o (fn_of []) false false nested2 [] None (Some (Some [Some "t"])) [0%nat; 1%nat]
      = st_front Z o (fn_of []) false false nested2 [] None (Some (Some [Some "t"])))
  /\ (let o := with_dev (with_checked base_opts) (Some META) in
      mt_front Z o (fn_of []) false false self_a [] (Some out_dev) None [0%nat] = st_front Z o (fn_of []) false false self_a [] (Some out_dev) None).
Proof. exact mt_former_defects_agree. Qed.

(* the former defects of the front-ends (C20-b, C20-c, C20-f; C20-a is the forwarding of out= by named_apply, which the
   harness exercises): the model of the repaired code on their witnesses *)
Example C20_ex_former_front_defects :
  (let o := with_default base_opts in
   exists r, front Z o (fn_of []) false false self_b [other_b] None None = Ok r
             /\ ref_apply Z o (fn_of []) false self_b [other_b] None = ROk (option_map (erase_t Z) r)
             /\ option_map (erase_t Z) r
                = Some (SNode Z (SCons Z "n" (SNode Z (SCons Z "n" (SLeaf Z (SNew Z 102%Z)) (SNil Z))) (SNil Z))))
  /\ (let o := with_inplace base_opts in
      exists x, front Z o (fn_of []) false false self_c [] None None = Ok (Some x) /\ shape_t Z x = shape_t Z self_c)
  /\ (let o := base_opts in
      exists m f, front Z o (fn_of []) false false self_f [] (Some out_f) None = Ok (Some (Node (Old 30%Z) m f))
                  /\ fget Z f "t" = Some (NonT New 5%Z m0)).
Proof. exact former_front_defects. Qed.
