(* C20 — apply / named_apply honour their contract for every option combination.  Property theorems only.
   Model: Model/C20_Apply.v (_apply_nest, front-ends, _validate_value / _set_str on the way in, NonTensorData, lazy
   stacks), Model/C20_Sched.v (_multithread_apply_flat / _multithread_rebuild).  Reference: Model/C20_Spec.v.
   The user function fn, its result type A and the is_leaf predicate are universally quantified everywhere. *)
From Coq Require Import ZArith List String Bool Permutation.
Import ListNotations.
From TD Require Import Model.C20_Apply Model.C20_Sched Model.C20_Spec Model.C20_Lazy
     Proofs.C20_SpecP Proofs.C20_FrameP Proofs.C20_SchedP Proofs.C20_WitnessP
     Proofs.C20_LazyP Proofs.C20_LazyMtP Proofs.C20_RaiseP Proofs.C20_LazyWitnessP.
From TD Require Import Model.C20_WriteBack Proofs.C20_WriteBackP.
Open Scope string_scope.

(* ------------------------------------------------------------------ apply_spec *)
(* for every dict-shaped self (no key twice at any level), all other operands (permuted / missing / extra keys, nested
   empties, non-tensor entries), every out=, every point of the option lattice and every function: if the call
   returns, it returns what the reference says (None included).
   (C20-b — the stand-in of a missing nested operand was taken from the parent level — is repaired in /repo: the
   former hypothesis "no nested tensordict reuses a key of its parent level" is gone.) *)
Theorem C20_apply_spec :
  forall A (o : opts) fn con propagate so sm sf (others : list (tree A)) out names r,
    wf_keys A sf = true ->
    front A o fn con propagate (Node so sm sf) others out names = Ok r ->
    ref_apply A o fn con (Node so sm sf) others out = ROk (option_map (erase_t A) r).
Proof. exact apply_spec. Qed.
Print Assumptions C20_apply_spec.

(* ------------------------------------------------------------------ apply_mutates_only *)
(* not in place: every object of the caller that occurs in the result is an object of out= (none without out=), and
   with out= the object returned is out *)
Theorem C20_apply_mutates_only_out :
  forall A (o : opts) fn con propagate so sm sf (others : list (tree A)) out names r,
    o_inplace o = false ->
    front A o fn con propagate (Node so sm sf) others out names = Ok (Some r) ->
    incl (olds_t A r) (match out with Some X => olds_t A X | None => [] end)
    /\ (forall oo om og, out = Some (Node oo om og) -> exists m f, r = Node oo m f).
Proof. exact result_objects. Qed.
Print Assumptions C20_apply_mutates_only_out.

(* in place: self is returned with the same objects, the same keys in the same order and the same leaf storages *)
Theorem C20_apply_mutates_only_inplace :
  forall A (o : opts) fn con propagate so sm sf (others : list (tree A)) out names r,
    o_inplace o = true -> wf_keys A sf = true ->
    front A o fn con propagate (Node so sm sf) others out names = Ok (Some r) ->
    shape_t A r = shape_t A (Node so sm sf).
Proof. exact inplace_shape. Qed.
Print Assumptions C20_apply_mutates_only_inplace.

(* result creation: batch size / device as requested else self's, names erased when the batch size is overridden,
   locked iff propagate_lock and self is locked *)
Theorem C20_new_result_metadata :
  forall A (o : opts) fn con propagate so sm sf (others : list (tree A)) names ob m f,
    o_inplace o = false ->
    front A o fn con propagate (Node so sm sf) others None names = Ok (Some (Node ob m f)) ->
    m_bs m = match o_bs o with Some b => b | None => m_bs sm end
    /\ m_dev m = match o_dev o with Some d => d | None => m_dev sm end
    /\ m_lock m = (propagate && m_lock sm)
    /\ (o_checked o = true ->
          m_names m = match names with Some n => n | None => match o_bs o with Some _ => None | None => m_names sm end end).
Proof. exact new_result_meta. Qed.
Print Assumptions C20_new_result_metadata.

(* ------------------------------------------------------------------ mt_equals_st *)
(* every permutation of the completion order gives the same answer *)
Theorem C20_mt_order_free :
  forall A (o : opts) fn con propagate (self : tree A) others out names pi1 pi2,
    Permutation pi1 pi2 ->
    mt_front A o fn con propagate self others out names pi1 = mt_front A o fn con propagate self others out names pi2.
Proof. exact mt_order_free. Qed.
Print Assumptions C20_mt_order_free.

(* mt_equals_st, at full strength (since the repair of C20-g no side hypothesis about non-tensor entries): whenever the
   operand lookups of the flat phase succeed and every task completes, the two forms agree — on the result AND on the
   exception class — for every option point (out=, default=, filter_empty None / True / False, names=, batch size and
   device overrides, checked, call_on_nested, named, every is_leaf, in place or not), every out=, every completion order;
   when a lookup fails neither form returns *)
Theorem C20_mt_equals_st :
  forall A (o : opts) fn con propagate so sm sf (others : list (tree A)) out names pi,
    (forall tasks lfs, flat_items A o (o_default o) con [] sm sf others sf 0%nat = Ok (tasks, lfs) ->
                       forall id, (id < List.length tasks)%nat -> In id pi) ->
    match flat_items A o (o_default o) con [] sm sf others sf 0%nat with
    | Ok _ => mt_front A o fn con propagate (Node so sm sf) others out names pi
              = st_front A o fn con propagate (Node so sm sf) others out names
    | _ => forall r, st_front A o fn con propagate (Node so sm sf) others out names <> MOk r
                     /\ mt_front A o fn con propagate (Node so sm sf) others out names pi <> MOk r
    end.
Proof. exact mt_equals_st. Qed.
Print Assumptions C20_mt_equals_st.

(* ------------------------------------------------------------------ non-vacuity *)
(* a three-level self with a non-tensor entry, a nested empty node, an operand with permuted / extra / missing keys, default=,
   filter_empty=None and a None result: inside the domain of C20_apply_spec, and the call returns *)
Example C20_ex_apply_spec :
  let o := with_default (with_fe base_opts None) in
  wf_keys Z self_ex_forest = true
  /\ exists x, front Z o (fn_of [3%Z]) false false self_ex [other_ex] None None = Ok (Some x)
               /\ List.length (fkeys Z (match x with Node _ _ f => f | _ => FNil end)) = 2%nat.
Proof. exact example_apply_spec. Qed.
Example C20_ex_inplace :
  let o := with_inplace base_opts in
  exists x, front Z o (fn_of [3%Z]) false false self_ex [] None None = Ok (Some x) /\ x <> self_ex.
Proof. exact example_inplace. Qed.
Example C20_ex_out :
  let o := base_opts in
  exists x, front Z o (fn_of []) false false nested2 [] (Some out2) None = Ok (Some x) /\ olds_t Z x = [30%Z; 32%Z].
Proof. exact example_out. Qed.
Example C20_ex_mt :
  let o := with_checked base_opts in
  flat_items Z o (o_default o) false [] m0 (match nested2 with Node _ _ f => f | _ => FNil end) [] (match nested2 with Node _ _ f => f | _ => FNil end) 0%nat
  = Ok ([mkTask Z None (lf 1) []; mkTask Z None (lf 2) []], [LFut 0%nat; LList [LFut 1%nat]])
  /\ exists x, mt_front Z o (fn_of []) false false nested2 [] (Some out2) (Some (Some [Some "t"])) [1%nat; 0%nat] = MOk (Some x).
Proof. exact example_mt. Qed.
(* the five former defects of the thread-pool form (S16, S15, C12-b, C12-c, C20-d): the forms agree on their witnesses now *)
Example C20_ex_mt_former_defects :
  (let o := with_checked base_opts in
   mt_front Z o (fn_of []) false false nested2 [] (Some out2) None [1%nat; 0%nat] = st_front Z o (fn_of []) false false nested2 [] (Some out2) None)
  /\ (let o := with_default (with_checked base_opts) in
      mt_front Z o (fn_of []) false false nested2 [other_s15] None None [1%nat; 0%nat] = st_front Z o (fn_of []) false false nested2 [other_s15] None None)
  /\ (let o := with_fe (with_checked base_opts) None in
      mt_front Z o (fn_of [2%Z]) false false nested2 [] None None [0%nat; 1%nat] = st_front Z o (fn_of [2%Z]) false false nested2 [] None None)
  /\ (let o := with_checked base_opts in
      mt_front Z o (fn_of []) false false nested2 [] None (Some (Some [Some "t"])) [0%nat; 1%nat]
      = st_front Z o (fn_of []) false false nested2 [] None (Some (Some [Some "t"])))
  /\ (let o := with_dev (with_checked base_opts) (Some META) in
      mt_front Z o (fn_of []) false false self_a [] (Some out_dev) None [0%nat] = st_front Z o (fn_of []) false false self_a [] (Some out_dev) None).
Proof. exact mt_former_defects_agree. Qed.

(* the former witness of C20-g (a non-tensor entry that out= already holds, checked): both forms give the new entry the
   metadata of self's entry *)
Example C20_ex_mt_former_C20g :
  let o := with_checked base_opts in
  exists m f,
    st_front Z o (fn_of []) false false self_f [] (Some out_g) None = MOk (Some (Node (Old 30%Z) m f))
    /\ fget Z f "t" = Some (NonT New 5%Z m0)
    /\ mt_front Z o (fn_of []) false false self_f [] (Some out_g) None [0%nat] = MOk (Some (Node (Old 30%Z) m f)).
Proof. exact mt_nontensor_out_agree. Qed.

(* the former defects of the front-ends (C20-b, C20-c, C20-f; C20-a is the forwarding of out= by named_apply, which the
   harness exercises): the model of the repaired code on their witnesses *)
Example C20_ex_former_front_defects :
  (let o := with_default base_opts in
   exists r, front Z o (fn_of []) false false self_b [other_b] None None = Ok r
             /\ ref_apply Z o (fn_of []) false self_b [other_b] None = ROk (option_map (erase_t Z) r)
             /\ option_map (erase_t Z) r
                = Some (SNode Z (SCons Z "n" (SNode Z (SCons Z "n" (SLeaf Z (SNew Z 102%Z)) (SNil Z))) (SNil Z))))
  /\ (let o := with_inplace base_opts in
      exists x, front Z o (fn_of []) false false self_c [] None None = Ok (Some x) /\ shape_t Z x = shape_t Z self_c)
  /\ (let o := base_opts in
      exists m f, front Z o (fn_of []) false false self_f [] (Some out_f) None = Ok (Some (Node (Old 30%Z) m f))
                  /\ fget Z f "t" = Some (NonT New 5%Z m0)).
Proof. exact former_front_defects. Qed.

(* ================================================================== lazy stacks (Model/C20_Lazy.v) *)
(* lazy_apply_spec: for every stack dim, member count, other operands in any representation (a lazy stack along the same
   or along another dim, a dense tensordict: [wf_operand] only says that the members of a lazy operand are its slices
   along ITS stack dim), out= a lazy stack (plain or inside a tensorclass), names=, every option point that the lazy code
   accepts and every function: the stack that is returned has self's stack dim and member count, and member i of it is,
   as a plain nested dict, what the reference gives for (member i of self, the i-th slices of the other operands along
   self's stack dim, member i of out) — in place, a member for which the reference gives None is left as it is. *)
Theorem C20_lazy_apply_spec :
  forall A (o : opts) fn con (self : lstack A) others out names ob sd nm ms,
    Forall (wf_operand A (l_sd A self)) others ->
    lz_apply_nest A o fn con self others out names = Ok (LRStack A ob sd nm ms) ->
    sd = l_sd A self /\ ob = (if o_inplace o then l_obj A self else New)
    /\ List.length ms = List.length (l_members A self)
    /\ forall i so sm sf t,
         nth_error (l_members A self) i = Some (Node so sm sf) -> wf_keys A sf = true -> nth_error ms i = Some t ->
         let oth := map (fun op => op_slice A op (l_sd A self) i) others in
         let out_i := out_at A (out_members A out) i in
         ref_apply A (mo o) fn con (Node so sm sf) oth out_i = ROk (Some (erase_t A t))
         \/ (o_inplace o = true /\ ref_apply A (mo o) fn con (Node so sm sf) oth out_i = ROk None
             /\ erase_t A t = erase_t A (Node so sm sf)).
Proof. exact lazy_apply_spec. Qed.
Print Assumptions C20_lazy_apply_spec.

(* None is returned only when the reference drops every member *)
Theorem C20_lazy_apply_none :
  forall A (o : opts) fn con (self : lstack A) others out names,
    Forall (wf_operand A (l_sd A self)) others ->
    lz_apply_nest A o fn con self others out names = Ok (LRNone A) ->
    forall i so sm sf, nth_error (l_members A self) i = Some (Node so sm sf) -> wf_keys A sf = true ->
      ref_apply A (mo o) fn con (Node so sm sf) (map (fun op => op_slice A op (l_sd A self) i) others)
                (out_at A (out_members A out) i) = ROk None.
Proof. exact lazy_apply_none. Qed.
Print Assumptions C20_lazy_apply_none.

(* the refusals of the lazy code, stated explicitly: in place with a truthy batch_size / device / names -> ValueError;
   an out= that is not a lazy stack -> ValueError; a call that returns went through neither; batch_size= without out= is
   handed to TensorDict._apply_nest on the stacked view (a dense result of that batch size: [LRView], not modelled
   further) and nothing else is; not in place, a mix of dropped and kept members -> RuntimeError *)
Theorem C20_lazy_refusals :
  forall A (o : opts) fn con (self : lstack A) others out names,
    l_members A self <> [] ->
    (refuse_inplace o names = true -> lz_apply_nest A o fn con self others out names = Raised EValue)
    /\ (refuse_inplace o names = false -> out = Some (OutOther A) ->
          lz_apply_nest A o fn con self others out names = Raised EValue)
    /\ (forall r, lz_apply_nest A o fn con self others out names = Ok r ->
          refuse_inplace o names = false /\ out <> Some (OutOther A)
          /\ ((exists m, r = LRView A m) <-> (out = None /\ o_bs o <> None))
          /\ (forall m, r = LRView A m -> Some (m_bs m) = o_bs o))
    /\ (o_inplace o = false -> forall oth rs,
          refuse_inplace o names = false -> out <> Some (OutOther A) -> (out <> None \/ o_bs o = None) ->
          unbind_all A (l_sd A self) others = Ok oth ->
          lazy_members A (mo o) fn con [] (l_members A self) oth (out_members A out) = Ok rs ->
          existsb is_none (map snd rs) = true -> forallb is_none (map snd rs) = false ->
          lz_apply_nest A o fn con self others out names = Raised ERuntime).
Proof. exact lazy_refusals. Qed.
Print Assumptions C20_lazy_refusals.

(* LazyStackedTensorDict.apply_: self is returned; member i keeps its objects, keys and leaf storages and holds what the
   reference gives for an in-place call on (member i, the i-th slices of the other operands) *)
Theorem C20_lazy_apply__spec :
  forall A (o : opts) fn con names (self : lstack A) others ob sd nm ms,
    Forall (wf_operand A (l_sd A self)) others ->
    lz_apply_ A o fn con names self others = Ok (LRStack A ob sd nm ms) ->
    ob = l_obj A self /\ sd = l_sd A self /\ nm = l_name A self /\ List.length ms = List.length (l_members A self)
    /\ forall i so sm sf t,
         nth_error (l_members A self) i = Some (Node so sm sf) -> wf_keys A sf = true -> nth_error ms i = Some t ->
         let oth := map (fun op => op_slice A op (l_sd A self) i) others in
         shape_t A t = shape_t A (Node so sm sf)
         /\ (ref_apply A (ao o) fn con (Node so sm sf) oth None = ROk (Some (erase_t A t))
             \/ (ref_apply A (ao o) fn con (Node so sm sf) oth None = ROk None /\ t = Node so sm sf)).
Proof. exact lazy_apply__spec. Qed.
Print Assumptions C20_lazy_apply__spec.

(* ------------------------------------------------------------------ lazy stacks in a thread pool *)
(* lazy_mt_equals_st, at full strength (since the repairs of C20-g and C20-h no side hypothesis): without batch_size=,
   whenever the flat phase succeeds and every task completes, the thread-pool form of a lazy stack agrees with the
   single-threaded one ([agree]: same result, same exception class — except that failing to re-stack a mix of None and
   results is a RuntimeError there and the constructor's own AttributeError / TypeError here), for every out= (a lazy
   stack, a lazily stacked tensorclass, anything else), names=, device=, in place or not, every completion order *)
Theorem C20_lazy_mt_equals_st :
  forall A (o : opts) fn con propagate (self : lstack A) others out names pi oth tasks lfss,
    o_bs o = None ->
    unbind_all A (l_sd A self) others = Ok oth ->
    lz_flat A o con (l_members A self) oth 0%nat = Ok (tasks, lfss) ->
    (forall id, (id < List.length tasks)%nat -> In id pi) ->
    agree (lz_front A o fn con propagate self others out names) (lz_mt_front A o fn con propagate self others out names pi).
Proof. exact lazy_mt_equals_st. Qed.
Print Assumptions C20_lazy_mt_equals_st.

(* batch_size= is refused by the thread-pool form of a lazy stack *)
Theorem C20_lazy_mt_refuses_batch_size :
  forall A (o : opts) fn con propagate (self : lstack A) others out names pi b,
    l_members A self <> [] -> o_bs o = Some b ->
    lz_mt_front A o fn con propagate self others out names pi = MRaised ERuntime.
Proof. exact lazy_mt_refuses_batch_size. Qed.
Print Assumptions C20_lazy_mt_refuses_batch_size.

(* ------------------------------------------------------------------ non-vacuity (lazy stacks) *)
(* a two-member stack, an operand stacked lazily along ANOTHER dim and one stacked along the same dim: inside the domain of
   C20_lazy_apply_spec; member 0 is computed from the operand's slice 0 along self's stack dim (tensor 201), not from the
   operand's own member 0 (tensor 901) *)
Example C20_ex_lazy_spec :
  Forall (wf_operand Z 0%nat) [op_x; op_y]
  /\ exists r0 r1 f0,
       lz_apply_nest Z base_opts (fn_of []) false self_l [op_x; op_y] None None = Ok (LRStack Z New 0%nat (Some "s") [r0; r1])
       /\ r0 = Node New m0 f0
       /\ fget Z f0 "a" = Some (Leaf New (VNew (1 + 11 + (10 + 201) + (10 + 401))%Z)).
Proof. split; [exact ops_wf|exact example_lazy_spec]. Qed.
Example C20_ex_lazy_out_names :
  exists r0 r1 m f0,
    lz_apply_nest Z base_opts (fn_of []) false self_l [op_y] (Some out_l) (Some (Some [Some "p"; Some "q"]))
    = Ok (LRStack Z New 0%nat (Some "p") [r0; r1])
    /\ r0 = Node (Old 600%Z) m f0 /\ m_names m = Some [Some "q"].
Proof. exact example_lazy_out_names. Qed.
Example C20_ex_lazy_none :
  lz_apply_nest Z (with_fe base_opts None) (fn_of [11; 13; 111; 113]%Z) false self_l [] None None = Ok (LRNone Z).
Proof. exact example_lazy_none. Qed.
Example C20_ex_lazy_refusals :
  l_members Z self_l <> []
  /\ refuse_inplace (with_dev (with_inplace base_opts) (Some CPU)) None = true
  /\ lz_apply_nest Z (with_dev (with_inplace base_opts) (Some CPU)) (fn_of []) false self_l [] None None = Raised EValue
  /\ lz_apply_nest Z base_opts (fn_of []) false self_l [] (Some (OutOther Z)) None = Raised EValue
  /\ lz_apply_nest Z (mkOpts false false (Some false) false false (Some [6%nat]) None false is_leaf_default) (fn_of []) false self_l [] None None
     = Ok (LRView Z (mkMeta [6%nat] None None false))
  /\ (exists oth rs,
        unbind_all Z 0%nat [] = Ok oth
        /\ lazy_members Z (mo (with_fe base_opts (Some true))) (fn_of [11; 13]%Z) false [] (l_members Z self_l) oth None = Ok rs
        /\ existsb is_none (map snd rs) = true /\ forallb is_none (map snd rs) = false)
  /\ lz_apply_nest Z (with_fe base_opts (Some true)) (fn_of [11; 13]%Z) false self_l [] None None = Raised ERuntime
  /\ lz_apply_nest Z base_opts (fn_of []) false self_l [] (Some (OutLazy Z false [tdz 600])) None = Raised EIndex.
Proof. exact example_lazy_refusals. Qed.
Example C20_ex_lazy_mt :
  exists oth tasks lfss,
    unbind_all Z 0%nat [op_x; op_y] = Ok oth
    /\ lz_flat Z base_opts false (l_members Z self_l) oth 0%nat = Ok (tasks, lfss)
    /\ List.length tasks = 4%nat
    /\ exists r, lz_mt_front Z base_opts (fn_of []) false false self_l [op_x; op_y] (Some out_l) None [3; 1; 0; 2]%nat = MOk r
                 /\ lz_front Z base_opts (fn_of []) false false self_l [op_x; op_y] (Some out_l) None = Ok r.
Proof. exact example_lazy_mt. Qed.
(* the former witness of C20-h: out= a lazily stacked tensorclass *)
Example C20_ex_lazy_mt_former_C20h :
  exists r, lz_front Z base_opts (fn_of []) false false self_l [] (Some out_tc) None = Ok r
            /\ lz_mt_front Z base_opts (fn_of []) false false self_l [] (Some out_tc) None [0; 1; 2; 3]%nat = MOk r.
Proof. exact lazy_mt_tc_out_agree. Qed.
Example C20_ex_lazy_apply_ :
  exists r0 r1,
    lz_apply_ Z base_opts (fn_of [113%Z]) false None self_l [op_x] = Ok (LRStack Z (Old 7%Z) 0%nat (Some "s") [r0; r1])
    /\ shape_t Z r0 = shape_t Z (tdz 10) /\ r0 <> tdz 10.
Proof. exact example_lazy_apply_. Qed.

(* ================================================================== exception classes *)
(* raises_iff at the root: [refusal] is the precondition on (options, out=) read off the documented contract — not in place,
   out= must be an unlocked tensordict (RuntimeError) of the requested batch size (RuntimeError) and device (RuntimeError;
   _fast_apply(checked=True) rewrites out's device instead, and fails with TypeError for device=None); out= a tensor has no
   _get_str (AttributeError).  A refused pair raises exactly that class whatever the operands hold; a call that returns was
   not refused; and a call that raises with an admissible pair raises from the loop over the items. *)
Theorem C20_raises_root_iff :
  forall A (o : opts) fn con propagate so sm sf (others : list (tree A)) out names,
    (forall ob d m, out <> Some (NonT ob d m)) ->
    (forall e, refusal A o out = Some e -> front A o fn con propagate (Node so sm sf) others out names = Raised e)
    /\ (forall r, front A o fn con propagate (Node so sm sf) others out names = Ok r -> refusal A o out = None)
    /\ (forall e, front A o fn con propagate (Node so sm sf) others out names = Raised e -> refusal A o out = None ->
          exists init, level_init A o so sm sf out = Ok init
                       /\ apply_items A o fn con [] sm sf others out names sf init false = Raised e).
Proof. exact raises_root. Qed.
Print Assumptions C20_raises_root_iff.

(* KeyError is raised only when no default= was given — at any depth, for every option point *)
Theorem C20_keyerror_only_without_default :
  forall A (o : opts) fn con propagate (self : tree A) others out names,
    front A o fn con propagate self others out names = Raised EKey -> o_default o = false.
Proof. exact keyerror_only_without_default. Qed.
Print Assumptions C20_keyerror_only_without_default.

(* where the reference says KeyError, the call does not return *)
Theorem C20_keyerror_when_reference_says :
  forall A (o : opts) fn con propagate so sm sf (others : list (tree A)) out names,
    wf_keys A sf = true ->
    ref_apply A o fn con (Node so sm sf) others out = RKey ->
    forall r, front A o fn con propagate (Node so sm sf) others out names <> Ok r.
Proof. exact keyerror_when_reference_says. Qed.
Print Assumptions C20_keyerror_when_reference_says.

Example C20_ex_refusals :
  refusal Z base_opts (Some out_locked) = Some ERuntime
  /\ front Z base_opts (fn_of []) false false self_a [] (Some out_locked) None = Raised ERuntime
  /\ refusal Z (with_bs base_opts [4%nat]) (Some out_cpu) = Some ERuntime
  /\ refusal Z (with_dev base_opts (Some META)) (Some out_cpu) = Some ERuntime
  /\ refusal Z (with_dev (with_checked base_opts) None) (Some out_cpu) = Some EType
  /\ front Z (with_dev (with_checked base_opts) None) (fn_of []) false false self_a [] (Some out_cpu) None = Raised EType
  /\ refusal Z (with_dev (with_checked base_opts) (Some META)) (Some out_cpu) = None
  /\ refusal Z base_opts (Some (lf 5)) = Some EAttr
  /\ refusal Z (with_inplace base_opts) (Some out_locked) = None.
Proof. exact example_refusals. Qed.
Example C20_ex_keyerror :
  refusal Z base_opts None = None
  /\ front Z base_opts (fn_of []) false false self_ex [other_ex] None None = Raised EKey
  /\ o_default base_opts = false
  /\ wf_keys Z self_ex_forest = true
  /\ ref_apply Z base_opts (fn_of []) false self_ex [other_ex] None = RKey.
Proof. exact example_keyerror. Qed.

(* ================================================================== the in-place write-back (Model/C20_WriteBack.v) *)
(* in place, at a level: under every key the stored value after the call is the value fn's result stands for — a fresh
   tensor, fn's own argument handed back untouched, or fn's own argument updated in place and handed back — for containers
   whose items() are the stored tensors AND for containers whose items() are copies (a _SubTensorDict under a list / tensor /
   mask index); where fn returns None the entry holds whatever fn did to the object it was handed *)
Theorem C20_inplace_writeback :
  forall V copies_items (fn : string -> V -> fret V) (st : store V) k x,
    NoDup (map fst st) -> In (k, x) st ->
    aget V (apply_inplace V false copies_items fn st) k
    = match fval V (fn k x) x with
      | Some v => Some v
      | None => match fn k x with FMutNone v => if copies_items then Some x else Some v | _ => Some x end
      end.
Proof. exact inplace_writeback. Qed.
Print Assumptions C20_inplace_writeback.

(* the keys of self and their order are kept, whatever fn does *)
Theorem C20_inplace_keys :
  forall V fast_path copies_items (fn : string -> V -> fret V) (st : store V),
    NoDup (map fst st) -> map fst (apply_inplace V fast_path copies_items fn st) = map fst st.
Proof. exact inplace_keys. Qed.
Print Assumptions C20_inplace_keys.

(* a fast path `if inplace and item_trsf is item: continue` changes nothing where items() hands out the stored tensors … *)
Theorem C20_fast_path_harmless_on_views :
  forall V (fn : string -> V -> fret V) (st : store V),
    NoDup (map fst st) ->
    forall k, aget V (apply_inplace V true false fn st) k = aget V (apply_inplace V false false fn st) k.
Proof. exact fast_path_harmless_on_views. Qed.
Print Assumptions C20_fast_path_harmless_on_views.

(* … and loses fn's result where they are copies (seeded change C20-4): the variant with the fast path does not meet
   C20_inplace_writeback — fn = lambda x: x.mul_(2) on {a: 3, b: 5}: "b" keeps 5, the code without the fast path stores 10 *)
Example C20_inplace_writeback_fast_path_refuted :
  exists (fn : string -> Z -> fret Z) (st : store Z) k x v,
    NoDup (map fst st) /\ In (k, x) st /\ fval Z (fn k x) x = Some v
    /\ aget Z (apply_inplace Z true true fn st) k = Some x /\ x <> v
    /\ aget Z (apply_inplace Z false true fn st) k = Some v.
Proof. exact fast_path_refuted. Qed.
