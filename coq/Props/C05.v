(* C05 — a locked tensordict's structure and storage bindings cannot change.
   Property theorems only (each closed by a lemma of Proofs/, followed by Print Assumptions, parsed on every run), the finite
   theorem over the translated table, regression witnesses of the repaired defects, and Examples showing that the hypotheses
   are met by concrete non-trivial heaps.
   Model: Model/C05_Heap.v, Model/C05_Lock.v (state after the fix: commits for D7, D8, D51, D53-D54-D60, D55, D56, D61; the
   refutation theorems of D7, D8, D55, D56 are gone, their witnesses are regression Examples now).  Vocabulary: Spec/C05_LockSpec.v.
   Every theorem is stated for EVERY fuel / fuel policy and every history on which no traversal runs out of fuel
   (running out of fuel = Python's RecursionError on a cyclic structure; such structures are not trees).  No scope restriction
   on the calls is left: lazy stacks without members, trees locked through memmap_ and exclude(inplace=True) are all covered. *)
From Coq Require Import List String Bool Arith PeanoNat.
Import ListNotations.
From TD Require Import Model.C05_Heap Model.C05_Lock Model.C05_LazyCall Spec.C05_LockSpec
  Proofs.C05_LazyCallP Proofs.C05_HeapP Proofs.C05_LockP Proofs.C05_InvP Proofs.C05_StepP Proofs.C05_FrozenP Proofs.C05_WitnessP Gen.C05_Tables.
Open Scope string_scope.

(* ---- the lock-graph invariant holds in every reachable state -------------------------------------------------------------
   for all op histories (lock_/unlock_/mutators through any handle/memmap_/share_memory_/pickle round trips/gc of parents),
   raising calls included, from the empty heap or from any state satisfying it *)
Theorem C05_invariant_step : forall fuel s o s' out, Inv s -> step fuel s o = Some (s', out) -> Inv s'.
Proof. exact step_inv. Qed.
Print Assumptions C05_invariant_step.

Theorem C05_invariant_reachable : forall ff ops s' outs, run ff init ops = Some (s', outs) -> Inv s'.
Proof. exact invariant_reachable. Qed.
Print Assumptions C05_invariant_reachable.

(* ---- locked_frozen (full statement) ----------------------------------------------------------------------------------------
   r locked (any way: lock_, constructor, memmap_, share_memory_, unpickling), live.  Whatever public call is issued on whatever
   node -- every call except the documented storage conversions memmap_ / make_memmap -- the structure snapshot of r's tree
   (kind, keys in order, bound identities of every reachable node) is unchanged, and the tree is still entirely locked, unless
   the call is a successful unlock_ that unlocked r itself.  Raising calls included. *)
Theorem C05_locked_frozen : forall fuel s o s' out r,
  Inv s -> step fuel s o = Some (s', out) -> ~ unguarded o ->
  flag_true (hp s) r = true -> live s r = true ->
  tree_unchanged (hp s) (hp s') r /\
  (tree_locked (hp s') r \/ (exists n, o = OUnlock n /\ out = Done /\ flag_true (hp s') r = false)).
Proof. exact locked_frozen_step. Qed.
Print Assumptions C05_locked_frozen.

(* over histories: as long as r stays locked and alive, its tree at the end is the tree at the beginning *)
Theorem C05_locked_frozen_history : forall ff ops s s' outs r,
  Inv s -> Forall (fun o => ~ unguarded o) ops -> run ff s ops = Some (s', outs) ->
  flag_true (hp s) r = true -> live s r = true -> stays_locked ff s ops r ->
  tree_unchanged (hp s) (hp s') r /\ tree_locked (hp s') r.
Proof. exact locked_frozen_run. Qed.
Print Assumptions C05_locked_frozen_history.

(* ---- member_cannot_unlock (full statement) -----------------------------------------------------------------------------------
   n is a child of a live node q whose flag is True: unlock_ on n raises, the structure is untouched, no object dies, and every
   flag that was True is True again afterwards *)
Theorem C05_member_cannot_unlock : forall fuel s q n s' out,
  Inv s -> child (hp s) q n -> flag_true (hp s) q = true -> live s q = true ->
  step fuel s (OUnlock n) = Some (s', out) ->
  out = Raised ELock /\ same_struct (hp s) (hp s') /\ dead s' = dead s /\
  (forall x, flag_true (hp s) x = true -> flag_true (hp s') x = true).
Proof. exact member_cannot_unlock. Qed.
Print Assumptions C05_member_cannot_unlock.

(* ---- a refused unlock_ (whoever refuses it: a locked parent of the node or of any node below it) leaves the shared / memmap
   status of every node as it was (D68 repaired: before, _propagate_unlock had cleared it on the way and nothing put it back) *)
Theorem C05_refused_unlock_keeps_sharing : forall fuel s n s' e, step fuel s (OUnlock n) = Some (s', Raised e) ->
  forall x a b, lookup (hp s) x = Some a -> lookup (hp s') x = Some b -> shm a = shm b /\ mm a = mm b.
Proof. exact refused_unlock_keeps_sharing. Qed.
Print Assumptions C05_refused_unlock_keeps_sharing.

(* ---- shared_node: c is below r1 and also a child of p, a live locked node outside r1's tree: unlock_ r1 raises and restores *)
Theorem C05_shared_node : forall fuel s r1 c p s' out,
  Inv s -> Reach (hp s) r1 c -> child (hp s) p c -> ~ Reach (hp s) r1 p ->
  flag_true (hp s) p = true -> live s p = true -> exists_live s r1 = true ->
  step fuel s (OUnlock r1) = Some (s', out) ->
  out = Raised ELock /\ (forall x, flag_true (hp s) x = true -> flag_true (hp s') x = true).
Proof. exact shared_node. Qed.
Print Assumptions C05_shared_node.

(* ---- unlock_root_frees: after a successful unlock_ r, every node of r's tree is unlocked (stored flag and derived state) and
        accepts a structural write *)
Theorem C05_unlock_root_frees : forall fuel s r s',
  step fuel s (OUnlock r) = Some (s', Done) -> exists_live s r = true ->
  forall x, Reach (hp s) r x ->
    flag_true (hp s') x = false /\
    (forall fuel' b, is_locked fuel' (hp s') x = Some b -> b = false) /\
    (forall fuel' k, is_td s' x = true -> exists s'', step fuel' s' (OSet x k VLeaf) = Some (s'', Done)).
Proof. exact unlock_root_frees. Qed.
Print Assumptions C05_unlock_root_frees.

(* ---- gc_parent: unlock_ n succeeds as soon as every lock parent of every node of n's tree is collected, unlocked, or inside
        the tree itself (the weak references of collected parents forbid nothing) *)
Theorem C05_gc_parent : forall fuel s n s' out,
  step fuel s (OUnlock n) = Some (s', out) -> exists_live s n = true ->
  (forall x p, Reach (hp s) n x -> has_parent (hp s) x p -> live s p = false \/ flag_true (hp s) p = false \/ Reach (hp s) n p) ->
  out = Done.
Proof. exact gc_parent. Qed.
Print Assumptions C05_gc_parent.

(* ---- lock_ covers the tree: after lock_ r every node reachable from r is flagged (also when r is a lazy stack whose members
        were locked first, or a stack without members), and locking changes no entry *)
Theorem C05_lock_covers_tree : forall fuel s r s',
  Inv s -> exists_live s r = true -> step fuel s (OLock r) = Some (s', Done) ->
  tree_locked (hp s') r /\ tree_unchanged (hp s) (hp s') r.
Proof. exact lock_covers_tree. Qed.
Print Assumptions C05_lock_covers_tree.

(* ---- in-place value writes stay possible under lock and change nothing but the value *)
Theorem C05_inplace_write_ok : forall fuel s n k nd l,
  is_td s n = true -> lookup (hp s) n = Some nd -> ents_get (ents nd) k = Some (RLeaf l) ->
  step fuel s (OSetInplace n k) = Some (log_write s l, Done) /\ step fuel s (OSetBest n k) = Some (log_write s l, Done).
Proof. exact inplace_write_ok. Qed.
Print Assumptions C05_inplace_write_ok.

(* ---- pickle_roundtrip_relocks: unpickling a locked root yields a locked root (the last allocated object) in a state that
        satisfies the lock-graph invariant again (so all of the above applies to the copy); the originals are kept *)
Theorem C05_pickle_roundtrip_relocks : forall fuel s n s' nd,
  Inv s -> exists_live s n = true -> lookup (hp s) n = Some nd -> flg nd = FTrue ->
  step fuel s (OPickle n) = Some (s', Done) ->
  Inv s' /\ flag_true (hp s') (pred (nxt s')) = true /\ kept_all (hp s) (hp s') /\ dead s' = dead s.
Proof. exact pickle_relocks. Qed.
Print Assumptions C05_pickle_roundtrip_relocks.

(* ---- guard_table (finite, over the table regenerated from /repo's source on every run) -----------------------------------
   every method that writes a container's own storage carries a guard (decorator or inline test), or is a constructor /
   documented storage conversion, or is the one recorded finding (D52: TensorDictParams._apply).
   row_ok, deliberate and known_unguarded are in Proofs/C05_WitnessP.v *)
Theorem C05_guard_table : forallb row_ok storage_writers = true.
Proof. exact guard_table. Qed.
Print Assumptions C05_guard_table.

(* the writers the lock check of the model stands for are really guarded in the source *)
Theorem C05_guard_table_core :
  forallb (fun k => existsb (fun r => let '(f, c, m, g) := r in key3_eqb (f, c, m) k && match g with GNone => false | _ => true end) storage_writers)
          [("_td.py", "TensorDict", "_set_str"); ("_td.py", "TensorDict", "_select"); ("_td.py", "TensorDict", "_exclude");
           ("_td.py", "TensorDict", "del_"); ("_td.py", "TensorDict", "popitem");
           ("_lazy.py", "LazyStackedTensorDict", "insert"); ("_lazy.py", "LazyStackedTensorDict", "_exclude");
           ("_lazy.py", "LazyStackedTensorDict", "expand")] = true
  /\ forallb (fun k => mem3 k lock_blocked_methods)
          [("_td.py", "TensorDict", "del_"); ("_td.py", "TensorDict", "popitem"); ("_td.py", "TensorDict", "rename_key_");
           ("base.py", "TensorDictBase", "clear"); ("base.py", "TensorDictBase", "update"); ("base.py", "TensorDictBase", "create_nested");
           ("_lazy.py", "LazyStackedTensorDict", "insert"); ("_lazy.py", "LazyStackedTensorDict", "append");
           ("_lazy.py", "LazyStackedTensorDict", "del_"); ("_lazy.py", "LazyStackedTensorDict", "update")] = true.
Proof. exact guard_table_core. Qed.
Print Assumptions C05_guard_table_core.

(* ---- regression witnesses of the repaired defects: the histories that refuted the full statements before the fix commits --- *)
Example C05_regression_D8 : step 5 d8_state (OExclude 0 ["a"]) = Some (d8_state, Raised ELock).
Proof. exact regression_D8. Qed.
Example C05_regression_D7 : outcome_of (step 6 d7_state (OUnlock 1)) = Some (Raised ELock) /\ flag_true (hp d7_state) 1 = true.
Proof. exact regression_D7. Qed.
Example C05_regression_D55 : outcome_of (step 9 d55_state (OUnlock 0)) = Some (Raised ELock) /\ flag_true (hp d55_state) 2 = true.
Proof. exact regression_D55. Qed.
Example C05_regression_D56 :
  outcome_of (step 9 d56_state (OUnlock 1)) = Some (Raised ELock) /\ outcome_of (step 9 d56_state (OAppend 1 2)) = Some (Raised ELock).
Proof. exact regression_D56. Qed.

(* ---- non-vacuity: concrete heaps meeting the hypotheses --------------------------------------------------------------------- *)
(* a three-level tree with a shared node under two locked roots, a lazy stack of nested members and a stack without members *)
Definition ex_hist : list op :=
  [ONewTd; ONewTd; ONewTd; ONewTd;                       (* 0 1 2 3 *)
   OSet 0 "x" (VNode 2); OSet 1 "q" (VNode 2);           (* node 2 under two parents *)
   OSet 2 "k" (VNode 3); OSet 3 "z" VLeaf;               (* 2 -> 3 -> leaf 4 *)
   ONewTd; ONewTd; OSet 5 "n" VNewTd;                    (* 5 6, 5 -> 7 *)
   ONewLazy [5; 6]; OSet 0 "L" (VNode 8);                (* lazy stack 8 = [5, 6] under root 0 *)
   ONewLazy []; OSet 0 "E" (VNode 9);                    (* lazy stack 9 without members under root 0 *)
   OLock 0; OLock 1].
Definition ex_state : st := state_after init ex_hist.

Example C05_ex_runs : option_map snd (run auto_fuel init ex_hist) = Some (map (fun _ => Done) ex_hist).
Proof. vm_compute. reflexivity. Qed.

Example C05_ex_inv : Inv ex_state.
Proof.
  assert (R : exists outs, run auto_fuel init ex_hist = Some (ex_state, outs)) by (vm_compute; eexists; reflexivity).
  destruct R as [outs R]. eapply C05_invariant_reachable. exact R.
Qed.

(* hypotheses of locked_frozen / member_cannot_unlock / shared_node hold there, and the conclusions are observed *)
Example C05_ex_locked_tree : flag_true (hp ex_state) 0 = true /\ live ex_state 0 = true /\ child (hp ex_state) 0 2 /\ child (hp ex_state) 1 2
  /\ child (hp ex_state) 2 3 /\ child (hp ex_state) 0 8 /\ child (hp ex_state) 8 5 /\ child (hp ex_state) 5 7 /\ child (hp ex_state) 0 9.
Proof. vm_compute. repeat split; auto 10. Qed.

Example C05_ex_member_unlock_raises :
  outcome_of (step 14 ex_state (OUnlock 7)) = Some (Raised ELock) /\      (* nested inside a member of a lazy stack *)
  outcome_of (step 14 ex_state (OUnlock 8)) = Some (Raised ELock) /\      (* the lazy stack itself *)
  outcome_of (step 14 ex_state (OUnlock 9)) = Some (Raised ELock) /\      (* the stack without members *)
  outcome_of (step 14 ex_state (OUnlock 3)) = Some (Raised ELock) /\      (* below the shared node *)
  outcome_of (step 14 ex_state (OUnlock 0)) = Some (Raised ELock) /\      (* a root sharing a node with another locked root *)
  outcome_of (step 14 ex_state (OSet 3 "new" VLeaf)) = Some (Raised ELock) /\
  outcome_of (step 14 ex_state (OExclude 3 ["z"])) = Some (Raised ELock) /\
  outcome_of (step 14 ex_state (OSetInplace 3 "z")) = Some Done.
Proof. vm_compute. repeat split. Qed.

(* gc_parent / unlock_root_frees: once root 1 is collected, root 0 can be unlocked and its whole tree accepts writes *)
Definition ex_s1 : st := match step 14 ex_state (OGc [1]) with Some (s, _) => s | None => init end.
Definition ex_s2 : st := match step 14 ex_s1 (OUnlock 0) with Some (s, _) => s | None => init end.
Example C05_ex_gc_then_unlock :
  outcome_of (step 14 ex_state (OGc [1])) = Some Done /\ outcome_of (step 14 ex_s1 (OUnlock 0)) = Some Done /\
  outcome_of (step 14 ex_s2 (OSet 3 "new" VLeaf)) = Some Done /\ flag_true (hp ex_s2) 7 = false /\ flag_true (hp ex_state) 7 = true.
Proof. vm_compute. repeat split. Qed.

(* ==== calls issued on a lazy stack and routed to its members (Model/C05_LazyCall.v: set / stack[key] = v, del_, rename_key_,
        select / exclude(inplace=True), update; members that are lazy stacks themselves dispatch again) ============================== *)
(* the lock-graph invariant is kept by every call of the extended alphabet, also by one that raises after a partial effect *)
Theorem C05_routed_invariant_step : forall fuel s o s' out, Inv s -> lstep fuel s o = Some (s', out) -> Inv s'.
Proof. exact lstep_inv. Qed.
Print Assumptions C05_routed_invariant_step.

Theorem C05_routed_invariant_reachable : forall ff ops s' outs, lrun ff init ops = Some (s', outs) -> Inv s'.
Proof. exact linvariant_reachable. Qed.
Print Assumptions C05_routed_invariant_reachable.

(* locked_frozen (full statement) over the extended alphabet: r locked and live, any call -- a plain one on any node or a routed
   one on any lazy-stack handle, raising or not: the structure snapshot of r's tree is unchanged and the tree stays locked (unless
   the call is a successful unlock_ of r) *)
Theorem C05_routed_locked_frozen : forall fuel s o s' out r,
  Inv s -> lstep fuel s o = Some (s', out) -> ~ lunguarded o ->
  flag_true (hp s) r = true -> live s r = true ->
  tree_unchanged (hp s) (hp s') r /\
  (tree_locked (hp s') r \/ (exists n, o = LBase (OUnlock n) /\ out = Done /\ flag_true (hp s') r = false)).
Proof. exact lstep_locked_frozen. Qed.
Print Assumptions C05_routed_locked_frozen.

Theorem C05_routed_locked_frozen_history : forall ff ops s s' outs r,
  Inv s -> Forall (fun o => ~ lunguarded o) ops -> lrun ff s ops = Some (s', outs) ->
  flag_true (hp s) r = true -> live s r = true -> lstays_locked ff s ops r ->
  tree_unchanged (hp s) (hp s') r /\ tree_locked (hp s') r.
Proof. exact lfrozen_run. Qed.
Print Assumptions C05_routed_locked_frozen_history.

(* node by node, no invariant needed: a routed call (whatever its outcome, partial effects included) leaves every flagged node
   with its kind, its entries and its flag *)
Theorem C05_routed_call_keeps_locked : forall fuel s l c s' out,
  lstep fuel s (LCall l c) = Some (s', out) ->
  forall x a, flag_true (hp s) x = true -> lookup (hp s) x = Some a ->
    exists b, lookup (hp s') x = Some b /\ nk b = nk a /\ ents b = ents a /\ flg b = FTrue.
Proof. exact routed_call_keeps_locked. Qed.
Print Assumptions C05_routed_call_keeps_locked.

(* a locked stack refuses: locked through lock_ (its own or an ancestor's) ... *)
Theorem C05_locked_stack_refuses : forall fuel c s l s' out,
  Inv s -> flag_true (hp s) l = true -> live s l = true -> lstep fuel s (LCall l c) = Some (s', out) ->
  s' = s /\ (out = Raised ELock \/ out = Invalid).
Proof. exact flagged_stack_refuses. Qed.
Print Assumptions C05_locked_stack_refuses.

(* ... or never locked itself, all its members locked on their own (derived is_locked): refused at the stack (del_, exclude,
   update) or by its first member (set, rename_key_, select), the state is literally the same *)
Theorem C05_member_locked_stack_refuses : forall fuel c s l nd s' out,
  Inv s -> lookup (hp s) l = Some nd -> nk nd = KLazy ->
  (forall m, In m (node_children nd) -> flag_true (hp s) m = true /\ live s m = true) ->
  lstep fuel s (LCall l c) = Some (s', out) -> s' = s /\ (out = Raised ELock \/ out = Invalid).
Proof. exact member_locked_stack_refuses. Qed.
Print Assumptions C05_member_locked_stack_refuses.

(* after lock_ on a stack, the same calls issued on a MEMBER's own handle are refused by the member's flag *)
Theorem C05_locked_stack_member_handle_refuses : forall fuel s l s' m c fuel2 s2 out,
  Inv s -> exists_live s l = true -> step fuel s (OLock l) = Some (s', Done) -> child (hp s') l m ->
  step fuel2 s' (member_op c m) = Some (s2, out) -> s2 = s' /\ (out = Raised ELock \/ out = Invalid).
Proof. exact locked_stack_member_handle_refuses. Qed.
Print Assumptions C05_locked_stack_member_handle_refuses.

(* non-vacuity / witnesses: a locked stack of two members refuses the eight calls with ELock (not Invalid) on the stack handle and
   on member 0's handle; and the partial effect exists: member 0 unlocked accepts, member 1 locked refuses, the call raises, only
   the unlocked member has changed *)
Example C05_ex_locked_stack :
  map (fun c => lstep 9 locked_stack_state (LCall 4 c)) witness_calls = map (fun _ => Some (locked_stack_state, Raised ELock)) witness_calls
  /\ map (fun c => step 9 locked_stack_state (member_op c 0)) witness_calls = map (fun _ => Some (locked_stack_state, Raised ELock)) witness_calls
  /\ flag_true (hp locked_stack_state) 4 = true /\ live locked_stack_state 4 = true /\ child (hp locked_stack_state) 4 0.
Proof. exact locked_stack_witness. Qed.
Example C05_ex_partial_effect :
  match lstep 8 partial_state (LCall 2 (LSet "a")) with
  | Some (s', out) => out = Raised ELock /\ option_map ents (lookup (hp s') 0) = Some [("a", RLeaf 3)]
                      /\ option_map ents (lookup (hp s') 1) = Some [] /\ flag_true (hp s') 1 = true
  | None => False
  end.
Proof. exact partial_effect. Qed.
