(* C15 — a tensorclass behaves as its underlying tensordict with typed fields.  Property theorems only.
   Finite theorems are about the tables regenerated from /repo on every run (Gen/C15_tables.v, by ast) and the reflection lists
   written next to them by the harness (Gen/C15_reflect.v); the others are universally quantified statements about the model. *)
From Coq Require Import List String Bool Arith.
Import ListNotations.
From TD Require Import Model.C15_TCWrap Proofs.C15_TCWrapP Gen.C15_tables Gen.C15_reflect.
Open Scope string_scope.
Open Scope list_scope.

(* a freshly declared class as _tensorclass() finds it: object's attributes plus what @dataclass adds (no fields that shadow
   anything, no user methods) *)
Definition dataclass_attrs : list string :=
  ["__init__"; "__repr__"; "__eq__"; "__hash__"; "__dataclass_fields__"; "__dataclass_params__"; "__match_args__";
   "__annotations__"; "__module__"; "__dict__"; "__weakref__"; "__doc__"; "__qualname__"].
Definition plain : env :=
  {| e_base := object_attrs ++ dataclass_attrs; e_own := dataclass_attrs; e_fields := []; e_nt := false; e_tdcm := td_own_classmethods;
     e_cmw := [] |}.
Definition disp_of (n : string) : disp := dispatch plain install_steps n.
(* the same function with the installation result shared (so that vm_compute runs the installation once per theorem) *)
Definition disp_st (st : installed) (n : string) : disp :=
  match lookup n st with
  | Some k => DInstalled k
  | None => if mem n (e_base plain) then DInherited else if mem n (e_fields plain) then DField else if is_dunder n then DAbsent else DGetattr
  end.
Lemma disp_st_is_dispatch : forall n, disp_st (install plain install_steps) n = disp_of n.
Proof. reflexivity. Qed.

Definition wrap_tables : list string := tbl_wrap ++ tbl_force ++ tbl_copy.
Definition nowrap_tables : list string := tbl_nowrap ++ tbl_direct.

(* no name is both in a table whose results are re-wrapped and in a table whose results are returned as they are *)
Theorem C15_tables_disjoint : forallb (fun n => negb (mem n nowrap_tables)) wrap_tables = true.
Proof. vm_compute. reflexivity. Qed.
Print Assumptions C15_tables_disjoint.

(* every listed name exists on TensorDict (reflection list written at run time) *)
Theorem C15_tables_exist : forallb (fun n => mem n td_all) (wrap_tables ++ nowrap_tables) = true.
Proof. vm_compute. reflexivity. Qed.
Print Assumptions C15_tables_exist.

(* _FORCE and _COPY names end up served by the re-wrapping wrapper (FORCE beats object's comparison dunders) *)
Definition is_wrap (d : disp) : bool := match d with DInstalled (KWrap _) => true | _ => false end.
Theorem C15_force_copy_are_wrapped :
  let st := install plain install_steps in forallb (fun n => is_wrap (disp_st st n)) (tbl_force ++ tbl_copy) = true.
Proof. vm_compute. reflexivity. Qed.
Print Assumptions C15_force_copy_are_wrapped.

(* every public attribute of TensorDict is dispatched by exactly one mechanism: at most one of {explicit definition, table}
   claims it, the installation (order + guards) serves it through that claimant, and an unclaimed name is served by the
   classmethod loop or the __getattr__ fallback — so moving a name between a table and the fallback keeps this true *)
Definition ikind_eqb (a b : ikind) : bool :=
  match a, b with
  | KExplicit, KExplicit | KDirect, KDirect | KNoWrap, KNoWrap | KClassmethod, KClassmethod => true
  | KWrap x, KWrap y => Bool.eqb x y
  | _, _ => false
  end.
Definition dispatched_once (st : installed) (n : string) : bool :=
  match claims_of install_steps n, disp_st st n with
  | [k], DInstalled k' => ikind_eqb k k'
  | [], DInstalled KClassmethod => true
  | [], DGetattr => true
  | _, _ => false
  end.
Theorem C15_public_dispatch_unique : let st := install plain install_steps in forallb (dispatched_once st) td_public = true.
Proof. vm_compute. reflexivity. Qed.
Print Assumptions C15_public_dispatch_unique.

(* a property of TensorDict is never served by a method wrapper that re-wraps or by TensorDict's raw function *)
Definition property_ok (st : installed) (n : string) : bool :=
  match disp_st st n with
  | DInstalled KNoWrap | DInstalled KExplicit | DGetattr | DInherited => true
  | _ => false
  end.
Theorem C15_properties_stay_properties : let st := install plain install_steps in forallb (property_ok st) td_properties = true.
Proof. vm_compute. reflexivity. Qed.
Print Assumptions C15_properties_stay_properties.

(* non-callable, non-property class attributes (is_meta ...): served as attributes — by the no-wrap loop only because that loop
   reads them like properties (nowrap_reads_noncallables, translated from the loop), never by a method wrapper *)
Definition attribute_ok (st : installed) (n : string) : bool :=
  match disp_st st n with
  | DInstalled KNoWrap => nowrap_reads_noncallables
  | DInstalled (KWrap _) | DInstalled KDirect => false
  | _ => true
  end.
Theorem C15_attributes_stay_attributes :
  let st := install plain install_steps in
  forallb (fun n => negb (mem n td_public) || attribute_ok st n) td_noncallable = true.
Proof. vm_compute. reflexivity. Qed.
Print Assumptions C15_attributes_stay_attributes.

(* operators: Python looks a dunder up on the type, so __getattr__ cannot supply it.  Every dunder the tensordict classes define
   is on the class, except __iter__, which Python serves through __len__ / __getitem__ (the sequence protocol) *)
Definition operator_ok (st : installed) (n : string) : bool := match disp_st st n with DAbsent => false | _ => true end.
Definition sequence_protocol : list string := ["__iter__"].
Theorem C15_operators_dispatched :
  let st := install plain install_steps in forallb (fun d => mem d sequence_protocol || operator_ok st d) td_api_dunders = true.
Proof. vm_compute. reflexivity. Qed.
Print Assumptions C15_operators_dispatched.

(* torch functions: what __torch_function__ lets through is registered, the registrations read from the source are the ones
   found at run time, and every function registered for tensordicts is let through for tensorclasses *)
Theorem C15_pass_through_registered :
  forallb (fun f => mem f torch_handled_td) tbl_pass_through
  && forallb (fun f => mem f (torch_handled_td ++ torch_handled_lazy)) td_handled_runtime
  && forallb (fun f => mem f td_handled_runtime) (torch_handled_td ++ torch_handled_lazy) = true.
Proof. vm_compute. reflexivity. Qed.
Print Assumptions C15_pass_through_registered.
Theorem C15_torch_functions_pass : forallb (fun f => mem f tbl_pass_through) torch_handled_td = true.
Proof. vm_compute. reflexivity. Qed.
Print Assumptions C15_torch_functions_pass.

(* ------------------------------------------------------------------------------------------------ the wrapper, all inputs *)
(* wrap_sound: whatever the tensordict method returned — itself, another tensordict, the out= argument, None, anything
   else, or a tuple of those — the wrapper installed for a wrap-table name returns the property's re-wrapping of it:
   self for itself, an instance of the class carrying every non-None non-tensor value for a tensordict whose keys are
   fields, out= as it is, tuples element by element.  (shape_pre: _non_tensordict has no shadowed key, holds only fields,
   and no non-None value of it sits under a key of the result — otherwise _from_tensordict raises KeyError.) *)
Theorem C15_wrap_sound : forall copy fields selfkeys nt r,
  shape_pre fields selfkeys nt r = true ->
  shape_ok fields selfkeys nt r (wrap_td_method false copy fields selfkeys nt r) = true.
Proof. exact wrap_sound. Qed.
Print Assumptions C15_wrap_sound.

(* the same statement for the no-wrap wrapper is false: a name placed in the no-wrap table whose method returns the tensordict
   itself hands out the underlying tensordict (what clear_refs_for_compile_ did before it was moved to the wrap table) *)
Definition C15_every_wrapper_sound_full_statement : Prop := forall no_wrap copy fields selfkeys nt r,
  shape_pre fields selfkeys nt r = true -> shape_ok fields selfkeys nt r (wrap_td_method no_wrap copy fields selfkeys nt r) = true.
Theorem C15_nowrap_leaks_refuted : exists fields selfkeys nt r,
  shape_pre fields selfkeys nt r = true /\ shape_ok fields selfkeys nt r (wrap_td_method true false fields selfkeys nt r) = false.
Proof. exists ["x"], ["x"], [], (R1 ASelf). vm_compute. split; reflexivity. Qed.
Print Assumptions C15_nowrap_leaks_refuted.

(* _from_tensordict: on success every field lives in exactly one of the two stores and nothing else is stored *)
Theorem C15_from_tensordict_partition : forall fields tdkeys nt nt', from_tensordict fields tdkeys nt = FOk nt' ->
  (forall f, In f fields -> (In f tdkeys /\ ~ In f (keys nt')) \/ (~ In f tdkeys /\ In f (keys nt')))
  /\ (forall k, In k tdkeys -> In k fields) /\ (forall k, In k (keys nt') -> In k fields).
Proof. exact from_td_partition. Qed.
Print Assumptions C15_from_tensordict_partition.

(* ... non-None non-tensor values are carried unchanged ... *)
Theorem C15_from_tensordict_carries : forall fields tdkeys nt nt', nodupb (keys nt) = true ->
  from_tensordict fields tdkeys nt = FOk nt' -> nt_carried nt nt' = true.
Proof. exact from_td_carries. Qed.
Print Assumptions C15_from_tensordict_carries.

(* ... a key given both as tensor and as non-None value, or a key that is not a field, is rejected *)
Theorem C15_from_tensordict_rejects : forall fields tdkeys nt,
  (clash tdkeys nt = true -> from_tensordict fields tdkeys nt = FErr EKey)
  /\ (clash tdkeys nt = false -> subset (tdkeys ++ keys nt) fields = false -> from_tensordict fields tdkeys nt = FErr EValue).
Proof. intros. split; [apply from_td_rejects_clash | apply from_td_rejects_foreign]. Qed.
Print Assumptions C15_from_tensordict_rejects.

(* ------------------------------------------------------------------------------------------------ attribute access = key access *)
Theorem C15_attr_is_key : forall fields s item, wfb fields s = true -> In item fields ->
  getattr fields s item = key_access s item.
Proof. exact attr_is_key. Qed.
Print Assumptions C15_attr_is_key.

(* an assigned value is read back (as tensor / collection / python value / None according to the cast rules) ... *)
Theorem C15_set_then_get : forall fields o h s k v id s',
  set_field fields false o h s k v id = SOk s' -> getattr fields s' k = readback o h v id.
Proof. exact set_then_get. Qed.
Print Assumptions C15_set_then_get.

(* ... the other fields are untouched, and every field stays in exactly one store *)
Theorem C15_set_frame : forall fields o h s k v id s' k',
  set_field fields false o h s k v id = SOk s' -> k <> k' -> getattr fields s' k' = getattr fields s k'.
Proof. exact set_frame. Qed.
Print Assumptions C15_set_frame.
Theorem C15_set_keeps_invariant : forall fields o h s k v id s',
  wfb fields s = true -> set_field fields false o h s k v id = SOk s' -> wfb fields s' = true.
Proof. exact set_wf. Qed.
Print Assumptions C15_set_keeps_invariant.

(* indexing keeps the keys of the tensordict part, copies the non-tensor store, keeps the invariant — for every index map *)
Theorem C15_getitem_keeps : forall at_index fields s s', getitem at_index false s = SOk s' ->
  keys (s_td s') = keys (s_td s) /\ s_nt s' = s_nt s /\ (wfb fields s = true -> wfb fields s' = true).
Proof. exact getitem_keeps. Qed.
Print Assumptions C15_getitem_keeps.

(* indexed assignment of a tensorclass value: keys the value holds as tensors leave self's non-tensor store and are written
   (or created) in the tensordict part; every field stays in exactly one store — for every write function *)
Theorem C15_setitem_keeps_invariant : forall written fields s same val s',
  wfb fields s = true -> wfb fields val = true ->
  setitem written false s (IVTc same val) = SOk s' -> wfb fields s' = true.
Proof. exact setitem_wf. Qed.
Print Assumptions C15_setitem_keeps_invariant.

(* ------------------------------------------------------------------------------------------------ non-vacuity *)
Example C15_ex_setitem : setitem (fun _ j => j) false {| s_td := [("x", VTensor 1)]; s_nt := [("o", NNone); ("s", NVal 2)] |}
    (IVTc true {| s_td := [("x", VTensor 5); ("o", VTensor 6)]; s_nt := [("s", NVal 2)] |})
  = SOk {| s_td := [("x", VTensor 5); ("o", VTensor 6)]; s_nt := [("s", NVal 2)] |}.
Proof. reflexivity. Qed.
Example C15_ex_wrap : shape_pre ["x"; "y"; "s"; "o"] ["x"; "y"; "s"] [("o", NNone)] (RTuple [ATd ["x"; "y"] false; ASelf; ANone]) = true
  /\ wrap_td_method false false ["x"; "y"; "s"; "o"] ["x"; "y"; "s"] [("o", NNone)] (RTuple [ATd ["x"; "y"] false; ASelf; ANone])
     = TTuple [TWrapped ["x"; "y"] [("o", NNone); ("s", NNone)] false false; TWrapped ["x"; "y"; "s"] [("o", NNone)] false true; TNone].
Proof. vm_compute. split; reflexivity. Qed.
Example C15_ex_wrap_legacy : shape_pre ["x"; "s"] ["x"] [("s", NVal 3)] (R1 (ATd ["x"] false)) = true
  /\ wrap_td_method false true ["x"; "s"] ["x"] [("s", NVal 3)] (R1 (ATd ["x"] false)) = T1 (TWrapped ["x"] [("s", NVal 3)] true false).
Proof. vm_compute. split; reflexivity. Qed.
Example C15_ex_from_td : from_tensordict ["x"; "y"; "s"; "o"] ["x"; "y"] [("s", NVal 1); ("x", NNone)] = FOk [("s", NVal 1); ("o", NNone)].
Proof. reflexivity. Qed.
Example C15_ex_attr : wfb ["x"; "s"; "o"] {| s_td := [("x", VTensor 1); ("s", VNonTensor 2)]; s_nt := [("o", NNone)] |} = true
  /\ getattr ["x"; "s"; "o"] {| s_td := [("x", VTensor 1); ("s", VNonTensor 2)]; s_nt := [("o", NNone)] |} "s" = GPy 2.
Proof. vm_compute. split; reflexivity. Qed.
Example C15_ex_set_autocast_dict : set_field ["y"; "inner"] false {| o_autocast := true; o_nocast := false |} HCollT
    {| s_td := [("y", VTensor 1)]; s_nt := [("inner", NNone)] |} "inner" VkDict 7
  = SOk {| s_td := [("y", VTensor 1); ("inner", VColl 7)]; s_nt := [] |}.
Proof. reflexivity. Qed.
Example C15_ex_set : set_field ["x"; "o"] false {| o_autocast := false; o_nocast := false |} HAny
    {| s_td := [("x", VTensor 1)]; s_nt := [("o", NNone)] |} "o" VkNumber 5
  = SOk {| s_td := [("x", VTensor 1); ("o", VTensor 5)]; s_nt := [] |}.
Proof. reflexivity. Qed.
(* each dispatch class is inhabited (stated without naming a table entry, so that moving a name does not touch it) *)
Example C15_ex_dispatch : let st := install plain install_steps in
  existsb (fun n => is_wrap (disp_st st n)) td_public
  && existsb (fun n => match disp_st st n with DInstalled KNoWrap => true | _ => false end) td_public
  && existsb (fun n => match disp_st st n with DInstalled KDirect => true | _ => false end) td_public
  && existsb (fun n => match disp_st st n with DInstalled KExplicit => true | _ => false end) td_public
  && existsb (fun n => match disp_st st n with DInstalled KClassmethod => true | _ => false end) td_public
  && existsb (fun n => match disp_st st n with DAbsent => true | _ => false end) td_api_dunders = true.
Proof. vm_compute. reflexivity. Qed.
