(* C15 — a tensorclass behaves as its underlying tensordict with typed fields.  Property theorems only.
   Finite theorems are about the tables regenerated from /repo on every run (Gen/C15_tables.v, by ast) and the reflection lists
   written next to them by the harness (Gen/C15_reflect.v); the others are universally quantified statements about the model. *)
From Coq Require Import List String Bool Arith.
Import ListNotations.
From TD Require Import Model.C15_TCWrap Proofs.C15_TCWrapP Model.C15_Pieces Proofs.C15_PiecesP Gen.C15_tables Gen.C15_reflect.
Open Scope string_scope.
Open Scope list_scope.

(* a freshly declared class as _tensorclass() finds it: object's attributes plus what @dataclass adds (no fields that shadow
   anything, no user methods) *)
Definition dataclass_attrs : list string :=
  ["__init__"; "__repr__"; "__eq__"; "__hash__"; "__dataclass_fields__"; "__dataclass_params__"; "__match_args__";
   "__annotations__"; "__module__"; "__dict__"; "__weakref__"; "__doc__"; "__qualname__"].
Definition plain : env :=
  {| e_base := object_attrs ++ dataclass_attrs; e_own := dataclass_attrs; e_fields := []; e_nt := false; e_tdcm := td_own_classmethods;
     e_cmw := [] |}.
Definition disp_of (n : string) : disp := dispatch plain install_steps n.
(* the same function with the installation result shared (so that vm_compute runs the installation once per theorem) *)
Definition disp_st (st : installed) (n : string) : disp :=
  match lookup n st with
  | Some k => DInstalled k
  | None => if mem n (e_base plain) then DInherited else if mem n (e_fields plain) then DField else if is_dunder n then DAbsent else DGetattr
  end.
Lemma disp_st_is_dispatch : forall n, disp_st (install plain install_steps) n = disp_of n.
Proof. reflexivity. Qed.

Definition wrap_tables : list string := tbl_wrap ++ tbl_force ++ tbl_copy.
Definition nowrap_tables : list string := tbl_nowrap ++ tbl_direct.

(* no name is both in a table whose results are re-wrapped and in a table whose results are returned as they are *)
Theorem C15_tables_disjoint : forallb (fun n => negb (mem n nowrap_tables)) wrap_tables = true.
Proof. vm_compute. reflexivity. Qed.
Print Assumptions C15_tables_disjoint.

(* every listed name exists on TensorDict (reflection list written at run time) *)
Theorem C15_tables_exist : forallb (fun n => mem n td_all) (wrap_tables ++ nowrap_tables) = true.
Proof. vm_compute. reflexivity. Qed.
Print Assumptions C15_tables_exist.

(* _FORCE and _COPY names end up served by the re-wrapping wrapper (FORCE beats object's comparison dunders) *)
Definition is_wrap (d : disp) : bool := match d with DInstalled (KWrap _) => true | _ => false end.
Theorem C15_force_copy_are_wrapped :
  let st := install plain install_steps in forallb (fun n => is_wrap (disp_st st n)) (tbl_force ++ tbl_copy) = true.
Proof. vm_compute. reflexivity. Qed.
Print Assumptions C15_force_copy_are_wrapped.

(* every public attribute of TensorDict is dispatched by exactly one mechanism: at most one of {explicit definition, table}
   claims it, the installation (order + guards) serves it through that claimant, and an unclaimed name is served by the
   classmethod loop or the __getattr__ fallback — so moving a name between a table and the fallback keeps this true *)
Definition ikind_eqb (a b : ikind) : bool :=
  match a, b with
  | KExplicit, KExplicit | KDirect, KDirect | KNoWrap, KNoWrap | KClassmethod, KClassmethod => true
  | KWrap x, KWrap y => Bool.eqb x y
  | _, _ => false
  end.
Definition dispatched_once (st : installed) (n : string) : bool :=
  match claims_of install_steps n, disp_st st n with
  | [k], DInstalled k' => ikind_eqb k k'
  | [], DInstalled KClassmethod => true
  | [], DGetattr => true
  | _, _ => false
  end.
Theorem C15_public_dispatch_unique : let st := install plain install_steps in forallb (dispatched_once st) td_public = true.
Proof. vm_compute. reflexivity. Qed.
Print Assumptions C15_public_dispatch_unique.

(* a property of TensorDict is never served by a method wrapper that re-wraps or by TensorDict's raw function *)
Definition property_ok (st : installed) (n : string) : bool :=
  match disp_st st n with
  | DInstalled KNoWrap | DInstalled KExplicit | DGetattr | DInherited => true
  | _ => false
  end.
Theorem C15_properties_stay_properties : let st := install plain install_steps in forallb (property_ok st) td_properties = true.
Proof. vm_compute. reflexivity. Qed.
Print Assumptions C15_properties_stay_properties.

(* non-callable, non-property class attributes (is_meta ...): served as attributes — by the no-wrap loop only because that loop
   reads them like properties (nowrap_reads_noncallables, translated from the loop), never by a method wrapper *)
Definition attribute_ok (st : installed) (n : string) : bool :=
  match disp_st st n with
  | DInstalled KNoWrap => nowrap_reads_noncallables
  | DInstalled (KWrap _) | DInstalled KDirect => false
  | _ => true
  end.
Theorem C15_attributes_stay_attributes :
  let st := install plain install_steps in
  forallb (fun n => negb (mem n td_public) || attribute_ok st n) td_noncallable = true.
Proof. vm_compute. reflexivity. Qed.
Print Assumptions C15_attributes_stay_attributes.

(* operators: Python looks a dunder up on the type, so __getattr__ cannot supply it.  Every dunder the tensordict classes define
   is on the class, except __iter__, which Python serves through __len__ / __getitem__ (the sequence protocol) *)
Definition operator_ok (st : installed) (n : string) : bool := match disp_st st n with DAbsent => false | _ => true end.
Definition sequence_protocol : list string := ["__iter__"].
Theorem C15_operators_dispatched :
  let st := install plain install_steps in forallb (fun d => mem d sequence_protocol || operator_ok st d) td_api_dunders = true.
Proof. vm_compute. reflexivity. Qed.
Print Assumptions C15_operators_dispatched.

(* torch functions: what __torch_function__ lets through is registered, the registrations read from the source are the ones
   found at run time, and every function registered for tensordicts is let through for tensorclasses *)
Theorem C15_pass_through_registered :
  forallb (fun f => mem f torch_handled_td) tbl_pass_through
  && forallb (fun f => mem f (torch_handled_td ++ torch_handled_lazy)) td_handled_runtime
  && forallb (fun f => mem f td_handled_runtime) (torch_handled_td ++ torch_handled_lazy) = true.
Proof. vm_compute. reflexivity. Qed.
Print Assumptions C15_pass_through_registered.
Theorem C15_torch_functions_pass : forallb (fun f => mem f tbl_pass_through) torch_handled_td = true.
Proof. vm_compute. reflexivity. Qed.
Print Assumptions C15_torch_functions_pass.

(* ------------------------------------------------------------------------------------------------ the wrapper, all inputs *)
(* wrap_sound: whatever the tensordict method returned — itself, another tensordict, the out= argument, None, anything
   else, or a tuple of those — the wrapper installed for a wrap-table name returns the property's re-wrapping of it:
   self for itself, an instance of the class carrying every non-None non-tensor value for a tensordict whose keys are
   fields, out= as it is, tuples element by element.  (shape_pre: _non_tensordict has no shadowed key, holds only fields,
   and no non-None value of it sits under a key of the result — otherwise _from_tensordict raises KeyError.) *)
Theorem C15_wrap_sound : forall copy fields selfkeys nt r,
  shape_pre fields selfkeys nt r = true ->
  shape_ok fields selfkeys nt r (wrap_td_method false copy fields selfkeys nt r) = true.
Proof. exact wrap_sound. Qed.
Print Assumptions C15_wrap_sound.

(* the same statement for the no-wrap wrapper is false: a name placed in the no-wrap table whose method returns the tensordict
   itself hands out the underlying tensordict (what clear_refs_for_compile_ did before it was moved to the wrap table) *)
Definition C15_every_wrapper_sound_full_statement : Prop := forall no_wrap copy fields selfkeys nt r,
  shape_pre fields selfkeys nt r = true -> shape_ok fields selfkeys nt r (wrap_td_method no_wrap copy fields selfkeys nt r) = true.
Theorem C15_nowrap_leaks_refuted : exists fields selfkeys nt r,
  shape_pre fields selfkeys nt r = true /\ shape_ok fields selfkeys nt r (wrap_td_method true false fields selfkeys nt r) = false.
Proof. exists ["x"], ["x"], [], (R1 ASelf). vm_compute. split; reflexivity. Qed.
Print Assumptions C15_nowrap_leaks_refuted.

(* _from_tensordict: on success every field lives in exactly one of the two stores and nothing else is stored *)
Theorem C15_from_tensordict_partition : forall fields tdkeys nt nt', from_tensordict fields tdkeys nt = FOk nt' ->
  (forall f, In f fields -> (In f tdkeys /\ ~ In f (keys nt')) \/ (~ In f tdkeys /\ In f (keys nt')))
  /\ (forall k, In k tdkeys -> In k fields) /\ (forall k, In k (keys nt') -> In k fields).
Proof. exact from_td_partition. Qed.
Print Assumptions C15_from_tensordict_partition.

(* ... non-None non-tensor values are carried unchanged ... *)
Theorem C15_from_tensordict_carries : forall fields tdkeys nt nt', nodupb (keys nt) = true ->
  from_tensordict fields tdkeys nt = FOk nt' -> nt_carried nt nt' = true.
Proof. exact from_td_carries. Qed.
Print Assumptions C15_from_tensordict_carries.

(* ... a key given both as tensor and as non-None value, or a key that is not a field, is rejected *)
Theorem C15_from_tensordict_rejects : forall fields tdkeys nt,
  (clash tdkeys nt = true -> from_tensordict fields tdkeys nt = FErr EKey)
  /\ (clash tdkeys nt = false -> subset (tdkeys ++ keys nt) fields = false -> from_tensordict fields tdkeys nt = FErr EValue).
Proof. intros. split; [apply from_td_rejects_clash | apply from_td_rejects_foreign]. Qed.
Print Assumptions C15_from_tensordict_rejects.

(* ------------------------------------------------------------------------------------------------ attribute access = key access *)
Theorem C15_attr_is_key : forall fields s item, wfb fields s = true -> In item fields ->
  getattr fields s item = key_access s item.
Proof. exact attr_is_key. Qed.
Print Assumptions C15_attr_is_key.

(* an assigned value is read back (as tensor / collection / python value / None according to the cast rules) ... *)
Theorem C15_set_then_get : forall fields o h s k v id s',
  set_field fields false o h s k v id = SOk s' -> getattr fields s' k = readback o h v id.
Proof. exact set_then_get. Qed.
Print Assumptions C15_set_then_get.

(* ... the other fields are untouched, and every field stays in exactly one store *)
Theorem C15_set_frame : forall fields o h s k v id s' k',
  set_field fields false o h s k v id = SOk s' -> k <> k' -> getattr fields s' k' = getattr fields s k'.
Proof. exact set_frame. Qed.
Print Assumptions C15_set_frame.
Theorem C15_set_keeps_invariant : forall fields o h s k v id s',
  wfb fields s = true -> set_field fields false o h s k v id = SOk s' -> wfb fields s' = true.
Proof. exact set_wf. Qed.
Print Assumptions C15_set_keeps_invariant.

(* indexing keeps the keys of the tensordict part, copies the non-tensor store, keeps the invariant — for every index map *)
Theorem C15_getitem_keeps : forall at_index fields s s', getitem at_index false s = SOk s' ->
  keys (s_td s') = keys (s_td s) /\ s_nt s' = s_nt s /\ (wfb fields s = true -> wfb fields s' = true).
Proof. exact getitem_keeps. Qed.
Print Assumptions C15_getitem_keeps.

(* indexed assignment of a tensorclass value: keys the value holds as tensors leave self's non-tensor store and are written
   (or created) in the tensordict part; every field stays in exactly one store — for every write function *)
Theorem C15_setitem_keeps_invariant : forall written fields s same val s',
  wfb fields s = true -> wfb fields val = true ->
  setitem written false s (IVTc same val) = SOk s' -> wfb fields s' = true.
Proof. exact setitem_wf. Qed.
Print Assumptions C15_setitem_keeps_invariant.

(* ------------------------------------------------------------------------------------------------ several results: independence *)
(* Model/C15_Pieces.v: stores are heap objects, an instance is a pair of addresses.  rewrap_all = what _unbind, the tuple branch
   of _wrap_td_method (split, chunk, max(dim) ...), __torch_function__ (torch.unbind / torch.split) and _getitem do: one
   _from_tensordict(td_i, dict(self._non_tensordict)) per result.
   Every result gets its own, fresh, pairwise distinct non-tensor store; the tensordict heap and the stores that existed
   before are untouched; every result satisfies "every field in exactly one store" (hence attribute access = key access). *)
Theorem C15_pieces_own_fresh_stores : forall fields src tds h h' ps, rewrap_all fields h src tds = ROk h' ps ->
  h_td h' = h_td h
  /\ (exists ext, h_nt h' = h_nt h ++ ext /\ List.length ext = List.length tds)
  /\ map i_td ps = tds
  /\ map i_nt ps = seq (List.length (h_nt h)) (List.length tds)
  /\ (forall p, In p ps -> wf_h fields h' p = true)
  /\ (tds <> [] -> i_nt src < List.length (h_nt h)).
Proof. exact rewrap_all_spec. Qed.
Print Assumptions C15_pieces_own_fresh_stores.

Theorem C15_pieces_attr_is_key : forall fields src tds h h' ps p f, rewrap_all fields h src tds = ROk h' ps -> In p ps -> In f fields ->
  get_field_h fields h' p f = key_access_h h' p f.
Proof.
  intros fields src tds h h' ps p f R Hp Hf. apply rewrap_all_spec in R. destruct R as [_ [_ [_ [_ [W _]]]]]. specialize (W p Hp).
  unfold wf_h, get_field_h, key_access_h in *. destruct (view h' p) as [s|]; [|discriminate]. cbn. f_equal. apply attr_is_key; assumption.
Qed.
Print Assumptions C15_pieces_attr_is_key.

Theorem C15_unbind_keeps_source : forall fields src tds h h' ps, rewrap_all fields h src tds = ROk h' ps -> tds <> [] ->
  view h' src = view h src.
Proof. exact rewrap_keeps_source. Qed.
Print Assumptions C15_unbind_keeps_source.

(* THE FRAME THEOREM, stores: an assignment (any field, any kind of value, any class options) to result i leaves the non-tensor
   store of every sibling j <> i and of the source exactly as it was.  Unconditional. *)
Theorem C15_piece_stores_independent : forall fields src tds h h' ps i j pi pj lk o hn k v id h'',
  rewrap_all fields h src tds = ROk h' ps -> nth_error ps i = Some pi -> nth_error ps j = Some pj -> i <> j ->
  set_field_h fields lk o hn h' pi k v id = HOk h'' ->
  nth_error (h_nt h'') (i_nt pj) = nth_error (h_nt h') (i_nt pj) /\ nth_error (h_nt h'') (i_nt src) = nth_error (h_nt h) (i_nt src).
Proof.
  intros fields src tds h h' ps i j pi pj lk o hn k v id h'' R Hi Hj N S.
  destruct (edit_piece_frame fields src tds h h' ps i j pi pj h'' R Hi Hj N (set_field_h_edits _ _ _ _ _ _ _ _ _ _ S)) as [A [B _]]. auto.
Qed.
Print Assumptions C15_piece_stores_independent.

(* THE FRAME THEOREM, reads.  Full statement: after the assignment to result i, every sibling and the source read what they
   read before, and attribute access is still key access on them. *)
Definition C15_piece_edit_frame_full_statement : Prop := forall fields src tds h h' ps i j pi pj lk o hn k v id h'',
  rewrap_all fields h src tds = ROk h' ps -> nth_error ps i = Some pi -> nth_error ps j = Some pj -> i <> j ->
  set_field_h fields lk o hn h' pi k v id = HOk h'' ->
  (forall f, get_field_h fields h'' pj f = get_field_h fields h' pj f) /\ wf_h fields h'' pj = true
  /\ (forall f, In f fields -> get_field_h fields h'' pj f = key_access_h h'' pj f).
(* proved when result j does not wrap the same tensordict OBJECT as result i (the pieces of a dense tensordict never do) ... *)
Theorem C15_piece_edit_frame_partial : forall fields src tds h h' ps i j pi pj lk o hn k v id h'',
  rewrap_all fields h src tds = ROk h' ps -> nth_error ps i = Some pi -> nth_error ps j = Some pj -> i <> j ->
  set_field_h fields lk o hn h' pi k v id = HOk h'' ->
  (i_td pj <> i_td pi ->
     (forall f, get_field_h fields h'' pj f = get_field_h fields h' pj f) /\ wf_h fields h'' pj = true
     /\ (forall f, In f fields -> get_field_h fields h'' pj f = key_access_h h'' pj f))
  /\ (i_td src <> i_td pi -> forall f, get_field_h fields h'' src f = get_field_h fields h src f).
Proof.
  intros fields src tds h h' ps i j pi pj lk o hn k v id h'' R Hi Hj N S.
  destruct (edit_piece_frame fields src tds h h' ps i j pi pj h'' R Hi Hj N (set_field_h_edits _ _ _ _ _ _ _ _ _ _ S)) as [_ [_ [C [D E]]]].
  split; [|exact E]. intros Ntd. split; [apply C; exact Ntd|]. split; [apply D; exact Ntd|].
  intros f Hf. specialize (D Ntd). unfold wf_h, get_field_h, key_access_h in *. destruct (view h'' pj) as [s|]; [|discriminate].
  cbn. f_equal. apply attr_is_key; assumption.
Qed.
Print Assumptions C15_piece_edit_frame_partial.
(* ... the same frame for del_ *)
Theorem C15_piece_del_frame_partial : forall fields src tds h h' ps i j pi pj k h'',
  rewrap_all fields h src tds = ROk h' ps -> nth_error ps i = Some pi -> nth_error ps j = Some pj -> i <> j ->
  del_field_h h' pi k = HOk h'' ->
  nth_error (h_nt h'') (i_nt pj) = nth_error (h_nt h') (i_nt pj) /\ nth_error (h_nt h'') (i_nt src) = nth_error (h_nt h) (i_nt src)
  /\ (i_td pj <> i_td pi -> (forall f, get_field_h fields h'' pj f = get_field_h fields h' pj f) /\ wf_h fields h'' pj = true).
Proof.
  intros fields src tds h h' ps i j pi pj k h'' R Hi Hj N S.
  destruct (edit_piece_frame fields src tds h h' ps i j pi pj h'' R Hi Hj N (del_field_h_edits _ _ _ _ S)) as [A [B [C [D _]]]]. auto.
Qed.
Print Assumptions C15_piece_del_frame_partial.
(* ... and FALSE when two results wrap one tensordict object (the same member of a lazy stack reached twice: tc[0] and
   tc.unbind(0)[0]): assigning a tensor to the Optional field through one handle puts it in the shared tensordict, while the
   other handle keeps a stale None in its own store and goes on reading None: finding D183 *)
Theorem C15_piece_edit_frame_refuted : exists fields src tds h h' ps pi pj h'',
  rewrap_all fields h src tds = ROk h' ps /\ nth_error ps 0 = Some pi /\ nth_error ps 1 = Some pj
  /\ set_field_h fields false {| o_autocast := false; o_nocast := false |} HAny h' pi "o" VkTensor 7 = HOk h''
  /\ wf_h fields h'' pj = false /\ get_field_h fields h'' pj "o" <> key_access_h h'' pj "o".
Proof.
  exists ["x"; "o"], {| i_td := 0; i_nt := 0 |}, [1; 1],
         {| h_td := [[("x", VTensor 1)]; [("x", VTensor 2)]]; h_nt := [[("o", NNone)]] |}.
  eexists. eexists. eexists. eexists. eexists.
  split; [vm_compute; reflexivity|]. split; [reflexivity|]. split; [reflexivity|]. split; [vm_compute; reflexivity|].
  split; [vm_compute; reflexivity|]. vm_compute. discriminate.
Qed.
Print Assumptions C15_piece_edit_frame_refuted.

(* the edited result itself keeps its invariant and reads back what was assigned *)
Theorem C15_set_piece_self : forall fields src tds h h' ps i pi o hn k v id h'',
  rewrap_all fields h src tds = ROk h' ps -> nth_error ps i = Some pi ->
  set_field_h fields false o hn h' pi k v id = HOk h'' ->
  wf_h fields h'' pi = true /\ get_field_h fields h'' pi k = Some (readback o hn v id).
Proof. exact set_piece_self. Qed.
Print Assumptions C15_set_piece_self.

(* ------------------------------------------------------------------------------------------------ n-ary functions: row provenance *)
(* torch.cat under a non-tensor key, ANY number of operands (NonTensorData or NonTensorStack along the dimension), values with
   identity, equality class and possibly a raising ==: the rows of the result carry, position by position, the python value of
   the rows of the operands laid side by side (_same_non_tensor + the non-tensor branch of _cat) *)
Theorem C15_cat_rows_provenance : forall items, forallb is_nt items = true -> ident_ok (flat_map item_objs items) ->
  Forall2 val_eq (res_rows (cat_nt items)) (flat_map item_rows items).
Proof. exact cat_rows_provenance. Qed.
Print Assumptions C15_cat_rows_provenance.
(* by row number: the result's value at row r equals the value of the operand that owns row r *)
Theorem C15_cat_row_owner : forall items r x, forallb is_nt items = true -> ident_ok (flat_map item_objs items) ->
  owner_row items r = Some x -> exists y, nth_error (res_rows (cat_nt items)) r = Some y /\ ocls y = ocls x.
Proof. exact cat_row_owner. Qed.
Print Assumptions C15_cat_row_owner.
(* torch.stack of NonTensorData operands (NonTensorData._stack_non_tensor, ids + _check_equal): entry k carries operand k's value *)
Theorem C15_stack_rows_provenance : forall items, forallb is_ntd items = true -> items <> [] -> ident_ok (flat_map item_objs items) ->
  Forall2 val_eq (res_rows (stack_nt items)) (flat_map item_objs items).
Proof. exact stack_rows_provenance. Qed.
Print Assumptions C15_stack_rows_provenance.

(* payloads held in _non_tensordict (Cls.from_tensordict(td, non_tensordict)): the result of an n-ary function is given a copy
   of the FIRST operand's store.  Full statement: the value the result holds for a field is the value of whichever operand a
   row comes from. *)
Definition C15_nary_store_provenance_full_statement : Prop := forall stores s k sk f,
  nary_store stores = Some s -> nth_error stores k = Some sk -> lookup f s = lookup f sk.
Theorem C15_nary_store_provenance_partial : forall stores s k sk f, nary_store stores = Some s -> nth_error stores k = Some sk ->
  (forall a b, In a stores -> In b stores -> lookup f a = lookup f b) -> lookup f s = lookup f sk.
Proof. exact nary_store_agreeing. Qed.
Print Assumptions C15_nary_store_provenance_partial.
Theorem C15_nary_store_provenance_refuted : exists stores s k sk f,
  nary_store stores = Some s /\ nth_error stores k = Some sk /\ lookup f s <> lookup f sk.
Proof. exists [[("meta", NVal 1)]; [("meta", NVal 2)]], [("meta", NVal 1)], 1, [("meta", NVal 2)], "meta". cbn. repeat split; discriminate. Qed.
Print Assumptions C15_nary_store_provenance_refuted.

(* ------------------------------------------------------------------------------------------------ non-vacuity *)
(* three results of one unbind, the Optional field of the first is filled: the others and the source still read None *)
Example C15_ex_frame :
  let fields := ["x"; "o"; "s"] in
  let h := {| h_td := [[("x", VTensor 1); ("s", VNonTensor 5)]; [("x", VTensor 2); ("s", VNonTensor 5)];
                       [("x", VTensor 3); ("s", VNonTensor 5)]; [("x", VTensor 4); ("s", VNonTensor 5)]]; h_nt := [[("o", NNone)]] |} in
  let src := {| i_td := 0; i_nt := 0 |} in
  exists h' p0 p1 p2 h'', rewrap_all fields h src [1; 2; 3] = ROk h' [p0; p1; p2]
    /\ set_field_h fields false {| o_autocast := false; o_nocast := false |} HAny h' p0 "o" VkTensor 9 = HOk h''
    /\ get_field_h fields h'' p0 "o" = Some (GTensor 9) /\ get_field_h fields h'' p1 "o" = Some GNoneV
    /\ get_field_h fields h'' p2 "o" = Some GNoneV /\ get_field_h fields h'' src "o" = Some GNoneV
    /\ i_td p1 <> i_td p0.
Proof. cbv zeta. do 5 eexists. split; [vm_compute; reflexivity|]. split; [vm_compute; reflexivity|]. vm_compute. repeat split; discriminate. Qed.
(* the frame theorem tells the library from the variant that hands ONE copy of the store to every result (not the library):
   there the sibling loses the field *)
Example C15_ex_frame_discriminates :
  let fields := ["x"; "o"] in
  let h := {| h_td := [[("x", VTensor 1)]; [("x", VTensor 2)]; [("x", VTensor 3)]]; h_nt := [[("o", NNone)]] |} in
  let src := {| i_td := 0; i_nt := 0 |} in
  exists h' p0 p1 h'', rewrap_all_shared fields h src [1; 2] = ROk h' [p0; p1]
    /\ set_field_h fields false {| o_autocast := false; o_nocast := false |} HAny h' p0 "o" VkTensor 9 = HOk h''
    /\ i_td p1 <> i_td p0 /\ get_field_h fields h' p1 "o" = Some GNoneV /\ get_field_h fields h'' p1 "o" = Some (GRaise EKey).
Proof. cbv zeta. do 4 eexists. split; [vm_compute; reflexivity|]. split; [vm_compute; reflexivity|]. vm_compute. repeat split; discriminate. Qed.
(* cat of three operands, the first two equal but not identical, the third different: a stack of the operands' rows *)
Example C15_ex_cat :
  let a := {| oid := 1; ocls := 0; oraises := false |} in let a' := {| oid := 2; ocls := 0; oraises := false |} in
  let b := {| oid := 3; ocls := 1; oraises := false |} in
  same_non_tensor [INtd 2 a; INtd 2 a'; INtd 2 b] = false
  /\ map ocls (res_rows (cat_nt [INtd 2 a; INtd 2 a'; INtd 2 b])) = [0; 0; 0; 0; 1; 1]
  /\ map ocls (res_rows (cat_nt [INtd 2 a; INtd 1 a'; INtd 3 a])) = [0; 0; 0; 0; 0; 0]
  /\ forallb is_nt [INtd 2 a; INtd 2 a'; INtd 2 b] = true.
Proof. vm_compute. repeat split; reflexivity. Qed.
(* ... and the row-provenance theorem tells the library from the loop that returns the outcome of the first comparison *)
Example C15_ex_cat_discriminates :
  let a := {| oid := 1; ocls := 0; oraises := false |} in let a' := {| oid := 2; ocls := 0; oraises := false |} in
  let b := {| oid := 3; ocls := 1; oraises := false |} in
  let broken := fun items => match items with INtd _ v :: r => same_loop_first_only v r | _ => false end in
  map ocls (res_rows (cat_key broken [INtd 2 a; INtd 2 a'; INtd 2 b])) = [0; 0; 0; 0; 0; 0].
Proof. vm_compute. reflexivity. Qed.
Example C15_ex_stack :
  let a := {| oid := 1; ocls := 0; oraises := false |} in let a' := {| oid := 2; ocls := 0; oraises := false |} in
  let b := {| oid := 3; ocls := 1; oraises := false |} in let z := {| oid := 4; ocls := 2; oraises := true |} in
  map ocls (res_rows (stack_nt [INtd 1 a; INtd 1 a'; INtd 1 b])) = [0; 0; 1]
  /\ stack_nt [INtd 1 a; INtd 1 a'; INtd 1 a] = NData 3 a
  /\ stack_nt [INtd 1 z; INtd 1 z] = NData 2 z /\ stack_nt [INtd 1 z; INtd 1 a; INtd 1 z] = NStack [z; a; z].
Proof. vm_compute. repeat split; reflexivity. Qed.
Example C15_ex_setitem : setitem (fun _ j => j) false {| s_td := [("x", VTensor 1)]; s_nt := [("o", NNone); ("s", NVal 2)] |}
    (IVTc true {| s_td := [("x", VTensor 5); ("o", VTensor 6)]; s_nt := [("s", NVal 2)] |})
  = SOk {| s_td := [("x", VTensor 5); ("o", VTensor 6)]; s_nt := [("s", NVal 2)] |}.
Proof. reflexivity. Qed.
Example C15_ex_wrap : shape_pre ["x"; "y"; "s"; "o"] ["x"; "y"; "s"] [("o", NNone)] (RTuple [ATd ["x"; "y"] false; ASelf; ANone]) = true
  /\ wrap_td_method false false ["x"; "y"; "s"; "o"] ["x"; "y"; "s"] [("o", NNone)] (RTuple [ATd ["x"; "y"] false; ASelf; ANone])
     = TTuple [TWrapped ["x"; "y"] [("o", NNone); ("s", NNone)] false false; TWrapped ["x"; "y"; "s"] [("o", NNone)] false true; TNone].
Proof. vm_compute. split; reflexivity. Qed.
Example C15_ex_wrap_legacy : shape_pre ["x"; "s"] ["x"] [("s", NVal 3)] (R1 (ATd ["x"] false)) = true
  /\ wrap_td_method false true ["x"; "s"] ["x"] [("s", NVal 3)] (R1 (ATd ["x"] false)) = T1 (TWrapped ["x"] [("s", NVal 3)] true false).
Proof. vm_compute. split; reflexivity. Qed.
Example C15_ex_from_td : from_tensordict ["x"; "y"; "s"; "o"] ["x"; "y"] [("s", NVal 1); ("x", NNone)] = FOk [("s", NVal 1); ("o", NNone)].
Proof. reflexivity. Qed.
Example C15_ex_attr : wfb ["x"; "s"; "o"] {| s_td := [("x", VTensor 1); ("s", VNonTensor 2)]; s_nt := [("o", NNone)] |} = true
  /\ getattr ["x"; "s"; "o"] {| s_td := [("x", VTensor 1); ("s", VNonTensor 2)]; s_nt := [("o", NNone)] |} "s" = GPy 2.
Proof. vm_compute. split; reflexivity. Qed.
Example C15_ex_set_autocast_dict : set_field ["y"; "inner"] false {| o_autocast := true; o_nocast := false |} HCollT
    {| s_td := [("y", VTensor 1)]; s_nt := [("inner", NNone)] |} "inner" VkDict 7
  = SOk {| s_td := [("y", VTensor 1); ("inner", VColl 7)]; s_nt := [] |}.
Proof. reflexivity. Qed.
Example C15_ex_set : set_field ["x"; "o"] false {| o_autocast := false; o_nocast := false |} HAny
    {| s_td := [("x", VTensor 1)]; s_nt := [("o", NNone)] |} "o" VkNumber 5
  = SOk {| s_td := [("x", VTensor 1); ("o", VTensor 5)]; s_nt := [] |}.
Proof. reflexivity. Qed.
(* each dispatch class is inhabited (stated without naming a table entry, so that moving a name does not touch it) *)
Example C15_ex_dispatch : let st := install plain install_steps in
  existsb (fun n => is_wrap (disp_st st n)) td_public
  && existsb (fun n => match disp_st st n with DInstalled KNoWrap => true | _ => false end) td_public
  && existsb (fun n => match disp_st st n with DInstalled KDirect => true | _ => false end) td_public
  && existsb (fun n => match disp_st st n with DInstalled KExplicit => true | _ => false end) td_public
  && existsb (fun n => match disp_st st n with DInstalled KClassmethod => true | _ => false end) td_public
  && existsb (fun n => match disp_st st n with DAbsent => true | _ => false end) td_api_dunders = true.
Proof. vm_compute. reflexivity. Qed.
