(* C08 -- placeholder while the harness is being brought up *)
From Coq Require Import ZArith List Bool.
From TD Require Import Spec.C08_Dense Model.C08_Lazy.
Theorem C08_compute_batch_size : forall bs sd n, compute_batch_size bs sd n = insert_at sd n bs.
Proof. reflexivity. Qed.
Print Assumptions C08_compute_batch_size.
