(* C08 -- a lazy stack equals the dense stack and is a write-through view of its members.
   Property theorems only: each is closed by [exact] of a lemma proved in Proofs/C08_*.v and followed by
   Print Assumptions (parsed by the harness on every run).
   Vocabulary (Spec/C08_Dense.v): [arr] array expressions; [Stack sd _ parts] is the DENSE stack (coordinate insertion);
   [Index idx a] is torch indexing ([res_shape]/[src_of], validated against real torch on every run);
   [shape_of]/[at_] give the batch size and, for every position, which element of which member sits there.
   Model (Model/C08_Lazy.v, C08_Write.v): what LazyStackedTensorDict builds out of its members. *)
From Coq Require Import ZArith List Bool Lia.
Import ListNotations.
From TD Require Import Spec.PySlice Spec.C08_Dense Model.C08_Lazy Model.C08_Write
  Proofs.C08_CoordP Proofs.C08_IndexP Proofs.C08_EllP Proofs.C08_AdvP Proofs.C08_ShapeP Proofs.C08_CatP Proofs.C08_WriteP
  Proofs.C08_TenP Proofs.C08_TenWP Proofs.C08_MaskP Proofs.C08_Mask1P Proofs.C08_UnbindP Proofs.C08_UpdateP.
Open Scope Z_scope.

(* ---- the stack itself ------------------------------------------------------------------------------------- *)
(* _compute_batch_size: the batch size of a lazy stack is the dense stack's, for every rank / stack dim / member count *)
Theorem C08_compute_batch_size : forall sd bs0 parts bs,
  parts <> [] -> Forall (fun p => shape_of p = Some bs) parts -> (sd <= List.length bs)%nat ->
  shape_of (Stack sd bs0 parts) = Some (compute_batch_size bs sd (lenZ parts)).
Proof. exact shape_of_stack. Qed.
Print Assumptions C08_compute_batch_size.

(* the stack is coordinate insertion: element I is element (I without coordinate sd) of member I[sd] *)
Theorem C08_stack_is_coordinate_insertion : forall sd bs0 parts I,
  at_ (Stack sd bs0 parts) I =
  match nth_error I sd with
  | Some k => match nthZ parts k with Some x => at_ x (remove_at sd I) | None => None end
  | None => None
  end.
Proof. exact at_stack. Qed.
Print Assumptions C08_stack_is_coordinate_insertion.

(* ---- reads by index ---------------------------------------------------------------------------------------- *)
(* split_index_basic [full]: for EVERY index made of ints, slices and None (any length, any rank), EVERY stack dim,
   member count and nesting depth (stacks of stacks of ...), whenever torch accepts the index on the dense stack and
   lazy.__getitem__ returns, what it returns denotes dense[idx]: same batch size, same element at every position *)
Theorem C08_getitem_basic : forall fuel self bs idx a' rsd,
  wf_tree self bs -> basic idx -> res_shape idx bs = Some rsd ->
  lz_getitem fuel self idx = Ok a' -> equiv a' (Index idx self).
Proof. exact getitem_basic. Qed.
Print Assumptions C08_getitem_basic.

(* ... and with an Ellipsis: utils.convert_ellipsis_to_idx yields the numpy/torch expansion (as many full slices as there
   are dims not addressed by the other items), for every index of ints / slices / None / Ellipsis and every rank ... *)
Theorem C08_convert_ellipsis_spec : forall idx rank l,
  ell_basic idx -> spec_expand idx rank = Some l -> convert_ellipsis idx rank = Ok l.
Proof. exact convert_ellipsis_spec. Qed.
Print Assumptions C08_convert_ellipsis_spec.

(* ... so lazy[idx] with an Ellipsis denotes dense[idx] too, at any nesting depth *)
Theorem C08_getitem_ellipsis : forall fuel sd bs0 parts bs idx l a' rsd,
  wf_tree (Stack sd bs0 parts) bs -> ell_basic idx -> spec_expand idx (List.length bs) = Some l -> res_shape l bs = Some rsd ->
  lz_getitem fuel (Stack sd bs0 parts) idx = Ok a' -> equiv a' (Index l (Stack sd bs0 parts)).
Proof. exact getitem_ellipsis. Qed.
Print Assumptions C08_getitem_ellipsis.

(* the cursor arithmetic behind it: for a slice on the stack dim _split_index selects members range(n)[a:b:c], hands
   every member the index without that item, counts the ints / Nones before the stack dim ... *)
Theorem C08_split_index_slice : forall sd n shape pre a b c post,
  basic pre -> consumed pre = sd -> Forall post_item post -> one_adv (pre ++ ISl a b c :: post) -> (step_of c =? 0) = false ->
  split_index sd n shape (pre ++ ISl a b c :: post) =
  Ok (mk_split (KDict (map (fun j => (j, pre ++ post)) (range_elems (py_indices a b (step_of c) (Z.of_nat n)))))
               (count_int pre) (count_none pre) false).
Proof. exact split_index_slice. Qed.
Print Assumptions C08_split_index_slice.

(* ... and the new stack dim  stack_dim - num_single + num_none  is the number of result dims produced before it *)
Theorem C08_new_stack_dim : forall pre, basic pre ->
  Z.of_nat (consumed pre) - count_int pre + count_none pre = Z.of_nat (rdims_l pre).
Proof. exact nsd_basic. Qed.
Print Assumptions C08_new_stack_dim.

(* split_index_one_adv [partial]: ONE advanced index (integer tensor of any rank and any values, boolean mask of any
   rank >= 1) located AFTER the stack dim, ints/slices/None before it, int or slice on it; flat stack of plain members *)
Theorem C08_getitem_adv_after_stack_dim : forall fuel sd bs0 parts bs pre x post a' rsd,
  parts <> [] -> Forall (fun p => wf_tree p bs /\ is_stack p = false) parts -> (sd <= List.length bs)%nat ->
  basic pre -> consumed pre = sd -> ((exists j, x = IInt j) \/ (exists a b c, x = ISl a b c)) -> Forall post_item post ->
  res_shape (pre ++ x :: post) (insert_at sd (lenZ parts) bs) = Some rsd ->
  lz_getitem (S fuel) (Stack sd bs0 parts) (pre ++ x :: post) = Ok a' ->
  equiv a' (Index (pre ++ x :: post) (Stack sd bs0 parts)).
Proof. exact getitem_adv_after. Qed.
Print Assumptions C08_getitem_adv_after_stack_dim.

(* ... and ONE advanced index BEFORE the stack dim: an integer tensor of any rank >= 1 (the code's num_single -= ndim - 1)
   or a boolean mask of any rank >= 1 that ends before the stack dim (num_squash += ndim - 1); basic items around it *)
Theorem C08_getitem_adv_before_stack_dim : forall fuel sd bs0 parts bs p1 A p2 x post a' rsd,
  parts <> [] -> Forall (fun p => wf_tree p bs /\ is_stack p = false) parts -> (sd <= List.length bs)%nat ->
  basic p1 -> adv_before A -> basic p2 -> consumed (p1 ++ A :: p2) = sd ->
  ((exists j, x = IInt j) \/ (exists a b c, x = ISl a b c)) -> basic post ->
  res_shape ((p1 ++ A :: p2) ++ x :: post) (insert_at sd (lenZ parts) bs) = Some rsd ->
  lz_getitem (S fuel) (Stack sd bs0 parts) ((p1 ++ A :: p2) ++ x :: post) = Ok a' ->
  equiv a' (Index ((p1 ++ A :: p2) ++ x :: post) (Stack sd bs0 parts)).
Proof. exact getitem_adv_before. Qed.
Print Assumptions C08_getitem_adv_before_stack_dim.

(* split_index_adv_on_stack, integer tensor / list / range [full for this placement]: ONE integer tensor of ANY rank >= 1
   and any values (negative ones included) sitting ON the stack dim, ints / slices / None before and after it, members
   nested to ANY depth: _split_index's nested list of (member, sub-index) + __getitem__'s recompose denote dense[idx] --
   the tensor's dims land where the stack dim was (stack_dim - num_single + num_none), the member is chosen by the VALUE *)
Theorem C08_getitem_tensor_on_stack_dim : forall fuel sd bs0 parts bs pre t0 tsh vals post a' rsd,
  wf_tree (Stack sd bs0 parts) bs -> basic pre -> consumed pre = sd -> basic post ->
  res_shape (pre ++ ITen (t0 :: tsh) vals :: post) bs = Some rsd ->
  lz_getitem fuel (Stack sd bs0 parts) (pre ++ ITen (t0 :: tsh) vals :: post) = Ok a' ->
  equiv a' (Index (pre ++ ITen (t0 :: tsh) vals :: post) (Stack sd bs0 parts)).
Proof. exact getitem_ten_on_stack. Qed.
Print Assumptions C08_getitem_tensor_on_stack_dim.

(* what _split_index returns for it: the nested list tolist() of the tensor, the shared sub-index, the counters *)
Theorem C08_split_index_tensor_on_stack_dim : forall sd n shape pre tsh vals post,
  basic pre -> consumed pre = sd -> Forall post_item post -> one_adv (pre ++ ITen tsh vals :: post) ->
  (lenZ vals =? prodZ tsh) = true ->
  split_index sd n shape (pre ++ ITen tsh vals :: post) =
  Ok (mk_split_nd (KNest (to_nest tsh vals) (pre ++ post)) (count_int pre) (count_none pre)).
Proof. exact split_index_ten. Qed.
Print Assumptions C08_split_index_tensor_on_stack_dim.

(* a boolean mask whose first dim sits ON the stack dim (rank 1 = a mask of members; rank >= 2 = it reaches past the stack
   dim): what _split_index returns -- member j gets the index with row j of the mask in place of the mask, the counters,
   mask_loc; split_dim is [split_dim_of fixed_D36 ..] (see below) *)
Theorem C08_split_index_mask_on_stack_dim : forall sd n shape pre m0 msh bits ms post,
  basic pre -> consumed pre = sd -> Forall post_item post -> one_adv (pre ++ IMask (m0 :: msh) bits :: post) ->
  mask_unbind (m0 :: msh) bits = Ok ms -> List.length ms = n ->
  split_index sd n shape (pre ++ IMask (m0 :: msh) bits :: post) =
  Ok (mk_split_mask (map (fun j => (j, pre ++ nth (Z.to_nat j) ms INone :: post)) (map Z.of_nat (seq 0 n)))
                    (count_int pre) (count_none pre)
                    (split_dim_of fixed_D36 (Z.of_nat sd) (count_int pre) (count_none pre)) (List.length pre) ms).
Proof. exact split_index_mask_on. Qed.
Print Assumptions C08_split_index_mask_on_stack_dim.

(* split_index_adv_on_stack, rank-1 boolean mask (a mask of members) [partial: flat stack of plain members with at least
   one batch dim; at least one member selected -- nothing selected is the D31r region]: every stack dim, ints / slices / None
   before and after the mask: lazy[pre, mask, post] denotes dense[pre, mask, post] (member j's 0-dim True mask adds the dim
   that squeeze(cat_dim) removes again; the selected members are stacked at cat_dim) *)
Theorem C08_getitem_mask1_on_stack_dim_partial : forall fuel sd bs0 parts bs pre n bits post a' rsd,
  parts <> [] -> Forall (fun p => wf_tree p bs /\ is_stack p = false) parts -> (sd <= List.length bs)%nat -> bs <> [] ->
  basic pre -> consumed pre = sd -> basic post -> existsb (fun b => b) bits = true ->
  res_shape (pre ++ IMask [n] bits :: post) (insert_at sd (lenZ parts) bs) = Some rsd ->
  lz_getitem (S fuel) (Stack sd bs0 parts) (pre ++ IMask [n] bits :: post) = Ok a' ->
  equiv a' (Index (pre ++ IMask [n] bits :: post) (Stack sd bs0 parts)).
Proof. exact getitem_mask1_on_stack. Qed.
Print Assumptions C08_getitem_mask1_on_stack_dim_partial.

(* reads: cat_dim = mask_loc - num_single is the number of result dims produced before the mask (where torch puts the
   mask's result dim), for every prefix of ints / slices / None *)
Theorem C08_mask_cat_dim : forall pre, basic pre -> Z.of_nat (List.length pre) - count_int pre = Z.of_nat (rdims_l pre).
Proof. exact cat_dim_basic. Qed.
Print Assumptions C08_mask_cat_dim.

(* writes: split_dim must be that same dim of the value.  The REPAIRED formula (fixes/C08/C08-D36: + num_none) is [full] ... *)
Theorem C08_mask_split_dim_repaired : forall pre, basic pre ->
  split_dim_of true (Z.of_nat (consumed pre)) (count_int pre) (count_none pre) = Z.of_nat (rdims_l pre).
Proof. exact split_dim_fixed. Qed.
Print Assumptions C08_mask_split_dim_repaired.
(* ... the formula of the code today is right when no None precedes the mask [partial] ... *)
Theorem C08_mask_split_dim_partial : forall pre, basic pre -> count_none pre = 0 ->
  split_dim_of false (Z.of_nat (consumed pre)) (count_int pre) (count_none pre) = Z.of_nat (rdims_l pre).
Proof. exact split_dim_partial. Qed.
Print Assumptions C08_mask_split_dim_partial.
(* ... and wrong with one [refuted]: lazy[None, mask] = V splits V along dim 0 instead of 1; the write raises (C08-D36) *)
Theorem C08_mask_split_dim_refuted : exists pre, basic pre /\
  split_dim_of false (Z.of_nat (consumed pre)) (count_int pre) (count_none pre) <> Z.of_nat (rdims_l pre).
Proof. exact split_dim_refuted. Qed.
Print Assumptions C08_mask_split_dim_refuted.

(* the full statement (any single advanced index anywhere, any nesting) is NOT proved.  Still by correspondence only: masks of
   rank >= 2 starting on or reaching across the stack dim (reads and writes), rank-1 masks on nested stacks / on members without
   batch dims / selecting nothing, write plans through masks, an advanced index before / after the stack dim of NESTED stacks;
   the repairs C08-D28/D29/D30/D34 of those paths are in the model and exercised by the correspondence run *)
Definition C08_getitem_one_adv_full_statement : Prop :=
  forall fuel self bs idx a' rsd,
    wf_tree self bs -> Forall (fun it => is_ell it = false) idx -> one_adv idx -> res_shape idx bs = Some rsd ->
    lz_getitem fuel self idx = Ok a' -> equiv a' (Index idx self).

(* ---- writes by index --------------------------------------------------------------------------------------- *)
(* write_through [partial]: lazy[pre, a:b:c, post] = V performs exactly one in-place write per selected member:
   member range(n)[a:b:c][k] receives, at the sub-index the read uses, the k-th slice of V along the dim where the
   read puts the stack dim -- so the write lands where C08_getitem_basic reads, and no member object is replaced *)
Theorem C08_setitem_slice_plan : forall fuel sd bs0 parts bs pre a b c post v vsh plan,
  parts <> [] -> Forall (fun p => shape_of p = Some bs /\ is_stack p = false) parts -> (sd <= List.length bs)%nat ->
  basic pre -> consumed pre = sd -> basic post -> pre ++ post <> [] -> (step_of c =? 0) = false ->
  shape_of v = Some vsh -> res_shape (pre ++ ISl a b c :: post) (insert_at sd (lenZ parts) bs) = Some vsh ->
  lz_setitem (S fuel) (Stack sd bs0 parts) (pre ++ ISl a b c :: post) v = Ok plan ->
  exists ms, Forall2 (fun j m => member parts j = Ok m) (range_elems (py_indices a b (step_of c) (lenZ parts))) ms /\
             plan = write_plan_of ms (pre ++ post) (rdims_l pre) v.
Proof. exact setitem_slice_plan. Qed.
Print Assumptions C08_setitem_slice_plan.

(* write_through on the former D23 region (repaired by fix C08-D23): lazy[T] = V with an integer tensor T of rank 1 that is
   the whole index on stack dim 0 updates member T[i] IN PLACE with V[i], for every T; no member object is replaced *)
Theorem C08_setitem_tensor_alone : forall fuel bs0 parts bs k vals v vsh plan,
  parts <> [] -> Forall (fun p => shape_of p = Some bs /\ is_stack p = false) parts ->
  shape_of v = Some vsh -> res_shape [ITen [k] vals] (insert_at 0 (lenZ parts) bs) = Some vsh ->
  lz_setitem (S (S fuel)) (Stack 0 bs0 parts) [ITen [k] vals] v = Ok plan ->
  exists ms, Forall2 (fun j m => member parts j = Ok m) vals ms /\ plan = tensor_plan_of ms v.
Proof. exact setitem_tensor_alone. Qed.
Print Assumptions C08_setitem_tensor_alone.

(* write_through, integer tensor / list / range ON the stack dim [full for flat stacks of plain members]: every rank >= 1 of
   the tensor, every stack dim, ints / slices / None before and after it.  The plan is ONE in-place write per position p of
   T: into the member chosen by the VALUE T[p] (ms lists them row-major), at the sub-index the read uses, of the slice
   V[.., p, ..] chosen by the POSITION p (dim = where the read puts the tensor's dims); no member object is replaced.
   [ten_plan] (Proofs/C08_TenWP.v): rank 1 = [write_plan_of]; rank >= 2 = row i of T served with V[.., i, ..], recursively *)
Theorem C08_setitem_tensor_on_stack_dim : forall fuel sd bs0 parts bs pre t0 tsh vals post v vsh plan,
  parts <> [] -> Forall (fun p => shape_of p = Some bs /\ is_stack p = false) parts -> (sd <= List.length bs)%nat ->
  Forall (fun s => 0 <= s) bs ->
  basic pre -> consumed pre = sd -> basic post ->
  shape_of v = Some vsh -> res_shape (pre ++ ITen (t0 :: tsh) vals :: post) (insert_at sd (lenZ parts) bs) = Some vsh ->
  lz_setitem (S (S fuel)) (Stack sd bs0 parts) (pre ++ ITen (t0 :: tsh) vals :: post) v = Ok plan ->
  exists ms, Forall2 (fun j m => member parts j = Ok m) vals ms /\
             plan = ten_plan (pre ++ post) (rdims_l pre) (t0 :: tsh) ms v.
Proof. exact setitem_ten_plan. Qed.
Print Assumptions C08_setitem_tensor_on_stack_dim.

(* rank 1 spelled out (the region of the seeded slip C08-1): member T[i] <- V[.., i, ..] *)
Theorem C08_setitem_tensor1_on_stack_dim : forall fuel sd bs0 parts bs pre t0 vals post v vsh plan,
  parts <> [] -> Forall (fun p => shape_of p = Some bs /\ is_stack p = false) parts -> (sd <= List.length bs)%nat ->
  Forall (fun s => 0 <= s) bs ->
  basic pre -> consumed pre = sd -> basic post ->
  shape_of v = Some vsh -> res_shape (pre ++ ITen [t0] vals :: post) (insert_at sd (lenZ parts) bs) = Some vsh ->
  lz_setitem (S (S fuel)) (Stack sd bs0 parts) (pre ++ ITen [t0] vals :: post) v = Ok plan ->
  exists ms, Forall2 (fun j m => member parts j = Ok m) vals ms /\
             plan = write_plan_of ms (pre ++ post) (rdims_l pre) v.
Proof. exact setitem_ten1_plan. Qed.
Print Assumptions C08_setitem_tensor1_on_stack_dim.

(* write_through for update_ [full for flat stacks of plain members and a source that is dense or lazily stacked along the
   same dim]: one in-place update per member object, member k receiving a piece that denotes source[:, .., :, k]
   (= source.unbind(stack_dim)[k]); every rank, stack dim and member count.  A lazy source stacked along ANOTHER dim
   (the seeded slip C08-2) goes through _unbind across the stack dim: model + correspondence (stream update_) only *)
Theorem C08_update__write_through : forall fuel sd bs0 parts bs src plan,
  parts <> [] -> Forall (fun p => shape_of p = Some bs /\ is_stack p = false) parts -> (sd <= List.length bs)%nat ->
  Forall (fun s => 0 <= s) bs ->
  shape_of src = Some (insert_at sd (lenZ parts) bs) ->
  (is_stack src = false \/
   exists sbs0 sparts, src = Stack sd sbs0 sparts /\ sparts <> [] /\
                       Forall (fun p => shape_of p = Some bs) sparts /\ Forall (fun p => sound p bs) sparts) ->
  lz_update_ (S (S fuel)) (Stack sd bs0 parts) src = Ok plan ->
  exists pieces, List.length pieces = List.length parts /\
    plan = map (fun mp => WSet (fst mp) [] (snd mp)) (combine parts pieces) /\
    forall k piece, nth_error pieces k = Some piece -> equiv piece (Index (select_idx sd (Z.of_nat k)) src).
Proof. exact update__write_through. Qed.
Print Assumptions C08_update__write_through.

(* ---- shape operations -------------------------------------------------------------------------------------- *)
(* lazy_shape_ops / transpose [full for flat stacks] (after fix C08-D26): every rank, every stack dim, EVERY pair of dims *)
Theorem C08_transpose : forall sd bs0 parts bs,
  parts <> [] -> Forall (fun p => shape_of p = Some bs) parts -> Forall (fun p => is_stack p = false) parts ->
  (sd <= List.length bs)%nat ->
  forall fuel d0 d1 a',
  (d0 < d1 < S (List.length bs))%nat ->
  lz_transpose (S fuel) (Stack sd bs0 parts) (Z.of_nat d0) (Z.of_nat d1) = Ok a' ->
  equiv_in a' (Transp d0 d1 (Stack sd bs0 parts)).
Proof. exact transpose_full. Qed.
Print Assumptions C08_transpose.

(* unsqueeze [full for flat stacks]: every rank, every stack dim, every position *)
Theorem C08_unsqueeze : forall sd bs0 parts bs,
  parts <> [] -> Forall (fun p => shape_of p = Some bs) parts -> Forall (fun p => is_stack p = false) parts ->
  (sd <= List.length bs)%nat ->
  forall fuel d a', (d <= S (List.length bs))%nat ->
  lz_unsqueeze (S fuel) (Stack sd bs0 parts) (Z.of_nat d) = Ok a' -> equiv_in a' (Unsq d (Stack sd bs0 parts)).
Proof. exact unsqueeze_ok. Qed.
Print Assumptions C08_unsqueeze.

(* unbind_stackdim [full]: lazy.unbind(stack_dim) returns the member list itself, and member k denotes
   dense.unbind(stack_dim)[k] = dense[:, .., :, k]; every rank, every stack dim, members of any kind (nested stacks too) *)
Theorem C08_unbind_stackdim : forall sd bs0 parts bs fuel,
  parts <> [] -> Forall (fun p => shape_of p = Some bs) parts -> Forall (fun p => sound p bs) parts ->
  Forall (fun s => 0 <= s) bs -> (sd <= List.length bs)%nat ->
  lz_unbind (S fuel) (Stack sd bs0 parts) (Z.of_nat sd) = Ok parts /\
  forall k p, nth_error parts k = Some p -> equiv p (Index (select_idx sd (Z.of_nat k)) (Stack sd bs0 parts)).
Proof. exact unbind_stackdim. Qed.
Print Assumptions C08_unbind_stackdim.

(* permute / squeeze / unbind across the stack dim / split / repeat / expand / view, and transposes forwarded to nested lazy
   members: model + correspondence only (no theorem yet) *)

(* ---- cat(out=) offsets, insert / append -------------------------------------------------------------------- *)
(* lazy_cat_offsets (after fix C08-D13: init_idx += n): operand k is written to members [sum_{i<k} n_i, sum_{i<=k} n_i),
   for any number of operands *)
Theorem C08_cat_offsets : forall sizes n_out,
  Forall (fun s => 0 <= s) sizes -> sumZ sizes <= n_out -> cat_out_slices n_out 0 sizes = cat_spec_slices sizes.
Proof. exact cat_offsets. Qed.
Print Assumptions C08_cat_offsets.

(* insert_append_bs: list.insert on the member list, batch size recomputed with the new member count *)
Theorem C08_insert_append_bs : forall sd bs0 parts bs i x a',
  parts <> [] -> Forall (fun p => shape_of p = Some bs) parts -> shape_of x = Some bs -> (sd <= List.length bs)%nat ->
  lz_insert (Stack sd bs0 parts) i x = Ok a' ->
  a' = Stack sd bs0 (py_list_insert parts i x) /\ shape_of a' = Some (compute_batch_size bs sd (lenZ parts + 1)).
Proof. exact insert_shape. Qed.
Print Assumptions C08_insert_append_bs.

(* ---- non-vacuity: concrete instances meeting the hypotheses ------------------------------------------------ *)
Definition ex_tree : arr := Stack 1 [2; 2] [Leaf 0 [2; 2]; Leaf 1 [2; 2]; Leaf 2 [2; 2]].
Example C08_ex_tree_wf : wf_tree ex_tree [2; 3; 2].
Proof.
  apply (wf_stack 1 [2; 2] [Leaf 0 [2; 2]; Leaf 1 [2; 2]; Leaf 2 [2; 2]] [2; 2]); [discriminate| |cbn; auto].
  wf_lit.
Qed.
(* lazy[None, 1, ::2, -1]: basic, legal (shape [1;2]), returns; the stack dim moves from 1 to 1 *)
Example C08_ex_getitem :
  let idx := [INone; IInt 1; ISl None None (Some 2); IInt (-1)] in
  basic idx /\ res_shape idx [2; 3; 2] = Some [1; 2] /\
  exists a', lz_getitem 3 ex_tree idx = Ok a' /\ shape_of a' = Some [1; 2] /\
             map (at_ a') (all_indices [1; 2]) = [Some (0%nat, [1; 1]); Some (2%nat, [1; 1])].
Proof. cbn zeta. split; [repeat constructor|]. split; [reflexivity|]. eexists. split; [vm_compute; reflexivity|]. split; reflexivity. Qed.
(* nested: a stack of stacks *)
Example C08_ex_nested :
  let t := Stack 0 [2; 1] [Stack 1 [2] [Leaf 0 [2]]; Stack 1 [2] [Leaf 1 [2]]] in
  exists a', lz_getitem 4 t [ISl (Some 1) None None; IInt 0; INone] = Ok a' /\ shape_of a' = Some [1; 1; 1].
Proof. eexists. split; [vm_compute; reflexivity|reflexivity]. Qed.
(* an integer tensor of rank 2 after the stack dim *)
Example C08_ex_adv_after :
  exists a', lz_getitem 3 ex_tree [ISl None None None; ISl (Some 1) None None; ITen [2; 1] [1; 0]] = Ok a' /\
             shape_of a' = Some [2; 2; 2; 1].
Proof. eexists. split; [vm_compute; reflexivity|reflexivity]. Qed.
(* transpose across three positions from the stack dim (the former D26 witness): the dense answer [1;2;3;2] *)
Example C08_ex_transpose :
  exists a', lz_transpose 3 (Stack 0 [2; 3; 1] [Leaf 0 [2; 3; 1]; Leaf 1 [2; 3; 1]]) 0 3 = Ok a' /\
             shape_of a' = shape_of (Transp 0 3 (Stack 0 [2; 3; 1] [Leaf 0 [2; 3; 1]; Leaf 1 [2; 3; 1]])) /\ shape_of a' = Some [1; 2; 3; 2].
Proof. eexists. split; [vm_compute; reflexivity|]. split; reflexivity. Qed.
Example C08_ex_tensor_write :
  exists plan, run_setitem 3 (Stack 0 [3] [Leaf 0 [3]; Leaf 1 [3]]) [ITen [2] [1; 0]] [2; 3] = Ok plan /\
               List.length plan = 2%nat /\ forallb (fun w => match w with WReplace _ _ => false | _ => true end) plan = true.
Proof. eexists. split; [vm_compute; reflexivity|]. split; reflexivity. Qed.
Example C08_ex_ellipsis :
  ell_basic [IEll; IInt (-1)] /\ spec_expand [IEll; IInt (-1)] 3 = Some [ISl None None None; ISl None None None; IInt (-1)] /\
  exists a', lz_getitem 3 ex_tree [IEll; IInt (-1)] = Ok a' /\ shape_of a' = Some [2; 3].
Proof. split; [repeat constructor|]. split; [reflexivity|]. eexists. split; [vm_compute; reflexivity|reflexivity]. Qed.
Example C08_ex_unsqueeze : exists a', lz_unsqueeze 3 ex_tree 1 = Ok a' /\ shape_of a' = Some [2; 1; 3; 2].
Proof. eexists. split; [vm_compute; reflexivity|reflexivity]. Qed.
Example C08_ex_adv_before :
  let t := Stack 2 [2; 2] [Leaf 0 [2; 2]; Leaf 1 [2; 2]; Leaf 2 [2; 2]] in
  adv_before (ITen [2; 2] [1; 0; 0; 1]) /\ consumed ([INone] ++ ITen [2; 2] [1; 0; 0; 1] :: [IInt 0]) = 2%nat /\
  exists a', lz_getitem 3 t (([INone] ++ ITen [2; 2] [1; 0; 0; 1] :: [IInt 0]) ++ ISl (Some 1) None None :: []) = Ok a' /\
             shape_of a' = Some [1; 2; 2; 2].
Proof. cbn zeta. split; [constructor|]. split; [reflexivity|]. eexists. split; [vm_compute; reflexivity|reflexivity]. Qed.
Example C08_ex_cat : cat_out_slices 3 0 [1; 1; 1] = [(0, 1); (1, 2); (2, 3)] /\ cat_out_slices_gen false 3 0 [1; 1; 1] = [(0, 1); (1, 2); (3, 3)].
Proof. split; reflexivity. Qed.
(* a rank-2 tensor with negative values on the stack dim of a stack of stacks, None before and an int after it *)
Example C08_ex_tensor_on_stack_dim :
  let t := Stack 1 [2; 1] [Stack 1 [2] [Leaf 0 [2]]; Stack 1 [2] [Leaf 1 [2]]; Stack 1 [2] [Leaf 2 [2]]] in
  let idx := [INone; ISl None None None] ++ ITen [2; 2] [2; -1; 0; -3] :: [IInt 0] in
  wf_tree t [2; 3; 1] /\ res_shape idx [2; 3; 1] = Some [1; 2; 2; 2] /\
  exists a', lz_getitem 4 t idx = Ok a' /\ shape_of a' = Some [1; 2; 2; 2] /\
             map (at_ a') (all_indices [1; 2; 2; 2]) =
             [Some (2%nat, [0]); Some (2%nat, [0]); Some (0%nat, [0]); Some (0%nat, [0]);
              Some (2%nat, [1]); Some (2%nat, [1]); Some (0%nat, [1]); Some (0%nat, [1])].
Proof.
  cbn zeta. split.
  { apply (wf_stack 1 [2; 1] [Stack 1 [2] [Leaf 0 [2]]; Stack 1 [2] [Leaf 1 [2]]; Stack 1 [2] [Leaf 2 [2]]] [2; 1]);
      [discriminate| |cbn; lia].
    apply wf_cons; [apply (wf_stack 1 [2] [Leaf 0 [2]] [2]); [discriminate|wf_lit|cbn; lia]|].
    apply wf_cons; [apply (wf_stack 1 [2] [Leaf 1 [2]] [2]); [discriminate|wf_lit|cbn; lia]|].
    apply wf_cons; [apply (wf_stack 1 [2] [Leaf 2 [2]] [2]); [discriminate|wf_lit|cbn; lia]|]. apply wf_nil. }
  split; [reflexivity|]. eexists. split; [vm_compute; reflexivity|]. split; reflexivity.
Qed.
(* the input of the seeded slip C08-1: lazy[[1, 2, 0], 1:] = V -- member 1 gets V[0], member 2 gets V[1], member 0 gets V[2] *)
Example C08_ex_tensor_write_routed_by_value :
  exists plan, run_setitem 3 (Stack 0 [3] [Leaf 0 [3]; Leaf 1 [3]; Leaf 2 [3]]) ([] ++ ITen [3] [1; 2; 0] :: [ISl (Some 1) None None]) [3; 2] = Ok plan /\
    plan = write_plan_of [Leaf 1 [3]; Leaf 2 [3]; Leaf 0 [3]] [ISl (Some 1) None None] 0 (Leaf VID [3; 2]).
Proof. eexists. split; [vm_compute; reflexivity|reflexivity]. Qed.
(* a rank-1 mask on stack dim 1 behind a None: three rows, cat_dim 2; split_dim follows the switch *)
Example C08_ex_mask_on_stack_dim :
  exists sp, split_index 1 3 [2; 3; 2] ([INone; ISl None None None] ++ IMask [3] [true; false; true] :: [IInt 0]) = Ok sp /\
    sp_has_bool sp = true /\ Z.of_nat (sp_mask_loc sp) - sp_num_single sp = 2 /\
    sp_split_dim sp = split_dim_of fixed_D36 1 0 1 /\
    sp_kind sp = KDict [(0, [INone; ISl None None None; IMask [] [true]; IInt 0]);
                        (1, [INone; ISl None None None; IMask [] [false]; IInt 0]);
                        (2, [INone; ISl None None None; IMask [] [true]; IInt 0])].
Proof. eexists. split; [vm_compute; reflexivity|]. repeat split; reflexivity. Qed.
Example C08_ex_unbind : lz_unbind 2 ex_tree 1 = Ok [Leaf 0 [2; 2]; Leaf 1 [2; 2]; Leaf 2 [2; 2]].
Proof. reflexivity. Qed.
(* update_ with a lazy source stacked along the OTHER dim of a square batch (the input of the seeded slip C08-2):
   member k receives column k of the source, not its member k *)
Example C08_ex_update__other_dim :
  exists plan, run_update_ 4 (Stack 0 [2] [Leaf 0 [2]; Leaf 1 [2]]) 1 [2; 2] = Ok plan /\
    exists ws, eval_plan [(0%nat, [2]); (1%nat, [2])] [2; 2] plan = EvOk (ws, false) /\
      map (fun jp => lookup_last ws (fst jp) (snd jp)) [(0%nat, 0); (0%nat, 1); (1%nat, 0); (1%nat, 1)] = [Some 0; Some 1; Some 2; Some 3].
Proof. eexists. split; [vm_compute; reflexivity|]. eexists. split; [vm_compute; reflexivity|reflexivity]. Qed.
(* a mask of members behind a None and a slice, an int after it *)
Example C08_ex_mask1_read :
  let idx := [INone; ISl None None None] ++ IMask [3] [true; false; true] :: [IInt (-1)] in
  res_shape idx [2; 3; 2] = Some [1; 2; 2] /\
  exists a', lz_getitem 3 ex_tree idx = Ok a' /\ shape_of a' = Some [1; 2; 2] /\
             map (at_ a') (all_indices [1; 2; 2]) = [Some (0%nat, [0; 1]); Some (2%nat, [0; 1]); Some (0%nat, [1; 1]); Some (2%nat, [1; 1])].
Proof. cbn zeta. split; [reflexivity|]. eexists. split; [vm_compute; reflexivity|]. split; reflexivity. Qed.
