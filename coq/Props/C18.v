(* C18 — native and Python helpers agree.  Property theorems only: each is closed by [exact] of a lemma proved in
   Proofs/, followed by Print Assumptions (parsed by the harness on every run). *)
From Coq Require Import ZArith List String Bool.
Import ListNotations.
From TD Require Import Spec.PySlice Model.SliceM Model.Keys Model.Dual Proofs.SliceP Proofs.KeysP Proofs.DualP.
Open Scope Z_scope.

(* slice arithmetic: the compile-only _slice_indices returns CPython's slice.indices triple, for every slice and length *)
Theorem C18_slice_indices_eq : forall start stop step len,
  0 <= len ->
  slice_indices_opt start stop step len =
  (let st := match step with None => 1 | Some s => s end in
   if st =? 0 then None else Some (py_indices start stop st len)).
Proof. exact slice_indices_opt_eq. Qed.
Print Assumptions C18_slice_indices_eq.

(* the spec triple enumerates valid positions only (sanity of the spec the model is compared with) *)
Theorem C18_py_indices_in_bounds : forall start stop step len k,
  0 <= len -> step <> 0 -> 0 <= k < range_len (py_indices start stop step len) ->
  0 <= range_nth (py_indices start stop step len) k < len.
Proof. exact py_indices_in_bounds. Qed.
Print Assumptions C18_py_indices_in_bounds.

(* nested-key unravelling: Python branch = native branch on every object (valid or not), three entry points *)
Theorem C18_unravel_to_tuple_dual : forall k, py_unravel_to_tuple k = cpp_unravel_to_tuple k.
Proof. exact unravel_to_tuple_dual. Qed.
Print Assumptions C18_unravel_to_tuple_dual.

Theorem C18_unravel_key_dual : forall k, py_unravel_key k = cpp_unravel_key k.
Proof. exact unravel_key_dual. Qed.
Print Assumptions C18_unravel_key_dual.

Theorem C18_unravel_key_list_dual : forall ks, py_unravel_key_list ks = cpp_unravel_key_list ks.
Proof. exact unravel_key_list_dual. Qed.
Print Assumptions C18_unravel_key_list_dual.

(* unravel_keys( *keys) after repair D1804: the Python branch is the one-argument alias of unravel_key as the native binding
   is -- the full dual statement, on every argument list (any arity, valid keys or not) *)
From TD Require Import Proofs.C18_KeysExtraP.
Theorem C18_unravel_keys_dual : forall ks, py_unravel_keys ks = cpp_unravel_keys ks.
Proof. exact unravel_keys_dual. Qed.
Print Assumptions C18_unravel_keys_dual.

(* what the alias means: one argument -> the result of unravel_key; any other arity raises on both paths *)
Theorem C18_unravel_keys_is_unravel_key : forall k,
  cpp_unravel_keys [k] = match cpp_unravel_key k with RRaise => KRaise | r => KOne r end
  /\ (forall ks, List.length ks <> 1%nat -> cpp_unravel_keys ks = KRaise /\ py_unravel_keys ks = KRaise).
Proof. exact unravel_keys_is_unravel_key. Qed.
Print Assumptions C18_unravel_keys_is_unravel_key.

(* the code before the repair (finding D1804, [py_unravel_keys_unrepaired]) fails the dual statement on EVERY accepted input:
   natively the bare key, under compile a tuple of keys -- the theorem above has bite *)
Theorem C18_unravel_keys_unrepaired_refuted :
  (exists ks, py_unravel_keys_unrepaired ks <> cpp_unravel_keys ks)
  /\ (forall ks, cpp_unravel_keys ks <> KRaise -> py_unravel_keys_unrepaired ks <> cpp_unravel_keys ks)
  /\ (forall k, py_unravel_keys_unrepaired [k] = match cpp_unravel_keys [k] with KOne r => KMany [r] | other => other end).
Proof. split; [exact unravel_keys_unrepaired_refuted|split; [exact unravel_keys_unrepaired_never_agree|exact unravel_keys_unrepaired_partial]]. Qed.
Print Assumptions C18_unravel_keys_unrepaired_refuted.

Example C18_ex_unravel_keys : py_unravel_keys [KT [KS "a"; KT [KS "b"]]] = KOne (RTup ["a"; "b"]%string)
  /\ cpp_unravel_keys [KT [KS "a"; KT [KS "b"]]] = KOne (RTup ["a"; "b"]%string)
  /\ py_unravel_keys [KS "a"; KS "b"] = KRaise /\ py_unravel_keys_unrepaired [KS "a"; KS "b"] = KMany [RStr "a"; RStr "b"]%string.
Proof. repeat split; reflexivity. Qed.

(* and the native function is the in-order fringe on well-formed keys, () otherwise *)
Theorem C18_unravel_spec : forall k,
  (wfb k = true -> cpp_unravel_to_tuple k = strings k /\ strings k <> [])
  /\ (wfb k = false -> cpp_unravel_to_tuple k = []).
Proof. exact cpp_unravel_spec. Qed.
Print Assumptions C18_unravel_spec.

(* batch-size parsing: both branches agree on every spelling *)
Theorem C18_parse_batch_size_dual : forall src b, parse_bs_compile src b = parse_bs_eager src b.
Proof. exact parse_batch_size_dual. Qed.
Print Assumptions C18_parse_batch_size_dual.

(* key-aligned value lists: index-map branch = dict branch *)
Theorem C18_items_list_dual : forall (V : Type) keys (vals : list V) sorting,
  List.length keys = List.length vals ->
  items_list_aligned true keys vals sorting = items_list_aligned false keys vals sorting.
Proof. exact @items_list_dual. Qed.
Print Assumptions C18_items_list_dual.

(* non-vacuity: concrete instances satisfying the hypotheses *)
Example C18_ex_slice : slice_indices_opt None (Some 0) (Some 1) 1 = Some (0, 0, 1). Proof. reflexivity. Qed.
Example C18_ex_key : wfb (KT [KS "a"; KT [KS "b"; KT [KS "c"]]]) = true
  /\ cpp_unravel_to_tuple (KT [KS "a"; KT [KS "b"; KT [KS "c"]]]) = ["a"; "b"; "c"]%string. Proof. split; reflexivity. Qed.

(* ---------------------------------------------------------------------------------------------------------------
   the use site of the slice helper: _getitem_batch_size's compile arm len(range( *_slice_indices(idx, n))) equals the
   eager arm len(range( *idx.indices(n))) for every slice and length (step 0: both raise) *)
From TD Require Import Model.C18_Gbs Proofs.C18_GbsP.
Theorem C18_gbs_slice_dual : forall start stop step len,
  0 <= len -> gbs_slice_dim true start stop step len = gbs_slice_dim false start stop step len.
Proof. exact gbs_slice_dual. Qed.
Print Assumptions C18_gbs_slice_dual.

(* len(range(a, b, c)) counts exactly the positions the range enumerates (so the dimension is never negative) *)
Theorem C18_range_len_counts : forall a b c k,
  c <> 0 -> (in_range (a, b, c) k <-> 0 <= k < range_len (a, b, c)).
Proof. exact range_len_counts. Qed.
Print Assumptions C18_range_len_counts.

Theorem C18_gbs_slice_dim_nonneg : forall compile start stop step len n,
  gbs_slice_dim compile start stop step len = Some n -> 0 <= n.
Proof. exact gbs_slice_dim_nonneg. Qed.
Print Assumptions C18_gbs_slice_dim_nonneg.

Example C18_ex_gbs : gbs_slice_dim true (Some 3) (Some 1) None 5 = Some 0 /\ gbs_slice_dim false (Some 4) (Some (-3)) (Some 2) 5 = Some 0
  /\ gbs_slice_dim true None None (Some (-2)) 5 = Some 3 /\ in_range (4, -1, -2) 2.
Proof. repeat split; vm_compute; congruence. Qed.

(* ---------------------------------------------------------------------------------------------------------------
   dimension names on the two paths (Model/C18_Names.v), after repair D1801: TensorDict.__init__ and the names setter do
   not ask is_compiling() any more -- the full statements hold; _new_unsafe keeps its compile arm (fallback to __init__). *)
From TD Require Import Model.C18_Names Proofs.C18_NamesP.
Theorem C18_init_names_dual : forall bd names, init_names true bd names = init_names false bd names.
Proof. exact init_names_dual. Qed.
Print Assumptions C18_init_names_dual.

Theorem C18_names_set_dual : forall bd cur value, names_set true bd cur value = names_set false bd cur value.
Proof. exact names_set_dual. Qed.
Print Assumptions C18_names_set_dual.

(* _new_unsafe keeps a compile arm (a plain TensorDict is built through __init__ without names, then the names are stored
   unchecked as on the eager path): the two arms store the same raw state for every class and every names argument *)
Theorem C18_new_unsafe_names_dual : forall bd cls_is_td names,
  new_unsafe_names true cls_is_td bd names = new_unsafe_names false cls_is_td bd names.
Proof. exact new_unsafe_names_dual. Qed.
Print Assumptions C18_new_unsafe_names_dual.

Theorem C18_new_unsafe_names_stores : forall compile cls_is_td bd names,
  new_unsafe_names compile cls_is_td bd names = NOk names.
Proof. exact new_unsafe_names_stores. Qed.
Print Assumptions C18_new_unsafe_names_stores.

(* the code before the repair (finding D1801, the [_unrepaired] definitions) fails each of the three statements: the theorems
   above have bite *)
Theorem C18_names_unrepaired_refuted :
  (exists bd names, observe_names bd (init_names_unrepaired true bd names) <> observe_names bd (init_names_unrepaired false bd names))
  /\ (exists bd names, init_names_unrepaired false bd names = NValueError /\ init_names_unrepaired true bd names = NOk None)
  /\ (exists bd cur value,
        observe_names bd (names_set_unrepaired true bd cur value) <> observe_names bd (names_set_unrepaired false bd cur value))
  /\ (exists bd names,
        observe_names bd (new_unsafe_names_unrepaired true true bd names) <> observe_names bd (new_unsafe_names_unrepaired false true bd names)).
Proof.
  split; [exact init_names_unrepaired_refuted|split; [exact init_names_unrepaired_rejects_refuted|
  split; [exact names_set_unrepaired_refuted|exact new_unsafe_names_unrepaired_refuted]]].
Qed.
Print Assumptions C18_names_unrepaired_refuted.

(* what the setter does with what it accepts: stores the value, or erases when no dimension is named *)
Theorem C18_names_set_stores : forall bd compile cur v,
  (forall s, names_set compile bd cur (Some v) = NOk s -> s = None \/ s = Some v)
  /\ (count_none v = bd -> names_set compile bd cur (Some v) = NOk None).
Proof. intros bd c cur v. split; [intros s; apply names_set_ok|apply names_set_erases]. Qed.
Print Assumptions C18_names_set_stores.

Example C18_ex_names : names_set true 2%nat None (Some [Some "u"; None]) = NOk (Some [Some "u"; None])
  /\ names_set false 2%nat None (Some [Some "u"; Some "u"]) = NValueError /\ count_none [Some "u"; None] <> 2%nat
  /\ init_names true 2%nat (Some [Some "u"; Some "v"]) = NOk (Some [Some "u"; Some "v"])
  /\ init_names true 1%nat (Some [Some "u"; Some "v"]) = NValueError
  /\ names_set true 1%nat (Some [Some "a"]) None = NOk None.
Proof. repeat split; vm_compute; congruence. Qed.
Example C18_ex_new_unsafe : new_unsafe_names true true 2%nat (Some [Some "u"; None]) = NOk (Some [Some "u"; None])
  /\ new_unsafe_names_unrepaired true true 2%nat (Some [Some "u"; None]) = NOk None
  /\ new_unsafe_names true true 1%nat (Some [Some "a"; Some "b"]) = new_unsafe_names false true 1%nat (Some [Some "a"; Some "b"]).
Proof. repeat split; reflexivity. Qed.

(* ---------------------------------------------------------------------------------------------------------------
   memo tables / @cache: eager consults and fills, compile bypasses.  For ANY interleaving of eager and compiled calls on
   one table, from any coherent table, the values returned are those of the uncached computation -- hence equal *)
From TD Require Import Model.C18_Memo Proofs.C18_MemoP.
Theorem C18_memo_dual : forall (K V : Type) (keqb : K -> K -> bool) (f : K -> option V) (storable : V -> bool),
  (forall a b, keqb a b = true <-> a = b) ->
  forall rg qs1 qs2 m1 m2,
    coherent keqb f m1 -> coherent keqb f m2 -> map snd qs1 = map snd qs2 ->
    fst (run keqb f storable rg qs1 m1) = fst (run keqb f storable rg qs2 m2).
Proof. exact @memo_dual. Qed.
Print Assumptions C18_memo_dual.

Theorem C18_memo_run_sound : forall (K V : Type) (keqb : K -> K -> bool) (f : K -> option V) (storable : V -> bool),
  (forall a b, keqb a b = true <-> a = b) ->
  forall rg qs m, coherent keqb f m ->
    fst (run keqb f storable rg qs m) = map (fun q => f (snd q)) qs /\ coherent keqb f (snd (run keqb f storable rg qs m)).
Proof. exact @run_sound. Qed.
Print Assumptions C18_memo_run_sound.

(* the coherence hypothesis is necessary *)
Theorem C18_memo_dual_needs_coherence :
  exists (f : nat -> option bool) m,
    fst (query Nat.eqb f (fun _ => true) true true m 0%nat) <> fst (query Nat.eqb f (fun _ => true) true false m 0%nat).
Proof. exact memo_dual_needs_coherence. Qed.
Print Assumptions C18_memo_dual_needs_coherence.

Example C18_ex_memo : coherent Nat.eqb (fun _ : nat => Some true) [] /\
  fst (run Nat.eqb (fun _ : nat => Some true) (fun _ => true) true [(false, 0%nat); (true, 0%nat); (false, 0%nat)] [])
  = [Some true; Some true; Some true].
Proof. split; [apply coherent_nil|reflexivity]. Qed.

(* ---------------------------------------------------------------------------------------------------------------
   TensorDictSequential.forward / ProbabilisticTensorDictSequential.forward: the key SET selected before returning *)
From Coq Require Import Permutation.
From TD Require Import Model.C18_SeqKeys Proofs.C18_SeqKeysP.
Theorem C18_seq_keys_dual : forall (K : Type) (keqb : K -> K -> bool),
  (forall a b, keqb a b = true <-> a = b) ->
  forall out_keys td_keys,
    Permutation (keys_compile keqb out_keys td_keys) (keys_eager keqb out_keys td_keys)
    /\ NoDup (keys_eager keqb out_keys td_keys).
Proof. intros K keqb H o t. split; [now apply seq_keys_dual|apply to_set_NoDup; exact H]. Qed.
Print Assumptions C18_seq_keys_dual.

(* ---------------------------------------------------------------------------------------------------------------
   every site of the library that branches on is_compiling() (list AND branch shapes re-translated from /repo on every run)
   is classified; every helper classified as a modelled dual path still has its compile branch; the shape table covers
   every site; and a flag handed on as a keyword reaches an analysed function: a new compile-only code path cannot
   appear, and a modelled one cannot disappear, without this theorem failing *)
From TD Require Import Model.C18_SiteShape Model.C18_Sites Gen.C18_sites Proofs.C18_SiteShapeP.
Theorem C18_sites_classified :
  forallb is_classified compile_sites = true
  /\ forallb (fun d => existsb (site_eqb d) compile_sites) dual_sites = true
  /\ forallb (fun s => is_classified (site_key s)) site_shapes = true
  /\ forallb (fun c => existsb (fun s => site_eqb c (site_key s)) site_shapes) compile_sites = true
  /\ forallb (fun s => forallb (forward_resolved site_shapes) (s_forwards s)) site_shapes = true.
Proof. repeat split; vm_compute; reflexivity. Qed.
Print Assumptions C18_sites_classified.

(* the Guard classification is CHECKED: for every site classified Guard the two specialisations of the function body
   (flag := True / flag := False) are the same token stream once the allow-listed bookkeeping statements are dropped,
   and the translator understood every use of the flag.  A site whose arms differ in a value-carrying statement cannot be
   classified Guard. *)
Theorem C18_guards_checked :
  forallb (fun s => implb (is_guard (site_key s)) (guard_shape_ok s)) site_shapes = true
  /\ forallb (fun g => existsb (fun s => site_eqb g (site_key s)) site_shapes) guard_sites = true.
Proof. split; vm_compute; reflexivity. Qed.
Print Assumptions C18_guards_checked.

(* ... and it is honest in the other direction too: no site that passes the check is left in a weaker class by mistake
   except the ones modelled anyway *)
Theorem C18_unmodelled_are_not_guards :
  forallb (fun s => implb (existsb (site_eqb (site_key s)) unmodelled_sites) (negb (guard_shape_ok s))) site_shapes = true.
Proof. vm_compute; reflexivity. Qed.
Print Assumptions C18_unmodelled_are_not_guards.

(* meaning of the boolean *)
Theorem C18_guard_shape_sound : forall s,
  guard_shape_ok s = true -> norm true (s_compile s) = norm false (s_eager s) /\ s_opaque s = [].
Proof. exact guard_shape_sound. Qed.
Print Assumptions C18_guard_shape_sound.

Example C18_ex_guard : exists s, In s site_shapes /\ is_guard (site_key s) = true /\ guard_shape_ok s = true
  /\ s_compile s <> s_eager s.
Proof.
  destruct (find (fun s => String.eqb (s_func s) "TensorDictBase.lock_") site_shapes) as [s|] eqn:E; [|vm_compute in E; discriminate].
  exists s. pose proof (find_some _ _ E) as [Hin _]. vm_compute in E. injection E as <-.
  split; [exact Hin|]. repeat split; try (vm_compute; reflexivity). vm_compute. discriminate.
Qed.
