(* C18 — native and Python helpers agree.  Property theorems only: each is closed by [exact] of a lemma proved in
   Proofs/, followed by Print Assumptions (parsed by the harness on every run). *)
From Coq Require Import ZArith List String Bool.
Import ListNotations.
From TD Require Import Spec.PySlice Model.SliceM Model.Keys Model.Dual Proofs.SliceP Proofs.KeysP Proofs.DualP.
Open Scope Z_scope.

(* slice arithmetic: the compile-only _slice_indices returns CPython's slice.indices triple, for every slice and length *)
Theorem C18_slice_indices_eq : forall start stop step len,
  0 <= len ->
  slice_indices_opt start stop step len =
  (let st := match step with None => 1 | Some s => s end in
   if st =? 0 then None else Some (py_indices start stop st len)).
Proof. exact slice_indices_opt_eq. Qed.
Print Assumptions C18_slice_indices_eq.

(* the spec triple enumerates valid positions only (sanity of the spec the model is compared with) *)
Theorem C18_py_indices_in_bounds : forall start stop step len k,
  0 <= len -> step <> 0 -> 0 <= k < range_len (py_indices start stop step len) ->
  0 <= range_nth (py_indices start stop step len) k < len.
Proof. exact py_indices_in_bounds. Qed.
Print Assumptions C18_py_indices_in_bounds.

(* nested-key unravelling: Python branch = native branch on every object (valid or not), three entry points *)
Theorem C18_unravel_to_tuple_dual : forall k, py_unravel_to_tuple k = cpp_unravel_to_tuple k.
Proof. exact unravel_to_tuple_dual. Qed.
Print Assumptions C18_unravel_to_tuple_dual.

Theorem C18_unravel_key_dual : forall k, py_unravel_key k = cpp_unravel_key k.
Proof. exact unravel_key_dual. Qed.
Print Assumptions C18_unravel_key_dual.

Theorem C18_unravel_key_list_dual : forall ks, py_unravel_key_list ks = cpp_unravel_key_list ks.
Proof. exact unravel_key_list_dual. Qed.
Print Assumptions C18_unravel_key_list_dual.

(* and the native function is the in-order fringe on well-formed keys, () otherwise *)
Theorem C18_unravel_spec : forall k,
  (wfb k = true -> cpp_unravel_to_tuple k = strings k /\ strings k <> [])
  /\ (wfb k = false -> cpp_unravel_to_tuple k = []).
Proof. exact cpp_unravel_spec. Qed.
Print Assumptions C18_unravel_spec.

(* batch-size parsing: both branches agree on every spelling *)
Theorem C18_parse_batch_size_dual : forall src b, parse_bs_compile src b = parse_bs_eager src b.
Proof. exact parse_batch_size_dual. Qed.
Print Assumptions C18_parse_batch_size_dual.

(* key-aligned value lists: index-map branch = dict branch *)
Theorem C18_items_list_dual : forall (V : Type) keys (vals : list V) sorting,
  List.length keys = List.length vals ->
  items_list_aligned true keys vals sorting = items_list_aligned false keys vals sorting.
Proof. exact @items_list_dual. Qed.
Print Assumptions C18_items_list_dual.

(* non-vacuity: concrete instances satisfying the hypotheses *)
Example C18_ex_slice : slice_indices_opt None (Some 0) (Some 1) 1 = Some (0, 0, 1). Proof. reflexivity. Qed.
Example C18_ex_key : wfb (KT [KS "a"; KT [KS "b"; KT [KS "c"]]]) = true
  /\ cpp_unravel_to_tuple (KT [KS "a"; KT [KS "b"; KT [KS "c"]]]) = ["a"; "b"; "c"]%string. Proof. split; reflexivity. Qed.

(* every site of the library that branches on is_compiling() (list re-translated from /repo on every run) is classified, and
   every helper classified as a modelled dual path still has its compile branch: a new compile-only code path cannot appear,
   and a modelled one cannot disappear, without this theorem failing *)
From TD Require Import Model.C18_Sites Gen.C18_sites.
Theorem C18_sites_classified :
  forallb is_classified compile_sites = true
  /\ forallb (fun d => existsb (site_eqb d) compile_sites) dual_sites = true.
Proof. split; vm_compute; reflexivity. Qed.
Print Assumptions C18_sites_classified.
