(* C07 — in-place operations keep storage; out-of-place operations never disturb it.  Property theorems only.
   State = heap of storages (lists of cells) and tensordict nodes + the handles (views / nodes) the caller holds;
   every public operation is an instruction [step]ping that state (Model/C07_Alias.v).  All theorems quantify over
   EVERY state — in particular over every state reached by any preceding history [run empty_st hist]. *)
From Coq Require Import ZArith List String Bool Arith.
Import ListNotations.
From TD Require Import Model.C07_Heap Model.C07_Alias Spec.C07_AliasSpec Proofs.C07_HeapP Proofs.C07_AliasP
  Proofs.C07_TreeP Proofs.C07_WfP.
Local Open Scope list_scope.

(* inplace_keeps: an operation documented as in-place (set_, update_, copy_, set_at_, update_at_, copy_at_, td[idx] = v, masked_fill_,
   fill_, zero_, apply_, underscore arithmetic, augmented assignment) allocates nothing and rebinds nothing: every node of the heap
   keeps its key -> entry bindings (same key sets, same storage ids, same index maps behind every key of every tensordict), every
   storage keeps its size, the caller's handles are the same — only cell contents of existing storages change; this holds whether
   the operation succeeds or raises. *)
Theorem C07_inplace_keeps : forall s i,
  classify i = CInplace ->
  inplace_frame (hp s) (hp (fst (step s i))) /\ regs (fst (step s i)) = regs s.
Proof. exact step_inplace_frame. Qed.
Print Assumptions C07_inplace_keeps.

(* ... and so does any sequence of them, from any state *)
Theorem C07_inplace_keeps_history : forall prog s,
  forallb (fun i => match classify i with CInplace => true | _ => false end) prog = true ->
  inplace_frame (hp s) (hp (run s prog)) /\ regs (run s prog) = regs s.
Proof. exact run_inplace. Qed.
Print Assumptions C07_inplace_keeps_history.

(* every alias observes an in-place write: after writing [vals] through the view d (the primitive behind copy_ and the
   _foreach_*_ kernels), element i of ANY view w of the same storage reads the value written for element j of d whenever
   the two elements are the same cell; every other cell of every storage keeps its content *)
Theorem C07_alias_observes : forall h d vals h',
  write h d vals = (h', Done) -> in_bounds h d ->
  (forall w i j c, vsid w = vsid d -> nth_error (vcells w) i = Some c -> nth_error (vcells d) j = Some c ->
                   nth i (read h' w) 0%Z = nth j vals 0%Z)
  /\ (forall s c, ~ (s = vsid d /\ In c (vcells d)) -> cell h' s c = cell h s c).
Proof. exact write_alias. Qed.
Print Assumptions C07_alias_observes.

(* set_ never changes a key set (full statement; it was refuted by a witness before the repair of D75: fixes/C07/D75.diff —
   a missing intermediate node is now a missing key): on every state, for every key path and value *)
Theorem C07_set_keeps : forall s r p v,
  inplace_frame (hp s) (hp (fst (step s (ISetU r p v)))) /\ regs (fst (step s (ISetU r p v))) = regs s.
Proof. intros. apply step_inplace_frame. reflexivity. Qed.
Print Assumptions C07_set_keeps.

(* outofplace_pure: every operation that is not documented as in-place — allocation, rebinding set/update, del, lock, every view
   operation, every copying / computing operation, contiguous — leaves every pre-existing storage untouched (the old storages are
   a prefix of the new ones, contents included), whether it succeeds or raises *)
Theorem C07_outofplace_pure : forall s i,
  writes_possible i = false -> stor_ext (hp s) (hp (fst (step s i))).
Proof. exact step_pure. Qed.
Print Assumptions C07_outofplace_pure.

Theorem C07_outofplace_pure_history : forall prog s,
  forallb (fun i => negb (writes_possible i)) prog = true -> stor_ext (hp s) (hp (run s prog)).
Proof. exact run_pure. Qed.
Print Assumptions C07_outofplace_pure_history.

(* "any preceding history", spelled out: the statements hold in the state reached by any program whatsoever *)
Theorem C07_after_any_history : forall hist i,
  let s := run empty_st hist in
  (writes_possible i = false -> stor_ext (hp s) (hp (fst (step s i)))) /\
  (classify i = CInplace ->
   inplace_frame (hp s) (hp (fst (step s i))) /\ regs (fst (step s i)) = regs s).
Proof. intros hist i s. split; [apply step_pure|apply step_inplace_frame]. Qed.
Print Assumptions C07_after_any_history.

(* only cells of the receiver's own storages are updated: for the whole-tree in-place operations (update_/copy_, td[idx] = scalar /
   masked_fill_, zero_, unary and binary underscore arithmetic) every storage that is not behind one of the receiver's entries
   keeps its whole content *)
Theorem C07_inplace_footprint : forall s i r d ls,
  whole_tree_inplace i = Some r -> reg s r = Some d -> leaves_of (hp s) d = Some ls ->
  only_storages (leaf_sids ls) (hp s) (hp (fst (step s i))).
Proof. exact step_inplace_footprint. Qed.
Print Assumptions C07_inplace_footprint.

(* every state reached by any history is well formed (no dangling node reference): the hypothesis of the per-key theorems *)
Theorem C07_wf_history : forall hist, wfst (run empty_st hist).
Proof. exact reachable_wf. Qed.
Print Assumptions C07_wf_history.

(* view_shares: basic indexing, view, permute, transpose, squeeze, unsqueeze, expand, unbind / split / chunk pieces: no storage is
   allocated or written, and at EVERY nested key the result's entry is a view (same storage id, cells included in those) of the
   source's entry at the same key — the sub-view selected by the batch positions; the result has no key the source lacks *)
Theorem C07_view_shares : forall hist r nb bsel pl d s',
  let s := run empty_st hist in
  reg s r = Some d -> step s (IViewB r nb bsel pl) = (s', Done) ->
  hstor (hp s') = hstor (hp s) /\
  exists x, result_of s s' x /\
    forall p, match resolve (hp s') x p with
              | Some (RLeaf v') => exists v, resolve (hp s) d p = Some (RLeaf v) /\ v' = subview v nb bsel /\ view_of v v'
              | Some (RNode _) => exists m, resolve (hp s) d p = Some (RNode m)
              | None => True
              end.
Proof.
  intros hist r nb bsel pl d s' s Hr H. pose proof (reachable_wf hist) as W.
  eapply view_shares; [apply W|exact Hr|eapply reg_wf; [exact W|exact Hr]|exact H].
Qed.
Print Assumptions C07_view_shares.

(* shallow copy (copy(), clone(False)): new nodes, the very same tensors *)
Theorem C07_shallow_shares : forall hist r d s',
  let s := run empty_st hist in
  reg s r = Some d -> step s (IShallow r) = (s', Done) ->
  hstor (hp s') = hstor (hp s) /\
  exists x, result_of s s' x /\
    forall p v', resolve (hp s') x p = Some (RLeaf v') -> resolve (hp s) d p = Some (RLeaf v').
Proof.
  intros hist r d s' s Hr H. pose proof (reachable_wf hist) as W.
  eapply shallow_shares; [apply W|exact Hr|eapply reg_wf; [exact W|exact Hr]|exact H].
Qed.
Print Assumptions C07_shallow_shares.

(* select / exclude / flatten_keys: one new node binding (a subset of) the source's keys to the very same entries *)
Theorem C07_select_shares : forall s r ks n nd s',
  reg s r = Some (RNode n) -> get_node (hp s) n = Some nd -> step s (ISelect r ks) = (s', Done) ->
  hstor (hp s') = hstor (hp s) /\
  exists m ndm, result_of s s' (RNode m) /\ get_node (hp s') m = Some ndm /\
                forall k x, In (k, x) (nents ndm) -> ents_get (nents nd) k = Some x.
Proof. exact select_shares. Qed.
Print Assumptions C07_select_shares.

Theorem C07_exclude_shares : forall s r ks n nd s',
  reg s r = Some (RNode n) -> get_node (hp s) n = Some nd -> step s (IExclude r ks) = (s', Done) ->
  hstor (hp s') = hstor (hp s) /\
  exists m ndm, result_of s s' (RNode m) /\ get_node (hp s') m = Some ndm /\
                forall k x, In (k, x) (nents ndm) -> In (k, x) (nents nd).
Proof. exact exclude_shares. Qed.
Print Assumptions C07_exclude_shares.

Theorem C07_flatten_keys_shares : forall s r sep d ls s',
  reg s r = Some d -> leaves_of (hp s) d = Some ls -> step s (IFlatten r sep) = (s', Done) ->
  hstor (hp s') = hstor (hp s) /\
  exists m ndm, result_of s s' (RNode m) /\ get_node (hp s') m = Some ndm /\
                nents ndm = map (fun pv => (join sep (fst pv), RLeaf (snd pv))) ls.
Proof. exact flatten_shares. Qed.
Print Assumptions C07_flatten_keys_shares.

(* copy_fresh: clone / to_tensordict, advanced indexing / masked_select, out-of-place arithmetic: at every nested key of the result
   the entry lives in a storage id that did not exist before (so it is disjoint from every tensor anybody holds), at a key where
   the source has an entry *)
Theorem C07_copy_fresh : forall hist i r d s',
  let s := run empty_st hist in
  (i = IClone r \/ (exists nb bsel, i = IGather r nb bsel) \/ (exists f pl, i = IUnary r f pl false)) ->
  reg s r = Some d -> step s i = (s', Done) -> fresh_result s d s'.
Proof.
  intros hist i r d s' s Hi Hr H. pose proof (reachable_wf hist) as W.
  assert (Wd : wfref (hp s) d) by (eapply reg_wf; [exact W|exact Hr]).
  destruct Hi as [E|[[nb [bsel E]]|[f [pl E]]]]; subst i.
  - eapply clone_fresh; [apply W|exact Hr|exact Wd|exact H].
  - eapply gather_fresh; [apply W|exact Hr|exact Wd|exact H].
  - eapply unary_fresh; [apply W|exact Hr|exact Wd|exact H].
Qed.
Print Assumptions C07_copy_fresh.

(* contiguous(): what torch does on the leaf — an already contiguous entry is returned as it is (legitimate sharing), any other
   entry becomes a tensor in a fresh storage *)
Theorem C07_contiguous_rule : forall hist r d s',
  let s := run empty_st hist in
  reg s r = Some d -> step s (IContig r) = (s', Done) ->
  exists x, result_of s s' x /\
    forall p v', resolve (hp s') x p = Some (RLeaf v') ->
      exists v, resolve (hp s) d p = Some (RLeaf v) /\ (if contiguousb v then v' = v else fresh_view (hp s) v').
Proof.
  intros hist r d s' s Hr H. pose proof (reachable_wf hist) as W.
  eapply contiguous_rule; [apply W|exact Hr|eapply reg_wf; [exact W|exact Hr]|exact H].
Qed.
Print Assumptions C07_contiguous_rule.

(* the classification table of the model (compared with the documentation-derived table on every run) *)
Example C07_classes :
  map classify [IUpdU 0 1; ISetAt 0 [] 1 1 []; IUnaryU 0 PNeg; IViewB 0 1 [] false; IShallow 0; ISelect 0 []; IFlatten 0 ".";
                IClone 0; IGather 0 1 []; IContig 0; ISet 0 [] 1 IFalse; ISet 0 [] 1 IBest]
  = [CInplace; CInplace; CInplace; CView; CView; CView; CView; CCopy; CCopy; CRule; CStruct; CBest].
Proof. reflexivity. Qed.

(* non-vacuity: a nested tensordict {a: strided view, n: {c: contiguous}}; neg_ through the root is seen by a previously
   taken view of a's storage; clone gives fresh storages; a basic index shares *)
Definition ex_prog : list instr :=
  [INewT [1; 2; 3; 4; 5; 6]%Z [0; 2; 4]; INewT [7; 8; 9]%Z [0; 1; 2]; INewTD [("c", 1)]; INewTD [("a", 0); ("n", 2)]].
Example C07_ex_inplace :
  let s := run empty_st ex_prog in
  let s' := fst (step s (IUnaryU 3 PNeg)) in
  snd (step s (IUnaryU 3 PNeg)) = Done /\ hstor (hp s') = [[-1; 2; -3; 4; -5; 6]; [-7; -8; -9]]%Z /\
  read (hp s') (mkView 0 [4; 5]) = [-5; 6]%Z /\ hnodes (hp s') = hnodes (hp s).
Proof. vm_compute. repeat split. Qed.
Example C07_ex_view_copy :
  let s := run empty_st ex_prog in
  let sv := fst (step s (IViewB 3 3 [2; 0] false)) in
  let sc := fst (step s (IClone 3)) in
  hstor (hp sv) = hstor (hp s) /\ resolve (hp sv) (last (regs sv) (RNode 0)) ["a"] = Some (RLeaf (mkView 0 [4; 0])) /\
  resolve (hp sc) (last (regs sc) (RNode 0)) ["n"; "c"] = Some (RLeaf (mkView 3 [0; 1; 2])) /\
  List.length (hstor (hp s)) = 2.
Proof. vm_compute. repeat split. Qed.
(* set_ below a missing node: KeyError, nothing changes (the witness of the former refutation) *)
Example C07_ex_set_missing_node :
  step d75_state (ISetU 1 ["x"; "q"] 0) = (d75_state, Raised EKey)
  /\ snd (step (run empty_st ex_prog) (ISetU 3 ["n"; "c"] 1)) = Done.
Proof. split; vm_compute; reflexivity. Qed.

(* ================================================================================================================================
   The other container kinds (Model/C07_Ext.v): _SubTensorDict windows, lazy stacks, memmap_ / share_memory_.
   State = the regular state + the windows (source node, index) and the stacks (member nodes, per-member positions) the caller holds.
   Every theorem quantifies over EVERY extended state, hence over every state reached by any history of regular, window, stack
   and conversion instructions. *)
From TD Require Import Model.C07_Ext Proofs.C07_ExtP.

(* out-of-place operations of the other kinds — creating a window / a stack, get through a window or a stack, clone / to_tensordict,
   clone(False), select / exclude through a window, out-of-place arithmetic through a window, lazy.clone, lazy.flatten_keys, and the
   conversions memmap_ / share_memory_ themselves — never write a pre-existing storage, whether they succeed or raise *)
Theorem C07_x_outofplace_pure : forall s i,
  xwrites_possible i = false -> stor_ext (hp (xb s)) (hp (xb (fst (xstep s i)))).
Proof. exact xstep_pure. Qed.
Print Assumptions C07_x_outofplace_pure.

Theorem C07_x_outofplace_pure_history : forall prog s,
  forallb (fun i => negb (xwrites_possible i)) prog = true -> stor_ext (hp (xb s)) (hp (xb (xrun s prog))).
Proof. exact xrun_pure. Qed.
Print Assumptions C07_x_outofplace_pure_history.

(* in-place operations through a window (set_, update_/copy_, set_at_, fill_, zero_, underscore arithmetic, augmented assignment;
   basic AND advanced windows) and through a stack (set_, update_/copy_, lazy[idx] = td on member-level indices, fill_, zero_,
   underscore arithmetic): every pre-existing node keeps its key -> entry bindings (the source's / the members' storages keep
   their identity, no new binding), every pre-existing storage keeps its size, the caller's handles (registers, windows, stacks)
   are the same; only temporaries nobody holds may be appended.  Whether the operation succeeds or raises. *)
Theorem C07_x_inplace_keeps : forall s i,
  xclassify i = XCInplace ->
  keeps (hp (xb s)) (hp (xb (fst (xstep s i)))) /\ xhandles_same s (fst (xstep s i)).
Proof. exact xstep_inplace_keeps. Qed.
Print Assumptions C07_x_inplace_keeps.

Theorem C07_x_inplace_keeps_history : forall prog s,
  forallb (fun i => match xclassify i with XCInplace => true | _ => false end) prog = true ->
  keeps (hp (xb s)) (hp (xb (xrun s prog))) /\ xhandles_same s (xrun s prog).
Proof. exact xrun_inplace. Qed.
Print Assumptions C07_x_inplace_keeps_history.

(* a write through a window (sub.set_(k, v), basic or advanced index): exactly the source cells the window maps to take the new
   values — every alias of the source entry reads them — and every other cell of every storage keeps its content *)
Theorem C07_sub_set_exact : forall h n nd w k d v h',
  get_node h n = Some nd -> ents_get (nents nd) k = Some (RLeaf d) ->
  sub_set_ h n w [k] (RLeaf v) = (h', Done) ->
  nodupb (vcells (wview w d)) = true -> in_bounds h (wview w d) ->
  (forall a i j c, vsid a = vsid d -> nth_error (vcells a) i = Some c -> nth_error (vcells (wview w d)) j = Some c ->
                   nth i (read h' a) 0%Z = nth j (read h v) 0%Z)
  /\ (forall s c, ~ (s = vsid d /\ In c (vcells (wview w d))) -> cell h' s c = cell h s c)
  /\ inplace_frame h h'.
Proof. exact sub_set_exact. Qed.
Print Assumptions C07_sub_set_exact.

(* in-place arithmetic through a window runs the kernels on views of the source's own entries.
   Full statement: for every window.  FALSE of the code (D70: an advanced window hands the kernels gathered copies). *)
Definition C07_sub_arith_full_statement : Prop := forall s si f, sub_arith_on_source s si f.
Theorem C07_sub_arith_refuted : exists s si f,
  xclassify (XSubUnaryU si f) = XCInplace /\ snd (xstep s (XSubUnaryU si f)) = Done /\ ~ sub_arith_on_source s si f.
Proof. exists d70_state, 0, PNeg. destruct d70_witness as [A [B [_ D]]]. repeat split; assumption. Qed.
Print Assumptions C07_sub_arith_refuted.
(* ... and holds on the complement (basic windows), where moreover nothing is allocated or rebound and only the source's own
   storages change *)
Theorem C07_sub_arith_partial : forall s si f sh ls,
  xsub s si = Some sh -> wbasic (swin sh) = true -> leaves_of (hp (xb s)) (RNode (ssrc sh)) = Some ls ->
  sub_arith_on_source s si f
  /\ inplace_frame (hp (xb s)) (hp (xb (fst (xstep s (XSubUnaryU si f)))))
  /\ only_storages (leaf_sids ls) (hp (xb s)) (hp (xb (fst (xstep s (XSubUnaryU si f))))).
Proof.
  intros s si f sh ls Hs Hb Hl. split; [eapply sub_arith_basic; eauto|eapply sub_arith_basic_frame; eauto].
Qed.
Print Assumptions C07_sub_arith_partial.

(* lazy.get(leaf key) is a fresh tensor: its storage did not exist, and writing into it changes no pre-existing storage — hence
   no member *)
Theorem C07_lazy_get_fresh : forall s li p L vs,
  xlz s li = Some L -> all_some (map (member_leaf (hp (xb s)) p) (lmem L)) = Some vs ->
  exists h1 v, xstep s (XLazyGet li p) = (xpush s h1 (RLeaf v), Done)
    /\ fresh_view (hp (xb s)) v /\ stor_ext (hp (xb s)) h1 /\ hnodes h1 = hnodes (hp (xb s))
    /\ forall chk vals h2 o, write_c chk h1 v vals = (h2, o) ->
         forall sid, sid < List.length (hstor (hp (xb s))) -> get_stor h2 sid = get_stor (hp (xb s)) sid.
Proof. exact lazy_get_fresh. Qed.
Print Assumptions C07_lazy_get_fresh.

(* ... stated for the smallest stack: ONE member (lazy_stack([td]), or what lazy[k:k+1] / split(1) / chunk(n) leave) — where a
   "nothing to stack" shortcut (seeded change C07-4) would hand out a view of the member's own tensor *)
Theorem C07_lazy_get_fresh_one_member : forall s li p m nb sel v,
  xlz s li = Some (mkLazy [m] nb [sel]) -> member_leaf (hp (xb s)) p m = Some v ->
  exists h1 v', xstep s (XLazyGet li p) = (xpush s h1 (RLeaf v'), Done)
    /\ fresh_view (hp (xb s)) v' /\ stor_ext (hp (xb s)) h1 /\ hnodes h1 = hnodes (hp (xb s))
    /\ forall chk vals h2 o, write_c chk h1 v' vals = (h2, o) ->
         forall sid, sid < List.length (hstor (hp (xb s))) -> get_stor h2 sid = get_stor (hp (xb s)) sid.
Proof. exact lazy_get_fresh_one_member. Qed.
Print Assumptions C07_lazy_get_fresh_one_member.

(* in-place arithmetic / zero_ through a stack = in-place on the members' own storages *)
Theorem C07_lazy_arith_footprint : forall s li L ls i,
  xlz s li = Some L -> lazy_leaves (hp (xb s)) L = Some ls ->
  (exists f, i = XLazyUnaryU li f) \/ (exists z, i = XLazyConstU li z) ->
  inplace_frame (hp (xb s)) (hp (xb (fst (xstep s i)))) /\ only_storages (leaf_sids ls) (hp (xb s)) (hp (xb (fst (xstep s i)))).
Proof. exact lazy_arith_footprint. Qed.
Print Assumptions C07_lazy_arith_footprint.

(* set_ through a stack IS the regular set_ (ISetU) on every member in turn, with value.unbind(stack_dim)[j] — a view of the
   value — as value: C07_inplace_keeps / C07_alias_observes apply to each member write *)
Theorem C07_lazy_set_is_member_set : forall h L p v,
  lazy_set_ h L p v =
  if negb (match p with
           | [k] => forallb (fun m => match get_node h m with Some nd => ents_has (nents nd) k | None => false end) (lmem L)
           | _ => true end)
  then (h, Raised EKey)
  else fold_out (fun h0 (ms : nat * list nat) =>
                   let s' := fst (step (mkSt h0 [RNode (fst ms); RLeaf (subview v (lnb L) (snd ms))]) (ISetU 0 p 1)) in
                   (hp s', snd (step (mkSt h0 [RNode (fst ms); RLeaf (subview v (lnb L) (snd ms))]) (ISetU 0 p 1))))
                h (zip (lmem L) (lsel L)).
Proof. exact lazy_set_is_member_set. Qed.
Print Assumptions C07_lazy_set_is_member_set.

(* lazy.get(nested key) is the stack of the members' own nested nodes: nothing is allocated, member handles stay aliases *)
Theorem C07_lazy_get_node_shares : forall s li p L ns,
  xlz s li = Some L -> all_some (map (member_leaf (hp (xb s)) p) (lmem L)) = None ->
  all_some (map (member_node (hp (xb s)) p) (lmem L)) = Some ns ->
  xstep s (XLazyGet li p) = (xpush_lazy s (hp (xb s)) (mkLazy ns (lnb L) (lsel L)), Done).
Proof. exact lazy_get_node_shares. Qed.
Print Assumptions C07_lazy_get_node_shares.

(* flatten_keys (a view-producing operation by its documentation) on a stack.  Full statement: the result's entries live in the
   members' storages.  FALSE of the code (D73: stacked copies). *)
Definition C07_lazy_flatten_shares_full_statement : Prop := lazy_flatten_shares_statement.
Theorem C07_lazy_flatten_shares_refuted : ~ C07_lazy_flatten_shares_full_statement.
Proof. exact lazy_flatten_shares_refuted. Qed.
Print Assumptions C07_lazy_flatten_shares_refuted.

(* memmap_ is a rebinding step: it writes no pre-existing storage, keeps every node identity and every handle; share_memory_
   rebinds nothing *)
Theorem C07_conversion_rebinds_only : forall s r,
  let s' := fst (xstep s (XMemmap r)) in
  stor_ext (hp (xb s)) (hp (xb s')) /\ List.length (hnodes (hp (xb s'))) = List.length (hnodes (hp (xb s))) /\ xhandles_same s s'.
Proof. exact conversion_rebinds_only. Qed.
Print Assumptions C07_conversion_rebinds_only.

(* the class theorems in the state reached by any history of regular / window / stack instructions FOLLOWED BY a conversion:
   in-place / out-of-place classification afterwards is the same (the per-state theorems C07_select_shares, C07_exclude_shares,
   C07_flatten_keys_shares, C07_alias_observes hold in that state too: they quantify over every state) *)
Theorem C07_after_conversion : forall hist c r i,
  c = XMemmap r \/ c = XShare r ->
  let s := xb (fst (xstep (xrun empty_xst hist) c)) in
  (writes_possible i = false -> stor_ext (hp s) (hp (fst (step s i)))) /\
  (classify i = CInplace -> inplace_frame (hp s) (hp (fst (step s i))) /\ regs (fst (step s i)) = regs s).
Proof. intros hist c r i _ s. split; [apply step_pure|apply step_inplace_frame]. Qed.
Print Assumptions C07_after_conversion.

(* non-vacuity *)
Example C07_ex_sub_set :
  let s := exw_state in
  let s' := fst (xstep s (XSubSetU 0 ["a"%string] 4)) in
  snd (xstep s (XSubSetU 0 ["a"%string] 4)) = Done /\ get_stor (hp (xb s')) 0 = [1; 2; 50; 4; 60; 6]%Z /\
  nodupb (vcells (wview (mkWin 3 [1; 2] true) (mkView 0 [0; 2; 4]))) = true /\
  xclassify (XSubSetU 0 ["a"%string] 4) = XCInplace /\ xwrites_possible (XSubClone 0) = false.
Proof. vm_compute. repeat split. Qed.
Example C07_ex_sub_arith_basic :
  let s := exw_state in
  xsub s 0 = Some (mkSub 1 (mkWin 3 [1; 2] true)) /\
  hstor (hp (xb (fst (xstep s (XSubUnaryU 0 PNeg))))) = [[1; 2; -3; 4; -5; 6]; [7; -8; -9]; [50; 60]]%Z.
Proof. vm_compute. repeat split. Qed.
Example C07_ex_lazy :
  let s := d73_state in
  let sg := fst (xstep s (XLazyGet 0 ["a"%string])) in
  let sn := fst (xstep s (XLazyUnaryU 0 PNeg)) in
  snd (xstep s (XLazyGet 0 ["a"%string])) = Done /\ last (regs (xb sg)) (RNode 0) = RLeaf (mkView 2 [0; 1; 2; 3]) /\
  hstor (hp (xb sg)) = [[1; 2]; [3; 4]; [1; 2; 3; 4]]%Z /\ hstor (hp (xb sn)) = [[-1; -2]; [-3; -4]]%Z /\
  hstor (hp (xb (fst (xstep s (XMemmap 1))))) = [[1; 2]; [3; 4]; [1; 2]]%Z.
Proof. vm_compute. repeat split. Qed.
(* one member: get and contiguous() / to_tensordict() of the stack live in new storages; narrowing keeps the member objects *)
Example C07_ex_one_member :
  let s := one_member_state in
  let sg := fst (xstep s (XLazyGet 0 ["a"%string])) in
  let sc := fst (xstep s (XLazyDense 0 false)) in
  xlz s 0 = Some (mkLazy [0] 3 [[0; 1; 2]]) /\
  last (regs (xb sg)) (RNode 0) = RLeaf (mkView 1 [0; 1; 2]) /\ hstor (hp (xb sg)) = [[1; 2; 3]; [1; 2; 3]]%Z /\
  resolve (hp (xb sc)) (last (regs (xb sc)) (RNode 0)) ["a"%string] = Some (RLeaf (mkView 1 [0; 1; 2])) /\
  xlz (fst (xstep d73_state (XLazyNarrow 0 [1] 2 [[0; 1]]))) 1 = Some (mkLazy [1] 2 [[0; 1]]).
Proof. vm_compute. repeat split. Qed.
