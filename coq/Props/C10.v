(* C10 — memory-mapped save/load is a faithful, shared, thread-safe round trip.  Property theorems only.
   What is runtime — mmap coherence between mappings and processes, real thread preemption, bytes of a file read
   with another dtype — is not modelled (harness/c10.py exercises it). *)
From Coq Require Import ZArith List String Bool Permutation.
Import ListNotations.
From TD Require Import Model.C10_Meta Model.C10_Sched Model.C10_Fault Model.C10_Refresh Proofs.C10_MetaP Proofs.C10_SchedP Proofs.C10_TasksP
  Proofs.C10_GrowP Proofs.C10_FaultP Proofs.C10_RefreshP Proofs.C10_GrowNestedP Proofs.C10_RefreshNestedP.
Open Scope string_scope.
Open Scope list_scope.

(* ================================================================== (a) the codec *)

(* load_memmap (memmap t) = t — for every structure of any depth and width (TensorDict nodes, lazy stacks, tensorclass
   instances, NonTensorData with any payload and batch size, NonTensorStack of any items, empty nodes; any dtype, any
   shape INCLUDING 0 elements, in memory or already memory-mapped) whose keys are distinct and are not "shape" /
   "device" / "_type" (those are refused at save time), saved with memmap / memmap_ / save (copy_existing as needed).
   The loaded structure is [norm t]: t with, in every node, tensors first and sub-collections after them.
   This is the statement for /repo with the repairs fixes/C10/D101..D109; before them it needed four more hypotheses
   (no 0-element tensor, no tuple / set in a payload, no list-valued stack item, NonTensorData as wide as its parent,
   dtype in the hand-written table) and was refuted outside them. *)
Theorem C10_decode_encode : forall o t, valid_root o t = true -> bind (encode o t) decode = Ok (norm t).
Proof. exact decode_encode_lemma. Qed.
Print Assumptions C10_decode_encode.

(* ... and norm t is t as a nested mapping: same keys at every node, same shapes, dtypes, cells, payloads, classes *)
Theorem C10_norm_is_the_same_mapping : forall o t, valid o t = true -> same_mapping t (norm t).
Proof. exact norm_same_mapping. Qed.
Print Assumptions C10_norm_is_the_same_mapping.

(* the inputs that were lost before the repairs are inside the theorem's domain now (former findings D101, D103-D107) *)
Definition f32 (sh : list nat) (cells : list Z) : td := Leaf {| lshape := sh; ldtype := F32; lcells := cells; lsrc := InMem |}.
Definition wit_zero_size : td := Node [] [("z", f32 [0; 3] []); ("r", f32 [] [5%Z])].
Definition wit_reserved : td := Node [2] [("shape", f32 [2] [1%Z; 2%Z]); ("a", f32 [2] [3%Z; 4%Z])].
Definition wit_tuple : td := Node [] [("n", NData [] (PTuple [PStr "a"; PInt 1]))].
Definition wit_set : td := Node [] [("n", NData [] (PSet [PInt 1; PInt 2]))].
Definition wit_stack_of_lists : td := Node [2] [("s", NStack [NData [] (PList [PInt 1; PStr "u"]); NData [] (PList [PInt 2; PStr "v"])])].
Definition wit_wide_ndata : td := Node [3] [("n", NData [3; 2] (PStr "v"))].
Definition wit_float8 : td := Node [2] [("x", Leaf {| lshape := [2]; ldtype := F8E5M2; lcells := [0%Z; 1%Z]; lsrc := InMem |})].

Theorem C10_repaired_inputs_roundtrip :
  Forall (fun t => valid_root default_opts t = true /\ bind (encode default_opts t) decode = Ok (norm t))
         [wit_zero_size; wit_tuple; wit_set; wit_stack_of_lists; wit_wide_ndata; wit_float8].
Proof. repeat constructor; apply decode_encode_lemma; reflexivity. Qed.
Print Assumptions C10_repaired_inputs_roundtrip.

(* D102: an entry named like a field of meta.json is refused when saving (and by make_memmap) instead of being lost *)
Theorem C10_reserved_names_refused : forall o bs k x r files subs,
  reserved k = true -> save_over o (Node bs ((k, x) :: r)) (Dir files subs) = Raised EValueError.
Proof. intros o bs k x r files subs H. rewrite save_over_node. cbn [save_ents]. rewrite H. reflexivity. Qed.
Print Assumptions C10_reserved_names_refused.

(* saving over a directory that already holds something: a shorter lazy stack over a longer one loads its own members,
   a JSON payload over a pickled one loads the new payload (former findings D108, D109) *)
Definition lazy_of (n : nat) : td := Lazy 0 (repeat (Node [2] [("a", f32 [2] [1%Z; 2%Z])]) n).
Theorem C10_resave_repaired :
  bind (bind (encode default_opts (lazy_of 3)) (save_over default_opts (lazy_of 2))) decode = Ok (norm (lazy_of 2))
  /\ bind (bind (encode default_opts (Node [] [("n", NData [] (PObj 7))])) (save_over default_opts (Node [] [("n", NData [] (PStr "new"))]))) decode
     = Ok (Node [] [("n", NData [] (PStr "new"))]).
Proof. split; vm_compute; reflexivity. Qed.
Print Assumptions C10_resave_repaired.

(* ================================================================== (b) the writer pool *)

(* two tasks that do not write the same key of the destination mapping nor the same file commute *)
Theorem C10_tasks_commute : forall a b s,
  independent2 a b = true -> state_equiv (run_task b (run_task a s)) (run_task a (run_task b s)).
Proof. exact tasks_commute_lemma. Qed.
Print Assumptions C10_tasks_commute.

(* every completion order (every permutation of the submitted tasks) ends in the same destination mapping, the same
   files and the same directories — as mappings; from any state the calling thread left.  Key ORDER of a result that is
   not built in place follows the completion order: stated, not claimed. *)
Theorem C10_any_order : forall ts ts' s,
  independent ts = true -> Permutation ts ts' -> state_equiv (run_tasks ts s) (run_tasks ts' s).
Proof. intros ts ts' s Hi Hp. now apply any_order_lemma. Qed.
Print Assumptions C10_any_order.

(* the tasks `_memmap_` submits for a structure with distinct keys are pairwise independent, whatever the prefix *)
Theorem C10_tasks_independent : forall o t p, keys_distinct t = true -> independent (tasks_of o t p) = true.
Proof. exact tasks_independent_lemma. Qed.
Print Assumptions C10_tasks_independent.

(* hence: memmap / memmap_ / memmap_like with a pool give one result for all completion orders *)
Theorem C10_memmap_any_order : forall o inplace t ts',
  keys_distinct t = true -> Permutation (tasks_of o t []) ts' ->
  state_equiv (run_pool o inplace t (tasks_of o t [])) (run_pool o inplace t ts').
Proof. intros. unfold run_pool. apply any_order_lemma; auto. now apply tasks_independent_lemma. Qed.
Print Assumptions C10_memmap_any_order.

(* when the sequential run (executor=None) succeeds, it is the pool run in submission order *)
Theorem C10_sequential_is_an_order : forall ts s s', run_tasks_strict ts s = Ok s' -> s' = run_tasks ts s.
Proof. exact strict_ok_is_pool. Qed.
Print Assumptions C10_sequential_is_an_order.

(* S2 — what the CALL returns.  [pool_call_gen fixed]: fixed = false is `concurrent.futures.wait(futures)` alone
   (worker exceptions are dropped), fixed = true adds `f.result()` for every future.  Model.C10_Sched.fixed_S2 says which
   one /repo is; both are proved, so flipping that definition breaks nothing here. *)
Theorem C10_pool_call_repaired : forall o inplace t ts',
  res_err (pool_call_gen true o inplace t ts') = res_err (run_sequential o inplace t).
Proof. exact pool_call_repaired_lemma. Qed.
Print Assumptions C10_pool_call_repaired.

Definition wit_elsewhere : td := Node [2] [("a", Leaf {| lshape := [2]; ldtype := I64; lcells := [1%Z; 2%Z]; lsrc := MMElsewhere |})].
Theorem C10_pool_swallows_when_unrepaired :
  (forall o inplace t ts', has_reserved t = false -> pool_call_gen false o inplace t ts' = Ok (run_pool o inplace t ts'))
  /\ run_sequential default_opts false wit_elsewhere = Raised ERuntime
  /\ mget path_eqb ["a"] (dest (run_pool default_opts false wit_elsewhere (tasks_of default_opts wit_elsewhere []))) = None
  /\ pool_call_gen true default_opts false wit_elsewhere (tasks_of default_opts wit_elsewhere []) = Raised ERuntime.
Proof. split; [exact pool_call_unrepaired_lemma|repeat split; vm_compute; reflexivity]. Qed.
Print Assumptions C10_pool_swallows_when_unrepaired.

(* ================================================================== (b') writer tasks that fail *)

(* A task ends ok or fails; the entry point re-raises iff a task whose future it COLLECTED failed.  For every list of
   submitted tasks (whatever they are, whichever fail), every completion order ts', every state the calling thread left:
   if every spawned task is collected, the pool call raises exactly when the inline (executor=None) run raises, and the
   same exception class. *)
Theorem C10_threaded_raises_iff_sequential_raises : forall (sub : list (task * bool)) (s : state) (ts' : list task),
  forallb snd sub = true -> Permutation (spawned sub) ts' ->
  res_err (call_result true sub s ts') = res_err (run_tasks_strict (spawned sub) s).
Proof. exact threaded_raises_iff_sequential_raises_lemma. Qed.
Print Assumptions C10_threaded_raises_iff_sequential_raises.

(* ... and when the inline run succeeds, the pool call succeeds with the same mapping, files and directories *)
Theorem C10_threaded_succeeds_like_sequential : forall (sub : list (task * bool)) (s st : state) (ts' : list task),
  forallb snd sub = true -> independent (spawned sub) = true -> Permutation (spawned sub) ts' ->
  run_tasks_strict (spawned sub) s = Ok st ->
  exists st', call_result true sub s ts' = Ok st' /\ state_equiv st st'.
Proof. exact threaded_succeeds_like_sequential_lemma. Qed.
Print Assumptions C10_threaded_succeeds_like_sequential.

(* "collected = spawned" is needed: a failure among the uncollected tasks only is swallowed *)
Theorem C10_uncollected_failure_is_swallowed : forall (sub : list (task * bool)) (s : state) (ts' : list task) e,
  first_error (collected sub) = None -> first_error (spawned sub) = Some e ->
  call_result true sub s ts' = Ok (run_tasks ts' s) /\ run_tasks_strict (spawned sub) s = Raised e.
Proof. exact uncollected_failure_is_swallowed. Qed.
Print Assumptions C10_uncollected_failure_is_swallowed.

(* the walk of /repo (TensorDict, lazy stack, tensorclass — `futures += new_futures` —, NonTensorData, NonTensorStack)
   submits the tasks of [tasks_of] and collects the future of every one of them, in place or not.  The run checks this
   obligation against the real code: every future the executor hands out vs the futures the entry point inspects. *)
Theorem C10_walk_collects_every_future : forall o inplace t p,
  map fst (submitted repo_hands_over o inplace t p) = tasks_of o t p
  /\ forallb snd (submitted repo_hands_over o inplace t p) = true.
Proof. intros. split; [apply submitted_fst|now apply submitted_all_collected]. Qed.
Print Assumptions C10_walk_collects_every_future.

(* hence memmap_ / memmap / memmap_like / save with a pool, under any obstacles on the disk (an existing file with
   existsok=False, a meta.json that cannot be written) and any entry stored elsewhere: same outcome as without threads *)
Theorem C10_memmap_fault_threads : forall fl o inplace t ts',
  res_err (pool_call_f fl false o inplace t ts') = res_err (run_sequential_f fl o inplace t).
Proof. exact (memmap_fault_threads_lemma fixed_D110). Qed.
Print Assumptions C10_memmap_fault_threads.

Theorem C10_memmap_fault_threads_state : forall fl o inplace t ts' st,
  keys_distinct t = true -> Permutation (map (inject fl) (tasks_of o t [])) ts' ->
  run_sequential_f fl o inplace t = Ok st ->
  exists st', pool_call_f fl false o inplace t ts' = Ok st' /\ state_equiv st st'.
Proof. exact (memmap_fault_threads_state_lemma fixed_D110). Qed.
Print Assumptions C10_memmap_fault_threads_state.

(* the seeded breakage C10-2 as a statement about the model: a tensorclass that keeps the futures of its fields when the
   save is not in place makes memmap / save / memmap_like return normally where the sequential call raises, with the
   field described in meta.json and no file for it; in place it is harmless *)
Definition wit_tc_elsewhere : td :=
  Node [2] [("a", f32 [2] [1%Z; 2%Z]);
            ("c", TCls "TCA" [] (Node [2] [("x", Leaf {| lshape := [2]; ldtype := I64; lcells := [1%Z; 2%Z]; lsrc := MMElsewhere |});
                                            ("tag", NData [2] (PStr "t"))]))].
Theorem C10_tensorclass_must_hand_over_its_futures :
  let h := fun inplace : bool => inplace in
  let ts := tasks_of default_opts wit_tc_elsewhere [] in
  run_sequential_f [] default_opts false wit_tc_elsewhere = Raised ERuntime
  /\ res_err (pool_call_f_gen h true [] false default_opts false wit_tc_elsewhere ts) = None
  /\ mget floc_eqb (["c"; "_tensordict"], FLeaf "x") (fs (run_pool default_opts false wit_tc_elsewhere ts)) = None
  /\ res_err (pool_call_f_gen h true [] false default_opts true wit_tc_elsewhere ts) = Some ERuntime
  /\ res_err (pool_call_f [] false default_opts false wit_tc_elsewhere ts) = Some ERuntime.
Proof. repeat split; vm_compute; reflexivity. Qed.
Print Assumptions C10_tensorclass_must_hand_over_its_futures.

(* D110 — return_early=True.  Before the repair (fixes/C10/D110.diff) TensorDictFuture.result() waited for its futures
   and never looked at their outcome: [pool_call_f_gen _ false].  /repo carries the repair ([fixed_D110] = true):
   C10_return_early is the statement claimed of /repo; _refuted / _partial describe the unrepaired variant and stay true. *)
Definition C10_return_early_full_statement : Prop := forall fl o inplace t ts',
  res_err (pool_call_f_gen repo_hands_over false fl true o inplace t ts') = res_err (run_sequential_f fl o inplace t).
Theorem C10_return_early_refuted : ~ C10_return_early_full_statement.
Proof.
  intro H. specialize (H [] default_opts false wit_tc_elsewhere (tasks_of default_opts wit_tc_elsewhere [])).
  vm_compute in H. discriminate.
Qed.
Print Assumptions C10_return_early_refuted.
Theorem C10_return_early_partial : forall fl o inplace t ts',
  first_error (map (inject fl) (tasks_of o t [])) = None ->
  res_err (pool_call_f_gen repo_hands_over false fl true o inplace t ts') = res_err (run_sequential_f fl o inplace t).
Proof. exact return_early_partial_lemma. Qed.
Print Assumptions C10_return_early_partial.
Theorem C10_return_early_repaired : forall fl o inplace t ts',
  res_err (pool_call_f_gen repo_hands_over true fl true o inplace t ts') = res_err (run_sequential_f fl o inplace t).
Proof. exact return_early_repaired_lemma. Qed.
Print Assumptions C10_return_early_repaired.
(* the call as /repo makes it (whatever side [fixed_D110] is on, this is stated of [pool_call_f]): true with the repair *)
Theorem C10_return_early : forall fl o inplace t ts',
  res_err (pool_call_f fl true o inplace t ts') = res_err (run_sequential_f fl o inplace t).
Proof. exact return_early_repaired_lemma. Qed.
Print Assumptions C10_return_early.

(* stated, not proved: the link between the two halves — the files the submitted tasks write, in any order, are the files
   of [encode].  Every generated case evaluates its instance on the extracted model (command "link" of the dispatch). *)
Definition C10_pool_builds_encode_full_statement : Prop :=
  forall o inplace t d, keys_distinct t = true -> encode o t = Ok d ->
  forall ts', Permutation (tasks_of o t []) ts' ->
  forall k, mget floc_eqb k (fs (run_pool o inplace t ts')) = mget floc_eqb k (flatten [] d).

(* ================================================================== (c) make_memmap on a saved tensordict *)

(* a new tensor under a new key of the root (make_memmap / make_memmap_from_tensor / make_memmap_from_storage): the
   directory after the read-modify-write of meta.json loads as the extended tensordict *)
Theorem C10_make_memmap_merge : forall o bs ents k l d,
  valid_root o (Node bs ents) = true -> leaf_ok o l = true -> reserved k = false -> smem k ents = false ->
  encode o (Node bs ents) = Ok d ->
  exists d', grow_at [] k l (Node bs ents) d = Ok (Node bs (ents ++ [(k, Leaf l)]), d')
             /\ decode d' = Ok (norm (Node bs (ents ++ [(k, Leaf l)]))).
Proof. exact make_memmap_merge_lemma. Qed.
Print Assumptions C10_make_memmap_merge.

(* the same for a NESTED key of any depth (intermediate nodes that exist are walked into, missing ones are created by
   _make_memmap_subtd as empty tensordicts with the batch size of their parent, saved in their own directory and registered
   in the parent's meta.json by a read-modify-write; the leaf's node re-writes its own meta.json): after ANY such call that
   returns, the directory loads as the grown tensordict.  (Stated, not proved, until this round.) *)
Definition C10_make_memmap_merge_full_statement : Prop :=
  forall o t ks k l d t' d', valid_root o t = true -> leaf_ok o l = true -> Forall (fun x => reserved x = false) (k :: ks) ->
  encode o t = Ok d -> grow_at ks k l t d = Ok (t', d') -> decode d' = Ok (norm t').
Theorem C10_make_memmap_merge_nested : C10_make_memmap_merge_full_statement.
Proof. intros o t ks k l d t' d' Hv Hl _ He Hg. exact (make_memmap_merge_nested_lemma o t ks k l d t' d' Hv Hl He Hg). Qed.
Print Assumptions C10_make_memmap_merge_nested.

(* ... and the call does return (the hypothesis of the theorem above is met) exactly when no entry on the way is in the
   way: every key of the path that exists is a TensorDict, the last key is new, no key is a field name of meta.json *)
Theorem C10_make_memmap_nested_returns : forall o t ks k l d,
  valid_root o t = true -> encode o t = Ok d -> path_free ks k t = true ->
  exists t' d', grow_at ks k l t d = Ok (t', d').
Proof. exact make_memmap_nested_returns_lemma. Qed.
Print Assumptions C10_make_memmap_nested_returns.

(* ================================================================== (d) load_memmap_ / memmap_refresh_ *)

(* a NonTensorData refreshed from its directory takes the payload that is on disk now (JSON or pickled, any payload) and
   keeps its own batch size *)
Theorem C10_refresh_nontensor_payload : forall o bs p bs' p' d,
  save_over o (NData bs p) empty_dir = Ok d -> load_into d (NData bs' p') = Ok (NData bs' p).
Proof. exact refresh_ndata_lemma. Qed.
Print Assumptions C10_refresh_nontensor_payload.

(* loading a TensorDict directory into something that is not a tensordict is refused, never a silent mix *)
Theorem C10_load_into_refuses_other_kind : forall o bs ents d l,
  save_over o (Node bs ents) empty_dir = Ok d -> load_into d (Leaf l) = Raised EOther.
Proof. exact load_into_kind_mismatch. Qed.
Print Assumptions C10_load_into_refuses_other_kind.

(* a second mapping of the directory (loaded before the call), refreshed with memmap_refresh_ / load_memmap_ after a
   make_memmap* call of ANY depth through the first mapping, is the grown tensordict as a mapping: every key of every
   node, the new entry and the nodes created on the way included.  The refresh does succeed (exists r).
   The statement as it stood before this round had no hypothesis on the new leaf; the model's [leaf] record can hold a
   cell list that disagrees with its shape (no tensor does), and for such a record it is false
   (C10_refresh_needs_a_wellformed_leaf below): [leaf_ok] is the well-formedness of the leaf, as in C10_make_memmap_merge. *)
Definition C10_refresh_sees_make_memmap_full_statement : Prop :=
  forall o t d ks k l t' d', valid_root o t = true -> leaf_ok o l = true -> encode o t = Ok d -> grow_at ks k l t d = Ok (t', d') ->
  exists r, refresh d d' = Ok r /\ same_mapping r (norm t').

Theorem C10_refresh_sees_make_memmap : C10_refresh_sees_make_memmap_full_statement.
Proof. exact refresh_sees_make_memmap_lemma. Qed.
Print Assumptions C10_refresh_sees_make_memmap.

(* both halves of "seen by every other mapping of the same directory and by later loads" in one statement: after a
   make_memmap* call of any depth the refreshed second mapping and a fresh load of the directory are the same mapping *)
Theorem C10_refreshed_mapping_is_a_later_load : forall o t d ks k l t' d',
  valid_root o t = true -> leaf_ok o l = true -> encode o t = Ok d -> grow_at ks k l t d = Ok (t', d') ->
  exists r fresh, refresh d d' = Ok r /\ decode d' = Ok fresh /\ same_mapping r fresh /\ fresh = norm t'.
Proof.
  intros o t d ks k l t' d' Hv Hl He Hg.
  destruct (refresh_sees_make_memmap_lemma o t d ks k l t' d' Hv Hl He Hg) as (r & Hr & Hs).
  exists r, (norm t'). repeat split; auto. exact (make_memmap_merge_nested_lemma o t ks k l d t' d' Hv Hl He Hg).
Qed.
Print Assumptions C10_refreshed_mapping_is_a_later_load.

(* what carries it: every sub-collection next to the path — TensorDict, lazy stack (members refreshed in place),
   tensorclass (fields from meta.json / other.pickle, "_tensordict" refreshed), NonTensorData (payload from disk),
   NonTensorStack (left as it is) — refreshed from its own unchanged directory is itself as a mapping; at the root:
   memmap_refresh_ with nothing changed on disk changes nothing *)
Theorem C10_refresh_unchanged : forall o t d,
  valid_root o t = true -> encode o t = Ok d -> exists r, refresh d d = Ok r /\ same_mapping r (norm t).
Proof. exact refresh_unchanged_lemma. Qed.
Print Assumptions C10_refresh_unchanged.

(* the instance for tensordicts whose sub-collections are all TensorDicts (what make_memmap* itself can build) *)
Theorem C10_refresh_sees_make_memmap_nodes : forall o t d ks k l t' d',
  valid_root o t = true -> only_nodes t = true -> leaf_ok o l = true -> encode o t = Ok d -> grow_at ks k l t d = Ok (t', d') ->
  exists r, refresh d d' = Ok r /\ same_mapping r (norm t').
Proof. exact refresh_sees_make_memmap_nodes_lemma. Qed.
Print Assumptions C10_refresh_sees_make_memmap_nodes.

(* the step every case goes through, for ANY kind of neighbours: a TensorDict node (as loaded earlier) refreshed from a
   directory whose meta.json lists its old records, "shape"/"device"/"_type", then the records make_memmap appended, and
   whose sub-directories each refresh the existing entry / load as the new one, is the described node as a mapping *)
Theorem C10_refresh_node_step : forall o bs E e1 e2 files sl,
  keys_ok (e1 ++ e2) -> Forall (entry_okw o) (e1 ++ e2) -> Forall (bs_ok bs) (e1 ++ e2) ->
  fget FMeta files = Some (CJson (JObj (recs e1 ++ tail3 bs ++ recs e2))) ->
  (forall k l, In (k, Leaf l) (e1 ++ e2) -> leaf_file_spec files k l) ->
  NoDup (map fst E) -> (forall k, In k (map fst E) -> In k (map fst (e1 ++ e2))) ->
  (forall k c c', sget k E = Some c -> sget k (e1 ++ e2) = Some c' -> is_leaf c' = false -> is_leaf c = false) ->
  Forall2 (sub_refreshes E) (filter nonleaf (e1 ++ e2)) sl ->
  exists r, load_into (Dir files sl) (norm (Node bs E)) = Ok r /\ same_mapping r (norm (Node bs (e1 ++ e2))).
Proof. exact refresh_node. Qed.
Print Assumptions C10_refresh_node_step.

Definition nodes_tree : td :=
  Node [2] [("a", f32 [2] [1%Z; 2%Z]); ("n", Node [2] [("b", f32 [2; 0] []); ("e", Node [2; 1] [])]); ("z", f32 [2] [3%Z; 4%Z])].
Definition new_leaf : leaf := {| lshape := [2; 2]; ldtype := I16; lcells := [1; 2; 3; 4]%Z; lsrc := InMem |}.
Example C10_ex_refresh_nodes :
  valid_root default_opts nodes_tree = true /\ only_nodes nodes_tree = true
  /\ leaf_ok default_opts new_leaf = true
  /\ path_free ["n"; "deep"] "new" nodes_tree = true /\ path_free ["n"; "e"] "new" nodes_tree = true /\ path_free [] "new" nodes_tree = true.
Proof. repeat split; reflexivity. Qed.
(* without the well-formedness of the new leaf the statement is false in the model: shape [0] with one cell *)
Example C10_refresh_needs_a_wellformed_leaf :
  let l := {| lshape := [0]; ldtype := I64; lcells := [1%Z]; lsrc := InMem |} in
  exists d t' d' r, encode default_opts (Node [] []) = Ok d /\ grow_at [] "a" l (Node [] []) d = Ok (t', d')
    /\ refresh d d' = Ok r /\ ~ same_mapping r (norm t') /\ leaf_ok default_opts l = false.
Proof.
  do 4 eexists. split; [vm_compute; reflexivity|]. split; [vm_compute; reflexivity|]. split; [vm_compute; reflexivity|].
  split; [|reflexivity]. vm_compute. intro H. inversion H as [|? ? ? Hk Hs Hlen| | | |]. subst.
  specialize (Hs "a" _ _ eq_refl eq_refl). inversion Hs. cbn in *. discriminate.
Qed.

(* ================================================================== non-vacuity *)
Definition ex_tree : td :=
  Node [2] [("a", Leaf {| lshape := [2; 3]; ldtype := I64; lcells := [0; 1; 2; 3; 4; 5]%Z; lsrc := InMem |});
            ("n", Node [2] [("b", Leaf {| lshape := [2]; ldtype := BOOL; lcells := [1; 0]%Z; lsrc := MMNoFile |}); ("e", Node [2; 1] [])]);
            ("l", Lazy 0 [Node [] [("x", f32 [3] [1; 2; 3]%Z)]; Node [] [("y", f32 [] [7%Z])]]);
            ("c", TCls "TCA" [] (Node [2] [("x", f32 [2] [8; 9]%Z); ("tag", NData [2] (PStr "t"))]));
            ("cc", TCls "TCC" [("y", PNone); ("w", PObj 4); ("z", PStr "s")] (Node [2] [("x", f32 [2] [6; 7]%Z)]));
            ("nt", NData [2] (PDict [("k", PList [PInt 1; PNone])]));
            ("o", NData [2] (PList [PObj 3; PTuple [PInt 1]]));
            ("s", NStack [NData [] (PStr "p"); NData [] (PStr "q")])].
Example C10_ex_valid : valid_root default_opts ex_tree = true. Proof. reflexivity. Qed.
Example C10_ex_pool_call : pool_call default_opts false wit_elsewhere (tasks_of default_opts wit_elsewhere [])
  = if fixed_S2 then Raised ERuntime else Ok (run_pool default_opts false wit_elsewhere (tasks_of default_opts wit_elsewhere [])).
Proof. vm_compute. reflexivity. Qed.
Example C10_ex_roundtrip : bind (encode default_opts ex_tree) decode = Ok (norm ex_tree) /\ norm ex_tree <> ex_tree.
Proof. split; [vm_compute; reflexivity|vm_compute; discriminate]. Qed.
Example C10_ex_tasks : List.length (tasks_of default_opts ex_tree []) = 20 /\ keys_distinct ex_tree = true
  /\ independent (tasks_of default_opts ex_tree []) = true.
Proof. repeat split; vm_compute; reflexivity. Qed.
(* obstacles: an existing x.memmap with existsok=False under the tensorclass, and a root meta.json that is a directory:
   the sequential call and the pool call (any order) raise the error of the FIRST submitted task that fails *)
Definition ex_faults : faults := [((["c"; "_tensordict"], FLeaf "x"), ERuntime); (([], FMeta), EIsADirectory)].
Example C10_ex_faults :
  run_sequential_f ex_faults default_opts false ex_tree = Raised ERuntime
  /\ pool_call_f ex_faults false default_opts false ex_tree (rev (map (inject ex_faults) (tasks_of default_opts ex_tree []))) = Raised ERuntime
  /\ run_sequential_f [(([], FMeta), EIsADirectory)] default_opts true ex_tree = Raised EIsADirectory
  /\ forallb snd (inject_sub ex_faults (submitted repo_hands_over default_opts false ex_tree [])) = true
  /\ first_error (map (inject ex_faults) (tasks_of default_opts ex_tree [])) = Some ERuntime
  /\ first_error (map (inject []) (tasks_of default_opts ex_tree [])) = None.
Proof. repeat split; vm_compute; reflexivity. Qed.
(* refresh after make_memmap(("n", "deep", "new"), ...): the second mapping holds exactly the entries a fresh load holds
   (every kind of entry of ex_tree next to the new nested one), in another order *)
Example C10_ex_refresh : exists d t' d' es es',
  encode default_opts ex_tree = Ok d
  /\ grow_at ["n"; "deep"] "new" {| lshape := [2; 2]; ldtype := I16; lcells := [1; 2; 3; 4]%Z; lsrc := MMElsewhere |} ex_tree d = Ok (t', d')
  /\ refresh d d' = Ok (Node [2] es) /\ decode d' = Ok (Node [2] es')
  /\ List.length es = List.length es' /\ Forall (fun kv => sget (fst kv) es = Some (snd kv)) es'
  /\ refresh d d = decode d.
Proof.
  do 5 eexists. split; [vm_compute; reflexivity|]. split; [vm_compute; reflexivity|]. split; [vm_compute; reflexivity|].
  split; [vm_compute; reflexivity|]. split; [reflexivity|]. split; [repeat constructor|vm_compute; reflexivity].
Qed.
Example C10_ex_dependent_tasks_do_not_commute :
  let a := TWrite [] (Ok [(FMeta, CJson JNull)]) [] in let b := TWrite [] (Ok [(FMeta, CJson (JBool true))]) [] in
  independent2 a b = false
  /\ mget floc_eqb ([], FMeta) (fs (run_tasks [a; b] init_state)) <> mget floc_eqb ([], FMeta) (fs (run_tasks [b; a] init_state)).
Proof. split; vm_compute; congruence. Qed.
Example C10_ex_grow : exists d d', encode default_opts ex_tree = Ok d
  /\ grow_at [] "new" {| lshape := [2; 2]; ldtype := I16; lcells := [1; 2; 3; 4]%Z; lsrc := MMElsewhere |} ex_tree d
     = Ok (Node [2] (match ex_tree with Node _ es => es | _ => [] end ++ [("new", Leaf {| lshape := [2; 2]; ldtype := I16; lcells := [1; 2; 3; 4]%Z; lsrc := MMElsewhere |})]), d').
Proof. eexists. eexists. split; vm_compute; reflexivity. Qed.
(* make_memmap under nested keys: the path is free (the hypothesis of C10_make_memmap_nested_returns) through an existing
   node and two new ones, through new nodes only; it is not through a tensor, a lazy stack, an existing key, "shape" *)
Example C10_ex_path_free :
  path_free ["n"; "deep"] "new" ex_tree = true /\ path_free ["p"; "q"; "r"] "new" ex_tree = true /\ path_free ["n"; "e"] "new" ex_tree = true
  /\ path_free ["a"] "new" ex_tree = false /\ path_free ["l"] "new" ex_tree = false /\ path_free ["n"] "b" ex_tree = false
  /\ path_free ["n"; "shape"] "new" ex_tree = false /\ path_free ["n"] "device" ex_tree = false.
Proof. repeat split; reflexivity. Qed.
Example C10_ex_grow_nested_loads : exists d t' d',
  encode default_opts ex_tree = Ok d
  /\ grow_at ["n"; "deep"; "er"] "new" {| lshape := [2; 0]; ldtype := I16; lcells := []; lsrc := InMem |} ex_tree d = Ok (t', d')
  /\ decode d' = Ok (norm t') /\ t' <> ex_tree.
Proof.
  do 3 eexists. split; [vm_compute; reflexivity|]. split; [vm_compute; reflexivity|]. split; [vm_compute; reflexivity|].
  vm_compute. discriminate.
Qed.
Example C10_ex_only_nodes : only_nodes ex_tree = false. Proof. reflexivity. Qed.
(* the hypotheses of C10_refresh_sees_make_memmap hold for the mixed tree (lazy stack, two tensorclasses, NonTensorData,
   NonTensorStack next to the path) and a three-level key with two new nodes *)
Example C10_ex_refresh_mixed : exists d t' d',
  encode default_opts ex_tree = Ok d /\ leaf_ok default_opts new_leaf = true
  /\ grow_at ["n"; "deep"; "er"] "new" new_leaf ex_tree d = Ok (t', d').
Proof. do 3 eexists. split; [vm_compute; reflexivity|]. split; [reflexivity|vm_compute; reflexivity]. Qed.
