(* C10 — memory-mapped save/load.  Property theorems only. *)
From Coq Require Import ZArith List String Bool Permutation.
Import ListNotations.
From TD Require Import Model.C10_Meta Model.C10_Sched Proofs.C10_SchedP.
Open Scope string_scope.
Open Scope list_scope.

(* ---- (b) the writer pool: order independence of the task logic ---- *)

(* two tasks that do not write the same key of the destination mapping nor the same file commute *)
Theorem C10_tasks_commute : forall a b s,
  independent2 a b = true -> state_equiv (run_task b (run_task a s)) (run_task a (run_task b s)).
Proof. exact tasks_commute_lemma. Qed.
Print Assumptions C10_tasks_commute.

(* every completion order (every permutation of the submitted tasks) ends in the same destination mapping, the same
   files and the same directories — as mappings; from any state the calling thread left *)
Theorem C10_any_order : forall ts ts' s,
  independent ts = true -> Permutation ts ts' -> state_equiv (run_tasks ts s) (run_tasks ts' s).
Proof. intros ts ts' s Hi Hp. now apply any_order_lemma. Qed.
Print Assumptions C10_any_order.

(* when the sequential run (executor=None) succeeds, the pool run in submission order is that very state *)
Theorem C10_sequential_is_an_order : forall ts s s',
  run_tasks_strict ts s = Ok s' -> s' = run_tasks ts s.
Proof. exact strict_ok_is_pool. Qed.
Print Assumptions C10_sequential_is_an_order.
