(* C10 — memory-mapped save/load is a faithful, shared, thread-safe round trip.  Property theorems only.
   What is runtime — mmap coherence between mappings and processes, real thread preemption, bytes of a file read
   with another dtype — is not modelled (harness/c10.py exercises it). *)
From Coq Require Import ZArith List String Bool Permutation.
Import ListNotations.
From TD Require Import Model.C10_Meta Model.C10_Sched Proofs.C10_MetaP Proofs.C10_SchedP Proofs.C10_TasksP Proofs.C10_GrowP.
Open Scope string_scope.
Open Scope list_scope.

(* ================================================================== (a) the codec *)

(* load_memmap (memmap t) = t — for every structure of any depth and width (TensorDict nodes, lazy stacks, tensorclass
   instances, NonTensorData, NonTensorStack, empty nodes; any dtype of _STRDTYPE2DTYPE, any shape with > 0 elements,
   in memory or already memory-mapped) whose keys are distinct and are not "shape" / "device" / "_type", whose payloads
   survive JSON (or go through pickle), saved with memmap / memmap_ / save (copy_existing as needed).
   The loaded structure is [norm t]: t with, in every node, tensors first and sub-collections after them. *)
Theorem C10_decode_encode : forall o t, valid_root o t = true -> bind (encode o t) decode = Ok (norm t).
Proof. exact decode_encode_lemma. Qed.
Print Assumptions C10_decode_encode.

(* ... and norm t is t as a nested mapping: same keys at every node, same shapes, dtypes, cells, payloads, classes *)
Theorem C10_norm_is_the_same_mapping : forall o t, valid o t = true -> same_mapping t (norm t).
Proof. exact norm_same_mapping. Qed.
Print Assumptions C10_norm_is_the_same_mapping.

(* the unrestricted statement is false of the faithful model: /repo really loses these structures (findings D101-D107) *)
Definition C10_decode_encode_full_statement : Prop :=
  forall o t, like o = false -> is_leaf t = false -> bind (encode o t) decode = Ok (root_norm t).

Definition f32 (sh : list nat) (cells : list Z) : td := Leaf {| lshape := sh; ldtype := F32; lcells := cells; lsrc := InMem |}.
Definition wit_zero_size : td := Node [] [("z", f32 [0; 3] []); ("r", f32 [] [5%Z])].
Definition wit_reserved : td := Node [2] [("shape", f32 [2] [1%Z; 2%Z]); ("a", f32 [2] [3%Z; 4%Z])].
Definition wit_tuple : td := Node [] [("n", NData [] (PTuple [PStr "a"; PInt 1]))].
Definition wit_set : td := Node [] [("n", NData [] (PSet [PInt 1; PInt 2]))].
Definition wit_stack_of_lists : td := Node [2] [("s", NStack [NData [] (PList [PInt 1; PStr "u"]); NData [] (PList [PInt 2; PStr "v"])])].
Definition wit_wide_ndata : td := Node [3] [("n", NData [3; 2] (PStr "v"))].
Definition wit_float8 : td := Node [2] [("x", Leaf {| lshape := [2]; ldtype := F8E5M2; lcells := [0%Z; 1%Z]; lsrc := InMem |})].

Theorem C10_decode_encode_refuted :
  (* D101 a tensor with 0 elements is dropped *)
  bind (encode default_opts wit_zero_size) decode = Ok (Node [] [("r", Leaf (loaded_leaf {| lshape := []; ldtype := F32; lcells := [5%Z]; lsrc := InMem |}))])
  (* D102 an entry named like a metadata field is dropped *)
  /\ bind (encode default_opts wit_reserved) decode = Ok (Node [2] [("a", Leaf (loaded_leaf {| lshape := [2]; ldtype := F32; lcells := [3%Z; 4%Z]; lsrc := InMem |}))])
  (* D103 a tuple comes back as a list *)
  /\ bind (encode default_opts wit_tuple) decode = Ok (Node [] [("n", NData [] (PList [PStr "a"; PInt 1]))])
  (* D104 a set cannot be saved *)
  /\ encode default_opts wit_set = Raised ETypeError
  (* D105 a stack of list payloads comes back as a 2-dimensional stack *)
  /\ bind (encode default_opts wit_stack_of_lists) decode
     = Ok (Node [2] [("s", NStack [NStack [NData [] (PInt 1); NData [] (PStr "u")]; NStack [NData [] (PInt 2); NData [] (PStr "v")]])])
  (* D106 a NonTensorData wider than its parent takes the parent's batch size *)
  /\ bind (encode default_opts wit_wide_ndata) decode = Ok (Node [3] [("n", NData [3] (PStr "v"))])
  (* D107 a dtype that is not in the string table cannot be loaded *)
  /\ bind (encode default_opts wit_float8) decode = Raised EKeyError.
Proof. repeat split; vm_compute; reflexivity. Qed.
Print Assumptions C10_decode_encode_refuted.

(* saving over a directory that already holds something: stale members of a longer lazy stack and a stale other.pickle
   are picked up by the loader (findings D108, D109) *)
Definition lazy_of (n : nat) : td := Lazy 0 (repeat (Node [2] [("a", f32 [2] [1%Z; 2%Z])]) n).
Theorem C10_resave_refuted :
  (exists m, bind (bind (encode default_opts (lazy_of 3)) (save_over default_opts (lazy_of 2))) decode = Ok (Lazy 0 m) /\ List.length m = 3)
  /\ bind (bind (encode default_opts (Node [] [("n", NData [] (PObj 7))])) (save_over default_opts (Node [] [("n", NData [] (PStr "new"))]))) decode
     = Ok (Node [] [("n", NData [] (PObj 7))]).
Proof. split; [eexists; split|]; vm_compute; reflexivity. Qed.
Print Assumptions C10_resave_refuted.

(* ================================================================== (b) the writer pool *)

(* two tasks that do not write the same key of the destination mapping nor the same file commute *)
Theorem C10_tasks_commute : forall a b s,
  independent2 a b = true -> state_equiv (run_task b (run_task a s)) (run_task a (run_task b s)).
Proof. exact tasks_commute_lemma. Qed.
Print Assumptions C10_tasks_commute.

(* every completion order (every permutation of the submitted tasks) ends in the same destination mapping, the same
   files and the same directories — as mappings; from any state the calling thread left.  Key ORDER of a result that is
   not built in place follows the completion order: stated, not claimed. *)
Theorem C10_any_order : forall ts ts' s,
  independent ts = true -> Permutation ts ts' -> state_equiv (run_tasks ts s) (run_tasks ts' s).
Proof. intros ts ts' s Hi Hp. now apply any_order_lemma. Qed.
Print Assumptions C10_any_order.

(* the tasks `_memmap_` submits for a structure with distinct keys are pairwise independent, whatever the prefix *)
Theorem C10_tasks_independent : forall o t p, keys_distinct t = true -> independent (tasks_of o t p) = true.
Proof. exact tasks_independent_lemma. Qed.
Print Assumptions C10_tasks_independent.

(* hence: memmap / memmap_ / memmap_like with a pool give one result for all completion orders *)
Theorem C10_memmap_any_order : forall o inplace t ts',
  keys_distinct t = true -> Permutation (tasks_of o t []) ts' ->
  state_equiv (run_pool o inplace t (tasks_of o t [])) (run_pool o inplace t ts').
Proof. intros. unfold run_pool. apply any_order_lemma; auto. now apply tasks_independent_lemma. Qed.
Print Assumptions C10_memmap_any_order.

(* when the sequential run (executor=None) succeeds, it is the pool run in submission order *)
Theorem C10_sequential_is_an_order : forall ts s s', run_tasks_strict ts s = Ok s' -> s' = run_tasks ts s.
Proof. exact strict_ok_is_pool. Qed.
Print Assumptions C10_sequential_is_an_order.

(* "whatever the number of writer threads" is false where a task fails (finding S2): sequentially the call raises, with a
   pool the exception is dropped and the call returns a mapping without the entry *)
Definition wit_elsewhere : td := Node [2] [("a", Leaf {| lshape := [2]; ldtype := I64; lcells := [1%Z; 2%Z]; lsrc := MMElsewhere |})].
Theorem C10_pool_swallows_refuted :
  run_sequential default_opts false wit_elsewhere = Raised ERuntime
  /\ mget path_eqb ["a"] (dest (run_pool default_opts false wit_elsewhere (tasks_of default_opts wit_elsewhere []))) = None
  /\ mget floc_eqb ([], FMeta) (fs (run_pool default_opts false wit_elsewhere (tasks_of default_opts wit_elsewhere []))) <> None.
Proof. repeat split; vm_compute; congruence. Qed.
Print Assumptions C10_pool_swallows_refuted.

(* stated, not proved: the link between the two halves — the files the submitted tasks write, in any order, are the files
   of [encode].  Every generated case evaluates its instance on the extracted model (command "link" of the dispatch). *)
Definition C10_pool_builds_encode_full_statement : Prop :=
  forall o inplace t d, keys_distinct t = true -> encode o t = Ok d ->
  forall ts', Permutation (tasks_of o t []) ts' ->
  forall k, mget floc_eqb k (fs (run_pool o inplace t ts')) = mget floc_eqb k (flatten [] d).

(* ================================================================== (c) make_memmap on a saved tensordict *)

(* a new tensor under a new key of the root (make_memmap / make_memmap_from_tensor / make_memmap_from_storage): the
   directory after the read-modify-write of meta.json loads as the extended tensordict *)
Theorem C10_make_memmap_merge : forall o bs ents k l d,
  valid_root o (Node bs ents) = true -> leaf_ok o l = true -> reserved k = false -> smem k ents = false ->
  encode o (Node bs ents) = Ok d ->
  exists d', grow_at [] k l (Node bs ents) d = Ok (Node bs (ents ++ [(k, Leaf l)]), d')
             /\ decode d' = Ok (norm (Node bs (ents ++ [(k, Leaf l)]))).
Proof. exact make_memmap_merge_lemma. Qed.
Print Assumptions C10_make_memmap_merge.

(* stated, not proved: the same for a nested key (intermediate nodes created by _make_memmap_subtd, each with its own
   read-modify-write of the parent's meta.json).  The correspondence run compares directory and loader on such calls. *)
Definition C10_make_memmap_merge_full_statement : Prop :=
  forall o t ks k l d t' d', valid_root o t = true -> leaf_ok o l = true -> Forall (fun x => reserved x = false) (k :: ks) ->
  encode o t = Ok d -> grow_at ks k l t d = Ok (t', d') -> decode d' = Ok (norm t').

(* ================================================================== non-vacuity *)
Definition ex_tree : td :=
  Node [2] [("a", Leaf {| lshape := [2; 3]; ldtype := I64; lcells := [0; 1; 2; 3; 4; 5]%Z; lsrc := InMem |});
            ("n", Node [2] [("b", Leaf {| lshape := [2]; ldtype := BOOL; lcells := [1; 0]%Z; lsrc := MMNoFile |}); ("e", Node [2; 1] [])]);
            ("l", Lazy 0 [Node [] [("x", f32 [3] [1; 2; 3]%Z)]; Node [] [("y", f32 [] [7%Z])]]);
            ("c", TCls "TCA" (Node [2] [("x", f32 [2] [8; 9]%Z); ("tag", NData [2] (PStr "t"))]));
            ("nt", NData [2] (PDict [("k", PList [PInt 1; PNone])]));
            ("o", NData [2] (PList [PObj 3; PTuple [PInt 1]]));
            ("s", NStack [NData [] (PStr "p"); NData [] (PStr "q")])].
Example C10_ex_valid : valid_root default_opts ex_tree = true. Proof. reflexivity. Qed.
Example C10_ex_roundtrip : bind (encode default_opts ex_tree) decode = Ok (norm ex_tree) /\ norm ex_tree <> ex_tree.
Proof. split; [vm_compute; reflexivity|vm_compute; discriminate]. Qed.
Example C10_ex_tasks : List.length (tasks_of default_opts ex_tree []) = 17 /\ keys_distinct ex_tree = true
  /\ independent (tasks_of default_opts ex_tree []) = true.
Proof. repeat split; vm_compute; reflexivity. Qed.
Example C10_ex_dependent_tasks_do_not_commute :
  let a := TWrite [] (Ok [(FMeta, CJson JNull)]) in let b := TWrite [] (Ok [(FMeta, CJson (JBool true))]) in
  independent2 a b = false
  /\ mget floc_eqb ([], FMeta) (fs (run_tasks [a; b] init_state)) <> mget floc_eqb ([], FMeta) (fs (run_tasks [b; a] init_state)).
Proof. split; vm_compute; congruence. Qed.
Example C10_ex_grow : exists d d', encode default_opts ex_tree = Ok d
  /\ grow_at [] "new" {| lshape := [2; 2]; ldtype := I16; lcells := [1; 2; 3; 4]%Z; lsrc := MMElsewhere |} ex_tree d
     = Ok (Node [2] (match ex_tree with Node _ es => es | _ => [] end ++ [("new", Leaf {| lshape := [2; 2]; ldtype := I16; lcells := [1; 2; 3; 4]%Z; lsrc := MMElsewhere |})]), d').
Proof. eexists. eexists. split; vm_compute; reflexivity. Qed.
