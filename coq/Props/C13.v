(* C13 — swapping parameters into a module is exact, isolated and always undone.
   Property theorems only: each is closed by [exact] of a lemma proved in Proofs/, followed by Print Assumptions
   (parsed by the harness on every run).  Vocabulary (Proofs/C13_SwapP.v):
     slot3 n k        what _parameters / _buffers / __dict__ of module node n hold under the name k (object identities)
     all_sloteq a b   every module of state a holds, under every name, exactly what it holds in state b (same objects in
                      the same dict; nothing added, nothing lost), same _modules, same type
     wf_heap h        a name lives in one dict of a regular module, _parameters holds Parameters, __dict__ does not
                      (_buffers may hold either: a Parameter given for a buffer name stays in _buffers, D131 repaired);
                      modules with their own __setattr__ have no tensor in __dict__
     block_ok h b     plain or swap_dest= block: no use_state_dict / inplace=True / hand-written swap-back, unique keys,
                      and [scope]: None entries of a custom-__setattr__ module are not addressed (a tensordict naming a
                      None slot is not "same structure / subset")
     set_tensor_dict  = set_tensor_dict_gen fixed_D131 fixed_D134 (both true: the code after the fix: commits); the
                      [_gen false] variants are the code as it was found, kept as witnesses
     run_blocks       nested `with p.to_module(m):` blocks with an exception injected at a level (Model/C13_Swap.v);
                      run_blocks = run_blocks_gen fixed_D6 (fixed_D6 = true since the fix: commit for D6) *)
From Coq Require Import ZArith List String Bool.
Import ListNotations.
From TD Require Import Model.C13_Swap Model.C13_Scope Model.C13_Params Proofs.C13_SwapP Proofs.C13_ExactP Proofs.C13_VariantsP.
Open Scope string_scope.

(* ---- from_module_exact: the captured tensordict has exactly the qualified names of torch's named_parameters /
   named_buffers (remove_duplicate=False) with the same objects (tied tensors stay one object); None when there is none *)
Theorem C13_from_module_exact : forall h fuel m t,
  (forall c n, h_get h c = Some n -> names_ok n) -> from_module fuel h m = FmTd t ->
  exists ps bs, named_members m_params fuel h m "" = Some ps /\ named_members m_bufs fuel h m "" = Some bs
    /\ forall name o, In (name, o) (flat_leaves "" t) <-> In (name, o) ps \/ In (name, o) bs.
Proof. exact from_module_exact. Qed.
Print Assumptions C13_from_module_exact.

Theorem C13_from_module_none : forall h fuel m,
  (forall c n, h_get h c = Some n -> names_ok n) -> from_module fuel h m = FmNone ->
  named_members m_params fuel h m "" = Some [] /\ named_members m_bufs fuel h m "" = Some [].
Proof. exact from_module_none. Qed.
Print Assumptions C13_from_module_none.

(* ---- swap_then_restore, one call level: to_module followed by to_module of the returned swap puts every slot of every
   module back (any tree: shared submodules through the memo, tied tensors, custom-__setattr__ modules, subsets) and
   writes no tensor content *)
Theorem C13_swap_then_swap_back : forall b st st1 memo1 swap,
  block_ok (t_heap st) b -> wf_heap (t_heap st) ->
  to_module (cfg_of b true) (b_params b) (b_target b) st = TmOk st1 memo1 swap ->
  exists st2 memo2 sw2, to_module (cfg_of b true) swap (b_target b) st1 = TmOk st2 memo2 sw2
    /\ all_sloteq st2 st /\ t_vals st2 = t_vals st.
Proof. exact swap_then_swap_back. Qed.
Print Assumptions C13_swap_then_swap_back.

(* ---- isolated: a plain to_module call writes no tensor content, touches no module it does not visit, and never
   changes _modules or a module's type *)
Theorem C13_swap_isolated : forall b st st1 memo1 swap,
  block_ok (t_heap st) b ->
  to_module (cfg_of b true) (b_params b) (b_target b) st = TmOk st1 memo1 swap ->
  t_vals st1 = t_vals st /\ t_next st1 = t_next st /\ struct_same (t_heap st) (t_heap st1)
  /\ (forall c, z_get memo1 c = None -> hg st1 c = hg st c) /\ (wf_heap (t_heap st) -> wf_heap (t_heap st1)).
Proof. exact swap_isolated. Qed.
Print Assumptions C13_swap_isolated.

(* ---- swap_then_restore, programs: any nesting of with-blocks (each on any module of the tree) in which nothing is
   raised restores every slot (for either setting of the D6 switch) *)
Theorem C13_swap_then_restore : forall fixed x bs lvl st st' evs oc,
  run_blocks_gen fixed x bs lvl st = (st', evs, oc) ->
  x_kind x = XNone -> Forall (fun e => ev_out e = OOk) evs ->
  Forall (block_ok (t_heap st)) bs -> wf_heap (t_heap st) ->
  all_sloteq st' st /\ t_vals st' = t_vals st /\ oc = OOk.
Proof. exact restore_normal. Qed.
Print Assumptions C13_swap_then_restore.

(* D131 repaired: a buffer name given an nn.Parameter (the case that used to end with the buffer in __dict__) is inside
   the theorem's domain now; inside the block the Parameter sits in _buffers, after the exit every slot is back.  The
   witness on the code as it was found (f131 = false): there and back leaves the buffer in __dict__ *)
Example C13_ex_buffer_given_Parameter_restored :
  let '(st', evs, oc) := run_blocks (mkExc XNone 0 false) [ex_b3] 0 ex_st in
  Forall (fun e => ev_out e = OOk) evs /\ List.length evs = 2%nat /\ all_sloteq st' ex_st
  /\ match evs with e :: _ => option_map (fun n => slot3 n "r") (hg (ev_state e) 0%Z) = Some (None, Some (Some (oP 12)), None)
      | [] => False end.
Proof. exact ex_D131_repaired. Qed.
Theorem C13_unrepaired_D131_refuted :
  there_and_back false = Some (None, None, Some (oT 2)) /\ there_and_back true = Some (slot3 ex_root "r")
  /\ slot3 ex_root "r" = (None, Some (Some (oT 2)), None).
Proof. exact unrepaired_D131. Qed.
Print Assumptions C13_unrepaired_D131_refuted.

(* ---- restore_on_exception (D6 repaired: __exit__ inverts a parameter swap also when the body raised): every program,
   every injection point (before / in the k-th module's forward / in a hook / after / after an inner block), every
   exception class, every nesting depth: when the outermost block has been left every slot is back *)
Definition C13_restore_on_exception_full_statement : Prop := restore_on_exception_statement.
Theorem C13_restore_on_exception : restore_on_exception_statement.
Proof. exact restore_on_exception. Qed.
Print Assumptions C13_restore_on_exception.

(* the same with the content of the tensors, stated on the semantics directly *)
Theorem C13_restore_on_exception_values : forall x bs lvl st st' evs oc,
  run_blocks_gen true x bs lvl st = (st', evs, oc) ->
  Forall (block_ok (t_heap st)) bs -> wf_heap (t_heap st) -> enters_ok evs ->
  all_sloteq st' st /\ t_vals st' = t_vals st.
Proof. exact restore_fixed. Qed.
Print Assumptions C13_restore_on_exception_values.

(* ---- the recorded operation holds only a weak reference to the source tensordict (`with params.data.to_module(m):`
   leaves with a dead one): block_ok says nothing about b_live, so every restore theorem above holds whether the source
   is alive or not; and, for any block at all, the state the inverse leaves is the same in both cases *)
Theorem C13_restore_independent_of_source : forall b swap st l1 l2,
  fst (reverse_to_module (with_live b l1) swap st) = fst (reverse_to_module (with_live b l2) swap st).
Proof. exact reverse_state_live_irrelevant. Qed.
Print Assumptions C13_restore_independent_of_source.

(* ---- inplace=True with a tied tensor (D134 repaired: the object met a second time keeps the clone saved the first
   time): identities stay, the content inside the block is the last supplied value, the original content is back after
   the exit.  The witness on the code as it was found (f134 = false) ends with the first supplied value *)
Example C13_ex_inplace_tied_restored :
  let '(st', evs, oc) := run_blocks (mkExc XNone 0 false) [ex_b4] 0 (mkSt ex_heap4 ex_vals FRESH_BASE []) in
  Forall (fun e => ev_out e = OOk) evs /\ t_heap st' = ex_heap4
  /\ z_get (t_vals st') 1%Z = Some 10%Z /\ z_get ex_vals 1%Z = Some 10%Z
  /\ match evs with e :: _ => z_get (t_vals (ev_state e)) 1%Z = Some 5%Z | [] => False end.
Proof. exact ex_D134_repaired. Qed.
Theorem C13_unrepaired_D134_refuted :
  tied_roundtrip false = Some (5%Z, Some 1%Z) /\ tied_roundtrip true = Some (5%Z, Some 10%Z) /\ z_get ex_vals 1%Z = Some 10%Z.
Proof. exact unrepaired_D134. Qed.
Print Assumptions C13_unrepaired_D134_refuted.

(* inplace=True, one leaf: a regular module keeps the very object under the name (and under every other name) *)
Theorem C13_inplace_keeps_identity : forall n k x st,
  let '(n', out, st') := set_tensor_dict n k x true st in
  wf3 (slot3 n k) -> out <> None ->
  slot3 n' k = slot3 n k /\ (forall k', k' <> k -> slot3 n' k' = slot3 n k') /\ m_custom n' = m_custom n /\ m_subs n' = m_subs n.
Proof. exact std_slot_inplace. Qed.
Print Assumptions C13_inplace_keeps_identity.

(* ---- inplace=True, whole calls: any to_module(inplace=True) call that returns (any tensordict, any module DAG, shared
   sub-modules, any return_swap) leaves every slot of every module holding the very object it held, in the same dict *)
Theorem C13_inplace_keeps_objects : forall t cfg m st memo st1 memo1 sw,
  c_usd cfg = false /\ c_inplace cfg = Some true ->
  to_mod cfg t m st memo = TmOk st1 memo1 sw -> wf_heap (t_heap st) -> all_sloteq st1 st.
Proof. exact (fun t cfg m st memo st1 memo1 sw Hi => I_all t cfg Hi m st memo st1 memo1 sw). Qed.
Print Assumptions C13_inplace_keeps_objects.

(* ---- swap_then_restore for programs mixing plain, swap_dest= and inplace=True blocks (each on any module of the DAG,
   any nesting): after a normal run every slot holds the object it held before.  (What is not proved for in-place
   blocks: the tensor CONTENTS after the exit, and exits by an exception -- model + run only.) *)
Theorem C13_swap_then_restore_mixed : forall fixed x bs lvl st st' evs oc,
  run_blocks_gen fixed x bs lvl st = (st', evs, oc) ->
  x_kind x = XNone -> Forall (fun e => ev_out e = OOk) evs ->
  Forall (block_ok2 (t_heap st)) bs -> wf_heap (t_heap st) ->
  all_sloteq st' st /\ oc = OOk.
Proof. exact restore_normal_mixed. Qed.
Print Assumptions C13_swap_then_restore_mixed.

(* ---- swap_dest= (D133 repaired): block_ok admits swap_dest blocks, so swap_then_restore / restore_on_exception above
   cover them; and the values leaving the module land in the destination under the same keys *)
Theorem C13_swap_dest_receives : forall b st st1 memo1 swap0 d,
  block_ok (t_heap st) b ->
  to_module (cfg_of b true) (b_params b) (b_target b) st = TmOk st1 memo1 swap0 ->
  quick_set swap0 (PTD []) = QOk d -> d = swap0.
Proof. exact swap_dest_receives. Qed.
Print Assumptions C13_swap_dest_receives.

(* a swap with a sub-module entry never gets there: _quick_set raises KeyError on the empty destination after the module
   has been swapped; to_module raises and the module stays swapped (an entry failure, outside the property's statement) *)
Example C13_ex_swap_dest_nested_raises :
  let b := mkBlock 0 None false true false true ex_td1 in
  block_ok (t_heap ex_st) b /\
  match run_blocks (mkExc XNone 0 false) [b] 0 ex_st with
  | (st', [e], oc) => ev_kind e = EvEnter /\ ev_out e = ORaise EKeyError /\ ~ all_sloteq st' ex_st
  | _ => False
  end.
Proof. exact ex_swap_dest_nested. Qed.

(* ---- params_registration: after any sequence of updates issued on the TensorDictParams itself, _parameters and
   _buffers are exactly the leaves (flattened names assumed pairwise different, i.e. no "."-collision) *)
Theorem C13_params_registration : forall ops s,
  registered_exactly s -> Forall (fun o => top_level o = true) ops ->
  (forall n, names_unique (run_ops s (firstn n ops))) ->
  registered_exactly (run_ops s ops).
Proof. exact params_registration_lemma. Qed.
Print Assumptions C13_params_registration.

(* the restriction to updates issued on the TensorDictParams cannot be dropped: D135 *)
Definition C13_params_registration_full_statement : Prop :=
  forall ops s, registered_exactly s -> (forall n, names_unique (run_ops s (firstn n ops))) -> registered_exactly (run_ops s ops).
Theorem C13_params_registration_nested_refuted :
  registered_exactly ex_tdp /\ names_unique (run_ops ex_tdp [ONestedSet ["n"] "z" (oP 2)])
  /\ ~ registered_exactly (run_ops ex_tdp [ONestedSet ["n"] "z" (oP 2)]).
Proof. exact ex_D135. Qed.
Print Assumptions C13_params_registration_nested_refuted.

(* ---- non-vacuity: a heap with a shared submodule (root.a is root.b), a tied parameter (root.w is root.c.w), a module
   with its own __setattr__ and a None parameter meets the hypotheses; a two-level program over it runs normally *)
Example C13_ex_hypotheses : Forall (block_ok (t_heap ex_st)) [ex_b1; ex_b2] /\ wf_heap (t_heap ex_st).
Proof. exact ex_hyps. Qed.
Example C13_ex_normal_run :
  let '(st', evs, oc) := run_blocks (mkExc XNone 0 false) [ex_b1; ex_b2] 0 ex_st in
  Forall (fun e => ev_out e = OOk) evs /\ List.length evs = 4%nat /\ oc = OOk.
Proof. exact ex_normal_run. Qed.
Example C13_ex_exception_restored :
  let '(st', evs, oc) := run_blocks (mkExc XExc 1 true) [ex_b1; ex_b2] 0 ex_st in all_sloteq st' ex_st.
Proof. exact ex_exception_restored. Qed.
Example C13_ex_usd_swap_dest :
  (let '(st', evs, oc) := run_blocks (mkExc XNone 0 false) [ex_b5] 0 (mkSt ex_heap4 ex_vals FRESH_BASE []) in
   oc = OOk /\ t_heap st' = ex_heap4)
  /\ (let '(st', evs, oc) := run_blocks (mkExc XNone 0 false) [ex_b6] 0 (mkSt ex_heap4 ex_vals FRESH_BASE []) in
      oc = OOk /\ t_heap st' = ex_heap4).
Proof. exact ex_usd_swap_dest_run. Qed.
Example C13_ex_mixed_hypotheses : Forall (block_ok2 (t_heap ex_st)) [ex_b1; ex_b7; ex_b8] /\ wf_heap (t_heap ex_st).
Proof. exact ex_mixed_hyps. Qed.
Example C13_ex_mixed_run :
  let '(st', evs, oc) := run_blocks (mkExc XNone 0 false) [ex_b1; ex_b7; ex_b8] 0 ex_st in
  Forall (fun e => ev_out e = OOk) evs /\ List.length evs = 6%nat /\ oc = OOk.
Proof. exact ex_mixed_run. Qed.
Example C13_ex_inplace_call :
  (c_usd (cfg_of ex_b7 true) = false /\ c_inplace (cfg_of ex_b7 true) = Some true) /\
  exists st1 memo1 sw, to_module (cfg_of ex_b7 true) (b_params ex_b7) 0 ex_st = TmOk st1 memo1 sw
    /\ z_get (t_vals st1) 1%Z = Some 1%Z /\ z_get (t_vals ex_st) 1%Z = Some 10%Z.
Proof. exact ex_inplace_call. Qed.
Example C13_ex_from_module :
  (forall c n, h_get ex_heap c = Some n -> names_ok n)
  /\ exists t, from_module 4 ex_heap 0 = FmTd t /\ List.length (flat_leaves "" t) = 5%nat.
Proof. exact ex_from_module. Qed.
Example C13_ex_params : registered_exactly ex_tdp /\ top_level (OSet ["n"; "z"] (oT 2) true true) = true.
Proof. split; [exact (proj1 ex_D135)|reflexivity]. Qed.
