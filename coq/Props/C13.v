(* C13 — property theorems (placeholder while the model is being tied to the code) *)
From Coq Require Import ZArith List String Bool.
From TD Require Import Model.C13_Swap.
Theorem C13_placeholder : fixed_D6 = false.
Proof. reflexivity. Qed.
Print Assumptions C13_placeholder.
