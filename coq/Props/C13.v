(* C13 — swapping parameters into a module is exact, isolated and always undone.
   Property theorems only: each is closed by [exact] of a lemma proved in Proofs/, followed by Print Assumptions
   (parsed by the harness on every run).  Vocabulary (Proofs/C13_SwapP.v):
     slot3 n k        what _parameters / _buffers / __dict__ of module node n hold under the name k (object identities)
     all_sloteq a b   every module of state a holds, under every name, exactly what it holds in state b (same objects in
                      the same dict; nothing added, nothing lost), same _modules, same type
     wf_heap h        a name lives in one dict of a regular module, _parameters holds Parameters, __dict__ does not
                      (_buffers may hold either: a Parameter given for a buffer name stays in _buffers, D131 repaired);
                      modules with their own __setattr__ have no tensor in __dict__
     block_ok h b     plain or swap_dest= block: no use_state_dict / inplace=True / hand-written swap-back, unique keys,
                      and [scope]: None entries of a custom-__setattr__ module are not addressed (a tensordict naming a
                      None slot is not "same structure / subset")
     set_tensor_dict  = set_tensor_dict_gen fixed_D131 fixed_D134 (both true: the code after the fix: commits); the
                      [_gen false] variants are the code as it was found, kept as witnesses
     run_blocks       nested `with p.to_module(m):` blocks with an exception injected at a level (Model/C13_Swap.v);
                      run_blocks = run_blocks_gen fixed_D6 (fixed_D6 = true since the fix: commit for D6) *)
From Coq Require Import ZArith List String Bool.
Import ListNotations.
From TD Require Import Model.C13_Swap Model.C13_Scope Model.C13_Params Proofs.C13_SwapP Proofs.C13_ExactP Proofs.C13_VariantsP Proofs.C13_InplaceP Proofs.C13_ManualP.
Open Scope string_scope.

(* ---- from_module_exact: the captured tensordict has exactly the qualified names of torch's named_parameters /
   named_buffers (remove_duplicate=False) with the same objects (tied tensors stay one object); None when there is none *)
Theorem C13_from_module_exact : forall h fuel m t,
  (forall c n, h_get h c = Some n -> names_ok n) -> from_module fuel h m = FmTd t ->
  exists ps bs, named_members m_params fuel h m "" = Some ps /\ named_members m_bufs fuel h m "" = Some bs
    /\ forall name o, In (name, o) (flat_leaves "" t) <-> In (name, o) ps \/ In (name, o) bs.
Proof. exact from_module_exact. Qed.
Print Assumptions C13_from_module_exact.

Theorem C13_from_module_none : forall h fuel m,
  (forall c n, h_get h c = Some n -> names_ok n) -> from_module fuel h m = FmNone ->
  named_members m_params fuel h m "" = Some [] /\ named_members m_bufs fuel h m "" = Some [].
Proof. exact from_module_none. Qed.
Print Assumptions C13_from_module_none.

(* ---- swap_then_restore, one call level: to_module followed by to_module of the returned swap puts every slot of every
   module back (any tree: shared submodules through the memo, tied tensors, custom-__setattr__ modules, subsets) and
   writes no tensor content *)
Theorem C13_swap_then_swap_back : forall b st st1 memo1 swap,
  block_ok (t_heap st) b -> wf_heap (t_heap st) ->
  to_module (cfg_of b true) (b_params b) (b_target b) st = TmOk st1 memo1 swap ->
  exists st2 memo2 sw2, to_module (cfg_of b true) swap (b_target b) st1 = TmOk st2 memo2 sw2
    /\ all_sloteq st2 st /\ t_vals st2 = t_vals st.
Proof. exact swap_then_swap_back. Qed.
Print Assumptions C13_swap_then_swap_back.

(* ---- isolated: a plain to_module call writes no tensor content, touches no module it does not visit, and never
   changes _modules or a module's type *)
Theorem C13_swap_isolated : forall b st st1 memo1 swap,
  block_ok (t_heap st) b ->
  to_module (cfg_of b true) (b_params b) (b_target b) st = TmOk st1 memo1 swap ->
  t_vals st1 = t_vals st /\ t_next st1 = t_next st /\ struct_same (t_heap st) (t_heap st1)
  /\ (forall c, z_get memo1 c = None -> hg st1 c = hg st c) /\ (wf_heap (t_heap st) -> wf_heap (t_heap st1)).
Proof. exact swap_isolated. Qed.
Print Assumptions C13_swap_isolated.

(* ---- swap_then_restore, programs: any nesting of with-blocks (each on any module of the tree) in which nothing is
   raised restores every slot (for either setting of the D6 switch) *)
Theorem C13_swap_then_restore : forall fixed x bs lvl st st' evs oc,
  run_blocks_gen fixed x bs lvl st = (st', evs, oc) ->
  x_kind x = XNone -> Forall (fun e => ev_out e = OOk) evs ->
  Forall (block_ok (t_heap st)) bs -> wf_heap (t_heap st) ->
  all_sloteq st' st /\ t_vals st' = t_vals st /\ oc = OOk.
Proof. exact restore_normal. Qed.
Print Assumptions C13_swap_then_restore.

(* D131 repaired: a buffer name given an nn.Parameter (the case that used to end with the buffer in __dict__) is inside
   the theorem's domain now; inside the block the Parameter sits in _buffers, after the exit every slot is back.  The
   witness on the code as it was found (f131 = false): there and back leaves the buffer in __dict__ *)
Example C13_ex_buffer_given_Parameter_restored :
  let '(st', evs, oc) := run_blocks (mkExc XNone 0 false) [ex_b3] 0 ex_st in
  Forall (fun e => ev_out e = OOk) evs /\ List.length evs = 2%nat /\ all_sloteq st' ex_st
  /\ match evs with e :: _ => option_map (fun n => slot3 n "r") (hg (ev_state e) 0%Z) = Some (None, Some (Some (oP 12)), None)
      | [] => False end.
Proof. exact ex_D131_repaired. Qed.
Theorem C13_unrepaired_D131_refuted :
  there_and_back false = Some (None, None, Some (oT 2)) /\ there_and_back true = Some (slot3 ex_root "r")
  /\ slot3 ex_root "r" = (None, Some (Some (oT 2)), None).
Proof. exact unrepaired_D131. Qed.
Print Assumptions C13_unrepaired_D131_refuted.

(* ---- restore_on_exception (D6 repaired: __exit__ inverts a parameter swap also when the body raised): every program,
   every injection point (before / in the k-th module's forward / in a hook / after / after an inner block), every
   exception class, every nesting depth: when the outermost block has been left every slot is back *)
Definition C13_restore_on_exception_full_statement : Prop := restore_on_exception_statement.
Theorem C13_restore_on_exception : restore_on_exception_statement.
Proof. exact restore_on_exception. Qed.
Print Assumptions C13_restore_on_exception.

(* the same with the content of the tensors, stated on the semantics directly *)
Theorem C13_restore_on_exception_values : forall x bs lvl st st' evs oc,
  run_blocks_gen true x bs lvl st = (st', evs, oc) ->
  Forall (block_ok (t_heap st)) bs -> wf_heap (t_heap st) -> enters_ok evs ->
  all_sloteq st' st /\ t_vals st' = t_vals st.
Proof. exact restore_fixed. Qed.
Print Assumptions C13_restore_on_exception_values.

(* ---- the recorded operation holds only a weak reference to the source tensordict (`with params.data.to_module(m):`
   leaves with a dead one): block_ok says nothing about b_live, so every restore theorem above holds whether the source
   is alive or not; and, for any block at all, the state the inverse leaves is the same in both cases *)
Theorem C13_restore_independent_of_source : forall b swap st l1 l2,
  fst (reverse_to_module (with_live b l1) swap st) = fst (reverse_to_module (with_live b l2) swap st).
Proof. exact reverse_state_live_irrelevant. Qed.
Print Assumptions C13_restore_independent_of_source.

(* ---- inplace=True with a tied tensor (D134 repaired: the object met a second time keeps the clone saved the first
   time): identities stay, the content inside the block is the last supplied value, the original content is back after
   the exit.  The witness on the code as it was found (f134 = false) ends with the first supplied value *)
Example C13_ex_inplace_tied_restored :
  let '(st', evs, oc) := run_blocks (mkExc XNone 0 false) [ex_b4] 0 (mkSt ex_heap4 ex_vals FRESH_BASE []) in
  Forall (fun e => ev_out e = OOk) evs /\ t_heap st' = ex_heap4
  /\ z_get (t_vals st') 1%Z = Some 10%Z /\ z_get ex_vals 1%Z = Some 10%Z
  /\ match evs with e :: _ => z_get (t_vals (ev_state e)) 1%Z = Some 5%Z | [] => False end.
Proof. exact ex_D134_repaired. Qed.
Theorem C13_unrepaired_D134_refuted :
  tied_roundtrip false = Some (5%Z, Some 1%Z) /\ tied_roundtrip true = Some (5%Z, Some 10%Z) /\ z_get ex_vals 1%Z = Some 10%Z.
Proof. exact unrepaired_D134. Qed.
Print Assumptions C13_unrepaired_D134_refuted.

(* inplace=True, one leaf: a regular module keeps the very object under the name (and under every other name) *)
Theorem C13_inplace_keeps_identity : forall n k x st,
  let '(n', out, st') := set_tensor_dict n k x true st in
  wf3 (slot3 n k) -> out <> None ->
  slot3 n' k = slot3 n k /\ (forall k', k' <> k -> slot3 n' k' = slot3 n k') /\ m_custom n' = m_custom n /\ m_subs n' = m_subs n.
Proof. exact std_slot_inplace. Qed.
Print Assumptions C13_inplace_keeps_identity.

(* ---- inplace=True, whole calls: any to_module(inplace=True) call that returns (any tensordict, any module DAG, shared
   sub-modules, any return_swap) leaves every slot of every module holding the very object it held, in the same dict *)
Theorem C13_inplace_keeps_objects : forall t cfg m st memo st1 memo1 sw,
  c_usd cfg = false /\ c_inplace cfg = Some true ->
  to_mod cfg t m st memo = TmOk st1 memo1 sw -> wf_heap (t_heap st) -> all_sloteq st1 st.
Proof. exact (fun t cfg m st memo st1 memo1 sw Hi => I_all t cfg Hi m st memo st1 memo1 sw). Qed.
Print Assumptions C13_inplace_keeps_objects.

(* ---- swap_then_restore for programs mixing plain, swap_dest= and inplace=True blocks (each on any module of the DAG,
   any nesting): after a normal run every slot holds the object it held before.  (Exits by an exception and the tensor
   contents of in-place blocks: C13_exception_exit_same_state .. C13_inplace_contents_partial below.) *)
Theorem C13_swap_then_restore_mixed : forall fixed x bs lvl st st' evs oc,
  run_blocks_gen fixed x bs lvl st = (st', evs, oc) ->
  x_kind x = XNone -> Forall (fun e => ev_out e = OOk) evs ->
  Forall (block_ok2 (t_heap st)) bs -> wf_heap (t_heap st) ->
  all_sloteq st' st /\ oc = OOk.
Proof. exact restore_normal_mixed. Qed.
Print Assumptions C13_swap_then_restore_mixed.

(* ---- swap_dest= (D133 repaired): block_ok admits swap_dest blocks, so swap_then_restore / restore_on_exception above
   cover them; and the values leaving the module land in the destination under the same keys *)
Theorem C13_swap_dest_receives : forall b st st1 memo1 swap0 d,
  block_ok (t_heap st) b ->
  to_module (cfg_of b true) (b_params b) (b_target b) st = TmOk st1 memo1 swap0 ->
  quick_set swap0 (PTD []) = QOk d -> d = swap0.
Proof. exact swap_dest_receives. Qed.
Print Assumptions C13_swap_dest_receives.

(* a swap with a sub-module entry never gets there: _quick_set raises KeyError on the empty destination after the module
   has been swapped; to_module raises and the module stays swapped (an entry failure, outside the property's statement) *)
Example C13_ex_swap_dest_nested_raises :
  let b := mkBlock 0 None false true false true ex_td1 in
  block_ok (t_heap ex_st) b /\
  match run_blocks (mkExc XNone 0 false) [b] 0 ex_st with
  | (st', [e], oc) => ev_kind e = EvEnter /\ ev_out e = ORaise EKeyError /\ ~ all_sloteq st' ex_st
  | _ => False
  end.
Proof. exact ex_swap_dest_nested. Qed.

(* ---- params_registration: after any sequence of updates issued on the TensorDictParams itself, _parameters and
   _buffers are exactly the leaves (flattened names assumed pairwise different, i.e. no "."-collision) *)
Theorem C13_params_registration : forall ops s,
  registered_exactly s -> Forall (fun o => top_level o = true) ops ->
  (forall n, names_unique (run_ops s (firstn n ops))) ->
  registered_exactly (run_ops s ops).
Proof. exact params_registration_lemma. Qed.
Print Assumptions C13_params_registration.

(* the restriction to updates issued on the TensorDictParams cannot be dropped: D135 *)
Definition C13_params_registration_full_statement : Prop :=
  forall ops s, registered_exactly s -> (forall n, names_unique (run_ops s (firstn n ops))) -> registered_exactly (run_ops s ops).
Theorem C13_params_registration_nested_refuted :
  registered_exactly ex_tdp /\ names_unique (run_ops ex_tdp [ONestedSet ["n"] "z" (oP 2)])
  /\ ~ registered_exactly (run_ops ex_tdp [ONestedSet ["n"] "z" (oP 2)]).
Proof. exact ex_D135. Qed.
Print Assumptions C13_params_registration_nested_refuted.

(* ---- non-vacuity: a heap with a shared submodule (root.a is root.b), a tied parameter (root.w is root.c.w), a module
   with its own __setattr__ and a None parameter meets the hypotheses; a two-level program over it runs normally *)
Example C13_ex_hypotheses : Forall (block_ok (t_heap ex_st)) [ex_b1; ex_b2] /\ wf_heap (t_heap ex_st).
Proof. exact ex_hyps. Qed.
Example C13_ex_normal_run :
  let '(st', evs, oc) := run_blocks (mkExc XNone 0 false) [ex_b1; ex_b2] 0 ex_st in
  Forall (fun e => ev_out e = OOk) evs /\ List.length evs = 4%nat /\ oc = OOk.
Proof. exact ex_normal_run. Qed.
Example C13_ex_exception_restored :
  let '(st', evs, oc) := run_blocks (mkExc XExc 1 true) [ex_b1; ex_b2] 0 ex_st in all_sloteq st' ex_st.
Proof. exact ex_exception_restored. Qed.
Example C13_ex_usd_swap_dest :
  (let '(st', evs, oc) := run_blocks (mkExc XNone 0 false) [ex_b5] 0 (mkSt ex_heap4 ex_vals FRESH_BASE []) in
   oc = OOk /\ t_heap st' = ex_heap4)
  /\ (let '(st', evs, oc) := run_blocks (mkExc XNone 0 false) [ex_b6] 0 (mkSt ex_heap4 ex_vals FRESH_BASE []) in
      oc = OOk /\ t_heap st' = ex_heap4).
Proof. exact ex_usd_swap_dest_run. Qed.
Example C13_ex_mixed_hypotheses : Forall (block_ok2 (t_heap ex_st)) [ex_b1; ex_b7; ex_b8] /\ wf_heap (t_heap ex_st).
Proof. exact ex_mixed_hyps. Qed.
Example C13_ex_mixed_run :
  let '(st', evs, oc) := run_blocks (mkExc XNone 0 false) [ex_b1; ex_b7; ex_b8] 0 ex_st in
  Forall (fun e => ev_out e = OOk) evs /\ List.length evs = 6%nat /\ oc = OOk.
Proof. exact ex_mixed_run. Qed.
Example C13_ex_inplace_call :
  (c_usd (cfg_of ex_b7 true) = false /\ c_inplace (cfg_of ex_b7 true) = Some true) /\
  exists st1 memo1 sw, to_module (cfg_of ex_b7 true) (b_params ex_b7) 0 ex_st = TmOk st1 memo1 sw
    /\ z_get (t_vals st1) 1%Z = Some 1%Z /\ z_get (t_vals ex_st) 1%Z = Some 10%Z.
Proof. exact ex_inplace_call. Qed.
Example C13_ex_from_module :
  (forall c n, h_get ex_heap c = Some n -> names_ok n)
  /\ exists t, from_module 4 ex_heap 0 = FmTd t /\ List.length (flat_leaves "" t) = 5%nat.
Proof. exact ex_from_module. Qed.
Example C13_ex_params : registered_exactly ex_tdp /\ top_level (OSet ["n"; "z"] (oT 2) true true) = true.
Proof. split; [exact (proj1 ex_D135)|reflexivity]. Qed.

(* ==== in-place blocks: exits by an exception, and the tensor contents (Proofs/C13_InplaceP.v).  Vocabulary:
     mobj st o        o is held by some module of st under some name (_parameters / _buffers / __dict__)
     tidy st          no two distinct tensor objects of the module tree share an identity or a STORAGE (D137 is the
                      complement), every one has a content, the allocator's next storage lies above everything in use
                      (tidyb: the executable check, evaluated on every generated case)
     vals_back st s   s holds, for every tensor of the module tree and every other storage that existed in st, the
                      content st held
     inplT cfg        inplace=True, no use_state_dict, return_swap=True (what the with-statement uses)
     K st0 s          the store during an in-place pass started in st0: every overwritten tensor object has ONE clone
                      in memo["inplace"] (t_saved) on a fresh storage holding the tensor's ORIGINAL content, untouched
                      tensors and all other storages below st0's allocator mark hold what they held *)

(* ---- an exit by an exception leaves exactly the state of a normal exit: any program of with-blocks (plain, swap_dest,
   inplace=True, use_state_dict; any nesting, any tree), any injection point, Exception or BaseException *)
Theorem C13_exception_exit_same_state : forall x x0 bs lvl st, no_manual bs ->
  fst (fst (run_blocks_gen true x bs lvl st)) = fst (fst (run_blocks_gen true x0 bs lvl st)).
Proof. exact run_state_exc_irrelevant. Qed.
Print Assumptions C13_exception_exit_same_state.

(* ---- restore_on_exception for programs mixing plain / swap_dest / in-place blocks: whenever the run without an
   exception completes, the run with an exception injected anywhere ends in the same state, and every slot holds the
   object it held *)
Theorem C13_restore_mixed_on_exception : forall x bs lvl st st' evs oc,
  run_blocks_gen true x bs lvl st = (st', evs, oc) ->
  Forall (block_ok2 (t_heap st)) bs -> wf_heap (t_heap st) ->
  Forall (fun e => ev_out e = OOk) (snd (fst (run_blocks_gen true x_none bs lvl st))) ->
  st' = fst (fst (run_blocks_gen true x_none bs lvl st)) /\ all_sloteq st' st.
Proof. exact restore_mixed_on_exception. Qed.
Print Assumptions C13_restore_mixed_on_exception.

(* ---- one in-place leaf is `out.data.copy_(tensor.data)` on the object in the slot, with the clone taken once per
   object (D134 repaired); afterwards the object holds the supplied value *)
Theorem C13_inplace_leaf_effect : forall n k x st,
  let '(n', out, st') := set_tensor_dict n k x true st in
  match slot_obj (slot3 n k) with
  | Some o => out = Some (fst (inpl_eff st o x)) /\ st' = snd (inpl_eff st o x)
  | None => out = None
  end.
Proof. exact std_inplace_eff. Qed.
Print Assumptions C13_inplace_leaf_effect.
Theorem C13_inplace_leaf_inside : forall st0 s o x c s' v,
  tidy st0 -> K st0 s -> mobj st0 o -> inpl_eff s o x = (c, s') ->
  val_of s x = Some v -> (ostor x < t_next s)%Z -> val_of s' o = Some v.
Proof. exact inpl_eff_inside. Qed.
Print Assumptions C13_inplace_leaf_inside.

(* ---- the way there, any module DAG (shared sub-modules, tied parameters under any number of names), any tensordict:
   memo["inplace"] ends with one clone per overwritten tensor object holding its original content *)
Theorem C13_inplace_saves_originals : forall cfg t m st st1 memo1 sw,
  inplT cfg -> tidy st -> wf_heap (t_heap st) ->
  to_module cfg t m st = TmOk st1 memo1 sw -> K (clear_saved st) st1 /\ all_sloteq st1 st.
Proof. exact inplace_saves_originals. Qed.
Print Assumptions C13_inplace_saves_originals.

(* ---- there and back, any module DAG: re-applying the returned swap in place SUCCEEDS, every slot holds its object and
   every tensor its original content; nothing else that existed is written *)
Theorem C13_inplace_there_and_back : forall cfg t m st st1 memo1 sw,
  inplT cfg -> tidy st -> wf_heap (t_heap st) ->
  to_module cfg t m st = TmOk st1 memo1 sw ->
  exists st2 memo2 sw2, to_module cfg sw m st1 = TmOk st2 memo2 sw2 /\ all_sloteq st2 st /\ vals_back st st2.
Proof. exact inplace_there_and_back. Qed.
Print Assumptions C13_inplace_there_and_back.

(* ---- `with params.to_module(module, inplace=True):` left normally or by an exception of any class raised in the body:
   objects and contents are back.  The statement for every module (storage-level aliasing between distinct tensor
   objects included) is refuted: D137 *)
Definition C13_inplace_contents_full_statement : Prop := inplace_contents_full_statement.
Theorem C13_inplace_contents_refuted : ~ C13_inplace_contents_full_statement.
Proof. exact inplace_contents_refuted. Qed.
Print Assumptions C13_inplace_contents_refuted.
Theorem C13_inplace_contents_partial : forall x b lvl st st' evs oc,
  run_blocks_gen true x [b] lvl st = (st', evs, oc) ->
  inplace_ok b -> b_swap_dest b = false -> tidy st -> wf_heap (t_heap st) -> enters_ok evs ->
  all_sloteq st' st /\ vals_back st st'.
Proof. exact inplace_block_restores. Qed.
Print Assumptions C13_inplace_contents_partial.

(* ---- programs of in-place blocks, any nesting depth, each on any module of the DAG, an exception of any class
   injected anywhere (or none): when the outermost block has been left every slot holds its object and every tensor its
   original content ([back] also carries the allocator facts the next block starts from) *)
Theorem C13_restore_inplace_programs : forall x bs lvl st st' evs oc,
  run_blocks_gen true x bs lvl st = (st', evs, oc) ->
  Forall inplace_ok' bs -> tidy st -> wf_heap (t_heap st) -> enters_ok evs ->
  back st st'.
Proof. exact restore_inplace_programs. Qed.
Print Assumptions C13_restore_inplace_programs.
Example C13_ex_inplace_nested :
  Forall inplace_ok' [ex_b4; ex_b4i] /\
  (let '(st', evs, oc) := run_blocks_gen true (mkExc XExc 1 true) [ex_b4; ex_b4i] 0 ex_st4 in
   enters_ok evs /\ List.length evs = 4%nat /\ oc = ORaise EInject /\ z_get (t_vals st') 1%Z = Some 10%Z
   /\ match evs with _ :: e :: _ => z_get (t_vals (ev_state e)) 1%Z = Some 4%Z | _ => False end).
Proof. exact ex_inplace_nested. Qed.

(* non-vacuity: the tied tree of the D134 example is inside the domain (the executable check agrees); an Exception and
   a BaseException raised in the in-place block: 5 inside, 10 afterwards; the D137 tree is outside and ends with 1 *)
Example C13_ex_inplace_domain :
  inplace_ok ex_b4 /\ b_swap_dest ex_b4 = false /\ tidy ex_st4 /\ wf_heap (t_heap ex_st4)
  /\ inplT (cfg_of ex_b4 true) /\ inplace_block_domainb ex_st4 [ex_b4] = true.
Proof. exact ex_inplace_domain. Qed.
Example C13_ex_inplace_exception_run :
  (let '(st', evs, oc) := run_blocks_gen true (mkExc XExc 0 true) [ex_b4] 0 ex_st4 in
   enters_ok evs /\ oc = ORaise EInject /\ z_get (t_vals st') 1%Z = Some 10%Z
   /\ match evs with e :: _ => z_get (t_vals (ev_state e)) 1%Z = Some 5%Z | [] => False end)
  /\ (let '(st', evs, oc) := run_blocks_gen true (mkExc XBase 0 true) [ex_b4] 0 ex_st4 in
      enters_ok evs /\ z_get (t_vals st') 1%Z = Some 10%Z).
Proof. exact ex_inplace_exception_run. Qed.
Example C13_ex_D137_outside :
  tidyb (mkSt ex_heap_alias ex_vals FRESH_BASE []) = false /\ inplace_ok ex_b_alias /\ wf_heap ex_heap_alias
  /\ ~ tidy (mkSt ex_heap_alias ex_vals FRESH_BASE [])
  /\ (let '(st', evs, oc) := run_blocks_gen true x_none [ex_b_alias] 0 (mkSt ex_heap_alias ex_vals FRESH_BASE []) in
      Forall (fun e => ev_out e = OOk) evs /\ z_get (t_vals st') 1%Z = Some 1%Z /\ z_get ex_vals 1%Z = Some 10%Z).
Proof. exact ex_D137. Qed.

(* ==== the hand-written swap-back `swap = params.to_module(m, return_swap=True); ...; swap.to_module(m)`
   (Proofs/C13_ManualP.v).  With return_swap=False nothing is memoised: the swap of a shared sub-module is re-applied
   once per NAME of the sub-module.  The invariant that makes the extra applications harmless:
     holds n k o        re-installing o under k in node n gives the slot it was and raises nothing
     installed h sw m   every leaf of sw holds in its slot, recursively through _modules (no memo)
   Proved: a value just installed holds (the first application establishes the invariant), and an installed swap can be
   re-applied with return_swap=False on any DAG: the call returns, every slot of every module stays, no content is
   written.  NOT proved (model + run only): that the swap returned by the way there is installed after its first
   application along every path, i.e. the whole there-and-back with return_swap=False for shared sub-modules. *)
Theorem C13_installed_by_leaf : forall cfg m k x st n st' out,
  simple cfg -> wf_heap (t_heap st) -> hg st m = Some n -> leaf_step cfg m k x st = (st', inl out) ->
  exists n', hg st' m = Some n' /\ holds n' k x.
Proof. exact leaf_step_installs. Qed.
Print Assumptions C13_installed_by_leaf.
Theorem C13_installed_swap_reapply_noop : forall cfg sw m st,
  plainF cfg -> installed (t_heap st) sw m ->
  exists st' memo' sw', to_module cfg sw m st = TmOk st' memo' sw' /\ all_sloteq st' st /\ t_vals st' = t_vals st.
Proof. exact reapply_installed_noop. Qed.
Print Assumptions C13_installed_swap_reapply_noop.
Example C13_ex_installed : installed ex_heap ex_sw_orig 0 /\ plainF (mkCfg None false false).
Proof. exact ex_installed. Qed.
Example C13_ex_manual_swap_back :
  let '(st', evs, oc) := run_blocks (mkExc XNone 0 false) [ex_bm] 0 ex_st in
  Forall (fun e => ev_out e = OOk) evs /\ oc = OOk
  /\ option_map (fun n => (slot3 n "w", slot3 n "r")) (hg st' 0%Z)
     = Some ((Some (Some (oP 1)), None, None), (None, Some (Some (oT 2)), None))
  /\ option_map (fun n => slot3 n "w") (hg st' 1%Z) = Some (Some (Some (oP 3)), None, None)
  /\ match evs with e :: _ => option_map (fun n => slot3 n "w") (hg (ev_state e) 1%Z) = Some (Some (Some (oP 13)), None, None)
     | [] => False end.
Proof. exact ex_manual_run. Qed.
