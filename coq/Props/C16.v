(* C16 — non-tensor entries follow batch semantics.  Property theorems only. *)
From Coq Require Import ZArith List Bool.
Import ListNotations.
From TD Require Import Spec.PySlice Spec.C16_ObjArray Model.C16_NonTensor.
Open Scope nat_scope.
