(* C16 — non-tensor entries follow batch semantics.  Property theorems only.
   nt = Shared payload shape (NonTensorData) | Stack dim members (NonTensorStack); denote x I = the object at multi-index I. *)
From Coq Require Import ZArith List Bool Lia.
Import ListNotations.
From TD Require Import Spec.PySlice Spec.C16_ObjArray Model.C16_NonTensor.
From TD Require Import Proofs.C16_BasicsP Proofs.C16_StackP Proofs.C16_SpecP Proofs.C16_IndexP Proofs.C16_TolistP Proofs.C16_AssignP Proofs.C16_MiscP.
From TD Require Import Model.C16_ShapeOps Proofs.C16_ShapeOpsP.
From TD Require Spec.C02_TorchShape Model.C02_ShapeOps Proofs.C02_OpsP.
Open Scope nat_scope.

(* maybe_to_stack / from_nontensordata change the representation, never the array *)
Theorem C16_to_stack_same : forall x y, maybe_to_stack x = Ok y -> forall I, denote y I = denote x I.
Proof. exact to_stack_same. Qed.
Print Assumptions C16_to_stack_same.

Theorem C16_from_nontensordata_same : forall x y, from_nontensordata x = Ok y -> forall I, denote y I = denote x I.
Proof. exact from_nontensordata_same. Qed.
Print Assumptions C16_from_nontensordata_same.

(* unbind: member k along dim is the array with coordinate k fixed at dim — every shape, every nesting of stacks *)
Theorem C16_unbind_denote : forall x k dim y,
  wf x = true -> select k dim x = Ok y -> forall I, dim <= length I -> denote y I = denote x (insert_at dim k I).
Proof. exact select_denote. Qed.
Print Assumptions C16_unbind_denote.

(* _stack_non_tensor: the result (one shared object or a stack) denotes the dense stack = coordinate insertion at dim ... *)
Theorem C16_stack_denote : forall l dim y s,
  Forall (fun m => shape m = Some s) l -> dim <= length s -> stack_nt l dim = Ok y ->
  forall I, denote y I = match nth_error I dim with
                         | Some k => match nth_error l k with Some m => denote m (remove_at dim I) | None => None end
                         | None => None
                         end.
Proof. intros l dim y s Hs Hd H I. rewrite (stack_denote l dim y s Hs Hd H I). apply denote_stack. Qed.
Print Assumptions C16_stack_denote.

(* ... and is a single shared object only when every operand is a NonTensorData with that same payload, else the stack *)
Theorem C16_stack_repr : forall l dim y, stack_nt l dim = Ok y ->
  (exists p sh, y = Shared p sh /\ Forall (fun m => exists sh', m = Shared p sh') l) \/ y = Stack dim l.
Proof. exact stack_repr. Qed.
Print Assumptions C16_stack_repr.

(* indexing: for every well-formed entry (any nesting of stacks along any dims), every index of ints / slices / None with
   at most one advanced index (integer tensor of any rank anywhere; boolean masks wherever the model accepts them), if
   torch-style indexing of an array of that shape is defined (ix_shape) and the code's algorithm returns y, then y has
   torch's result shape and holds at every result position R the object of the source position torch selects *)
Theorem C16_index_denote : forall x idx sh r y,
  wf x = true -> shape x = Some sh -> n_adv idx <= 1 -> ix_shape idx sh = Some r -> index x idx = Ok y ->
  shape y = Some r /\ wf y = true /\ forall R I, ix_src idx sh R = Some I -> denote y R = denote x I.
Proof. exact index_denote. Qed.
Print Assumptions C16_index_denote.

(* the code's counters (num_single, num_none, num_squash) place the new stack dim after the result dims of the items
   that precede the stack dim *)
Theorem C16_new_stack_dim : forall d idx s at_ post,
  n_adv idx <= 1 -> split_at d idx sst0 = Ok (s, at_, post) ->
  idx = s_pre s ++ (match at_ with Some it => it :: post | None => [] end) /\
  new_stack_dim d s = d - cons_n (s_pre s) + prod_n (s_pre s).
Proof. intros d idx s at_ post Hn H. destruct (split_at_top d idx s at_ post Hn H) as (A & _ & B & _). now split. Qed.
Print Assumptions C16_new_stack_dim.

(* a NonTensorData is indexed through _getitem_batch_size (C03's model): same shape as the spec *)
Theorem C16_shared_index_shape : forall idx sh r,
  n_adv idx <= 1 -> ix_shape idx sh = Some r -> C03_Index.gbs sh (map to_c03 idx) = C03_Index.Ok r.
Proof. exact B.gbs_of_spec. Qed.
Print Assumptions C16_shared_index_shape.

(* unbind keeps entries well-formed, with the dim removed *)
Theorem C16_unbind_shape : forall x k dim y sh n,
  wf x = true -> shape x = Some sh -> nth_error sh dim = Some n -> k < n -> select k dim x = Ok y ->
  shape y = Some (remove_at dim sh) /\ wf y = true.
Proof. exact select_shape. Qed.
Print Assumptions C16_unbind_shape.

(* tolist(): the nested list is the array in batch (row-major) order, whatever the nesting / stack dims of the entry *)
Theorem C16_tolist_rowmajor : forall x sh t,
  wf x = true -> shape x = Some sh -> tolist x = Ok t -> tree_of sh (denote x) = Some t.
Proof. exact tolist_rowmajor. Qed.
Print Assumptions C16_tolist_rowmajor.

(* indexed assignment, the branch that does not write: when `dest[idx].tolist() == value.tolist()` the entry is left
   as it is (a shared object stays shared) and the addressed positions already hold the value *)
Theorem C16_setitem_noop_sound : forall x idx sh r v vexp cur tc tv,
  wf x = true -> shape x = Some sh -> n_adv idx <= 1 -> ix_shape idx sh = Some r ->
  wf v = true -> shape v = Some r ->
  index x idx = Ok cur -> tolist cur = Ok tc -> tolist v = Ok tv -> tree_eqb tc tv = true ->
  set_at x idx v vexp = Ok x /\ forall R I, ix_src idx sh R = Some I -> denote x I = denote v R.
Proof. exact set_at_noop_sound. Qed.
Print Assumptions C16_setitem_noop_sound.

(* update(inplace) of an entry by another of the same batch shape: every object is replaced, the shape is kept *)
Theorem C16_update_denote : forall dst src sh y,
  wf dst = true -> shape dst = Some sh -> wf src = true -> shape src = Some sh -> update_in dst src = Ok y ->
  shape y = Some sh /\ wf y = true /\ forall I, denote y I = denote src I.
Proof. exact update_in_spec. Qed.
Print Assumptions C16_update_denote.

(* ... and by a NonTensorData of ANY batch size, into any nesting of stacks whose members may have batch dims (after the
   repair of C16-k: the value is handed to every member as it is) *)
Theorem C16_update_shared_denote : forall dst q s' sh y,
  wf dst = true -> shape dst = Some sh -> update_in dst (Shared q s') = Ok y ->
  shape y = Some sh /\ wf y = true /\ forall I, denote y I = if in_range sh I then Some q else None.
Proof. exact update_in_shared. Qed.
Print Assumptions C16_update_shared_denote.

(* td[idx] = value (TensorDict._set_at_str, non-tensor branch): whichever branch runs — nothing written because the values
   are already there, or promotion of a shared object to a stack (maybe_to_stack) followed by the lazy __setitem__ —
   afterwards the addressed positions hold the value's objects and every other position holds what it held.
   Index grammar: ints, slices, None anywhere (after the repair of C16-f: the Nones reach the members without batch dims,
   which take the squeezed value), one 1-d integer index anywhere (what the model of the write covers: for the others
   `set_at` answers OutOfModel, never Ok) *)
Theorem C16_setitem_denote : forall x idx v sh r y,
  wf x = true -> shape x = Some sh -> n_adv idx <= 1 -> ix_shape idx sh = Some r ->
  wf v = true -> shape v = Some r -> set_at x idx v v = Ok y ->
  shape y = Some sh /\ wf y = true /\
  (forall R I, ix_src idx sh R = Some I -> denote y I = denote v R) /\
  (forall I, (forall R, ix_src idx sh R <> Some I) -> denote y I = denote x I).
Proof. exact set_at_spec. Qed.
Print Assumptions C16_setitem_denote.

(* ... and for every history of such writes (shared -> stack -> written back -> ...), by induction over the history *)
Theorem C16_setitem_history : forall ws x y sh,
  wf x = true -> shape x = Some sh -> Forall (legal_write sh) ws -> run_writes x ws = Ok y ->
  wf y = true /\ shape y = Some sh /\ updates sh (denote x) ws (denote y).
Proof. exact writes_history. Qed.
Print Assumptions C16_setitem_history.

(* get_non_tensor / NonTensorStack.data on a stack of NonTensorData members: the unique value iff all members hold it *)
Theorem C16_data_flat : forall d p0 sh0 r p,
  forallb is_shared r = true ->
  (data_prop (Stack d (Shared p0 sh0 :: r)) = Some p <->
   p = p0 /\ Forall (fun m => exists sh, m = Shared p sh) (Shared p0 sh0 :: r)).
Proof. exact data_flat. Qed.
Print Assumptions C16_data_flat.

(* get_non_tensor / NonTensorStack.data (after the repair of C16-a), full statement: whenever a unique value is returned,
   every position of the entry holds it — any nesting of stacks along any dims *)
Theorem C16_data_sound : forall x p, wf x = true -> data_prop x = Some p -> forall I q, denote x I = Some q -> q = p.
Proof. exact data_full. Qed.
Print Assumptions C16_data_sound.

(* torch.cat of the non-tensor entries of two tensordicts (after the repair of C16-d): position k along dim holds the object
   of the operand it comes from, whatever the representations (shared objects, stacks along any dim) *)
Theorem C16_cat_denote : forall a b dim y sa sb na nb,
  wf a = true -> wf b = true -> shape a = Some sa -> shape b = Some sb ->
  nth_error sa dim = Some na -> nth_error sb dim = Some nb -> remove_at dim sa = remove_at dim sb ->
  cat_nt [a; b] dim = Ok y ->
  forall I k, nth_error I dim = Some k ->
    denote y I = if k <? na then denote a I else denote b (insert_at dim (k - na) (remove_at dim I)).
Proof. exact cat_denote. Qed.
Print Assumptions C16_cat_denote.

(* torch.cat called on the entries themselves (after the repair of C16-c; the lazy mask path does this with the members'
   pieces): the same array as the tensordict-level cat *)
Theorem C16_entry_cat_denote : forall a b dim y sa sb na nb,
  wf a = true -> wf b = true -> shape a = Some sa -> shape b = Some sb ->
  nth_error sa dim = Some na -> nth_error sb dim = Some nb -> remove_at dim sa = remove_at dim sb ->
  cat_entries [a; b] dim = Ok y ->
  forall I k, nth_error I dim = Some k ->
    denote y I = if k <? na then denote a I else denote b (insert_at dim (k - na) (remove_at dim I)).
Proof. exact cat_denote. Qed.
Print Assumptions C16_entry_cat_denote.

(* to_dict (after the repair of D20): the nested list of a stack is the array in batch order *)
Theorem C16_to_dict_rowmajor : forall d l sh t,
  wf (Stack d l) = true -> shape (Stack d l) = Some sh -> to_dict (Stack d l) = Ok (GList t) ->
  tree_of sh (denote (Stack d l)) = Some t.
Proof. exact to_dict_stack. Qed.
Print Assumptions C16_to_dict_rowmajor.

(* shape operations (view, reshape, permute, transpose, squeeze, squeeze(dim), unsqueeze, flatten, unflatten, expand, repeat,
   repeat_interleave(dim)) on a NonTensorData - a shared payload with a batch size: the call goes to the entry's tensordict
   without entries (the code C02 transcribes: Model/C02_ShapeOps.apply) and the payload is shared.  For every rank, every
   argument torch accepts for that shape (every dim incl. negative, every permutation, every target shape incl. -1) in
   tensordict's documented domain (C02's in_domain: no rank-0 transpose / squeeze(dim) / repeat_interleave, flatten start < end,
   one repeat count per dim): the result is a NonTensorData of torch's result shape holding, at every position, the object
   that every position of the source holds - in particular the one torch's element map selects.
   This is the statement C16_shape_op_full_statement restricted to Shared entries (the _partial one). *)
Theorem C16_shape_op_shared_partial : forall o p sh r,
  C02_OpsP.in_domain o (zs sh) -> C02_OpsP.torch_shape o (zs sh) = C02_TorchShape.Ok r ->
  exists y, shape_op o (Shared p sh) = SOk y /\ shape y = Some (ns r) /\ wf y = true /\
            forall R I, in_range (ns r) R = true -> in_range sh I = true -> denote y R = denote (Shared p sh) I.
Proof. exact shared_op_denote. Qed.
Print Assumptions C16_shape_op_shared_partial.

(* the representation: still one shared object *)
Theorem C16_shape_op_shared_repr : forall o p sh r,
  C02_OpsP.in_domain o (zs sh) -> C02_OpsP.torch_shape o (zs sh) = C02_TorchShape.Ok r ->
  shape_op o (Shared p sh) = SOk (Shared p (ns r)).
Proof. exact shared_op_spec. Qed.
Print Assumptions C16_shape_op_shared_repr.

(* the full statement (every well-formed entry, stacks included) is FALSE of the code (finding C16-i): on a NonTensorStack
   `reshape` to a shape that neither merges nor splits dims returns an entry without payloads, `view` raises *)
Definition C16_shape_op_full_statement : Prop := shape_op_full_statement.
Theorem C16_shape_op_reshape_stack_refuted :
  exists x sh tgt r, wf x = true /\ shape x = Some sh /\
    C02_OpsP.torch_shape (C02_ShapeOps.OReshape tgt) (zs sh) = C02_TorchShape.Ok r /\
    shape_op (C02_ShapeOps.OReshape tgt) x = SLost (ns r).
Proof. exists witness_stack, [2; 3], [3; 2]%Z, [3; 2]%Z. exact reshape_stack_refuted. Qed.
Print Assumptions C16_shape_op_reshape_stack_refuted.
Theorem C16_shape_op_view_stack_refuted :
  exists x sh tgt r, wf x = true /\ shape x = Some sh /\
    C02_OpsP.torch_shape (C02_ShapeOps.OView tgt) (zs sh) = C02_TorchShape.Ok r /\
    shape_op (C02_ShapeOps.OView tgt) x = SRaised.
Proof. exists witness_stack, [2; 3], [-1; 2]%Z, [3; 2]%Z. exact view_stack_refuted. Qed.
Print Assumptions C16_shape_op_view_stack_refuted.
Theorem C16_shape_op_full_statement_refuted : ~ C16_shape_op_full_statement.
Proof. exact full_statement_refuted. Qed.
Print Assumptions C16_shape_op_full_statement_refuted.

(* NonTensorStack.from_list then tolist is the identity on nested lists of uniform depth d without empty levels, and the
   entry has batch rank d; to_dict of that entry (after the repair of D20) gives the nested list of payloads *)
Theorem C16_from_list_tolist : forall d t, uniform d t -> exists x, from_list t = Ok x /\ rank x = d /\ tolist x = Ok t.
Proof. exact from_list_tolist. Qed.
Print Assumptions C16_from_list_tolist.
Theorem C16_from_list_to_dict : forall d t, uniform (S d) t -> exists x, from_list t = Ok x /\ to_dict x = Ok (GList t).
Proof. exact from_list_to_dict. Qed.
Print Assumptions C16_from_list_to_dict.

(* non-vacuity *)
Example C16_ex_index :
  let x := Stack 1 [Shared 1%Z [3]; Stack 0 [Shared 2%Z []; Shared 3%Z []; Shared 2%Z []]] in
  let idx := [ISl (Some 1%Z) None None; INone; ITen [2] [1%Z; 0%Z]] in
  wf x = true /\ shape x = Some [3; 2] /\ ix_shape idx [3; 2] = Some [2; 1; 2] /\
  index x idx = Ok (Stack 2 [Stack 0 [Shared 3%Z [1]; Shared 2%Z [1]]; Shared 1%Z [2; 1]]) /\
  ix_src idx [3; 2] [1; 0; 0] = Some [2; 1] /\ denote x [2; 1] = Some 2%Z.
Proof. repeat split; reflexivity. Qed.
Example C16_ex_stack :
  stack_nt [Shared 5%Z [2]; Shared 5%Z [2]] 1 = Ok (Shared 5%Z [2; 2]) /\
  stack_nt [Shared 5%Z [2]; Shared 6%Z [2]] 1 = Ok (Stack 1 [Shared 5%Z [2]; Shared 6%Z [2]]) /\
  maybe_to_stack (Shared 5%Z [2; 1]) = Ok (Stack 0 [Stack 0 [Shared 5%Z []]; Stack 0 [Shared 5%Z []]]).
Proof. repeat split; reflexivity. Qed.
Example C16_ex_setitem :
  let x := Shared 1%Z [2; 2] in
  let w1 := ([IInt 0%Z; ISl (Some 1%Z) None None], Shared 7%Z [1]) in
  let w2 := ([IInt 0%Z; ISl (Some 1%Z) None None], Shared 1%Z [1]) in
  Forall (legal_write [2; 2]) [w1; w2] /\
  set_at x (fst w1) (snd w1) (snd w1) = Ok (Stack 0 [Stack 0 [Shared 1%Z []; Shared 7%Z []]; Stack 0 [Shared 1%Z []; Shared 1%Z []]]) /\
  run_writes x [w1; w2] = Ok (Stack 0 [Stack 0 [Shared 1%Z []; Shared 1%Z []]; Stack 0 [Shared 1%Z []; Shared 1%Z []]]) /\
  set_at x (fst w2) (snd w2) (snd w2) = Ok x.
Proof.
  repeat split; try reflexivity.
  repeat constructor; cbn; try lia; (eexists; repeat split; reflexivity).
Qed.
Example C16_ex_fixed :
  data_prop (Stack 0 [Stack 0 [Shared 1%Z []; Shared 1%Z []]; Stack 0 [Shared 2%Z []; Shared 2%Z []]]) = None /\
  data_prop (Stack 1 [Shared 1%Z [2]; Stack 0 [Shared 1%Z []; Shared 1%Z []]]) = Some 1%Z /\
  cat_nt [Shared 1%Z [1]; Shared 2%Z [1]] 0 = Ok (Stack 0 [Shared 1%Z []; Shared 2%Z []]) /\
  cat_nt [Shared 1%Z [1; 2]; Shared 1%Z [1; 1]] 1 = Ok (Shared 1%Z [1; 3]) /\
  to_dict (Stack 0 [Shared 1%Z []; Shared 2%Z []]) = Ok (GList (Node [Leaf 1%Z; Leaf 2%Z])).
Proof. repeat split; vm_compute; reflexivity. Qed.
(* the repairs of this round: what the model answers with the repair ([true], = /repo once PENDING-C16-c/f/k are committed) and
   without it ([false], the witness of the defect) *)
Example C16_ex_repaired_f :
  set_at (Shared 1%Z [2]) [INone; INone] (Shared 2%Z [1; 1; 2]) (Shared 2%Z [1; 1; 2]) = Ok (Stack 0 [Shared 2%Z []; Shared 2%Z []]) /\
  ix_shape [INone; INone] [2] = Some [1; 1; 2] /\
  set_at (Stack 0 [Shared 1%Z []; Shared 1%Z []]) [INone; IInt 1%Z; INone] (Shared 3%Z [1; 1]) (Shared 3%Z [1; 1]) =
    Ok (Stack 0 [Shared 1%Z []; Shared 3%Z []]) /\
  leaf_newaxis_write true (Shared 1%Z []) [] [INone; INone] (Shared 2%Z [1; 1]) = Ok (Shared 2%Z []) /\
  leaf_newaxis_write false (Shared 1%Z []) [] [INone; INone] (Shared 2%Z [1; 1]) = Ok (Shared 1%Z []).
Proof. repeat split; vm_compute; reflexivity. Qed.
Example C16_ex_repaired_k :
  update_in_f true (Stack 0 [Shared 1%Z [1]; Shared 1%Z [1]]) (Shared 2%Z [2; 1]) = Ok (Stack 0 [Shared 2%Z [1]; Shared 2%Z [1]]) /\
  update_in_f false (Stack 0 [Shared 1%Z [1]; Shared 1%Z [1]]) (Shared 2%Z [2; 1]) = Raised /\
  update_in = update_in_f true.
Proof. repeat split; vm_compute; reflexivity. Qed.
Example C16_ex_repaired_c :
  cat_entries_f true [Shared 1%Z [1]; Shared 2%Z [1]] 0 = Ok (Stack 0 [Shared 1%Z []; Shared 2%Z []]) /\
  cat_entries_f false [Shared 1%Z [1]; Shared 2%Z [1]] 0 = Ok (Shared 1%Z [2]) /\
  cat_entries_f true [Stack 0 [Shared 1%Z []]; Shared 2%Z [1]] 0 = Ok (Stack 0 [Shared 1%Z []; Shared 2%Z []]) /\
  cat_entries_f false [Stack 0 [Shared 1%Z []]; Shared 2%Z [1]] 0 = Raised /\
  cat_entries = cat_entries_f true.
Proof. repeat split; vm_compute; reflexivity. Qed.
Example C16_ex_shape_ops :
  C02_OpsP.in_domain (C02_ShapeOps.OFlatten 0%Z (-1)%Z) (zs [2; 1; 3]) /\
  C02_OpsP.torch_shape (C02_ShapeOps.OFlatten 0%Z (-1)%Z) (zs [2; 1; 3]) = C02_TorchShape.Ok [6]%Z /\
  shape_op (C02_ShapeOps.OFlatten 0%Z (-1)%Z) (Shared 7%Z [2; 1; 3]) = SOk (Shared 7%Z [6]) /\
  shape_op (C02_ShapeOps.OView [-1; 2]%Z) (Shared 7%Z [2; 1; 3]) = SOk (Shared 7%Z [3; 2]) /\
  shape_op (C02_ShapeOps.OPermute [-1; 0; 1]%Z) (Shared 7%Z [2; 1; 3]) = SOk (Shared 7%Z [3; 2; 1]) /\
  shape_op (C02_ShapeOps.OExpand [2; 2; 2; 3]%Z) (Shared 7%Z [2; 1; 3]) = SOk (Shared 7%Z [2; 2; 2; 3]) /\
  shape_op (C02_ShapeOps.ORepeat [2; 1; 2]%Z) (Shared 7%Z [2; 1; 3]) = SOk (Shared 7%Z [4; 1; 6]) /\
  shape_op (C02_ShapeOps.OSqueeze None) (Shared 7%Z [2; 1; 3]) = SOk (Shared 7%Z [2; 3]) /\
  (* quirk kept: a target torch refuses (6 elements viewed as 7) is accepted, the entry's tensordict has no tensor to refuse it *)
  shape_op (C02_ShapeOps.OView [7]%Z) (Shared 7%Z [2; 1; 3]) = SOk (Shared 7%Z [7]) /\
  shape_op (C02_ShapeOps.OExpand [5; 1; 3]%Z) (Shared 7%Z [2; 1; 3]) = SRaised /\
  in_range [6] [4] = true /\ in_range [2; 1; 3] [1; 0; 1] = true.
Proof. split; [split; [discriminate | vm_compute; reflexivity]|]. repeat split; vm_compute; reflexivity. Qed.
Example C16_ex_from_list :
  let t := Node [Node [Leaf 1%Z; Leaf 2%Z]; Node [Leaf 3%Z; Leaf 1%Z]] in
  uniform 2 t /\
  from_list t = Ok (Stack 0 [Stack 0 [Shared 1%Z []; Shared 2%Z []]; Stack 0 [Shared 3%Z []; Shared 1%Z []]]) /\
  from_list (Node []) = Raised.
Proof. cbn. repeat split; try discriminate; repeat constructor; discriminate. Qed.
